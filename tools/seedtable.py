#!/usr/bin/env python3
"""Prints the markdown table of seeded changes (DESIGN.md §9) from /verif/seeded/*/*/{meta,result,confirm}.json."""
import glob, json, os, re
V = os.path.dirname(os.path.dirname(os.path.abspath(__file__)))
rows = []
for d in sorted(glob.glob(os.path.join(V, "seeded", "C*", "*"))):
    sid, var = d.split("/")[-2:]
    meta = {}
    try:
        meta = json.load(open(os.path.join(d, "meta.json")))
    except Exception:
        pass
    res = []
    try:
        res = json.load(open(os.path.join(d, "result.json")))[0]["runs"]
    except Exception:
        pass
    conf = {}
    try:
        conf = json.load(open(os.path.join(d, "confirm.json")))
    except Exception:
        pass
    files = meta.get("files") or []
    if isinstance(files, str):
        files = [files]
    summ = (meta.get("summary") or meta.get("mechanism") or "").replace("\n", " ").replace("|", "/")
    summ = re.sub(r"\s+", " ", summ)
    if len(summ) > 170:
        summ = summ[:167] + "…"
    own = [r for r in res if r["check"] == sid]
    others = sorted({r["check"] for r in res if r["check"] != sid and r["caught"]})
    if meta.get("withdrawn"):
        verdict = "withdrawn (not a violation, see text)"
    elif any(r["caught"] for r in own):
        verdict = "**%s** quick" % sid
        if others:
            verdict += " (also " + ", ".join(others) + ")"
    elif others:
        verdict = "not by %s; by **%s**" % (sid, ", ".join(others))
    else:
        verdict = "MISSED"
    ok = conf.get("applies") and conf.get("build_ok") and conf.get("demo_clean_exit") == 0 and conf.get("demo_patched_fails")
    suite = conf.get("suite_ok")
    c = "yes" if ok and suite else ("demo ok, suite ?" if ok and suite is None else ("demo ok, suite: " + str(suite) if ok else "NO"))
    rows.append("| %s/%s | `%s` | %s | %s | %s |" % (sid, var, ", ".join(os.path.basename(f) for f in files)[:60], summ, c, verdict))
print("| change | file | what it does | confirmed (applies, builds, demo, suite) | convicted by |")
print("|---|---|---|---|---|")
print("\n".join(rows))
