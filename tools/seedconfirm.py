#!/usr/bin/env python3
"""Import and confirm a seeded change produced by a sub-agent.

usage: seedconfirm.py <ID>/<variant> [...] [--jobs N] [--no-suite]

Copies /tmp/seed/<ID>/out/<variant>/{patch.diff,demo_test.go,demo_path.txt,demo.txt,meta.json} to
/verif/seeded/<ID>/<variant>/ and confirms in a scratch worktree of /repo's HEAD (under /tmp/seedeval):
  1. the patch applies and `go build ./...` succeeds;
  2. the demonstration passes on the clean tree and fails on the patched tree;
  3. the existing test suite (guard off) passes on the patched tree.
Writes confirm.json next to the patch. The worktree is removed afterwards.
"""
import argparse
import concurrent.futures
import json
import os
import re
import shutil
import subprocess
import sys

VERIF = os.path.dirname(os.path.dirname(os.path.abspath(__file__)))
REPO = "/repo"
ROOT = "/tmp/seedeval"
AFFECTED_ONLY = False
TOOLCHAIN = "/root/go/pkg/mod/golang.org/toolchain@v0.0.1-go1.25.6.linux-amd64/bin"


def goenv():
    e = dict(os.environ)
    e["PATH"] = TOOLCHAIN + ":" + e.get("PATH", "")
    e.update(GOTOOLCHAIN="local", GOFLAGS="", GOPROXY="off", GOSUMDB="off")
    return e


def sh(cmd, cwd, timeout=3000):
    p = subprocess.run(cmd, cwd=cwd, env=goenv(), stdout=subprocess.PIPE, stderr=subprocess.STDOUT, text=True, timeout=timeout)
    return p.returncode, p.stdout


def demo_cmd(sdir):
    txt = open(os.path.join(sdir, "demo_path.txt")).read()
    path = None
    for tok in re.split(r"\s+", txt):
        if tok.endswith("_test.go"):
            path = tok.strip("`'\"")
            break
    m = re.search(r"(go test [^\n`]*)", txt)
    cmd = m.group(1).strip() if m else None
    return path, cmd


def confirm(name, suite):
    sid, var = name.split("/")
    src = os.path.join("/tmp/seed", sid, "out", var)
    if var in ("D", "E", "F"):
        # second round: /tmp/seed2/<ID>/out/{A,B,C} are kept as variants D, E, F
        src = os.path.join("/tmp/seed2", sid, "out", {"D": "A", "E": "B", "F": "C"}[var])
    if var in ("G", "H"):
        # third round: /tmp/seed3/<ID>/out/{A,B} are kept as variants G, H
        src = os.path.join("/tmp/seed3", sid, "out", {"G": "A", "H": "B"}[var])
    sdir = os.path.join(VERIF, "seeded", sid, var)
    os.makedirs(sdir, exist_ok=True)
    adapted = False
    try:
        adapted = bool(json.load(open(os.path.join(sdir, "meta.json"))).get("adapted"))
    except Exception:
        pass
    for f in ("patch.diff", "demo_test.go", "demo_path.txt", "demo.txt", "meta.json"):
        if adapted and f in ("patch.diff", "meta.json"):
            continue  # re-created by hand against a newer HEAD: keep
        if os.path.exists(os.path.join(src, f)):
            shutil.copy(os.path.join(src, f), os.path.join(sdir, f))
    res = {"seed_change": name}
    base = os.path.join(ROOT, "confirm-%s-%s" % (sid, var))
    wt = os.path.join(base, "wt")
    shutil.rmtree(base, ignore_errors=True)
    os.makedirs(base)
    subprocess.run(["git", "-C", REPO, "worktree", "prune"])
    subprocess.run(["git", "-C", REPO, "worktree", "add", "-q", "-f", "--detach", wt, "HEAD"], check=True)
    try:
        path, cmd = demo_cmd(sdir)
        res["demo_path"], res["demo_cmd"] = path, cmd
        if not path:
            res["error"] = "no demo path"
            return res
        pkgdir = os.path.dirname(path)
        shutil.copy(os.path.join(sdir, "demo_test.go"), os.path.join(wt, path))
        if not cmd:
            cmd = "go test -vet=off -count=1 -run Seed ./%s/" % pkgdir
        if "-vet=off" not in cmd:
            cmd = cmd.replace("go test", "go test -vet=off", 1)
        rc, out = sh(["bash", "-c", cmd], wt)
        res["demo_clean_exit"] = rc
        res["demo_clean_tail"] = out[-600:]
        rc, out = sh(["git", "apply", os.path.join(sdir, "patch.diff")], wt)
        if rc != 0:
            # hook lines added to /repo after the patch was written may sit in its context: merge three-way
            rc, out = sh(["git", "apply", "--3way", os.path.join(sdir, "patch.diff")], wt)
            sh(["git", "reset", "-q"], wt)
            res["applied_three_way"] = rc == 0
        res["applies"] = rc == 0
        if rc != 0:
            res["error"] = out[-400:]
            return res
        rc, out = sh(["go", "build", "./..."], wt)
        res["build_ok"] = rc == 0
        # schedule-dependent demos may need a few attempts
        fails = 0
        for _ in range(3):
            rc, out = sh(["bash", "-c", cmd], wt)
            if rc != 0:
                fails += 1
                break
        res["demo_patched_fails"] = fails > 0
        res["demo_patched_tail"] = out[-1200:]
        os.remove(os.path.join(wt, path))
        if suite and AFFECTED_ONLY:
            # Only packages whose test binaries contain the changed package can behave differently: run those
            # (transitive importers of the changed directories, test imports included) and compare with the
            # stable-pass list restricted to them.
            changed = set()
            for line in open(os.path.join(sdir, "patch.diff")):
                m = re.match(r"\+\+\+ b/(.*)/[^/]+$", line)
                if m:
                    changed.add("github.com/bufbuild/protocompile/" + m.group(1))
                elif re.match(r"\+\+\+ b/[^/]+$", line):
                    changed.add("github.com/bufbuild/protocompile")
            rc, out = sh(["go", "list", "-f", '{{.ImportPath}}|{{join .Imports ","}}|{{join .TestImports ","}}|{{join .XTestImports ","}}', "./..."], wt)
            imps, timps = {}, {}
            for line in out.splitlines():
                parts = line.split("|")
                if len(parts) != 4:
                    continue
                imps[parts[0]] = set(x for x in parts[1].split(",") if x)
                timps[parts[0]] = set(x for x in (parts[2] + "," + parts[3]).split(",") if x)
            reach = set(changed)
            grew = True
            while grew:
                grew = False
                for pk, im in imps.items():
                    if pk not in reach and im & reach:
                        reach.add(pk)
                        grew = True
            affected = sorted(pk for pk in imps if pk in reach or (timps[pk] & reach))
            js = os.path.join(base, "suite.json")
            sh(["bash", "-c", "go test -json -vet=off -count=1 -timeout 8m %s > %s 2>&1" % (" ".join(affected), js)], wt)
            stable = set(json.load(open("/root/.vp/BASELINE.json"))["stable_pass"])
            want = set(t for t in stable if t.split("::")[0] in affected)
            got = {}
            for line in open(js, errors="replace"):
                try:
                    e = json.loads(line)
                except Exception:
                    continue
                if e.get("Action") in ("pass", "fail", "skip") and e.get("Test"):
                    got["%s::%s" % (e["Package"], e["Test"])] = e["Action"]
            miss = sorted(t for t in want if got.get(t) != "pass")
            flaky = ("/parser", "/internal/intern", "/internal/ext/syncx")
            if miss and all(t.split("::")[0].endswith(flaky) for t in miss):
                for _ in range(3):
                    sh(["bash", "-c", "go test -json -vet=off -count=1 %s >> %s 2>&1" % (" ".join(sorted(set(t.split("::")[0] for t in miss))), js)], wt)
                    for line in open(js, errors="replace"):
                        try:
                            e = json.loads(line)
                        except Exception:
                            continue
                        if e.get("Action") == "pass" and e.get("Test"):
                            got["%s::%s" % (e["Package"], e["Test"])] = "pass"
                    miss = sorted(t for t in want if got.get(t) != "pass")
                    if not miss:
                        break
            res["suite_ok"] = not miss
            res["suite_scope"] = "%d of %d packages: the transitive importers (test imports included) of %s; test binaries of the other packages do not contain the change" % (len(affected), len(imps), ", ".join(sorted(changed)))
            res["suite_summary"] = "stable-pass tests in scope=%d passing_now=%d not_passing=%d %s" % (len(want), len(want) - len(miss), len(miss), " ".join(miss[:10]))
        elif suite:
            js = os.path.join(base, "suite.json")
            sh(["bash", "-c", "go test -json -vet=off -count=1 -timeout 8m ./... > %s 2>&1" % js], wt)
            rc, out = sh(["python3", os.path.join(VERIF, "lib", "baseline_cmp.py"), js], wt)
            if rc != 0:
                # three packages are flaky under load on the unmodified tree as well (a timing test in parser; a
                # WaitGroup-reuse panic in the synctestx.Hammer helper used by internal/intern and internal/ext/syncx):
                # when nothing else is missing, they are re-run alone, up to three times, and the logs are merged
                miss = re.findall(r"NOT PASS: (\S+)::(\S+)", out)
                flaky = ("/parser", "/internal/intern", "/internal/ext/syncx")
                if miss and all(pk.endswith(flaky) for pk, _ in miss):
                    for _ in range(3):
                        sh(["bash", "-c", "go test -json -vet=off -count=1 ./parser/ ./internal/intern/ ./internal/ext/syncx/ >> %s 2>&1" % js], wt)
                        rc, out2 = sh(["python3", os.path.join(VERIF, "lib", "baseline_cmp.py"), js], wt)
                        if rc == 0:
                            out = out2 + "\n(load-flaky packages passed when re-run alone)"
                            break
            res["suite_ok"] = rc == 0
            res["suite_summary"] = out[-1500:]
    finally:
        subprocess.run(["git", "-C", REPO, "worktree", "remove", "--force", wt])
        shutil.rmtree(base, ignore_errors=True)
        json.dump(res, open(os.path.join(sdir, "confirm.json"), "w"), indent=1)
    return res


def guard_disk():
    """The Go build cache grows by a full build per scratch worktree path: trim it before the disk fills up."""
    free = shutil.disk_usage("/").free
    if free < 60 << 30:
        env = dict(os.environ)
        env["PATH"] = "/root/go/pkg/mod/golang.org/toolchain@v0.0.1-go1.25.6.linux-amd64/bin:" + env.get("PATH", "")
        subprocess.run(["go", "clean", "-cache"], env=env)


def main():
    ap = argparse.ArgumentParser()
    ap.add_argument("names", nargs="+")
    ap.add_argument("--jobs", type=int, default=1)
    ap.add_argument("--no-suite", action="store_true")
    ap.add_argument("--affected-only", action="store_true", help="run the suite only for packages whose test binaries contain the changed package")
    a = ap.parse_args()
    global AFFECTED_ONLY
    AFFECTED_ONLY = a.affected_only
    os.makedirs(ROOT, exist_ok=True)
    guard_disk()
    with concurrent.futures.ThreadPoolExecutor(a.jobs) as ex:
        futs = {ex.submit(confirm, n, not a.no_suite): n for n in a.names}
        for f in concurrent.futures.as_completed(futs):
            r = f.result()
            print(json.dumps({k: v for k, v in r.items() if not k.endswith("_tail")}), flush=True)


if __name__ == "__main__":
    main()
