module verifextract

go 1.25
