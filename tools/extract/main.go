// Command extract freezes the recorded-oracle corpora (DESIGN.md §2.3 R1–R3) under /verif/corpus.
//
//	R1: protoc descriptor sets shipped in the repository (internal/testdata/**/*.protoset + sources)
//	R2: protoc output embedded in protobuf-go (*.pb.go `file_…_rawDesc` constants) + the .proto sources
//	R3: the protoc-verified verdict tables of linker/linker_test.go and parser/validate_test.go
//
// It is run once; the output is committed, so later edits to /repo's tests cannot change the oracle.
package main

import (
	"encoding/json"
	"flag"
	"fmt"
	"go/ast"
	"go/parser"
	"go/token"
	"io/fs"
	"os"
	"path/filepath"
	"sort"
	"strconv"
	"strings"
	"unicode"
)

func must(err error) {
	if err != nil {
		panic(err)
	}
}

func copyFile(src, dst string) {
	b, err := os.ReadFile(src)
	must(err)
	must(os.MkdirAll(filepath.Dir(dst), 0o755))
	must(os.WriteFile(dst, b, 0o644))
}

func main() {
	repo := flag.String("repo", "/repo", "")
	pb := flag.String("protobuf", "/root/go/pkg/mod/google.golang.org/protobuf@v1.36.11", "")
	out := flag.String("out", "/verif/corpus", "")
	flag.Parse()

	// ---- R1 ----
	td := filepath.Join(*repo, "internal/testdata")
	n1 := 0
	must(filepath.WalkDir(td, func(p string, d fs.DirEntry, err error) error {
		if err != nil || d.IsDir() {
			return err
		}
		if strings.HasSuffix(p, ".proto") || strings.HasSuffix(p, ".protoset") {
			rel, _ := filepath.Rel(td, p)
			copyFile(p, filepath.Join(*out, "r1", rel))
			n1++
		}
		return nil
	}))
	fmt.Println("R1 files:", n1)

	// ---- R2 ----
	type r2e struct {
		Name   string `json:"name"`   // descriptor name == import path
		Desc   string `json:"desc"`   // file with protoc's FileDescriptorProto bytes
		Source string `json:"source"` // .proto source if present in the module ("" otherwise)
	}
	var idx []r2e
	must(filepath.WalkDir(*pb, func(p string, d fs.DirEntry, err error) error {
		if err != nil || d.IsDir() {
			return err
		}
		rel, _ := filepath.Rel(*pb, p)
		if strings.HasSuffix(p, ".proto") {
			copyFile(p, filepath.Join(*out, "r2/src", rel))
			return nil
		}
		if !strings.HasSuffix(p, ".pb.go") {
			return nil
		}
		fset := token.NewFileSet()
		f, err := parser.ParseFile(fset, p, nil, 0)
		if err != nil {
			return nil
		}
		for _, decl := range f.Decls {
			gd, ok := decl.(*ast.GenDecl)
			if !ok || (gd.Tok != token.CONST && gd.Tok != token.VAR) {
				continue
			}
			for _, sp := range gd.Specs {
				vs := sp.(*ast.ValueSpec)
				for i, nm := range vs.Names {
					if !strings.HasSuffix(nm.Name, "_rawDesc") || i >= len(vs.Values) {
						continue
					}
					s, ok := evalString(vs.Values[i])
					if !ok {
						fmt.Println("  cannot evaluate", p, nm.Name)
						continue
					}
					name := descName([]byte(s))
					if name == "" {
						continue
					}
					dp := filepath.Join("r2/desc", name+".pb")
					must(os.MkdirAll(filepath.Dir(filepath.Join(*out, dp)), 0o755))
					must(os.WriteFile(filepath.Join(*out, dp), []byte(s), 0o644))
					e := r2e{Name: name, Desc: dp}
					if _, err := os.Stat(filepath.Join(*pb, name)); err == nil {
						e.Source = filepath.Join("r2/src", name)
					}
					idx = append(idx, e)
				}
			}
		}
		return nil
	}))
	sort.Slice(idx, func(i, j int) bool { return idx[i].Name < idx[j].Name })
	b, _ := json.MarshalIndent(idx, "", " ")
	must(os.WriteFile(filepath.Join(*out, "r2/index.json"), b, 0o644))
	ns := 0
	for _, e := range idx {
		if e.Source != "" {
			ns++
		}
	}
	fmt.Println("R2 descriptors:", len(idx), "with source:", ns)

	// ---- R3 ----
	type r3c struct {
		Name           string            `json:"name"`
		Input          map[string]string `json:"input"`
		InputOrder     []string          `json:"input_order,omitempty"`
		ExpectedErr    string            `json:"expected_err"`
		DiffWithProtoc bool              `json:"diff_with_protoc"`
		ProtodescFail  string            `json:"protodesc_fail,omitempty"` // "", "true", or the source text of a dynamic condition
	}
	extract := func(file, fn string, single bool) []r3c {
		fset := token.NewFileSet()
		src, err := os.ReadFile(file)
		must(err)
		f, err := parser.ParseFile(fset, file, src, 0)
		must(err)
		var cases []r3c
		skipped := 0
		for _, decl := range f.Decls {
			fd, ok := decl.(*ast.FuncDecl)
			if !ok || fd.Name.Name != fn {
				continue
			}
			ast.Inspect(fd.Body, func(n ast.Node) bool {
				as, ok := n.(*ast.AssignStmt)
				if !ok || len(as.Lhs) != 1 || len(as.Rhs) != 1 {
					return true
				}
				if id, ok := as.Lhs[0].(*ast.Ident); !ok || id.Name != "testCases" {
					return true
				}
				cl, ok := as.Rhs[0].(*ast.CompositeLit)
				if !ok {
					return true
				}
				for _, el := range cl.Elts {
					kv := el.(*ast.KeyValueExpr)
					name, ok := evalString(kv.Key)
					if !ok {
						skipped++
						continue
					}
					c := r3c{Name: name, Input: map[string]string{}}
					good := true
					for _, fe := range kv.Value.(*ast.CompositeLit).Elts {
						fkv := fe.(*ast.KeyValueExpr)
						switch fkv.Key.(*ast.Ident).Name {
						case "contents":
							s, ok := evalString(fkv.Value)
							good = good && ok
							c.Input["test.proto"] = s
						case "input":
							for _, ie := range fkv.Value.(*ast.CompositeLit).Elts {
								ikv := ie.(*ast.KeyValueExpr)
								k, ok1 := evalString(ikv.Key)
								v, ok2 := evalString(ikv.Value)
								good = good && ok1 && ok2
								c.Input[k] = removePrefixIndent(v)
							}
						case "inputOrder":
							for _, ie := range fkv.Value.(*ast.CompositeLit).Elts {
								s, ok := evalString(ie)
								good = good && ok
								c.InputOrder = append(c.InputOrder, s)
							}
						case "expectedErr":
							s, ok := evalString(fkv.Value)
							good = good && ok
							c.ExpectedErr = s
						case "expectedDiffWithProtoc":
							c.DiffWithProtoc = fkv.Value.(*ast.Ident).Name == "true"
						case "expectProtodescFail":
							if id, ok := fkv.Value.(*ast.Ident); ok {
								if id.Name == "true" {
									c.ProtodescFail = "true"
								}
							} else {
								c.ProtodescFail = string(src[fset.Position(fkv.Value.Pos()).Offset:fset.Position(fkv.Value.End()).Offset])
							}
						}
					}
					if !good {
						skipped++
						continue
					}
					cases = append(cases, c)
				}
				return false
			})
		}
		sort.Slice(cases, func(i, j int) bool { return cases[i].Name < cases[j].Name })
		fmt.Printf("R3 %s %s: %d cases, %d skipped (non-literal)\n", file, fn, len(cases), skipped)
		return cases
	}
	must(os.MkdirAll(filepath.Join(*out, "r3"), 0o755))
	lc := extract(filepath.Join(*repo, "linker/linker_test.go"), "TestLinkerValidation", false)
	b, _ = json.MarshalIndent(lc, "", " ")
	must(os.WriteFile(filepath.Join(*out, "r3/linker_validation.json"), b, 0o644))
	pc := extract(filepath.Join(*repo, "parser/validate_test.go"), "TestBasicValidation", true)
	b, _ = json.MarshalIndent(pc, "", " ")
	must(os.WriteFile(filepath.Join(*out, "r3/basic_validation.json"), b, 0o644))
}

// evalString evaluates a constant string expression made of literals, +, and string([]byte{…}).
func evalString(e ast.Expr) (string, bool) {
	switch x := e.(type) {
	case *ast.BasicLit:
		if x.Kind != token.STRING {
			return "", false
		}
		s, err := strconv.Unquote(x.Value)
		return s, err == nil
	case *ast.ParenExpr:
		return evalString(x.X)
	case *ast.BinaryExpr:
		if x.Op != token.ADD {
			return "", false
		}
		a, ok1 := evalString(x.X)
		b, ok2 := evalString(x.Y)
		return a + b, ok1 && ok2
	case *ast.CallExpr:
		if id, ok := x.Fun.(*ast.Ident); ok && id.Name == "string" && len(x.Args) == 1 {
			if cl, ok := x.Args[0].(*ast.CompositeLit); ok {
				var bs []byte
				for _, el := range cl.Elts {
					bl, ok := el.(*ast.BasicLit)
					if !ok {
						return "", false
					}
					v, err := strconv.ParseUint(bl.Value, 0, 8)
					if err != nil {
						return "", false
					}
					bs = append(bs, byte(v))
				}
				return string(bs), true
			}
		}
	}
	return "", false
}

// descName reads field 1 (name) of a serialized FileDescriptorProto.
func descName(b []byte) string {
	for len(b) > 0 {
		tag, n := uvarint(b)
		if n <= 0 {
			return ""
		}
		b = b[n:]
		switch tag & 7 {
		case 0:
			_, n := uvarint(b)
			b = b[n:]
		case 2:
			l, n := uvarint(b)
			b = b[n:]
			if int(l) > len(b) {
				return ""
			}
			if tag>>3 == 1 {
				return string(b[:l])
			}
			b = b[l:]
		case 5:
			b = b[4:]
		case 1:
			b = b[8:]
		default:
			return ""
		}
	}
	return ""
}

func uvarint(b []byte) (uint64, int) {
	var x uint64
	var s uint
	for i, c := range b {
		if c < 0x80 {
			return x | uint64(c)<<s, i + 1
		}
		x |= uint64(c&0x7f) << s
		s += 7
	}
	return 0, 0
}

// removePrefixIndent is copied from linker/linker_test.go (the inputs are stored as the test uses them).
func removePrefixIndent(s string) string {
	lines := strings.Split(s, "\n")
	if len(lines) <= 1 || strings.TrimSpace(lines[0]) != "" {
		return s
	}
	lines = lines[1:] // skip first blank line
	// determine whitespace prefix from first line (e.g. five tabstops)
	var prefix []rune
	for _, r := range lines[1] {
		if !unicode.IsSpace(r) {
			break
		}
		prefix = append(prefix, r)
	}
	prefixStr := string(prefix)
	for i := range lines {
		lines[i] = strings.TrimPrefix(lines[i], prefixStr)
	}
	return strings.Join(lines, "\n")
}
