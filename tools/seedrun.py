#!/usr/bin/env python3
"""Evaluate seeded property-breaking changes against the checks.

usage: seedrun.py <ID>/<variant> [...]  [--tier quick|thorough] [--seeds 1,2] [--props C05,C06] [--jobs N]

For every named seeded change (/verif/seeded/<ID>/<variant>/patch.diff) a scratch worktree of /repo's HEAD is made
under /tmp/seedeval, the patch is applied there, and /verif/check is run for the target property (or --props) with
VERIF_REPO pointing at the worktree; evidence and replays go to the scratch directory, so nothing under /verif/evidence
is touched. The verdict is appended to /verif/seeded/<ID>/<variant>/result.json. The worktree is removed afterwards.
"""
import argparse
import concurrent.futures
import json
import os
import re
import shutil
import subprocess
import sys
import time

VERIF = os.path.dirname(os.path.dirname(os.path.abspath(__file__)))
REPO = "/repo"
ROOT = "/tmp/seedeval"


def run_one(name, tier, seeds, props):
    sid, var = name.split("/")
    sdir = os.path.join(VERIF, "seeded", sid, var)
    patch = os.path.join(sdir, "patch.diff")
    tag = "%s-%s-%d" % (sid, var, os.getpid())
    base = os.path.join(ROOT, tag)
    wt = os.path.join(base, "wt")
    shutil.rmtree(base, ignore_errors=True)
    os.makedirs(base)
    subprocess.run(["git", "-C", REPO, "worktree", "prune"])
    subprocess.run(["git", "-C", REPO, "worktree", "add", "-q", "-f", "--detach", wt, "HEAD"], check=True)
    results = []
    try:
        p = subprocess.run(["git", "-C", wt, "apply", patch], stderr=subprocess.PIPE, text=True)
        if p.returncode != 0:
            # hook lines added to /repo after the patch was written may sit in its context: merge three-way
            p = subprocess.run(["git", "-C", wt, "apply", "--3way", patch], stderr=subprocess.PIPE, text=True)
            subprocess.run(["git", "-C", wt, "reset", "-q"])
        if p.returncode != 0:
            return {"seed_change": name, "error": "patch does not apply: " + p.stderr[-500:]}
        for prop in (props or [sid]):
            for seed in seeds:
                env = dict(os.environ, VERIF_REPO=wt, VERIF_EVIDENCE_DIR=os.path.join(base, "evidence"),
                           VERIF_REPLAYS_DIR=os.path.join(base, "replays"))
                t0 = time.time()
                q = subprocess.run([os.path.join(VERIF, "check"), prop, "--tier", tier, "--seed", str(seed)],
                                   env=env, stdout=subprocess.PIPE, stderr=subprocess.STDOUT, text=True)
                viol = [l for l in q.stdout.splitlines() if l.startswith("VIOLATION")]
                inc = [l for l in q.stdout.splitlines() if l.startswith("INCONCLUSIVE")]
                results.append({
                    "check": prop, "tier": tier, "seed": seed, "exit": q.returncode,
                    "caught": q.returncode == 1 and bool(viol),
                    "violation_lines": [re.sub(r"replay=\S+", "replay=…", v)[:300] for v in viol[:6]],
                    "n_violation_lines": len(viol), "inconclusive": inc[:3], "wall_s": round(time.time() - t0, 1),
                    "tail": q.stdout.splitlines()[-1:] if q.stdout else [],
                })
    finally:
        subprocess.run(["git", "-C", REPO, "worktree", "remove", "--force", wt])
        shutil.rmtree(base, ignore_errors=True)
    out = {"seed_change": name, "repo_head": subprocess.run(["git", "-C", REPO, "rev-parse", "--short", "HEAD"], stdout=subprocess.PIPE, text=True).stdout.strip(),
           "runs": results, "caught_by": sorted({r["check"] + ":" + r["tier"] for r in results if r["caught"]})}
    rp = os.path.join(sdir, "result.json")
    prev = []
    if os.path.exists(rp):
        try:
            prev = json.load(open(rp))
        except Exception:
            prev = []
    # keep the latest verdict per (check, tier, seed)
    keyed = {}
    for o in prev + [out]:
        for r in o.get("runs", []):
            keyed[(r["check"], r["tier"], r["seed"])] = dict(r, repo_head=o.get("repo_head"))
    merged = {"seed_change": name, "runs": [keyed[k] for k in sorted(keyed)],
              "caught_by": sorted({r["check"] + ":" + r["tier"] for r in keyed.values() if r["caught"]})}
    json.dump([merged], open(rp, "w"), indent=1)
    return out


def guard_disk():
    """The Go build cache grows by a full build per scratch worktree path: trim it before the disk fills up."""
    free = shutil.disk_usage("/").free
    if free < 60 << 30:
        env = dict(os.environ)
        env["PATH"] = "/root/go/pkg/mod/golang.org/toolchain@v0.0.1-go1.25.6.linux-amd64/bin:" + env.get("PATH", "")
        subprocess.run(["go", "clean", "-cache"], env=env)


def main():
    ap = argparse.ArgumentParser()
    ap.add_argument("names", nargs="+")
    ap.add_argument("--tier", default="quick")
    ap.add_argument("--seeds", default="1")
    ap.add_argument("--props", default="")
    ap.add_argument("--jobs", type=int, default=1)
    a = ap.parse_args()
    seeds = [int(x) for x in a.seeds.split(",")]
    props = [x for x in a.props.split(",") if x]
    os.makedirs(ROOT, exist_ok=True)
    guard_disk()
    with concurrent.futures.ThreadPoolExecutor(a.jobs) as ex:
        futs = {ex.submit(run_one, n, a.tier, seeds, props): n for n in a.names}
        for f in concurrent.futures.as_completed(futs):
            o = f.result()
            if "error" in o:
                print(futs[f], "ERROR", o["error"])
                continue
            for r in o["runs"]:
                print("%-8s check=%s tier=%s seed=%s exit=%s caught=%s wall=%ss %s" % (
                    o["seed_change"], r["check"], r["tier"], r["seed"], r["exit"], r["caught"], r["wall_s"],
                    (r["violation_lines"][0][:160] if r["violation_lines"] else (r["inconclusive"][0][:160] if r["inconclusive"] else ""))), flush=True)


if __name__ == "__main__":
    main()
