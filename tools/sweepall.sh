#!/bin/bash
# usage: sweepall.sh <tier> <seed...> — all 41 checks at each seed, one line per check in .build/fsweep-<tier>-<seed>.txt
tier=$1; shift
ALL=$(for i in $(seq -w 1 41); do echo -n "C$i "; done)
for s in "$@"; do /verif/tools/sweep.sh $tier $s $ALL > /verif/.build/fsweep-$tier-$s.txt 2>&1; done
