#!/bin/bash
# usage: seedall.sh confirm|run [extra args] — all seeded changes, in batches with the build cache trimmed in between
mode=$1; shift
cd /verif
all=$(cd seeded && ls -d C*/* | tr '\n' ' ')
set -- $all
while [ $# -gt 0 ]; do
  batch=""
  for i in $(seq 1 24); do [ $# -gt 0 ] && { batch="$batch $1"; shift; }; done
  if [ "$mode" = confirm ]; then python3 tools/seedconfirm.py $batch --jobs 4; else python3 tools/seedrun.py $batch --jobs 4; fi
done
