#!/bin/bash
# re-runs every quick check at seed 1 so that the committed evidence files come from the current tree
cd /verif
for i in $(seq -w 1 41); do
  ./check C$i --tier quick --seed 1 > .build/refresh-C$i.log 2>&1; echo "C$i exit=$? $(tail -1 .build/refresh-C$i.log | cut -c1-140)"
done
