#!/bin/bash
# usage: sweep.sh <tier> <seed> <ids...>  — runs checks serially, evidence redirected to .build/sweep; prints one line per check
tier=$1; seed=$2; shift 2
out=/verif/.build/sweep/$tier-$seed; mkdir -p $out
for id in "$@"; do
  t0=$(date +%s)
  VERIF_EVIDENCE_DIR=$out/evidence VERIF_REPLAYS_DIR=$out/replays /verif/check $id --tier $tier --seed $seed > $out/$id.log 2>&1
  rc=$?
  echo "$id tier=$tier seed=$seed exit=$rc wall=$(( $(date +%s)-t0 ))s $(grep -c '^VIOLATION' $out/$id.log) violations, $(grep -c '^KNOWN-FINDING' $out/$id.log) known, $(grep -c '^INCONCLUSIVE' $out/$id.log) inconclusive"
done
