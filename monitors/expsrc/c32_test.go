package expsrc

import (
	"fmt"
	"strings"
	"sync"
	"sync/atomic"
	"testing"
	"unicode/utf8"

	"github.com/bufbuild/protocompile/experimental/source"
	"github.com/bufbuild/protocompile/experimental/source/length"
	"github.com/bufbuild/protocompile/internal/verifmon/vlib"
)

// C32 — line/column conversion round-trips.
//
// For every text, every offset on a character boundary (0 … len(text), EOF
// included) and every unit u ∈ {Bytes, UTF16, Runes} the real
// source.File.Location / InverseLocation are run and compared against an
// independent byte-scan reference:
//
//	line   = 1 + number of '\n' in text[:off]
//	column = 1 + length, in unit u, of text[lineStart:off]   (1-indexed, as documented on
//	         source.Location and File.InverseLocation)
//	InverseLocation(Location(off,u).Line, .Column, u).Offset == off

var c32Units = []struct {
	u    length.Unit
	name string
}{
	{length.Bytes, "Bytes"},
	{length.UTF16, "UTF16"},
	{length.Runes, "Runes"},
}

// c32RefLen measures s in the given unit without using the code under test
// (nor unicode/utf16).
func c32RefLen(s string, unit int) int {
	switch unit {
	case 0: // bytes
		return len(s)
	case 1: // UTF-16 code units
		n := 0
		for _, r := range s {
			if r >= 0x10000 {
				n += 2
			} else {
				n++
			}
		}
		return n
	default: // runes
		return utf8.RuneCountInString(s)
	}
}

// c32PosClass names the kind of position off is in text (used in signatures).
func c32PosClass(text string, off int) string {
	switch {
	case len(text) == 0:
		return "eof/empty-file"
	case off == 0:
		return "offset0"
	case off == len(text):
		if text[off-1] == '\n' {
			return "eof/empty-last-line"
		}
		_, w := utf8.DecodeLastRuneInString(text)
		return fmt.Sprintf("eof/after-%dbyte-char", w)
	case text[off-1] == '\n':
		if text[off] == '\n' {
			return "line-start/empty-line"
		}
		return "line-start"
	}
	ls := strings.LastIndexByte(text[:off], '\n') + 1
	multi := len(text[ls:off]) != utf8.RuneCountInString(text[ls:off])
	cls := "mid-line"
	if text[off] == '\n' {
		cls = "before-newline"
	}
	if multi {
		return cls + "/multibyte-prefix"
	}
	return cls + "/ascii-prefix"
}

// c32Shape describes how a wrong inverse offset relates to the right one.
func c32Shape(text string, want, got int) string {
	if want == len(text) && want > 0 {
		_, w := utf8.DecodeLastRuneInString(text)
		if w > 1 && got == want-w+1 {
			return "lastCharStart+1"
		}
	}
	switch {
	case got == want+1:
		return "want+1"
	case got > len(text):
		return "beyond-eof"
	case got < 0:
		return "negative"
	case got > want:
		return "larger"
	default:
		return "smaller"
	}
}

type c32Stats struct {
	evals, nontrivial int64
}

var c32WitnessBudget sync.Map // kind\x00sig -> *atomic.Int64

func c32Violation(r *vlib.Run, kind, sig, id string, w func() map[string]any) {
	v, _ := c32WitnessBudget.LoadOrStore(kind+"\x00"+sig, new(atomic.Int64))
	if v.(*atomic.Int64).Add(1) > 8 {
		r.Violation(kind, sig, id, nil) // vlib keeps only the first few witnesses anyway
		return
	}
	r.Violation(kind, sig, id, w())
}

// c32CheckText runs every (boundary offset, unit) of one text against the
// reference. It returns the number of evaluations and how many of them are
// non-trivial (offset > 0: not answered by the offset-0 short cut).
func c32CheckText(r *vlib.Run, id, text string) (st c32Stats) {
	f := source.NewFile("c32.proto", text)
	line, lineStart := 1, 0
	for off := 0; off <= len(text); {
		for ui, un := range c32Units {
			st.evals++
			if off > 0 {
				st.nontrivial++
			}
			wantCol := 1 + c32RefLen(text[lineStart:off], ui)
			wit := func(extra map[string]any) func() map[string]any {
				return func() map[string]any {
					m := map[string]any{
						"text": text, "text_quoted": fmt.Sprintf("%+q", text), "len": len(text),
						"offset": off, "unit": un.name, "want_line": line, "want_column": wantCol,
						"position_class": c32PosClass(text, off),
					}
					for k, v := range extra {
						m[k] = v
					}
					return m
				}
			}
			var loc source.Location
			if pv, stack := vlib.Try(func() { loc = f.Location(off, un.u) }); pv != nil {
				c32Violation(r, "location.panic", fmt.Sprintf("unit=%s pos=%s at %s", un.name, c32PosClass(text, off), vlib.PanicSite(stack)),
					id, wit(map[string]any{"panic": fmt.Sprint(pv)}))
				continue
			}
			if loc.Line != line {
				c32Violation(r, "location.line", fmt.Sprintf("unit=%s pos=%s", un.name, c32PosClass(text, off)),
					id, wit(map[string]any{"got_line": loc.Line, "got_column": loc.Column}))
			}
			if loc.Column != wantCol {
				c32Violation(r, "location.column", fmt.Sprintf("unit=%s pos=%s", un.name, c32PosClass(text, off)),
					id, wit(map[string]any{"got_line": loc.Line, "got_column": loc.Column}))
			}
			var inv source.Location
			if pv, stack := vlib.Try(func() { inv = f.InverseLocation(loc.Line, loc.Column, un.u) }); pv != nil {
				c32Violation(r, "inverse.panic", fmt.Sprintf("unit=%s pos=%s at %s", un.name, c32PosClass(text, off), vlib.PanicSite(stack)),
					id, wit(map[string]any{"panic": fmt.Sprint(pv), "got_line": loc.Line, "got_column": loc.Column}))
				continue
			}
			if inv.Offset != off {
				c32Violation(r, "roundtrip.offset",
					fmt.Sprintf("unit=%s pos=%s got=%s", un.name, c32PosClass(text, off), c32Shape(text, off, inv.Offset)),
					id, wit(map[string]any{"got_line": loc.Line, "got_column": loc.Column, "inverse_offset": inv.Offset}))
			}
		}
		if off == len(text) {
			break
		}
		_, w := utf8.DecodeRuneInString(text[off:])
		if text[off] == '\n' {
			line++
			lineStart = off + 1
		}
		off += w
	}
	return st
}

var c32Alpha = []string{"a", "\u00e9", "\u20ac", "\U0001f600", "\n"} // a, é (2 bytes), € (3 bytes), 😀 (4 bytes, 2 UTF-16 units), newline

// c32Nth returns the i-th text of the enumeration "all texts over c32Alpha by
// increasing length, then lexicographically by alphabet index".
func c32Nth(i int) string {
	l, block := 0, 1
	for i >= block {
		i -= block
		block *= len(c32Alpha)
		l++
	}
	parts := make([]string, l)
	for k := l - 1; k >= 0; k-- {
		parts[k] = c32Alpha[i%len(c32Alpha)]
		i /= len(c32Alpha)
	}
	return strings.Join(parts, "")
}

var c32Ascii = []string{
	"a", "b", "z", "0", " ", " ", "\t", "\r", "\n", "\n", "\n", "\r\n", "\v", "\f", ";", "{", "}", "\"", "/",
}

var c32Multi = []string{
	"\u00e9", "\u00df", "\u0301", "\u0085", "\u00a0", // 2-byte (incl. combining acute, NEL, NBSP)
	"\u20ac", "\u4e2d", "\u2028", "\u2029", "\ufeff", "\ufffd", "\uffff", // 3-byte (incl. LS, PS, BOM, U+FFFD)
	"\U0001f600", "\U0001d11e", "\U00010000", "\U0010ffff", // 4-byte (surrogate pairs in UTF-16)
}

var c32Broad = append(append([]string{}, c32Ascii...), c32Multi...)

func c32RandomText(rng *vlib.RNG, minChars, maxChars int) (string, string) {
	n := rng.Range(minChars, maxChars)
	var sb strings.Builder
	mode := rng.Intn(5)
	cls := [...]string{"alpha5", "broad", "many-short-lines", "multibyte-heavy", "few-long-lines"}[mode]
	for k := 0; k < n; k++ {
		switch mode {
		case 0:
			sb.WriteString(vlib.Pick(rng, c32Alpha))
		case 1:
			sb.WriteString(vlib.Pick(rng, c32Broad))
		case 2:
			if rng.Chance(0.45) {
				sb.WriteString("\n")
			} else {
				sb.WriteString(vlib.Pick(rng, c32Broad))
			}
		case 3:
			if rng.Chance(0.1) {
				sb.WriteString("\n")
			} else {
				sb.WriteString(vlib.Pick(rng, c32Multi))
			}
		default:
			if rng.Chance(0.02) {
				sb.WriteString("\n")
			} else {
				sb.WriteString(vlib.Pick(rng, c32Broad))
			}
		}
	}
	// Decide the ending explicitly so that every EOF class is frequent.
	switch rng.Intn(6) {
	case 0:
		sb.WriteString("\n")
	case 1:
		sb.WriteString("x")
	case 2:
		sb.WriteString("\u00e9")
	case 3:
		sb.WriteString("\u20ac")
	case 4:
		sb.WriteString("\U0001f600")
	}
	return sb.String(), cls
}

func TestC32(t *testing.T) {
	r := vlib.Start(t, "C32")
	defer r.Finish()

	maxLen := r.N(6, 8)
	total := 0
	for l, b := 0, 1; l <= maxLen; l, b = l+1, b*len(c32Alpha) {
		total += b
	}
	r.Extra("rule", fmt.Sprintf("one evaluation = (text, char-boundary offset incl. EOF, unit in {Bytes,UTF16,Runes}): "+
		"Location + InverseLocation of the real source.File against a byte-scan reference. Exhaustive part: all %d texts over "+
		"{a, é, €, 😀, \\n} of length<=%d chars, every boundary offset, every unit. Random part: longer texts (9..64 chars, "+
		"and multi-hundred-line texts) over a broad alphabet (CR, CRLF, VT, FF, NEL, U+2028/9, BOM, combining marks, astral "+
		"characters), de-duplicated by content and all longer than the exhaustive bound. Non-trivial = offset>0 (not answered "+
		"by the offset-0 / (1,1) short cuts); all evaluations are distinct by construction.", total, maxLen))
	r.Extra("assumptions", []string{
		"newline means the byte '\\n' only (CR, NEL, U+2028 do not start a line) — this is what the statement's line rule is checked with",
		"columns are 1-indexed (documented on source.Location and File.InverseLocation)",
		"reference = independent byte scan: strings/utf8 from the standard library; UTF-16 length = 2 for runes >= U+10000 else 1",
		"texts are valid UTF-8 (character boundary is undefined otherwise)",
	})
	r.Extra("exhaustive", true)
	r.Extra("exhaustive_texts", total)

	// ---------- exhaustive small texts ----------
	exhaustive := func(i int) {
		id := fmt.Sprintf("ex/%d", i)
		if !r.Want(id) {
			return
		}
		text := c32Nth(i)
		st := c32CheckText(r, id, text)
		r.EvalN(st.evals, st.nontrivial)
		switch i {
		case 0, 5, 777, 19530:
			r.Sample(fmt.Sprintf("exhaustive-%d", i), fmt.Sprintf("%+q", text))
		}
	}
	// The shortest texts first and in order, so that the witnesses kept for a
	// failure class are the minimal ones on every run.
	const ordered = 31 // texts of length <= 2
	for i := 0; i < ordered; i++ {
		if r.Mine(i) {
			exhaustive(i)
		}
	}
	r.Par(total-ordered, func(j int) { exhaustive(j + ordered) })
	r.ClassN("exhaustive-texts", int64(total))

	// ---------- random longer texts ----------
	var seen sync.Map
	nRand := r.N(20000, 300000)
	r.Par(nRand, func(i int) {
		id := fmt.Sprintf("rand/%d", i)
		if !r.Want(id) {
			return
		}
		text, cls := c32RandomText(r.Rng(id), 9, 64)
		if _, dup := seen.LoadOrStore(text, true); dup {
			r.Class("random-duplicate-skipped")
			return
		}
		st := c32CheckText(r, id, text)
		r.EvalN(st.evals, st.nontrivial)
		r.Class("random:" + cls)
		if i < 2 {
			r.Sample("random-"+cls, fmt.Sprintf("%+q", text))
		}
	})

	// ---------- long texts with many lines (binary search over the line index) ----------
	nLong := r.N(150, 1500)
	r.Par(nLong, func(i int) {
		id := fmt.Sprintf("long/%d", i)
		if !r.Want(id) {
			return
		}
		text, cls := c32RandomText(r.Rng(id), 500, 6000)
		if _, dup := seen.LoadOrStore(text, true); dup {
			r.Class("random-duplicate-skipped")
			return
		}
		st := c32CheckText(r, id, text)
		r.EvalN(st.evals, st.nontrivial)
		r.Class("long:" + cls)
		r.ClassN("long-lines-total", int64(strings.Count(text, "\n")+1))
	})
}
