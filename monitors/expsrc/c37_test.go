package expsrc

import (
	"encoding/json"
	"fmt"
	"reflect"
	"regexp"
	"strings"
	"testing"
	"unicode/utf8"
	"unsafe"

	"google.golang.org/protobuf/proto"

	"github.com/bufbuild/protocompile/experimental/report"
	"github.com/bufbuild/protocompile/experimental/source"
	compilerpb "github.com/bufbuild/protocompile/internal/gen/buf/compiler/v1alpha1"
	"github.com/bufbuild/protocompile/internal/verifmon/vlib"
)

// C37 — diagnostic reports survive serialisation.
//
// A report is described by a plain model (c37Report), built through the public
// API of experimental/report (Fatalf/Errorf/Warnf/Remarkf/Levelf + Apply with
// Snippetf, SuggestEdits, PageBreak, Tag, InFile, Notef, Helpf, Debugf),
// converted with Report.ToProto, marshalled to bytes, unmarshalled inside
// Report.AppendFromProto on a fresh Report, and the two Diagnostics slices are
// compared:
//
//   - on every public accessor (Level, Message, Tag, File, Primary, Notes, Help, Debug, Is),
//   - structurally, field by field (the annotations have no public accessor, so the
//     Diagnostic values are walked reflectively; *source.File values compare by path+text),
//   - and by re-encoding the decoded report (ToProto must give an equal message).

type c37File struct {
	Path string `json:"path"`
	Text string `json:"text"`
}

type c37Edit struct {
	Start   int    `json:"start"`
	End     int    `json:"end"`
	Replace string `json:"replace"`
}

type c37Snip struct {
	File      int       `json:"file"`
	Start     int       `json:"start"`
	End       int       `json:"end"`
	Msg       string    `json:"msg"`
	Edits     []c37Edit `json:"edits,omitempty"`
	UseEdits  bool      `json:"use_edits,omitempty"` // SuggestEdits instead of Snippetf (also with zero edits)
	PageBreak bool      `json:"page_break,omitempty"`
}

type c37Diag struct {
	Level  int       `json:"level"` // 1 ICE, 2 Error, 3 Warning, 4 Remark
	ViaF   bool      `json:"via_levelf,omitempty"`
	Msg    string    `json:"msg"`
	Tag    string    `json:"tag,omitempty"`
	InFile string    `json:"in_file,omitempty"`
	Notes  []string  `json:"notes,omitempty"`
	Help   []string  `json:"help,omitempty"`
	Debug  []string  `json:"debug,omitempty"`
	Snips  []c37Snip `json:"snips,omitempty"`
}

type c37Report struct {
	Files []c37File `json:"files"`
	Diags []c37Diag `json:"diags"`
}

func (m c37Report) key() string {
	b, _ := json.Marshal(m)
	return string(b)
}

func (m c37Report) witness() map[string]any {
	files := make([]map[string]any, len(m.Files))
	for i, f := range m.Files {
		files[i] = map[string]any{"path": f.Path, "text_quoted": fmt.Sprintf("%+q", f.Text), "len": len(f.Text)}
	}
	return map[string]any{"files": files, "diags": m.Diags}
}

var c37LevelNames = map[int]string{1: "ICE", 2: "Error", 3: "Warning", 4: "Remark"}

// c37Build constructs the report through the public API only.
func c37Build(m c37Report) *report.Report {
	files := make([]*source.File, len(m.Files))
	for i, f := range m.Files {
		files[i] = source.NewFile(f.Path, f.Text)
	}
	r := &report.Report{}
	for _, dm := range m.Diags {
		var d *report.Diagnostic
		switch {
		case dm.ViaF:
			d = r.Levelf(report.Level(dm.Level), "%s", dm.Msg)
		case dm.Level == int(report.ICE):
			d = r.Fatalf("%s", dm.Msg)
		case dm.Level == int(report.Error):
			d = r.Errorf("%s", dm.Msg)
		case dm.Level == int(report.Warning):
			d = r.Warnf("%s", dm.Msg)
		default:
			d = r.Remarkf("%s", dm.Msg)
		}
		if dm.Tag != "" {
			d.Apply(report.Tag(dm.Tag))
		}
		if dm.InFile != "" {
			d.Apply(report.InFile(dm.InFile))
		}
		for _, sm := range dm.Snips {
			span := files[sm.File].Span(sm.Start, sm.End)
			if sm.UseEdits {
				edits := make([]report.Edit, len(sm.Edits))
				for k, e := range sm.Edits {
					edits[k] = report.Edit{Start: e.Start, End: e.End, Replace: e.Replace}
				}
				d.Apply(report.SuggestEdits(span, sm.Msg, edits...))
			} else if sm.Msg == "" {
				d.Apply(report.Snippet(span))
			} else {
				d.Apply(report.Snippetf(span, "%s", sm.Msg))
			}
			if sm.PageBreak {
				d.Apply(report.PageBreak)
			}
		}
		for _, s := range dm.Notes {
			d.Apply(report.Notef("%s", s))
		}
		for _, s := range dm.Help {
			d.Apply(report.Helpf("%s", s))
		}
		for _, s := range dm.Debug {
			d.Apply(report.Debugf("%s", s))
		}
	}
	return r
}

// ---- comparison ----

func c37StrsEq(a, b []string) bool {
	if len(a) != len(b) {
		return false
	}
	for i := range a {
		if a[i] != b[i] {
			return false
		}
	}
	return true
}

func c37SpanDesc(s source.Span) string {
	if s.IsZero() {
		return "<zero span>"
	}
	return fmt.Sprintf("%q(%d bytes)[%d:%d]", s.Path(), len(s.File.Text()), s.Start, s.End)
}

// c37Accessors compares two diagnostics on every public accessor. It returns
// the name of the first accessor that differs.
func c37Accessors(a, b *report.Diagnostic) (what, av, bv string) {
	switch {
	case a.Level() != b.Level():
		return "Level()", fmt.Sprint(int(a.Level())), fmt.Sprint(int(b.Level()))
	case a.Message() != b.Message():
		return "Message()", a.Message(), b.Message()
	case a.Tag() != b.Tag():
		return "Tag()", a.Tag(), b.Tag()
	case a.Is(a.Tag()) != b.Is(a.Tag()):
		return "Is(tag)", fmt.Sprint(a.Is(a.Tag())), fmt.Sprint(b.Is(a.Tag()))
	case a.File() != b.File():
		return "File()", a.File(), b.File()
	case !c37StrsEq(a.Notes(), b.Notes()):
		return "Notes()", fmt.Sprintf("%q", a.Notes()), fmt.Sprintf("%q", b.Notes())
	case !c37StrsEq(a.Help(), b.Help()):
		return "Help()", fmt.Sprintf("%q", a.Help()), fmt.Sprintf("%q", b.Help())
	case !c37StrsEq(a.Debug(), b.Debug()):
		return "Debug()", fmt.Sprintf("%q", a.Debug()), fmt.Sprintf("%q", b.Debug())
	}
	pa, pb := a.Primary(), b.Primary()
	switch {
	case pa.IsZero() != pb.IsZero():
		return "Primary().IsZero()", c37SpanDesc(pa), c37SpanDesc(pb)
	case pa.IsZero():
		return "", "", ""
	case pa.Path() != pb.Path():
		return "Primary().Path()", c37SpanDesc(pa), c37SpanDesc(pb)
	case pa.File.Text() != pb.File.Text():
		return "Primary().File.Text()", c37SpanDesc(pa), c37SpanDesc(pb)
	case pa.Start != pb.Start || pa.End != pb.End:
		return "Primary().Start/End", c37SpanDesc(pa), c37SpanDesc(pb)
	}
	return "", "", ""
}

var c37FileType = reflect.TypeOf((*source.File)(nil))

// c37Deep walks two values of the same type (reachable from addressable
// roots, so that unexported fields can be read) and returns the index-free
// path of the first difference. nil and empty slices are equal; *source.File
// values are equal when path and text are.
func c37Deep(a, b reflect.Value, path string) (where, av, bv string) {
	if a.Type() == c37FileType {
		fa := *(**source.File)(unsafe.Pointer(a.UnsafeAddr()))
		fb := *(**source.File)(unsafe.Pointer(b.UnsafeAddr()))
		switch {
		case (fa == nil) != (fb == nil):
			return path + " (nil-ness)", fmt.Sprint(fa == nil), fmt.Sprint(fb == nil)
		case fa == nil:
			return "", "", ""
		case fa.Path() != fb.Path():
			return path + ".Path()", fa.Path(), fb.Path()
		case fa.Text() != fb.Text():
			return c37FileTextMark + fa.Path(), fa.Text(), fb.Text()
		}
		return "", "", ""
	}
	switch a.Kind() {
	case reflect.Struct:
		for i := 0; i < a.NumField(); i++ {
			name := a.Type().Field(i).Name
			if w, x, y := c37Deep(a.Field(i), b.Field(i), path+"."+name); w != "" {
				return w, x, y
			}
		}
	case reflect.Slice, reflect.Array:
		if a.Len() != b.Len() {
			return "len(" + path + ")", fmt.Sprint(a.Len()), fmt.Sprint(b.Len())
		}
		for i := 0; i < a.Len(); i++ {
			if w, x, y := c37Deep(a.Index(i), b.Index(i), path+"[]"); w != "" {
				return w, x, y
			}
		}
	case reflect.String:
		if a.String() != b.String() {
			return path, a.String(), b.String()
		}
	case reflect.Bool:
		if a.Bool() != b.Bool() {
			return path, fmt.Sprint(a.Bool()), fmt.Sprint(b.Bool())
		}
	case reflect.Int, reflect.Int8, reflect.Int16, reflect.Int32, reflect.Int64:
		if a.Int() != b.Int() {
			return path, fmt.Sprint(a.Int()), fmt.Sprint(b.Int())
		}
	case reflect.Uint, reflect.Uint8, reflect.Uint16, reflect.Uint32, reflect.Uint64:
		if a.Uint() != b.Uint() {
			return path, fmt.Sprint(a.Uint()), fmt.Sprint(b.Uint())
		}
	case reflect.Pointer:
		if a.IsNil() != b.IsNil() {
			return path + " (nil-ness)", fmt.Sprint(a.IsNil()), fmt.Sprint(b.IsNil())
		}
		if !a.IsNil() {
			return c37Deep(a.Elem(), b.Elem(), path)
		}
	default:
		panic(fmt.Sprintf("c37Deep: unsupported kind %s at %s (the layout of report.Diagnostic changed; extend the walker)", a.Kind(), path))
	}
	return "", "", ""
}

var c37Digits = regexp.MustCompile(`[0-9]+`)

// c37FileTextMark prefixes the "where" of a difference in a file's text; the
// file's path follows.
const c37FileTextMark = "\x00file-text\x00"

// c37FirstSpanText returns the text covered by the first annotation (in
// report order) that refers to a file with this path.
func c37FirstSpanText(m c37Report, path string) (string, bool) {
	for _, d := range m.Diags {
		for _, s := range d.Snips {
			if m.Files[s.File].Path == path {
				return m.Files[s.File].Text[s.Start:s.End], true
			}
		}
	}
	return "", false
}

// c37FileTextSig names how a file text that did not survive relates to the input.
func c37FileTextSig(m c37Report, path, before, after string) string {
	first, ok := c37FirstSpanText(m, path)
	switch {
	case ok && after == first && after != before:
		return "the text of the file's first annotation span"
	case strings.HasPrefix(before, after):
		return "a truncation of the file"
	default:
		return "something else"
	}
}

var c37AnnIdx = regexp.MustCompile(`diagnostic\[(\d+)\]\.annotation\[(\d+)\]`)

// c37OffendingSpan classifies the annotation a decoder error of the form
// "…diagnostic[i].annotation[j]…" points at, looking at the model and at the
// encoded message the decoder was given.
func c37OffendingSpan(m c37Report, pb proto.Message, errText string) string {
	idx := c37AnnIdx.FindStringSubmatch(errText)
	if idx == nil {
		return "?"
	}
	var i, j int
	fmt.Sscan(idx[1], &i)
	fmt.Sscan(idx[2], &j)
	if i >= len(m.Diags) || j >= len(m.Diags[i].Snips) {
		return "annotation index outside the report"
	}
	s := m.Diags[i].Snips[j]
	text := m.Files[s.File].Text
	n := len(text)
	if s.Start < 0 || s.End > n || s.Start > s.End {
		return "span really out of bounds (generator bug)"
	}
	if enc, ok := pb.(*compilerpb.Report); ok && i < len(enc.GetDiagnostics()) && j < len(enc.GetDiagnostics()[i].GetAnnotations()) {
		ann := enc.GetDiagnostics()[i].GetAnnotations()[j]
		if int(ann.GetStart()) != s.Start || int(ann.GetEnd()) != s.End {
			return "encoded start/end differ from the annotation's"
		}
		if int(ann.GetFile()) < len(enc.GetFiles()) {
			if et := string(enc.GetFiles()[ann.GetFile()].GetText()); et != text {
				return "encoded file text is not the file's text but " + c37FileTextSig(m, m.Files[s.File].Path, text, et)
			}
		}
	}
	switch {
	case n == 0:
		return "span [0:0] in an empty file (file text encoded correctly)"
	case s.Start == n:
		return "zero-width span at end of file, start == end == len(text) > 0 (file text encoded correctly)"
	default:
		return "span inside the file (file text encoded correctly)"
	}
}

type c37Outcome struct {
	decoded bool
}

// c37Check runs one report through ToProto → bytes → AppendFromProto and compares.
func c37Check(r *vlib.Run, id string, m c37Report) (out c37Outcome) {
	wit := func(extra map[string]any) map[string]any {
		w := m.witness()
		for k, v := range extra {
			w[k] = v
		}
		return w
	}
	var orig *report.Report
	if pv, stack := vlib.Try(func() { orig = c37Build(m) }); pv != nil {
		// The builder API refusing an in-bounds report is not C37's subject; the
		// generator is expected never to get here.
		r.Inconclusive(fmt.Sprintf("public builder API panicked at %s: %v", vlib.PanicSite(stack), pv))
		return
	}
	if len(orig.Diagnostics) != len(m.Diags) {
		r.Inconclusive(fmt.Sprintf("builder produced %d diagnostics for a model of %d", len(orig.Diagnostics), len(m.Diags)))
		return
	}
	var pb proto.Message
	if pv, stack := vlib.Try(func() { pb = orig.ToProto() }); pv != nil {
		r.Violation("encode.panic", "ToProto panics at "+vlib.PanicSite(stack), id, wit(map[string]any{"panic": fmt.Sprint(pv)}))
		return
	}
	data, err := proto.Marshal(pb)
	if err != nil {
		r.Violation("encode.marshal-error", c37Digits.ReplaceAllString(err.Error(), "N"), id, wit(map[string]any{"error": err.Error()}))
		return
	}
	back := &report.Report{}
	var derr error
	if pv, stack := vlib.Try(func() {
		derr = back.AppendFromProto(func(msg proto.Message) error { return proto.Unmarshal(data, msg) })
	}); pv != nil {
		r.Violation("decode.panic", "AppendFromProto panics at "+vlib.PanicSite(stack), id, wit(map[string]any{"panic": fmt.Sprint(pv)}))
		return
	}
	if derr != nil {
		et := derr.Error()
		norm := strings.TrimPrefix(c37Digits.ReplaceAllString(et, "N"), "protocompile/report: ")
		sig := norm
		switch {
		case strings.Contains(et, "out-of-bounds span"):
			sig = "out-of-bounds span: " + c37OffendingSpan(m, pb, et)
		case strings.Contains(et, "invalid value for Diagnostic.level"):
			lv := strings.TrimSpace(et[strings.LastIndex(et, ":")+1:])
			name := "?"
			for k, v := range c37LevelNames {
				if fmt.Sprint(k) == lv {
					name = v
				}
			}
			sig = "invalid value for Diagnostic.level: " + lv + " (" + name + ", emitted by ToProto)"
		}
		r.Violation("decode.rejects-own-encoding", sig, id, wit(map[string]any{"error": et, "encoded_bytes": len(data)}))
		return
	}
	out.decoded = true
	if len(back.Diagnostics) != len(orig.Diagnostics) {
		r.Violation("roundtrip.count", "number of diagnostics differs", id,
			wit(map[string]any{"before": len(orig.Diagnostics), "after": len(back.Diagnostics)}))
		return
	}
	fileText := func(i int, path, before, after string) {
		r.Violation("roundtrip.file-text", "file text not preserved: decoded text is "+c37FileTextSig(m, path, before, after), id,
			wit(map[string]any{"diagnostic": i, "path": path, "before": fmt.Sprintf("%+q", before), "after": fmt.Sprintf("%+q", after)}))
	}
	for i := range orig.Diagnostics {
		a, b := &orig.Diagnostics[i], &back.Diagnostics[i]
		if what, av, bv := c37Accessors(a, b); what != "" {
			if what == "Primary().File.Text()" {
				sa, sb := a.Primary(), b.Primary()
				fileText(i, sa.Path(), sa.File.Text(), sb.File.Text())
				return
			}
			r.Violation("roundtrip.accessor", what+" differs", id, wit(map[string]any{"diagnostic": i, "before": av, "after": bv}))
			return
		}
		var where, av, bv string
		if pv, _ := vlib.Try(func() {
			where, av, bv = c37Deep(reflect.ValueOf(a).Elem(), reflect.ValueOf(b).Elem(), "Diagnostic")
		}); pv != nil {
			r.Inconclusive(fmt.Sprint(pv))
			return
		}
		if p, ok := strings.CutPrefix(where, c37FileTextMark); ok {
			fileText(i, p, av, bv)
			return
		}
		if where != "" {
			r.Violation("roundtrip.field", where+" differs", id, wit(map[string]any{"diagnostic": i, "before": av, "after": bv}))
			return
		}
	}
	var pb2 proto.Message
	if pv, stack := vlib.Try(func() { pb2 = back.ToProto() }); pv != nil {
		r.Violation("encode.panic", "ToProto of the decoded report panics at "+vlib.PanicSite(stack), id, wit(map[string]any{"panic": fmt.Sprint(pv)}))
		return
	}
	if !proto.Equal(pb, pb2) {
		r.Violation("roundtrip.reencode", "ToProto(decoded) differs from ToProto(original) although all fields compared equal", id,
			wit(map[string]any{"before": fmt.Sprint(pb), "after": fmt.Sprint(pb2)}))
	}
	return
}

// ---- generators ----

// c37Bounds returns the char-boundary offsets of text (0 … len).
func c37Bounds(text string) []int {
	out := []int{0}
	for i := 0; i < len(text); {
		_, w := utf8.DecodeRuneInString(text[i:])
		i += w
		out = append(out, i)
	}
	return out
}

type c37SpanKind struct {
	name       string
	start, end int
}

// c37SpanKinds lists the distinct notable spans of a text.
func c37SpanKinds(text string) []c37SpanKind {
	b := c37Bounds(text)
	n := len(text)
	mid := b[len(b)/2]
	cand := []c37SpanKind{
		{"zw-0", 0, 0},
		{"zw-eof", n, n},
		{"zw-mid", mid, mid},
		{"full", 0, n},
		{"first-char", 0, b[min(1, len(b)-1)]},
		{"last-char-to-eof", b[max(0, len(b)-2)], n},
		{"mid-to-eof", mid, n},
	}
	seen := map[[2]int]bool{}
	var out []c37SpanKind
	for _, c := range cand {
		k := [2]int{c.start, c.end}
		if !seen[k] {
			seen[k] = true
			out = append(out, c)
		}
	}
	return out
}

// c37EditsFor lists edits at the edges of a span of byte length l
// (insert at start, insert at end, delete all, replace all, multi-byte).
func c37EditsFor(l int) []c37Edit {
	out := []c37Edit{{0, 0, "ins"}, {l, l, "\u00e9\u20ac"}}
	if l > 0 {
		out = append(out, c37Edit{0, l, ""}, c37Edit{0, l, "repl\U0001f600"})
	}
	return out
}

var c37GridTexts = []string{
	"",
	"a",
	"ab\ncd",
	"\u00e9\u20ac\U0001f600",
	"x;\n",
	"syntax = \"proto3\";\nmessage M {}\n",
}

const (
	c37DecoPlain = iota
	c37DecoMeta  // tag + notes + help + debug
	c37DecoInFile
	c37DecoEdits
	c37DecoEditsNone // SuggestEdits with no edits
	c37DecoPageBreak
	c37DecoNoMsg // snippet without message
	c37NDeco
)

var c37DecoNames = [...]string{"plain", "tag+notes+help+debug", "infile", "edits", "suggest-without-edits", "pagebreak", "snippet-without-message"}

func c37Decorate(d *c37Diag, deco int) {
	switch deco {
	case c37DecoMeta:
		d.Tag = "my-tag"
		d.Notes = []string{"note one", "note \u00e9\u20ac\U0001f600\nsecond line", ""}
		d.Help = []string{"try this"}
		d.Debug = []string{"at f\n  file.go:1", "dbg2"}
	case c37DecoInFile:
		d.InFile = "other/dir/in file.proto"
	}
	for i := range d.Snips {
		s := &d.Snips[i]
		switch deco {
		case c37DecoEdits:
			s.UseEdits = true
			s.Edits = c37EditsFor(s.End - s.Start)
		case c37DecoEditsNone:
			s.UseEdits = true
		case c37DecoPageBreak:
			s.PageBreak = true
		case c37DecoNoMsg:
			s.Msg = ""
		}
	}
}

// c37Grid enumerates the small exhaustive grid.
func c37Grid() (cases []c37Report, names []string) {
	add := func(name string, m c37Report) {
		cases = append(cases, m)
		names = append(names, name)
	}
	path := func(i int) string { return fmt.Sprintf("dir/f%d.proto", i) }
	// A: no snippets: level × {plain, meta, infile}.
	for lv := 1; lv <= 4; lv++ {
		for _, deco := range []int{c37DecoPlain, c37DecoMeta, c37DecoInFile} {
			for _, via := range []bool{false, true} {
				d := c37Diag{Level: lv, ViaF: via, Msg: "message \u00e9"}
				c37Decorate(&d, deco)
				add(fmt.Sprintf("A/%s/%s/levelf=%v", c37LevelNames[lv], c37DecoNames[deco], via), c37Report{Diags: []c37Diag{d}})
			}
		}
	}
	// B: one snippet: level × text × span kind × decoration.
	for lv := 1; lv <= 4; lv++ {
		for ti, text := range c37GridTexts {
			for _, sk := range c37SpanKinds(text) {
				for deco := 0; deco < c37NDeco; deco++ {
					d := c37Diag{Level: lv, Msg: "bad thing", Snips: []c37Snip{{File: 0, Start: sk.start, End: sk.end, Msg: "here \u20ac"}}}
					c37Decorate(&d, deco)
					add(fmt.Sprintf("B/%s/t%d/%s/%s", c37LevelNames[lv], ti, sk.name, c37DecoNames[deco]),
						c37Report{Files: []c37File{{path(0), text}}, Diags: []c37Diag{d}})
				}
			}
		}
	}
	// F: like B, but the snippet under test is preceded by one that covers the
	// whole file (the first annotation of a file is what ToProto takes the file's text from).
	for lv := 1; lv <= 4; lv++ {
		for ti, text := range c37GridTexts {
			for _, sk := range c37SpanKinds(text) {
				for deco := 0; deco < c37NDeco; deco++ {
					d := c37Diag{Level: lv, Msg: "bad thing", Snips: []c37Snip{
						{File: 0, Start: 0, End: len(text), Msg: "whole file"},
						{File: 0, Start: sk.start, End: sk.end, Msg: "here \u20ac"},
					}}
					c37Decorate(&d, deco)
					add(fmt.Sprintf("F/%s/t%d/%s/%s", c37LevelNames[lv], ti, sk.name, c37DecoNames[deco]),
						c37Report{Files: []c37File{{path(0), text}}, Diags: []c37Diag{d}})
				}
			}
		}
	}
	// C: two snippets, every ordered pair of (text, span) in two files, and every pair in one file.
	type ts struct {
		ti int
		sk c37SpanKind
	}
	var cat []ts
	for ti, text := range c37GridTexts {
		for _, sk := range c37SpanKinds(text) {
			cat = append(cat, ts{ti, sk})
		}
	}
	for _, x := range cat {
		for _, y := range cat {
			d := c37Diag{Level: 2, Msg: "two files", Snips: []c37Snip{
				{File: 0, Start: x.sk.start, End: x.sk.end, Msg: "first"},
				{File: 1, Start: y.sk.start, End: y.sk.end, Msg: "second", PageBreak: true},
			}}
			add(fmt.Sprintf("C2/t%d-%s/t%d-%s", x.ti, x.sk.name, y.ti, y.sk.name),
				c37Report{Files: []c37File{{path(0), c37GridTexts[x.ti]}, {path(1), c37GridTexts[y.ti]}}, Diags: []c37Diag{d}})
			if x.ti == y.ti {
				d := c37Diag{Level: 3, Msg: "one file", Snips: []c37Snip{
					{File: 0, Start: x.sk.start, End: x.sk.end, Msg: "first"},
					{File: 0, Start: y.sk.start, End: y.sk.end, Msg: ""},
				}}
				add(fmt.Sprintf("C1/t%d/%s/%s", x.ti, x.sk.name, y.sk.name),
					c37Report{Files: []c37File{{path(0), c37GridTexts[x.ti]}}, Diags: []c37Diag{d}})
			}
		}
	}
	// D: three and four snippets over 1..n files, span kinds cycling; with edits on the last one.
	for n := 3; n <= 4; n++ {
		for nfiles := 1; nfiles <= n; nfiles++ {
			for ti, text := range c37GridTexts {
				kinds := c37SpanKinds(text)
				for rot := range kinds {
					var files []c37File
					for f := 0; f < nfiles; f++ {
						files = append(files, c37File{path(f), text})
					}
					d := c37Diag{Level: 1 + (rot+n)%4, Msg: "many", Tag: "t"}
					for s := 0; s < n; s++ {
						sk := kinds[(rot+s)%len(kinds)]
						sn := c37Snip{File: s % nfiles, Start: sk.start, End: sk.end, Msg: fmt.Sprintf("s%d", s), PageBreak: s == 1}
						if s == n-1 {
							sn.UseEdits = true
							sn.Edits = c37EditsFor(sk.end - sk.start)
						}
						d.Snips = append(d.Snips, sn)
					}
					add(fmt.Sprintf("D/n%d/f%d/t%d/rot%d", n, nfiles, ti, rot), c37Report{Files: files, Diags: []c37Diag{d}})
				}
			}
		}
	}
	// E: several diagnostics in one report sharing files; every level present;
	// the file of a later diagnostic first seen earlier.
	for ti, text := range c37GridTexts {
		kinds := c37SpanKinds(text)
		for rot := range kinds {
			files := []c37File{{path(0), text}, {path(1), "other \u4e2d\n"}}
			var diags []c37Diag
			for lv := 1; lv <= 4; lv++ {
				sk := kinds[(rot+lv)%len(kinds)]
				d := c37Diag{Level: lv, Msg: fmt.Sprintf("diag %d", lv), Snips: []c37Snip{{File: 0, Start: sk.start, End: sk.end, Msg: "x"}}}
				if lv%2 == 0 {
					d.Snips = append(d.Snips, c37Snip{File: 1, Start: 0, End: 5, Msg: "other"})
				}
				c37Decorate(&d, lv%c37NDeco)
				diags = append(diags, d)
			}
			diags = append(diags, c37Diag{Level: 2, Msg: "no snippet", InFile: path(0)})
			add(fmt.Sprintf("E/t%d/rot%d", ti, rot), c37Report{Files: files, Diags: diags})
			// the same without the ICE level, so that the other levels are compared when ICE is refused
			add(fmt.Sprintf("E-noICE/t%d/rot%d", ti, rot), c37Report{Files: files, Diags: diags[1:]})
			// and both once more behind a diagnostic whose annotations cover both files entirely
			anchor := c37Diag{Level: 4, Msg: "anchor", Snips: []c37Snip{
				{File: 0, Start: 0, End: len(files[0].Text), Msg: "all of file 0"},
				{File: 1, Start: 0, End: len(files[1].Text), Msg: "all of file 1"},
			}}
			add(fmt.Sprintf("E-anchored/t%d/rot%d", ti, rot), c37Report{Files: files, Diags: append([]c37Diag{anchor}, diags...)})
			add(fmt.Sprintf("E-anchored-noICE/t%d/rot%d", ti, rot), c37Report{Files: files, Diags: append([]c37Diag{anchor}, diags[1:]...)})
		}
	}
	return cases, names
}

var c37Words = []string{
	"unexpected token", "expected `;`", "x", "caf\u00e9", "\u20ac 5", "\U0001f600", "line1\nline2", "tab\there", " ", "%d %s %v",
	"quote\"s", "nul\x00byte", "very long message " + strings.Repeat("m", 300), "\u4e2d\u6587", "a",
}

func c37RandStr(rng *vlib.RNG, allowEmpty bool) string {
	if allowEmpty && rng.Chance(0.15) {
		return ""
	}
	s := vlib.Pick(rng, c37Words)
	if rng.Chance(0.3) {
		s += " " + vlib.Pick(rng, c37Words)
	}
	return s
}

var c37TextAtoms = []string{
	"a", "b", " ", "\n", "\n", "\t", ";", "{", "}", "message", "syntax = \"proto3\";", "\r\n",
	"\u00e9", "\u20ac", "\U0001f600", "\u4e2d", "\u0301", "//c\n",
}

func c37RandText(rng *vlib.RNG, allowEmpty, rawBytes bool) string {
	switch k := rng.Intn(10); {
	case k == 0 && allowEmpty:
		return ""
	case k == 1:
		return vlib.Pick(rng, c37TextAtoms)
	}
	n := rng.Range(1, 40)
	var sb strings.Builder
	for i := 0; i < n; i++ {
		sb.WriteString(vlib.Pick(rng, c37TextAtoms))
	}
	if rawBytes {
		sb.WriteString("\xff\xfe\x80")
	}
	return sb.String()
}

// c37Random generates one random report. The three flags decide whether the
// report may contain the shapes that are known to be interesting (ICE level,
// zero-width span at EOF, empty file); the flag-free part of the stream makes
// sure plenty of reports exercise everything else.
func c37Random(rng *vlib.RNG) (m c37Report, cls string) {
	allowICE, allowEOF, allowEmpty := rng.Bool(), rng.Bool(), rng.Bool()
	rawBytes := rng.Chance(0.1)
	// anchored: the first annotation that refers to a file covers the whole file
	anchored := rng.Bool()
	anchoredPaths := map[string]bool{}
	cls = fmt.Sprintf("ice=%v,eofspan=%v,emptyfile=%v,anchored=%v", allowICE, allowEOF, allowEmpty, anchored)
	nf := rng.Range(1, 4)
	for i := 0; i < nf; i++ {
		p := fmt.Sprintf("pkg%d/file %d.proto", rng.Intn(3), i)
		if rng.Chance(0.1) {
			p = fmt.Sprintf("\u4e2d/%d\u00e9.proto", i)
		}
		m.Files = append(m.Files, c37File{p, c37RandText(rng, allowEmpty, rawBytes)})
	}
	if rng.Chance(0.1) {
		// a second File object with the same path AND the same text (ToProto merges files by path)
		m.Files = append(m.Files, m.Files[0])
	}
	nd := rng.Range(1, 5)
	for i := 0; i < nd; i++ {
		d := c37Diag{Level: rng.Range(2, 4), ViaF: rng.Bool(), Msg: c37RandStr(rng, false)}
		if allowICE && rng.Chance(0.3) {
			d.Level = 1
		}
		if rng.Chance(0.4) {
			d.Tag = vlib.Pick(rng, []string{"unused-import", "t", "Tag With Space", "\u00e9-tag"})
		}
		if rng.Chance(0.2) {
			d.InFile = vlib.Pick(rng, []string{"in.proto", m.Files[0].Path, "\u4e2d.proto"})
		}
		for k := rng.Intn(4); k > 0; k-- {
			d.Notes = append(d.Notes, c37RandStr(rng, true))
		}
		for k := rng.Intn(3); k > 0; k-- {
			d.Help = append(d.Help, c37RandStr(rng, true))
		}
		for k := rng.Intn(3); k > 0; k-- {
			d.Debug = append(d.Debug, c37RandStr(rng, true))
		}
		ns := rng.Intn(5)
		for k := 0; k < ns; k++ {
			fi := rng.Intn(len(m.Files))
			text := m.Files[fi].Text
			n := len(text)
			var s, e int
			if rawBytes {
				s = rng.Intn(n + 1)
				e = rng.Range(s, n)
			} else {
				b := c37Bounds(text)
				si := rng.Intn(len(b))
				ei := rng.Range(si, len(b)-1)
				if rng.Chance(0.3) {
					ei = si
				}
				s, e = b[si], b[ei]
			}
			if allowEOF && rng.Chance(0.15) {
				s, e = n, n
			}
			if !allowEOF && s == n && n > 0 {
				s = 0
			}
			if !allowEmpty && n == 0 {
				panic("generator: empty text without allowEmpty")
			}
			if anchored && !anchoredPaths[m.Files[fi].Path] {
				anchoredPaths[m.Files[fi].Path] = true
				s, e = 0, n
			}
			sn := c37Snip{File: fi, Start: s, End: e, Msg: c37RandStr(rng, true), PageBreak: rng.Chance(0.2)}
			if rng.Chance(0.3) {
				sn.UseEdits = true
				l := e - s
				for q := rng.Intn(4); q > 0; q-- {
					var es, ee int
					if rawBytes {
						es = rng.Intn(l + 1)
						ee = rng.Range(es, l)
					} else {
						b := c37Bounds(text[s:e])
						x := rng.Intn(len(b))
						y := rng.Range(x, len(b)-1)
						es, ee = b[x], b[y]
					}
					sn.Edits = append(sn.Edits, c37Edit{es, ee, c37RandStr(rng, true)})
				}
			}
			d.Snips = append(d.Snips, sn)
		}
		m.Diags = append(m.Diags, d)
	}
	return m, cls
}

func c37HasSnippet(m c37Report) bool {
	for _, d := range m.Diags {
		if len(d.Snips) > 0 {
			return true
		}
	}
	return false
}

func TestC37(t *testing.T) {
	r := vlib.Start(t, "C37")
	defer r.Finish()

	r.Extra("rule", "one evaluation = one report built through the public report API (Fatalf/Errorf/Warnf/Remarkf/Levelf + "+
		"Snippet/Snippetf/SuggestEdits/PageBreak/Tag/InFile/Notef/Helpf/Debugf), ToProto, proto.Marshal, AppendFromProto(proto.Unmarshal) "+
		"into a fresh Report, then every diagnostic compared on all public accessors, field by field (reflective walk; files by "+
		"path+text) and by re-encoding. Grid (exhaustive, both tiers): levels ICE/Error/Warning/Remark x 6 texts (empty, 1 char, "+
		"two lines, multi-byte only, trailing newline, small proto) x span kinds (zero-width at 0 / middle / EOF, full, first char, "+
		"last char to EOF, middle to EOF) x 7 decorations; all ordered pairs of (text, span) over two files and over one file; 3-4 "+
		"snippets over 1-4 files; multi-diagnostic reports with all levels. Random: 1-4 files, 1-5 diagnostics, 0-4 snippets, 0-3 "+
		"edits per snippet at char boundaries, notes/help/debug incl. empty strings, tags, InFile, page breaks, raw non-UTF-8 file "+
		"bytes, two File objects with equal path and text. Non-trivial = the report has at least one snippet; distinct = by the "+
		"JSON of the model.")
	r.Extra("assumptions", []string{
		"every generated annotation lies within its file (0 <= start <= end <= len(text)); edits lie within their span",
		"diagnostic messages are non-empty (AppendFromProto documents that requirement); all string fields are valid UTF-8 (protobuf string fields)",
		"distinct File objects have distinct paths, or equal path and equal text (ToProto documents that it merges files by path)",
		"Report.Options.Stage stays 0: the sort stage is not part of the stated property and is not serialised",
		"google.golang.org/protobuf Marshal/Unmarshal are trusted as the byte transport",
		"annotations have no public accessor; they are read from report.Diagnostic by reflection (layout change => inconclusive, not pass)",
	})

	cases, names := c37Grid()
	r.Extra("grid_cases", len(cases))
	r.Extra("exhaustive", true)
	run := func(id string, m c37Report, cls string) {
		key := ""
		if c37HasSnippet(m) {
			key = m.key()
		}
		r.Eval(key)
		out := c37Check(r, id, m)
		if out.decoded {
			r.Class(cls + ":decoded-and-compared")
		} else {
			r.Class(cls + ":not-decoded")
		}
	}
	// In order and on one goroutine: the grid is small, and the witnesses kept
	// per failure class are then the same (smallest) ones on every run.
	for i := range cases {
		if !r.Mine(i) {
			continue
		}
		id := "grid/" + names[i]
		if !r.Want(id) {
			continue
		}
		run(id, cases[i], "grid-"+names[i][:strings.Index(names[i], "/")])
		switch names[i] {
		case "B/Error/t2/zw-mid/edits", "E-noICE/t5/rot0":
			r.Sample("grid "+names[i], cases[i].witness())
		}
	}

	nRand := r.N(30000, 600000)
	r.Par(nRand, func(i int) {
		id := fmt.Sprintf("rand/%d", i)
		if !r.Want(id) {
			return
		}
		m, cls := c37Random(r.Rng(id))
		run(id, m, "random:"+cls)
		if i < 2 {
			r.Sample("random "+cls, m.witness())
		}
	})
}
