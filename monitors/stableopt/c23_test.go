package stableopt

import (
	"testing"

	"github.com/bufbuild/protocompile/internal/verifmon/vlib"
)

func TestC23(t *testing.T) {
	r := vlib.Start(t, "C23")
	defer r.Finish()
}
