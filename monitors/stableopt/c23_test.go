package stableopt

import (
	"bytes"
	"fmt"
	"strings"
	"testing"
	"unicode/utf8"

	"google.golang.org/protobuf/proto"
	"google.golang.org/protobuf/reflect/protoreflect"
	"google.golang.org/protobuf/types/descriptorpb"

	"github.com/bufbuild/protocompile"
	"github.com/bufbuild/protocompile/internal/verifmon/gen"
	"github.com/bufbuild/protocompile/internal/verifmon/vlib"
)

// C23 — source code info is well-formed in every mode.

type sciMode struct {
	name string
	mode protocompile.SourceInfoMode
}

var sciModes = []sciMode{
	{"standard", protocompile.SourceInfoStandard},
	{"extra-comments", protocompile.SourceInfoStandard | protocompile.SourceInfoExtraComments},
	{"extra-option-locations", protocompile.SourceInfoStandard | protocompile.SourceInfoExtraOptionLocations},
	{"extra-comments+option-locations", protocompile.SourceInfoStandard | protocompile.SourceInfoExtraComments | protocompile.SourceInfoExtraOptionLocations},
}

func TestC23(t *testing.T) {
	r := vlib.Start(t, "C23")
	defer r.Finish()
	r.Extra("rule", "accepted generated models (custom options on every element kind) rendered with random styles, then comments with unique ids, blank lines and tabs injected between tokens by a tokenizer-based injector "+
		"(line/block/multi-line comments, detached groups, trailing comments, comments before closing symbols, header/EOF comments); sources that no longer compile to the same descriptor are skipped. Each file is compiled in the four "+
		"SourceInfoMode combinations; one evaluation = one (file, mode) whose every location is checked (path resolves, span in file, comment lines from the source) plus one per mode relation. "+
		"non-trivial = the file has >=1 comment in its source info and >=1 location inside an options message; distinct = (source text, mode)")
	r.Extra("assumptions", []string{
		"a path `names an element that exists` iff every field number is a field (or, inside options, an extension known to the model's schema) of the message reached so far, every index is in range, and the final field is populated; the one recorded exception is path [12] (syntax) of a proto2 file, where protoc too emits the location while leaving the field unset",
		"columns are counted like descriptor.proto/protoc do: zero-based, a tab advances to the next multiple of 8, one column per UTF-8 encoded rune",
		"the index of a map entry in a path cannot be tied to a key: a path through a map value resolves if it resolves in some entry",
	})
	c23Fixed(r)
	n := r.N(800, 15000)
	r.Par(n, func(i int) {
		id := fmt.Sprintf("g/%d", i)
		if !r.Want(id) {
			return
		}
		rng := r.Rng(id)
		cfg := gen.StdConfig(rng, i)
		cfg.CustomOptions = i%5 != 4
		m, err := gen.GenModel(rng, cfg)
		if err != nil {
			r.Class("g:model-not-decided (refused by protodesc)")
			return
		}
		for v := 0; v < 2; v++ {
			vid := fmt.Sprintf("%s/v%d", id, v)
			if !r.Want(vid) {
				continue
			}
			vr := r.Rng(vid)
			src, err := m.Sources(styleFn(vr, "st"))
			if err != nil {
				r.Inconclusive("render: " + err.Error())
				continue
			}
			base := gen.Compile(src, m.Names(), gen.Opts{})
			if !base.OK() {
				r.Class("g:rejected (decided by C01)")
				continue
			}
			baseProtos := gen.AllProtos(base.Files)
			// inject
			inj := map[string]string{}
			density := []float64{0.05, 0.15, 0.35}[vr.Intn(3)]
			okInj := true
			for k, name := range m.Names() {
				in := &injector{rng: vr.Fork("inj" + name), tag: fmt.Sprintf("f%d", k)}
				s, ok := in.inject(src[name], density)
				if !ok {
					okInj = false
					break
				}
				inj[name] = s
			}
			if !okInj {
				r.Class("g:source not tokenizable by the injector (skipped)")
				continue
			}
			outs := make([]map[string]*descriptorpb.FileDescriptorProto, len(sciModes))
			bad := false
			for k, md := range sciModes {
				out := gen.Compile(inj, m.Names(), gen.Opts{SourceInfo: md.mode})
				if out.Panic != nil {
					r.Eval(gen.SrcKey(inj) + md.name)
					r.Violation("c23.panic", "panic generating source info ("+md.name+"): "+vlib.PanicSite(fmt.Sprint(out.Panic)), vid, map[string]any{"sources": inj, "panic": trunc(fmt.Sprint(out.Panic), 4000)})
					bad = true
					break
				}
				if !out.OK() {
					r.Class("g:injected source does not compile (skipped; C11/C12 decide)")
					r.Extra("injected_rejected_example", map[string]any{"errors": out.ErrSummary(), "case": vid})
					bad = true
					break
				}
				outs[k] = gen.AllProtos(out.Files)
			}
			if bad {
				continue
			}
			for _, f := range m.Files {
				name := f.GetName()
				fid := vid + "/" + name
				if !r.Want(fid) {
					continue
				}
				// comments and layout must not change the descriptor
				a := proto.Clone(outs[0][name]).(*descriptorpb.FileDescriptorProto)
				a.SourceCodeInfo = nil
				if !bytes.Equal(gen.DetBytes(a), gen.DetBytes(baseProtos[name])) {
					r.Class("g:injection changed the descriptor (skipped; not decided here)")
					continue
				}
				dec, err := decode(a, m.Types)
				if err != nil {
					r.Inconclusive("decode: " + err.Error())
					continue
				}
				text := inj[name]
				st := newSrcText(text)
				var locs [4][]*descriptorpb.SourceCodeInfo_Location
				for k, md := range sciModes {
					locs[k] = outs[k][name].GetSourceCodeInfo().GetLocation()
					c23WellFormed(r, fid+"/"+md.name, md.name, dec, m.Types, st, locs[k], text)
				}
				c23CommentsOnly(r, fid, "extra-comments vs standard", st, locs[0], locs[1], text)
				c23CommentsOnly(r, fid, "extra-comments+option-locations vs extra-option-locations", st, locs[2], locs[3], text)
				c23LocationsOnly(r, fid, "extra-option-locations vs standard", dec, m.Types, locs[0], locs[2], text)
				c23LocationsOnly(r, fid, "extra-comments+option-locations vs extra-comments", dec, m.Types, locs[1], locs[3], text)
			}
			if i == 2 && v == 0 {
				r.Sample("injected-source", trunc(inj[m.Names()[len(m.Names())-1]], 2500))
			}
		}
	})
}

// ---------------------------------------------------------------------------
// path interpreter
// ---------------------------------------------------------------------------

type pathInfo struct {
	err      string
	optsAt   int // length of the prefix that is the path of an options message; -1 if the path does not enter one
	unsetEnd bool
}

// resolvePath interprets path over the decoded file descriptor proto.
func resolvePath(fd *descriptorpb.FileDescriptorProto, types gen.TypeResolver, path []int32) pathInfo {
	info := pathInfo{optsAt: -1}
	insideValue := false // below the top level of an options message
	var walk func(m protoreflect.Message, i int) string
	walk = func(m protoreflect.Message, i int) string {
		if i == len(path) {
			return ""
		}
		md := m.Descriptor()
		n := path[i]
		fld := md.Fields().ByNumber(protoreflect.FieldNumber(n))
		if fld == nil && md.ExtensionRanges().Len() > 0 && n > 0 {
			if xt, err := types.FindExtensionByNumber(md.FullName(), protoreflect.FieldNumber(n)); err == nil {
				fld = xt.TypeDescriptor()
			}
		}
		if fld == nil {
			return fmt.Sprintf("component %d: %s has no field or known extension with number %d", i, md.FullName(), n)
		}
		i++
		if fld.Message() != nil && isOptionsMsg(fld.Message()) && !fld.IsList() && info.optsAt < 0 && !isOptionsMsg(md) {
			info.optsAt = i
		}
		switch {
		case fld.IsMap():
			mp := m.Get(fld).Map()
			if i == len(path) {
				if mp.Len() == 0 {
					return fmt.Sprintf("map field %s is empty", fld.FullName())
				}
				return ""
			}
			idx := path[i]
			i++
			if idx < 0 || int(idx) >= mp.Len() {
				return fmt.Sprintf("component %d: index %d out of range for map %s with %d entries", i-1, idx, fld.FullName(), mp.Len())
			}
			if i == len(path) {
				return ""
			}
			sub := path[i]
			i++
			switch sub {
			case 1:
				if i != len(path) {
					return fmt.Sprintf("component %d: path continues below a map key", i)
				}
				return ""
			case 2:
				if i == len(path) {
					return ""
				}
				if fld.MapValue().Message() == nil {
					return fmt.Sprintf("component %d: path continues below a scalar map value", i)
				}
				if isOptionsMsg(md) {
					insideValue = true
				}
				first := ""
				ok := false
				mp.Range(func(_ protoreflect.MapKey, v protoreflect.Value) bool {
					saved := info.unsetEnd
					e := walk(v.Message(), i)
					if e != "" {
						info.unsetEnd = saved
					}
					if e == "" {
						ok = true
						return false
					}
					if first == "" {
						first = e
					}
					return true
				})
				if ok {
					return ""
				}
				return "in no map entry: " + first
			}
			return fmt.Sprintf("component %d: %d is neither key (1) nor value (2) of a map entry", i-1, sub)
		case fld.IsList():
			l := m.Get(fld).List()
			if i == len(path) {
				if l.Len() == 0 {
					return fmt.Sprintf("repeated field %s is empty", fld.FullName())
				}
				return ""
			}
			idx := path[i]
			i++
			if idx < 0 || int(idx) >= l.Len() {
				return fmt.Sprintf("component %d: index %d out of range for %s with %d elements", i-1, idx, fld.FullName(), l.Len())
			}
			if fld.Message() == nil {
				if i != len(path) {
					return fmt.Sprintf("component %d: path continues below a scalar element", i)
				}
				return ""
			}
			if isOptionsMsg(md) {
				insideValue = true
			}
			return walk(l.Get(int(idx)).Message(), i)
		case fld.Message() != nil:
			if !m.Has(fld) {
				if i == len(path) && !isOptionsMsg(md) && !insideValue {
					// the path ends at a singular field of a descriptor message that is not populated (protoc does the
					// same for `[default = 1]`: location for field.options, no options message): observed, not refuted
					info.unsetEnd = true
					return ""
				}
				return fmt.Sprintf("component %d: message field %s is not set", i-1, fld.FullName())
			}
			if isOptionsMsg(md) {
				insideValue = true
			}
			return walk(m.Get(fld).Message(), i)
		default:
			if i != len(path) {
				return fmt.Sprintf("component %d: path continues below scalar field %s", i, fld.FullName())
			}
			if !m.Has(fld) {
				info.unsetEnd = true
				if !isOptionsMsg(md) && !insideValue {
					return ""
				}
				return fmt.Sprintf("option field %s is not set", fld.FullName())
			}
			return ""
		}
	}
	info.err = walk(fd.ProtoReflect(), 0)
	return info
}

// ---------------------------------------------------------------------------
// spans
// ---------------------------------------------------------------------------

type srcText struct {
	text     string
	lines    []int // start offset of each line
	comments []string
}

func newSrcText(text string) *srcText {
	s := &srcText{text: text, lines: []int{0}, comments: sourceComments(text)}
	for i := 0; i < len(text); i++ {
		if text[i] == '\n' {
			s.lines = append(s.lines, i+1)
		}
	}
	return s
}

// offsetOf maps a zero-based (line, column) to a byte offset; ok=false if the
// position is not a character boundary of that line (or outside the file).
func (s *srcText) offsetOf(line, col int32) (int, bool) {
	if line < 0 || int(line) >= len(s.lines) || col < 0 {
		return 0, false
	}
	start := s.lines[line]
	end := len(s.text)
	if int(line)+1 < len(s.lines) {
		end = s.lines[line+1] - 1 // the newline itself is not addressable as a start, but is the end-of-line position
	}
	c := 0
	i := start
	for {
		if c == int(col) {
			return i, true
		}
		if i >= end || c > int(col) {
			return 0, false
		}
		if s.text[i] == '\t' {
			c += 8 - c%8
			i++
		} else {
			_, n := utf8.DecodeRuneInString(s.text[i:])
			c++
			i += n
		}
	}
}

func checkSpan(s *srcText, span []int32) string {
	var sl, sc, el, ec int32
	switch len(span) {
	case 3:
		sl, sc, el, ec = span[0], span[1], span[0], span[2]
	case 4:
		sl, sc, el, ec = span[0], span[1], span[2], span[3]
	default:
		return fmt.Sprintf("span has %d elements", len(span))
	}
	if len(span) == 4 && sl == el {
		// descriptor.proto: the end line is omitted when equal to the start line; not an error of range, observed only
	}
	so, ok := s.offsetOf(sl, sc)
	if !ok {
		return "start is not a position inside the file"
	}
	eo, ok := s.offsetOf(el, ec)
	if !ok {
		return "end is not a position inside the file"
	}
	if el < sl || (el == sl && ec < sc) || eo < so {
		return "end before start"
	}
	return ""
}

// ---------------------------------------------------------------------------
// checks
// ---------------------------------------------------------------------------

func locComments(l *descriptorpb.SourceCodeInfo_Location) []string {
	var out []string
	if l.LeadingComments != nil {
		out = append(out, l.GetLeadingComments())
	}
	if l.TrailingComments != nil {
		out = append(out, l.GetTrailingComments())
	}
	return append(out, l.LeadingDetachedComments...)
}

func c23WellFormed(r *vlib.Run, id, mode string, dec *descriptorpb.FileDescriptorProto, types gen.TypeResolver, st *srcText, locs []*descriptorpb.SourceCodeInfo_Location, text string) {
	ncomments, noptlocs := 0, 0
	seen := map[string]bool{}
	viol := func(kind, sig string, l *descriptorpb.SourceCodeInfo_Location, extra map[string]any) {
		if seen[kind+sig] {
			return
		}
		seen[kind+sig] = true
		w := map[string]any{"file": dec.GetName(), "mode": mode, "path": l.GetPath(), "span": l.GetSpan(), "source": text}
		for k, v := range extra {
			w[k] = v
		}
		r.Violation(kind, sig, id, w)
	}
	if len(locs) == 0 {
		r.Eval("")
		r.Violation("c23.no-source-info", "no locations at all", id, map[string]any{"file": dec.GetName(), "source": text})
		return
	}
	for _, l := range locs {
		pi := resolvePath(dec, types, l.Path)
		if pi.optsAt >= 0 && len(l.Path) > pi.optsAt {
			noptlocs++
		}
		if pi.err != "" {
			viol("c23.path-unresolved", pathClass(dec, l.Path, pi), l, map[string]any{"why": pi.err})
		} else if pi.unsetEnd {
			r.Class("observed: path ends at an unpopulated singular field: " + elementOfPath(l.Path))

		}
		if e := checkSpan(st, l.Span); e != "" {
			viol("c23.span-malformed", e, l, nil)
		} else if pi.err == "" {
			// observed only (stronger than the property): a location of a `name` field should span that very name
			if want, ok := nameAt(dec, l.Path); ok {
				so, _ := st.offsetOf(l.Span[0], l.Span[1])
				eo, _ := st.offsetOf(l.Span[0], l.Span[2])
				if len(l.Span) == 4 {
					eo, _ = st.offsetOf(l.Span[2], l.Span[3])
				}
				if so <= eo && strings.EqualFold(st.text[so:eo], want) {
					r.Class("observed: name location spans the element's name")
				} else {
					r.Class("observed: NAME LOCATION DOES NOT SPAN THE ELEMENT'S NAME (" + elementOfPath(l.Path) + ")")
					r.Extra("name_span_mismatch_example", map[string]any{"case": id, "path": l.Path, "span": l.Span, "spanned text": trunc(st.text[so:max(so, eo)], 80), "element name": want})
				}
			}
		}
		for _, c := range locComments(l) {
			ncomments++
			parts := strings.Split(c, "\n")
			for li, line := range parts {
				if line == "" {
					continue
				}
				// a line break inside the comment text is a line break of the source
				if li < len(parts)-1 && !strings.Contains(text, line+"\n") && !strings.Contains(text, line+"\r\n") {
					viol("c23.comment-not-from-source", "a comment line ends with a line break that the source does not have after it", l, map[string]any{"comment": c, "line": line})
					continue
				}
				if !strings.Contains(text, line) {
					viol("c23.comment-not-from-source", "a comment line is not a substring of the source", l, map[string]any{"comment": c, "line": line})
					continue
				}
				in := false
				for _, sc := range st.comments {
					if strings.Contains(sc, line) {
						in = true
						break
					}
				}
				if !in {
					viol("c23.comment-not-from-source", "a comment line is not text of any comment of the source", l, map[string]any{"comment": c, "line": line})
				}
			}
		}
	}
	key := ""
	if ncomments > 0 && noptlocs > 0 {
		key = text + "\x00" + mode
	}
	r.Eval(key)
	r.ClassN(mode+": locations checked", int64(len(locs)))
	r.ClassN(mode+": comments checked", int64(ncomments))
	r.ClassN(mode+": locations inside options", int64(noptlocs))
}

// pathClass is a stable description of where an unresolvable path points:
// the kind of element (last components, indices dropped) and why it fails.
func pathClass(fd *descriptorpb.FileDescriptorProto, path []int32, pi pathInfo) string {
	why := pi.err
	if k := strings.Index(why, ": "); k >= 0 && strings.HasPrefix(why, "component") {
		why = why[k+2:]
	}
	why = gen.ClassifyErr(why)
	// names of generated option schemas vary with the model
	var sb strings.Builder
	for _, w := range strings.Fields(why) {
		if strings.Contains(w, ".") && !strings.HasPrefix(w, "google.protobuf.") && !strings.HasSuffix(w, ".") {
			w = "<name>"
		}
		sb.WriteString(w + " ")
	}
	return elementOfPath(path) + ": " + strings.TrimSpace(sb.String())
}

func sameSpan(a, b []int32) bool {
	if len(a) != len(b) {
		return false
	}
	for i := range a {
		if a[i] != b[i] {
			return false
		}
	}
	return true
}

// c23CommentsOnly: `more` (an extra-comments mode) must have exactly the
// (path, span) sequence of `std` and may only add comments.
func c23CommentsOnly(r *vlib.Run, id, rel string, st *srcText, std, more []*descriptorpb.SourceCodeInfo_Location, text string) {
	r.Eval(text + "\x00" + rel)
	w := func(extra map[string]any) map[string]any {
		m := map[string]any{"relation": rel, "source": text}
		for k, v := range extra {
			m[k] = v
		}
		return m
	}
	if len(std) != len(more) {
		r.Violation("c23.extra-comments-changes-locations", "number of locations differs", id, w(map[string]any{"standard": len(std), "extra": len(more)}))
		return
	}
	seen := map[string]bool{}
	added := 0
	for i := range std {
		a, b := std[i], more[i]
		if !sameSpan(a.Path, b.Path) || !sameSpan(a.Span, b.Span) {
			r.Violation("c23.extra-comments-changes-locations", "(path, span) sequence differs at "+elementOfPath(a.Path), id, w(map[string]any{"index": i, "standard": fmt.Sprint(a.Path, a.Span), "extra": fmt.Sprint(b.Path, b.Span)}))
			return
		}
		report := func(what string) {
			// where did the element start? a declaration whose first token is `group` is a group without label
			elem := elementOfPath(a.Path)
			if off, ok := st.offsetOf(a.Span[0], a.Span[1]); ok && strings.HasPrefix(st.text[off:], "group") && !isIdentByte(st.text[off+5]) && strings.HasSuffix(elem, "nested_type") {
				elem = "message location of a group declared without a label (first token `group`)"
			}
			sig := "a comment of the base mode is missing or different in the extra-comments mode: " + elem
			if seen[sig] {
				return
			}
			seen[sig] = true
			where := ""
			for _, o := range more {
				for _, c := range locComments(o) {
					for _, mine := range locComments(a) {
						if c == mine && !sameSpan(o.Path, a.Path) {
							where = fmt.Sprint("path ", o.Path, " (", elementOfPath(o.Path), ")")
						}
					}
				}
			}
			r.Violation("c23.extra-comments-loses-comment", sig, id, w(map[string]any{"path": a.Path, "span": a.Span, "which": what,
				"base-mode location": fmt.Sprint(a), "extra-comments location": fmt.Sprint(b), "the comment is now on": where}))
		}
		if a.LeadingComments != nil && (b.LeadingComments == nil || a.GetLeadingComments() != b.GetLeadingComments()) {
			report("leading")
		}
		if a.TrailingComments != nil && (b.TrailingComments == nil || a.GetTrailingComments() != b.GetTrailingComments()) {
			report("trailing")
		}
		// detached comments of the base mode must all still be there, in order
		j := 0
		for _, d := range a.LeadingDetachedComments {
			found := false
			for ; j < len(b.LeadingDetachedComments) && !found; j++ {
				found = b.LeadingDetachedComments[j] == d
			}
			if !found {
				report("detached")
				break
			}
		}
		added += len(locComments(b)) - len(locComments(a))
	}
	r.ClassN(rel+": comments added", int64(added))
}

// elementOfPath names the kind of descriptor element a path addresses (field
// names of descriptor.proto, indices dropped) — stable across inputs.
func elementOfPath(path []int32) string {
	var md protoreflect.MessageDescriptor = (&descriptorpb.FileDescriptorProto{}).ProtoReflect().Descriptor()
	var parts []string
	for i := 0; i < len(path) && md != nil; i++ {
		f := md.Fields().ByNumber(protoreflect.FieldNumber(path[i]))
		if f == nil {
			parts = append(parts, "(ext)")
			break
		}
		parts = append(parts, string(f.Name()))
		if f.IsList() {
			i++
		}
		md = f.Message()
	}
	// keep the last two components: enough to tell a group's nested_type from a field
	if len(parts) > 2 {
		parts = parts[len(parts)-2:]
	}
	return strings.Join(parts, ".")
}

// c23LocationsOnly: `more` (an extra-option-locations mode) must contain the
// locations of `std` unchanged and in order; what it adds must lie inside
// option values.
func c23LocationsOnly(r *vlib.Run, id, rel string, dec *descriptorpb.FileDescriptorProto, types gen.TypeResolver, std, more []*descriptorpb.SourceCodeInfo_Location, text string) {
	r.Eval(text + "\x00" + rel)
	j := 0
	added := 0
	seen := map[string]bool{}
	for _, b := range more {
		if j < len(std) && proto.Equal(std[j], b) {
			j++
			continue
		}
		added++
		pi := resolvePath(dec, types, b.Path)
		if pi.optsAt < 0 || len(b.Path) < pi.optsAt+2 {
			sig := "an added location is not inside an option value (" + elementOfPath(b.Path) + ")"
			if !seen[sig] {
				seen[sig] = true
				next := "none"
				if j < len(std) {
					next = fmt.Sprint(std[j])
				}
				r.Violation("c23.extra-locations-outside-options", sig, id, map[string]any{"relation": rel, "added location": fmt.Sprint(b), "next unmatched standard location": next, "source": text})
			}
		}
	}
	if j != len(std) {
		r.Violation("c23.extra-locations-loses-location", "a location of the base mode is missing, changed or out of order ("+elementOfPath(std[j].Path)+")", id,
			map[string]any{"relation": rel, "first unmatched base location": fmt.Sprint(std[j]), "matched": j, "of": len(std), "source": text})
	}
	r.ClassN(rel+": locations added", int64(added))
}

// ---------------------------------------------------------------------------
// fixed layouts
// ---------------------------------------------------------------------------

var c23Fixtures = []struct{ name, src string }{
	// the file ends inside a comment that belongs to a declaration (no final newline)
	{"eof-trailing-line-comment-option", "syntax = \"proto3\";\noption java_package = \"x\"; // last words"},
	{"eof-trailing-line-comment-syntax", "syntax = \"proto3\"; // last words"},
	{"eof-trailing-line-comment-package", "syntax = \"proto3\";\npackage p; // last words"},
	{"eof-trailing-line-comment-next-line", "syntax = \"proto3\";\noption java_package = \"x\";\n// last words"},
	{"eof-trailing-block-comment", "syntax = \"proto3\";\noption java_package = \"x\"; /* last words */"},
	{"eof-trailing-line-comment-field", "syntax = \"proto3\";\nmessage M {\n  int32 a = 1; // tail\n} // after"},
	{"eof-crlf", "syntax = \"proto3\";\r\npackage p; // c\r\noption java_package = \"x\"; // last words"},
	// minimal witness: a group whose first token is `group` (no label is possible only inside a oneof)
	{"group-without-label", "syntax = \"proto2\";\nmessage M {\n  oneof o {\n    // lead\n    group G = 1 { optional int32 a = 2; }\n  }\n}\n"},
	{"group-with-label", "syntax = \"proto2\";\nmessage M {\n  // lead\n  optional group G = 1 { optional int32 a = 2; }\n}\n"},
	// S13: a lone comment before a closing symbol, on the line of both neighbours / on its own line
	{"s13-same-line-brace", "syntax = \"proto3\";\nmessage M { int32 a = 1; /* lone */ }\nmessage N {}\n"},
	{"s13-own-line-brace", "syntax = \"proto3\";\nmessage M {\n  int32 a = 1;\n  // lone\n}\nmessage N {}\n"},
	{"s13-same-line-semicolon", "syntax = \"proto3\";\nmessage M { int32 a = 1 /* lone */ ; int32 b = 2; }\n"},
	{"s13-same-line-bracket", "syntax = \"proto3\";\nmessage M { int32 a = 1 [deprecated = true /* lone */ ]; /* after */ int32 b = 2; }\n"},
	{"s13-enum", "syntax = \"proto3\";\nenum E { A = 0; /* lone */ } /* after-e */ enum F { B = 0; } // eof"},
	{"s13-between-elements", "syntax = \"proto3\";\nmessage M {\n  int32 a = 1; // t\n  // d1\n\n  // l\n  int32 b = 2; /* x */ /* y */\n\n  /* z */ }\n"},
	{"options-literal", "syntax = \"proto2\";\nimport \"google/protobuf/descriptor.proto\";\nmessage O { optional int32 i = 1; repeated O r = 2; map<string, O> m = 3; repeated int32 n = 4; }\n" +
		"extend google.protobuf.MessageOptions { optional O o = 50000; repeated O ro = 50001; }\n" +
		"message T {\n\toption (o) = { i: 1 /* a */ r: [ { i: 2 }, /* b */ { n: [1, 2] } ] m { key: \"k\" value { i: 3 } } // c\n\t};\n\toption (ro) = { i: 4 }; option (ro) = { r { i: 5 } };\n\toption (o).n = 7;\n}\n"},
	{"tabs-and-unicode", "syntax = \"proto3\";\n\tmessage M {\t// ünï\n\t\tstring s = 1 [json_name = \"ünï€😀\"];\t/* 😀 */ int32 t = 2;\n\t}\n"},
}

func c23Fixed(r *vlib.Run) {
	if !r.Mine(0) {
		return
	}
	for _, fx := range c23Fixtures {
		id := "fixed/" + fx.name
		if !r.Want(id) {
			continue
		}
		src := map[string]string{"c23.proto": fx.src}
		var locs [4][]*descriptorpb.SourceCodeInfo_Location
		var dec *descriptorpb.FileDescriptorProto
		var types gen.TypeResolver
		ok := true
		for k, md := range sciModes {
			out := gen.Compile(src, []string{"c23.proto"}, gen.Opts{SourceInfo: md.mode})
			if !out.OK() {
				r.Inconclusive("fixed input " + fx.name + " rejected: " + out.ErrSummary())
				ok = false
				break
			}
			fd := gen.Protos(out.Files)["c23.proto"]
			locs[k] = fd.GetSourceCodeInfo().GetLocation()
			if dec == nil {
				bare := proto.Clone(fd).(*descriptorpb.FileDescriptorProto)
				bare.SourceCodeInfo = nil
				reg, errs := gen.BuildFilesLenient([]*descriptorpb.FileDescriptorProto{bare})
				if len(errs) > 0 {
					r.Inconclusive("fixed input refused by protodesc")
					ok = false
					break
				}
				types = gen.TypesOf(reg)
				if dec, _ = decode(bare, types); dec == nil {
					ok = false
					break
				}
			}
		}
		if !ok {
			continue
		}
		st := newSrcText(fx.src)
		if fx.name == "options-literal" {
			c23OracleSelfTest(r, dec, types, st, locs[3])
		}
		for k, md := range sciModes {
			c23WellFormed(r, id+"/"+md.name, md.name, dec, types, st, locs[k], fx.src)
		}
		c23CommentsOnly(r, id, "extra-comments vs standard", st, locs[0], locs[1], fx.src)
		c23CommentsOnly(r, id, "extra-comments+option-locations vs extra-option-locations", st, locs[2], locs[3], fx.src)
		c23LocationsOnly(r, id, "extra-option-locations vs standard", dec, types, locs[0], locs[2], fx.src)
		c23LocationsOnly(r, id, "extra-comments+option-locations vs extra-comments", dec, types, locs[1], locs[3], fx.src)
		r.Class("fixed layout checked")
	}
}

// c23OracleSelfTest perturbs real locations and requires the checkers to
// notice; a checker that does not is reported as inconclusive (the monitor
// would be blind), never as a pass.
func c23OracleSelfTest(r *vlib.Run, dec *descriptorpb.FileDescriptorProto, types gen.TypeResolver, st *srcText, locs []*descriptorpb.SourceCodeInfo_Location) {
	missed := []string{}
	nIdx, nSpan := 0, 0
	for _, l := range locs {
		if len(l.Path) >= 2 {
			// every component that is an index: push it out of range
			for k := range l.Path {
				p := append([]int32(nil), l.Path...)
				p[k] += 1000
				if resolvePath(dec, types, p).err == "" {
					missed = append(missed, fmt.Sprint("path ", l.Path, " with component ", k, " +1000 still resolves"))
				}
				nIdx++
			}
		}
		sp := append([]int32(nil), l.Span...)
		sp[0] += 100000
		if checkSpan(st, sp) == "" {
			missed = append(missed, "span with line +100000 accepted")
		}
		sp = append([]int32(nil), l.Span...)
		sp[1] += 5000
		if checkSpan(st, sp) == "" {
			missed = append(missed, "span with start column +5000 accepted")
		}
		if len(l.Span) == 3 && l.Span[2] > l.Span[1] {
			sp = []int32{l.Span[0], l.Span[2], l.Span[1]}
			if checkSpan(st, sp) == "" {
				missed = append(missed, "span with end before start accepted")
			}
		}
		nSpan++
	}
	if len(missed) > 0 || nIdx == 0 || nSpan == 0 {
		r.Inconclusive("C23 oracle self-test failed: " + strings.Join(missed, "; "))
		return
	}
	r.Class("oracle self-test passed (perturbed paths and spans are all refused)")
}

// nameAt returns the name of the element whose `name` field the path addresses.
func nameAt(fd *descriptorpb.FileDescriptorProto, path []int32) (string, bool) {
	if len(path) < 3 || path[len(path)-1] != 1 {
		return "", false
	}
	m := fd.ProtoReflect()
	for i := 0; i < len(path)-1; {
		f := m.Descriptor().Fields().ByNumber(protoreflect.FieldNumber(path[i]))
		if f == nil || f.Message() == nil || isOptionsMsg(f.Message()) {
			return "", false
		}
		i++
		if f.IsList() {
			if i >= len(path)-1 {
				return "", false
			}
			l := m.Get(f).List()
			if int(path[i]) >= l.Len() {
				return "", false
			}
			m = l.Get(int(path[i])).Message()
			i++
		} else {
			m = m.Get(f).Message()
		}
	}
	nf := m.Descriptor().Fields().ByNumber(1)
	if nf == nil || nf.Name() != "name" || nf.Kind() != protoreflect.StringKind {
		return "", false
	}
	return m.Get(nf).String(), true
}
