package stableopt

import (
	"testing"

	"github.com/bufbuild/protocompile/internal/verifmon/vlib"
)

func TestC22(t *testing.T) {
	r := vlib.Start(t, "C22")
	defer r.Finish()
}
