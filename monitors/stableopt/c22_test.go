package stableopt

import (
	"bytes"
	"fmt"
	"google.golang.org/protobuf/encoding/prototext"
	"sort"
	"strings"
	"testing"

	"google.golang.org/protobuf/proto"
	"google.golang.org/protobuf/reflect/protoreflect"
	"google.golang.org/protobuf/types/descriptorpb"

	"github.com/bufbuild/protocompile"
	"github.com/bufbuild/protocompile/internal/verifmon/gen"
	"github.com/bufbuild/protocompile/internal/verifmon/vlib"
	"github.com/bufbuild/protocompile/options"
)

// C22 — options.StripSourceRetentionOptionsFromFile is exact.
//
// Oracle: the independent reflective reference gen.RefStrip (calibrated on
// protoc's recorded output for retention.proto), protoc's recorded output
// itself for the R2 retention files, and for source info the set of locations
// computed from the reference: a location must go iff its path lies under a
// removed option field or under a removed options message.

func TestC22(t *testing.T) {
	r := vlib.Start(t, "C22")
	defer r.Finish()
	r.Extra("rule", "every file of every generated model (option schema with retention SOURCE/RUNTIME/unset on extensions and on fields of the value messages, 3 nesting levels, repeated/map/group/extension-of-extension values) "+
		"in 2 renderings x 3 source-info modes (none, standard, standard+extra option locations); R2 retention.proto/options_message.proto against protoc's recorded output; fixed minimal inputs. "+
		"one evaluation = one compiled file stripped and checked (output == reference, input untouched, idempotent, locations). non-trivial = the file sets >=1 source-retained option field; distinct = descriptor bytes")
	r.Extra("assumptions", []string{
		"gen.RefStrip is the specification: a field declared retention=RETENTION_SOURCE is removed wherever it occurs inside an options message, an options message left empty is removed (calibrated: equals protoc's recorded output on retention.proto)",
		"a location `points into` a removed option iff its path has the removed field's path (or the removed options message's path) as a prefix",
		"the index of a map entry in a location path is not derivable from the descriptor: locations below a map-valued option whose entries differ in what is removed are not decided",
	})
	c22Fixed(r)
	c22Generated(r)
	c22R2(r)
}

// ---------------------------------------------------------------------------
// a differ that reports every difference, classifying the ones that are a
// source-retained field surviving the strip
// ---------------------------------------------------------------------------

type stripDiff struct {
	Path  string
	What  string // "kept-source-retained", "missing", "extra", "value"
	Depth int    // nesting depth below the options message (0 = top-level option field)
	Via   string // containers on the way: msg, list, map, ext
	Text  string
}

func retained(fd protoreflect.FieldDescriptor) bool {
	fo, ok := fd.Options().(*descriptorpb.FieldOptions)
	return ok && fo.GetRetention() == descriptorpb.FieldOptions_RETENTION_SOURCE
}

// diffStrip compares got (output of the code under test) with ref (reference).
func diffStrip(got, ref *descriptorpb.FileDescriptorProto) []stripDiff {
	var out []stripDiff
	var rec func(path string, a, b protoreflect.Message, inOpts bool, depth int, via string)
	fname := func(fd protoreflect.FieldDescriptor) string {
		if fd.IsExtension() {
			return "(" + string(fd.FullName()) + ")"
		}
		return string(fd.Name())
	}
	add := func(d stripDiff) {
		if len(out) < 200 {
			out = append(out, d)
		}
	}
	rec = func(path string, a, b protoreflect.Message, inOpts bool, depth int, via string) {
		seen := map[protoreflect.FieldNumber]bool{}
		visit := func(fd protoreflect.FieldDescriptor, av protoreflect.Value, hasA bool) {
			if seen[fd.Number()] {
				return
			}
			seen[fd.Number()] = true
			p := path + "." + fname(fd)
			bfd := fd
			hasB := b.Has(bfd)
			nowOpts := inOpts || (fd.Message() != nil && isOptionsMsg(fd.Message()))
			d, v := depth, via
			if inOpts {
				d = depth + 1
			}
			switch {
			case hasA && !hasB:
				what := "extra"
				if inOpts && retained(fd) {
					what = "kept-source-retained"
				}
				add(stripDiff{Path: p, What: what, Depth: depth, Via: via, Text: fmt.Sprintf("%s: present in the output, absent from the reference", p)})
			case !hasA && hasB:
				add(stripDiff{Path: p, What: "missing", Depth: depth, Via: via, Text: fmt.Sprintf("%s: absent from the output, present in the reference", p)})
			case hasA && hasB:
				bv := b.Get(bfd)
				switch {
				case fd.IsMap():
					if fd.MapValue().Message() != nil {
						av.Map().Range(func(k protoreflect.MapKey, mv protoreflect.Value) bool {
							if !bv.Map().Has(k) {
								add(stripDiff{Path: p, What: "extra", Depth: depth, Via: via, Text: fmt.Sprintf("%s[%v]: map key only in the output", p, k.Interface())})
								return true
							}
							rec(fmt.Sprintf("%s[%v]", p, k.Interface()), mv.Message(), bv.Map().Get(k).Message(), nowOpts, d, v+cont(inOpts, "map>"))
							return true
						})
						if av.Map().Len() != bv.Map().Len() {
							add(stripDiff{Path: p, What: "value", Depth: depth, Via: via, Text: fmt.Sprintf("%s: map size %d != %d", p, av.Map().Len(), bv.Map().Len())})
						}
					} else if !av.Equal(bv) {
						add(stripDiff{Path: p, What: "value", Depth: depth, Via: via, Text: fmt.Sprintf("%s: map differs", p)})
					}
				case fd.IsList():
					al, bl := av.List(), bv.List()
					if al.Len() != bl.Len() {
						add(stripDiff{Path: p, What: "value", Depth: depth, Via: via, Text: fmt.Sprintf("%s: list length %d != %d", p, al.Len(), bl.Len())})
						return
					}
					for i := 0; i < al.Len(); i++ {
						if fd.Message() != nil {
							rec(fmt.Sprintf("%s[%d]", p, i), al.Get(i).Message(), bl.Get(i).Message(), nowOpts, d, v+cont(inOpts, "list>"))
						} else if !al.Get(i).Equal(bl.Get(i)) && !(fd.Kind() == protoreflect.FloatKind || fd.Kind() == protoreflect.DoubleKind) {
							add(stripDiff{Path: p, What: "value", Depth: depth, Via: via, Text: fmt.Sprintf("%s[%d]: %v != %v", p, i, al.Get(i).Interface(), bl.Get(i).Interface())})
						}
					}
				case fd.Message() != nil:
					c := "msg>"
					if fd.IsExtension() && inOpts && depth > 0 {
						c = "ext-of-ext>"
					}
					if !inOpts {
						c = ""
					}
					rec(p, av.Message(), bv.Message(), nowOpts, d, v+c)
				default:
					if !av.Equal(bv) {
						if fd.Kind() == protoreflect.FloatKind || fd.Kind() == protoreflect.DoubleKind {
							x, y := av.Float(), bv.Float()
							if x != x && y != y {
								return
							}
						}
						add(stripDiff{Path: p, What: "value", Depth: depth, Via: via, Text: fmt.Sprintf("%s: %v != %v", p, av.Interface(), bv.Interface())})
					}
				}
			}
		}
		a.Range(func(fd protoreflect.FieldDescriptor, v protoreflect.Value) bool { visit(fd, v, true); return true })
		b.Range(func(fd protoreflect.FieldDescriptor, v protoreflect.Value) bool {
			if !seen[fd.Number()] {
				visit(fd, protoreflect.Value{}, false)
			}
			return true
		})
		if !bytes.Equal(a.GetUnknown(), b.GetUnknown()) {
			add(stripDiff{Path: path, What: "value", Depth: depth, Via: via, Text: path + ": unknown fields differ"})
		}
	}
	rec("", got.ProtoReflect(), ref.ProtoReflect(), false, 0, "")
	return out
}

func cont(inOpts bool, c string) string {
	if inOpts {
		return c
	}
	return ""
}

// diffSig is the stable signature of one strip difference.
func diffSig(d stripDiff) string {
	switch {
	case d.What == "kept-source-retained" && d.Depth >= 1:
		return "source-retained field kept inside a message-valued option (nested below the top level of the options message)"
	case d.What == "kept-source-retained":
		return "source-retained top-level option field kept"
	}
	return d.What + ": " + gen.DiffClass(d.Path+": x")
}

// ---------------------------------------------------------------------------
// expected removals of source info locations, computed from the reference
// ---------------------------------------------------------------------------

// pathPat is a location path prefix; -1 matches any index.
type pathPat []int32

func (p pathPat) matchesPrefixOf(path []int32) bool {
	if len(path) < len(p) {
		return false
	}
	for i, x := range p {
		if x != -1 && x != path[i] {
			return false
		}
	}
	return true
}

type stripCoverage struct {
	top, nested1, nested2, inList, inMap, inExtOfExt, wholeMsg int
}

func (c *stripCoverage) any() bool { return c.top+c.nested1+c.nested2 > 0 }

// expectedRemovals walks the decoded file and returns the prefixes under
// which locations must go, and the prefixes under which nothing is decided.
func expectedRemovals(dec, ref *descriptorpb.FileDescriptorProto) (removed, undecided []pathPat, cov stripCoverage) {
	refHas := map[string]bool{}
	walkOptionSites(ref, func(s *optSite) { refHas[pathStr(s.Path)] = s.Has })
	relDepth, relUndecided := 0, false // inside a map value paths are relative: a nested undecidable map makes the outer one undecidable
	var recMsg func(path []int32, m protoreflect.Message, depth int, viaList, viaMap, viaExt bool) []pathPat
	recMsg = func(path []int32, m protoreflect.Message, depth int, viaList, viaMap, viaExt bool) []pathPat {
		var out []pathPat
		m.Range(func(fd protoreflect.FieldDescriptor, v protoreflect.Value) bool {
			fp := append(append([]int32(nil), path...), int32(fd.Number()))
			if retained(fd) {
				out = append(out, pathPat(fp))
				switch {
				case depth == 0:
					cov.top++
				case depth == 1:
					cov.nested1++
				default:
					cov.nested2++
				}
				if viaList {
					cov.inList++
				}
				if viaMap {
					cov.inMap++
				}
				if viaExt || (depth > 0 && fd.IsExtension()) {
					cov.inExtOfExt++
				}
				return true
			}
			switch {
			case fd.IsMap():
				if fd.MapValue().Message() == nil {
					return true
				}
				// relative removals per entry; decided only if identical in every entry
				var rels []string
				var first []pathPat
				relDepth++
				savedUnd := relUndecided
				relUndecided = false
				v.Map().Range(func(_ protoreflect.MapKey, mv protoreflect.Value) bool {
					ps := recMsg(nil, mv.Message(), depth+1, viaList, true, viaExt)
					var ss []string
					for _, p := range ps {
						ss = append(ss, pathStr(p))
					}
					sort.Strings(ss)
					rels = append(rels, strings.Join(ss, ","))
					if first == nil {
						first = ps
					}
					return true
				})
				relDepth--
				uniform := !relUndecided
				relUndecided = savedUnd
				for _, s := range rels {
					if s != rels[0] {
						uniform = false
					}
				}
				if !uniform {
					if relDepth > 0 {
						relUndecided = true
					} else {
						undecided = append(undecided, pathPat(fp))
					}
					return true
				}
				for _, p := range first {
					out = append(out, append(append(append(pathPat(nil), fp...), -1, 2), p...))
				}
			case fd.IsList():
				if fd.Message() == nil {
					return true
				}
				l := v.List()
				for i := 0; i < l.Len(); i++ {
					out = append(out, recMsg(append(append([]int32(nil), fp...), int32(i)), l.Get(i).Message(), depth+1, true, viaMap, viaExt)...)
				}
			case fd.Message() != nil:
				out = append(out, recMsg(fp, v.Message(), depth+1, viaList, viaMap, viaExt || (depth > 0 && fd.IsExtension()))...)
			}
			return true
		})
		return out
	}
	walkOptionSites(dec, func(s *optSite) {
		if !s.Has {
			return
		}
		ps := recMsg(s.Path, s.Opts, 0, false, false, false)
		if !refHas[pathStr(s.Path)] {
			// the reference removed the whole options message
			cov.wholeMsg++
			removed = append(removed, pathPat(s.Path))
			return
		}
		removed = append(removed, ps...)
	})
	return
}

// ---------------------------------------------------------------------------
// the check
// ---------------------------------------------------------------------------

func locEqual(a, b *descriptorpb.SourceCodeInfo_Location) bool {
	return a == b || proto.Equal(a, b)
}

func checkStrip(r *vlib.Run, id, where string, fd *descriptorpb.FileDescriptorProto, types gen.TypeResolver, witness map[string]any) (cov stripCoverage) {
	w := func(extra map[string]any) map[string]any {
		m := map[string]any{"file": fd.GetName(), "where": where}
		for k, v := range witness {
			m[k] = v
		}
		for k, v := range extra {
			m[k] = v
		}
		return m
	}
	before := gen.DetBytes(fd)
	var out *descriptorpb.FileDescriptorProto
	var err error
	pv, stack := vlib.Try(func() { out, err = options.StripSourceRetentionOptionsFromFile(fd) })
	if pv != nil {
		r.Eval(string(before))
		r.Violation("c22.panic", "StripSourceRetentionOptionsFromFile panics: "+vlib.PanicSite(stack), id, w(map[string]any{"panic": fmt.Sprint(pv), "stack": trunc(stack, 3000)}))
		return
	}
	if err != nil {
		r.Eval(string(before))
		r.Violation("c22.error", "StripSourceRetentionOptionsFromFile fails: "+gen.ClassifyErr(err.Error()), id, w(map[string]any{"error": err.Error()}))
		return
	}
	if !bytes.Equal(before, gen.DetBytes(fd)) {
		r.Violation("c22.input-mutated", where+": the input descriptor changed", id, w(nil))
	}
	dec, err1 := decode(fd, types)
	ref, err2 := gen.RefStrip(fd, types)
	got, err3 := gen.Normalize(out, types)
	if err1 != nil || err2 != nil || err3 != nil {
		r.Inconclusive(fmt.Sprint("C22 decode: ", err1, err2, err3))
		return
	}
	removed, undecided, cov := expectedRemovals(dec, ref)
	key := ""
	if cov.any() {
		key = string(before)
	}
	r.Eval(key)
	if key != "" {
		r.Sample("file with source-retention options ("+where+")", map[string]any{"file": fd.GetName(), "descriptor (text format, clipped)": trunc(prototext.MarshalOptions{Multiline: true, Resolver: types}.Format(dec), 1500)})
	}
	// (1) output == reference
	diffs := diffStrip(got, ref)
	seen := map[string]bool{}
	for _, d := range diffs {
		sig := diffSig(d)
		if d.What == "kept-source-retained" {
			r.Class(fmt.Sprintf("kept source-retained field: depth %d via %s", d.Depth, d.Via))
		}
		if seen[sig] {
			continue
		}
		seen[sig] = true
		r.Violation("c22.output-differs", sig, id, w(map[string]any{"difference": d.Text, "all differences": diffTexts(diffs, 12), "source": witness["source"]}))
	}
	if len(diffs) == 0 && !proto.Equal(got, ref) {
		r.Violation("c22.output-differs", "proto.Equal false without a structural difference", id, w(nil))
	}
	// (2) idempotent, and the first output is not modified by the second call
	outBytes := gen.DetBytes(out)
	var out2 *descriptorpb.FileDescriptorProto
	pv, stack = vlib.Try(func() { out2, err = options.StripSourceRetentionOptionsFromFile(out) })
	switch {
	case pv != nil:
		r.Violation("c22.panic", "second strip panics: "+vlib.PanicSite(stack), id, w(map[string]any{"panic": fmt.Sprint(pv)}))
	case err != nil:
		r.Violation("c22.error", "second strip fails: "+gen.ClassifyErr(err.Error()), id, w(nil))
	default:
		if !bytes.Equal(outBytes, gen.DetBytes(out)) {
			r.Violation("c22.input-mutated", where+": the first output changed when stripped again", id, w(nil))
		}
		if !bytes.Equal(outBytes, gen.DetBytes(out2)) {
			a, _ := gen.Normalize(out2, types)
			r.Violation("c22.not-idempotent", gen.DiffClass(gen.Diff(a, got)), id, w(map[string]any{"diff strip(strip(x))!=strip(x)": gen.Diff(a, got)}))
		}
	}
	if !bytes.Equal(before, gen.DetBytes(fd)) {
		r.Violation("c22.input-mutated", where+": the input descriptor changed (after the second call)", id, w(nil))
	}
	// (3) source info
	in := fd.GetSourceCodeInfo().GetLocation()
	if len(in) == 0 {
		if len(out.GetSourceCodeInfo().GetLocation()) != 0 {
			r.Violation("c22.locations", "locations appear in the output of a file without source info", id, w(nil))
		}
		return cov
	}
	ol := out.GetSourceCodeInfo().GetLocation()
	j := 0
	nRemoved := 0
	lseen := map[string]bool{}
	lviol := func(sig string, loc *descriptorpb.SourceCodeInfo_Location) {
		if lseen[sig] {
			return
		}
		lseen[sig] = true
		r.Violation("c22.locations", sig, id, w(map[string]any{"location path": loc.GetPath(), "span": loc.GetSpan(), "removed prefixes": patStrs(removed), "source": witness["source"]}))
	}
	for _, loc := range in {
		must := false
		var hit pathPat
		for _, p := range removed {
			if p.matchesPrefixOf(loc.Path) {
				must, hit = true, p
			}
		}
		und := false
		for _, p := range undecided {
			if p.matchesPrefixOf(loc.Path) {
				und = true
			}
		}
		keptHere := j < len(ol) && locEqual(ol[j], loc)
		if keptHere {
			j++
		} else {
			nRemoved++
		}
		switch {
		case must && keptHere:
			// which kind of removal was missed?
			site := optionsPrefixLen(dec, loc.Path)
			if site >= 0 && len(hit) > site+1 {
				lviol("location kept although its path lies under a removed NESTED source-retained field", loc)
			} else if site >= 0 && len(hit) == site {
				lviol("location kept although its options message was removed entirely", loc)
			} else {
				lviol("location kept although its path lies under a removed top-level option field", loc)
			}
		case !must && !und && !keptHere:
			lviol("location removed although its path is not under any removed option", loc)
		}
	}
	if j != len(ol) {
		r.Violation("c22.locations", "the output has locations that are not the input's locations in order", id, w(map[string]any{"matched": j, "output locations": len(ol)}))
	}
	r.ClassN(where+": locations removed", int64(nRemoved))
	return cov
}

// optionsPrefixLen returns the length of the prefix of path that is the path
// of an options message of fd (-1 if the path does not enter one).
func optionsPrefixLen(fd *descriptorpb.FileDescriptorProto, path []int32) int {
	best := -1
	walkOptionSites(fd, func(s *optSite) {
		if len(path) >= len(s.Path) {
			ok := true
			for i, x := range s.Path {
				if path[i] != x {
					ok = false
				}
			}
			if ok && len(s.Path) > best {
				best = len(s.Path)
			}
		}
	})
	return best
}

func diffTexts(ds []stripDiff, n int) []string {
	var out []string
	for i, d := range ds {
		if i >= n {
			out = append(out, fmt.Sprintf("… %d more", len(ds)-n))
			break
		}
		out = append(out, d.Text)
	}
	return out
}

func patStrs(ps []pathPat) []string {
	var out []string
	for i, p := range ps {
		if i >= 30 {
			break
		}
		out = append(out, strings.ReplaceAll(pathStr(p), "-1", "*"))
	}
	return out
}

var c22Modes = []struct {
	name string
	mode protocompile.SourceInfoMode
}{
	{"no-source-info", protocompile.SourceInfoNone},
	{"standard", protocompile.SourceInfoStandard},
	{"standard+option-locations", protocompile.SourceInfoStandard | protocompile.SourceInfoExtraOptionLocations},
}

func addCov(r *vlib.Run, c stripCoverage) {
	add := func(n int, name string) {
		if n > 0 {
			r.Class("coverage: file with " + name)
		}
	}
	add(c.top, "source-retained top-level option field set")
	add(c.nested1, "source-retained field set at depth 1 of a message-valued option")
	add(c.nested2, "source-retained field set at depth >=2")
	add(c.inList, "source-retained field inside a repeated message element")
	add(c.inMap, "source-retained field inside a map value")
	add(c.inExtOfExt, "source-retained field under/as an extension of an option value")
	add(c.wholeMsg, "options message removed entirely")
}

func c22Generated(r *vlib.Run) {
	n := r.N(500, 10000)
	r.Par(n, func(i int) {
		id := fmt.Sprintf("g/%d", i)
		if !r.Want(id) {
			return
		}
		rng := r.Rng(id)
		m, err := gen.GenModel(rng, optConfig(rng, i))
		if err != nil {
			r.Class("g:model-not-decided (refused by protodesc)")
			return
		}
		for v := 0; v < 2; v++ {
			var stf func(int) *gen.Style
			if v > 0 {
				stf = styleFn(r.Rng(fmt.Sprintf("%s/r%d", id, v)), "st")
			}
			src, err := m.Sources(stf)
			if err != nil {
				r.Inconclusive("render: " + err.Error())
				continue
			}
			for _, md := range c22Modes {
				vid := fmt.Sprintf("%s/r%d/%s", id, v, md.name)
				if !r.Want(vid) {
					continue
				}
				out := gen.Compile(src, m.Names(), gen.Opts{SourceInfo: md.mode})
				if !out.OK() {
					r.Class("g:rejected (decided by C01/C20)")
					continue
				}
				protos := gen.AllProtos(out.Files)
				for _, f := range m.Files {
					fd := protos[f.GetName()]
					if fd == nil {
						continue
					}
					fid := vid + "/" + f.GetName()
					if !r.Want(fid) {
						continue
					}
					cov := checkStrip(r, fid, md.name, fd, m.Types, map[string]any{"source": src[f.GetName()]})
					if v == 0 && md.mode == protocompile.SourceInfoNone {
						addCov(r, cov)
					}
				}
			}
		}
	})
}

const c22MinSchema = `syntax = "proto2";
package c22;
import "google/protobuf/descriptor.proto";
message M {
  optional int32 keep = 1;
  optional int32 drop = 2 [retention = RETENTION_SOURCE];
  optional M sub = 3;
  repeated M list = 4;
  map<string, M> map = 5;
  extensions 100 to 200;
}
extend M { optional int32 xdrop = 100 [retention = RETENTION_SOURCE]; }
extend google.protobuf.MessageOptions {
  optional M m = 50000;
  optional int32 top_drop = 50001 [retention = RETENTION_SOURCE];
  optional int32 top_keep = 50002;
}
`

var c22Fixtures = []struct{ name, body string }{
	{"nested-singular", "message T { option (m) = { keep: 1 drop: 2 }; }"},
	{"nested-path", "message T { option (m).keep = 1; option (m).drop = 2; }"},
	{"nested-depth2", "message T { option (m) = { keep: 1 sub { keep: 3 drop: 4 } }; }"},
	{"nested-list", "message T { option (m) = { list { keep: 1 drop: 2 } list { keep: 3 } }; }"},
	{"nested-map", "message T { option (m) = { map { key: 'a' value { keep: 1 drop: 2 } } }; }"},
	{"nested-ext-of-ext", "message T { option (m) = { keep: 1 [c22.xdrop]: 5 }; }"},
	{"top-level", "message T { option (top_drop) = 1; option (top_keep) = 2; }"},
	{"top-level-only", "message T { option (top_drop) = 1; }"},
	{"nothing-to-strip", "message T { option (m) = { keep: 1 }; option (top_keep) = 2; }"},
}

// c22Fixed runs small fixed inputs: one per place where a source-retained
// field can occur. The first is the minimal witness of defect S14.
func c22Fixed(r *vlib.Run) {
	if !r.Mine(0) {
		return
	}
	for _, fx := range c22Fixtures {
		for _, md := range c22Modes {
			id := "fixed/" + fx.name + "/" + md.name
			if !r.Want(id) {
				continue
			}
			src := map[string]string{"c22.proto": c22MinSchema + fx.body + "\n"}
			out := gen.Compile(src, []string{"c22.proto"}, gen.Opts{SourceInfo: md.mode})
			if !out.OK() {
				r.Inconclusive("fixed input rejected: " + out.ErrSummary())
				continue
			}
			fd := gen.Protos(out.Files)["c22.proto"]
			bare := proto.Clone(fd).(*descriptorpb.FileDescriptorProto)
			bare.SourceCodeInfo = nil
			reg, errs := gen.BuildFilesLenient([]*descriptorpb.FileDescriptorProto{bare})
			if len(errs) > 0 {
				r.Inconclusive("fixed input refused by protodesc")
				continue
			}
			checkStrip(r, id, md.name, fd, gen.TypesOf(reg), map[string]any{"source": src["c22.proto"]})
			r.Class("fixed input checked")
		}
	}
}

func c22R2(r *vlib.Run) {
	if !r.Mine(0) {
		return
	}
	w, err := loadR2World()
	if err != nil {
		r.Inconclusive("R2: " + err.Error())
		return
	}
	for _, e := range w.entries {
		if !strings.Contains(e.Name, "/retention/") || e.Source == "" {
			continue
		}
		for _, md := range c22Modes {
			id := "r2/" + e.Name + "/" + md.name
			if !r.Want(id) {
				continue
			}
			out := gen.Compile(w.closure(e.Name), []string{e.Name}, gen.Opts{SourceInfo: md.mode})
			if !out.OK() {
				r.Class("r2:rejected (decided by C01)")
				continue
			}
			fd := gen.Protos(out.Files)[e.Name]
			checkStrip(r, id, md.name, fd, w.types, map[string]any{"corpus file": e.Name})
			// protoc's own recorded answer
			stripped, err := options.StripSourceRetentionOptionsFromFile(fd)
			if err != nil {
				continue
			}
			got, err1 := gen.Normalize(stripped, w.types)
			want, err2 := gen.Normalize(e.Desc, w.types)
			if err1 != nil || err2 != nil {
				r.Inconclusive(fmt.Sprint("R2 decode: ", err1, err2))
				continue
			}
			r.Eval(id + "/protoc")
			seen := map[string]bool{}
			ds := diffStrip(got, want)
			for _, d := range ds {
				sig := diffSig(d)
				if seen[sig] {
					continue
				}
				seen[sig] = true
				r.Violation("c22.output-differs", sig, id, map[string]any{"file": e.Name, "oracle": "protoc's recorded descriptor (R2)", "difference": d.Text, "all differences": diffTexts(ds, 12)})
			}
			r.Class("r2:compared with protoc's recorded output")
		}
	}
}
