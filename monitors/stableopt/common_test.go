package stableopt

import (
	"fmt"
	"sort"
	"strings"
	"sync"

	"google.golang.org/protobuf/proto"
	"google.golang.org/protobuf/reflect/protoreflect"
	"google.golang.org/protobuf/reflect/protoregistry"
	"google.golang.org/protobuf/types/descriptorpb"

	"github.com/bufbuild/protocompile/internal/verifmon/gen"
	"github.com/bufbuild/protocompile/internal/verifmon/vlib"
)

// ---------------------------------------------------------------------------
// R2 world (protoc's descriptors embedded in protobuf-go, and their sources)
// ---------------------------------------------------------------------------

type r2World struct {
	entries []gen.R2Entry
	src     map[string]string
	byName  map[string]*descriptorpb.FileDescriptorProto
	files   *protoregistry.Files
	types   *protoregistry.Types
	refused map[string]error
}

var (
	r2Once sync.Once
	r2W    *r2World
	r2WErr error
)

func loadR2World() (*r2World, error) {
	r2Once.Do(func() {
		es, src, err := gen.LoadR2()
		if err != nil {
			r2WErr = err
			return
		}
		w := &r2World{src: src, byName: map[string]*descriptorpb.FileDescriptorProto{}}
		var fds []*descriptorpb.FileDescriptorProto
		for _, e := range es {
			if _, dup := w.byName[e.Name]; dup {
				continue // the index lists a few files twice
			}
			w.entries = append(w.entries, e)
			w.byName[e.Name] = e.Desc
			fds = append(fds, e.Desc)
		}
		w.files, w.refused = gen.BuildFilesLenient(fds)
		w.types = gen.TypesOf(w.files)
		r2W = w
	})
	return r2W, r2WErr
}

// closure returns the sources needed to compile name.
func (w *r2World) closure(name string) map[string]string {
	out := map[string]string{}
	var add func(n string)
	add = func(n string) {
		if _, ok := out[n]; ok {
			return
		}
		s, ok := w.src[n]
		if !ok {
			return
		}
		out[n] = s
		if d, ok := w.byName[n]; ok {
			for _, dep := range d.Dependency {
				add(dep)
			}
			return
		}
		for _, line := range strings.Split(s, "\n") {
			line = strings.TrimSpace(line)
			if strings.HasPrefix(line, "import ") {
				if i := strings.Index(line, `"`); i >= 0 {
					if j := strings.Index(line[i+1:], `"`); j >= 0 {
						add(line[i+1 : i+1+j])
					}
				}
			}
		}
	}
	add(name)
	return out
}

// ---------------------------------------------------------------------------
// Generic walk over the options messages of a descriptor proto
// ---------------------------------------------------------------------------

func isOptionsMsg(md protoreflect.MessageDescriptor) bool {
	fn := string(md.FullName())
	return strings.HasPrefix(fn, "google.protobuf.") && strings.HasSuffix(fn, "Options") && md.ParentFile() != nil && md.ParentFile().Path() == "google/protobuf/descriptor.proto"
}

// optSite is one place of a descriptor proto where an options message can be.
type optSite struct {
	Elem   string                       // readable element id, e.g. message_type[0:Foo].field[1:bar]
	Kind   string                       // FileOptions, MessageOptions, ...
	Path   []int32                      // source-info path of the options message
	Parent protoreflect.Message         // the element's descriptor proto
	Field  protoreflect.FieldDescriptor // the `options` field of Parent
	Opts   protoreflect.Message         // invalid (read-only empty) if absent
	Has    bool
}

// walkOptionSites visits every element of a file descriptor proto that can
// carry options (whether or not it does), in descriptor order.
func walkOptionSites(fd *descriptorpb.FileDescriptorProto, visit func(s *optSite)) {
	var rec func(m protoreflect.Message, elem string, path []int32)
	rec = func(m protoreflect.Message, elem string, path []int32) {
		fds := m.Descriptor().Fields()
		for i := 0; i < fds.Len(); i++ {
			f := fds.Get(i)
			if f.Message() == nil || f.IsMap() {
				continue
			}
			if isOptionsMsg(f.Message()) && !f.IsList() {
				p := append(append([]int32(nil), path...), int32(f.Number()))
				visit(&optSite{Elem: elem, Kind: string(f.Message().Name()), Path: p, Parent: m, Field: f, Opts: m.Get(f).Message(), Has: m.Has(f)})
				continue
			}
			if f.Message().FullName() == "google.protobuf.SourceCodeInfo" || isOptionsMsg(m.Descriptor()) {
				continue
			}
			if !strings.HasPrefix(string(f.Message().FullName()), "google.protobuf.") {
				continue
			}
			if f.IsList() {
				l := m.Get(f).List()
				for j := 0; j < l.Len(); j++ {
					c := l.Get(j).Message()
					nm := ""
					if nf := c.Descriptor().Fields().ByName("name"); nf != nil && nf.Kind() == protoreflect.StringKind {
						nm = ":" + c.Get(nf).String()
					}
					e := fmt.Sprintf("%s[%d%s]", f.Name(), j, nm)
					if elem != "" {
						e = elem + "." + e
					}
					rec(c, e, append(append([]int32(nil), path...), int32(f.Number()), int32(j)))
				}
			} else if m.Has(f) {
				e := string(f.Name())
				if elem != "" {
					e = elem + "." + e
				}
				rec(m.Get(f).Message(), e, append(append([]int32(nil), path...), int32(f.Number())))
			}
		}
	}
	rec(fd.ProtoReflect(), "", nil)
}

// elemKindOf abstracts an element id to its kind chain: indices and names removed.
func elemKindOf(elem string) string {
	var sb strings.Builder
	depth := 0
	for _, c := range elem {
		switch {
		case c == '[':
			depth++
		case c == ']':
			depth--
		case depth == 0:
			sb.WriteRune(c)
		}
	}
	if sb.Len() == 0 {
		return "file"
	}
	return sb.String()
}

// decode re-decodes fd against res (extensions become known fields) keeping
// the source info.
func decode(fd *descriptorpb.FileDescriptorProto, res gen.TypeResolver) (*descriptorpb.FileDescriptorProto, error) {
	b, err := proto.MarshalOptions{Deterministic: true}.Marshal(fd)
	if err != nil {
		return nil, err
	}
	out := &descriptorpb.FileDescriptorProto{}
	if err := (proto.UnmarshalOptions{Resolver: res}).Unmarshal(b, out); err != nil {
		return nil, err
	}
	return out, nil
}

// hasUnknownDeep reports the first place inside m (an options message or
// value) that still carries unknown fields, "" if none.
func hasUnknownDeep(m protoreflect.Message, at string) string {
	if len(m.GetUnknown()) > 0 {
		return at
	}
	found := ""
	m.Range(func(fd protoreflect.FieldDescriptor, v protoreflect.Value) bool {
		if fd.Message() == nil {
			return true
		}
		n := at + "." + string(fd.Name())
		switch {
		case fd.IsMap():
			if fd.MapValue().Message() != nil {
				v.Map().Range(func(_ protoreflect.MapKey, mv protoreflect.Value) bool {
					found = hasUnknownDeep(mv.Message(), n)
					return found == ""
				})
			}
		case fd.IsList():
			l := v.List()
			for i := 0; i < l.Len() && found == ""; i++ {
				found = hasUnknownDeep(l.Get(i).Message(), n)
			}
		default:
			found = hasUnknownDeep(v.Message(), n)
		}
		return found == ""
	})
	return found
}

// ---------------------------------------------------------------------------
// Generated models with custom options
// ---------------------------------------------------------------------------

// optConfig is gen.StdConfig with custom options always on.
func optConfig(rng *vlib.RNG, i int) gen.Config {
	cfg := gen.StdConfig(rng, i)
	cfg.CustomOptions = true
	if cfg.MaxFiles < 2 {
		cfg.MaxFiles = 2
	}
	return cfg
}

const optSchemaFile = "opts/options.proto"

// schemaPkg returns the package of the generated option schema of a model ("" if none).
func schemaPkg(m *gen.Model) string {
	if f := m.File(optSchemaFile); f != nil {
		return f.GetPackage()
	}
	return ""
}

func styleFn(rng *vlib.RNG, label string) func(int) *gen.Style {
	return func(k int) *gen.Style { return &gen.Style{Rng: rng.Fork(fmt.Sprint(label, k))} }
}

func trunc(s string, n int) string {
	if len(s) > n {
		return s[:n] + "…"
	}
	return s
}

func sortedKeys[V any](m map[string]V) []string {
	ks := make([]string, 0, len(m))
	for k := range m {
		ks = append(ks, k)
	}
	sort.Strings(ks)
	return ks
}

func pathStr(p []int32) string {
	var sb strings.Builder
	for i, x := range p {
		if i > 0 {
			sb.WriteByte('.')
		}
		fmt.Fprint(&sb, x)
	}
	return sb.String()
}
