package stableopt

import (
	"fmt"
	"strings"

	"github.com/bufbuild/protocompile/internal/verifmon/vlib"
)

// A small tokenizer of protobuf source and a comment/whitespace injector on
// top of it: comments (each with a unique id) and layout noise are put into
// the gaps between tokens, which cannot change the meaning of the file.

type srcToken struct {
	gap  string // whitespace/comments before the token
	text string
	kind byte // 'i' identifier/number, 's' string, 'p' punctuation
}

func isIdentByte(c byte) bool {
	return c == '_' || c >= '0' && c <= '9' || c >= 'a' && c <= 'z' || c >= 'A' && c <= 'Z'
}

// tokenize splits src; tail is the whitespace/comments after the last token.
// ok=false if the text has something the tokenizer does not understand.
func tokenize(src string) (toks []srcToken, tail string, ok bool) {
	i := 0
	gapStart := 0
	for i < len(src) {
		c := src[i]
		switch {
		case c == ' ' || c == '\t' || c == '\n' || c == '\r' || c == '\f' || c == '\v':
			i++
		case c == '/' && i+1 < len(src) && src[i+1] == '/':
			j := strings.IndexByte(src[i:], '\n')
			if j < 0 {
				i = len(src)
			} else {
				i += j + 1
			}
		case c == '/' && i+1 < len(src) && src[i+1] == '*':
			j := strings.Index(src[i+2:], "*/")
			if j < 0 {
				return nil, "", false
			}
			i += 2 + j + 2
		case c == '"' || c == '\'':
			j := i + 1
			for j < len(src) && src[j] != c {
				if src[j] == '\\' {
					j++
				}
				if j < len(src) && src[j] == '\n' {
					return nil, "", false
				}
				j++
			}
			if j >= len(src) {
				return nil, "", false
			}
			toks = append(toks, srcToken{gap: src[gapStart:i], text: src[i : j+1], kind: 's'})
			i = j + 1
			gapStart = i
		case isIdentByte(c) || (c == '.' && i+1 < len(src) && src[i+1] >= '0' && src[i+1] <= '9'):
			j := i
			numeric := c == '.' || c >= '0' && c <= '9'
			for j < len(src) {
				d := src[j]
				if isIdentByte(d) {
					j++
					continue
				}
				if numeric && d == '.' {
					j++
					continue
				}
				if numeric && (d == '+' || d == '-') && j > i && (src[j-1] == 'e' || src[j-1] == 'E') && !strings.HasPrefix(src[i:j], "0x") && !strings.HasPrefix(src[i:j], "0X") {
					j++
					continue
				}
				break
			}
			toks = append(toks, srcToken{gap: src[gapStart:i], text: src[i:j], kind: 'i'})
			i = j
			gapStart = i
		default:
			if c < 0x20 || c >= 0x7f {
				return nil, "", false
			}
			toks = append(toks, srcToken{gap: src[gapStart:i], text: string(c), kind: 'p'})
			i++
			gapStart = i
		}
	}
	return toks, src[gapStart:], true
}

// sourceComments returns the raw comment texts of src (as the tokenizer sees them).
func sourceComments(src string) []string {
	var out []string
	i := 0
	for i < len(src) {
		c := src[i]
		switch {
		case c == '"' || c == '\'':
			j := i + 1
			for j < len(src) && src[j] != c {
				if src[j] == '\\' {
					j++
				}
				j++
			}
			i = j + 1
		case c == '/' && i+1 < len(src) && src[i+1] == '/':
			j := strings.IndexByte(src[i:], '\n')
			if j < 0 {
				j = len(src) - i
			}
			out = append(out, src[i:i+j])
			i += j
		case c == '/' && i+1 < len(src) && src[i+1] == '*':
			j := strings.Index(src[i+2:], "*/")
			if j < 0 {
				return out
			}
			out = append(out, src[i:i+2+j+2])
			i += 2 + j + 2
		default:
			i++
		}
	}
	return out
}

type injector struct {
	rng *vlib.RNG
	n   int
	tag string
}

func (in *injector) id() string {
	in.n++
	return fmt.Sprintf("%sc%d", in.tag, in.n)
}

// noise returns a random piece of layout noise; sameLine tells whether it may
// stay on the line of the previous token (then it begins with a space).
func (in *injector) noise(indent string) string {
	r := in.rng
	switch r.Intn(12) {
	case 0:
		return " /* " + in.id() + " */ "
	case 1:
		return " // " + in.id() + "\n" + indent
	case 2:
		return "\n\n" + indent
	case 3:
		return "\t"
	case 4:
		a := in.id()
		return "\n" + indent + "/* " + a + "\n" + indent + " * more " + a + "\n" + indent + " */\n" + indent
	case 5:
		a := in.id()
		return "\n" + indent + "// " + a + "\n" + indent + "// second " + a + "\n" + indent
	case 6:
		return "\n" + indent + "// " + in.id() + "\n\n" + indent // detached: followed by a blank line
	case 7:
		return "\n\t" + "// " + in.id() + "\n\t"
	case 8:
		return " /* " + in.id() + " */\n" + indent
	case 9:
		return "\n" + indent + "/* " + in.id() + " */ /* " + in.id() + " */\n" + indent
	case 10:
		return "\n\n" + indent + "// " + in.id() + "\n\n" + indent + "// " + in.id() + "\n" + indent
	default:
		return "  "
	}
}

func unsafeNeighbor(t string) bool {
	return t == "." || t == "/" || t == "-" || t == "+"
}

// inject rebuilds src with noise in the gaps. density in (0,1].
func (in *injector) inject(src string, density float64) (string, bool) {
	toks, tail, ok := tokenize(src)
	if !ok || len(toks) == 0 {
		return "", false
	}
	var sb strings.Builder
	if in.rng.Chance(0.5) {
		sb.WriteString("// " + in.id() + " (file header)\n\n")
	}
	for i, t := range toks {
		gap := t.gap
		prev := ""
		if i > 0 {
			prev = toks[i-1].text
		}
		safe := !unsafeNeighbor(prev) && !unsafeNeighbor(t.text)
		if safe {
			p := density
			if t.text == "}" || t.text == "]" || t.text == ";" {
				p = density * 2.2 // comments before closing symbols
			}
			if prev == ";" || prev == "{" || prev == "}" {
				p = density * 2.2 // trailing comments and comments at the start of a scope
			}
			if in.rng.Chance(p) {
				indent := ""
				if k := strings.LastIndexByte(gap, '\n'); k >= 0 {
					indent = gap[k+1:]
				}
				switch {
				case strings.HasPrefix(gap, "\n") && in.rng.Chance(0.45):
					// trailing comment on the line of the previous token
					if in.rng.Bool() {
						gap = " // " + in.id() + gap
					} else {
						gap = " /* " + in.id() + " */" + gap
					}
					if in.rng.Chance(0.3) {
						gap += in.noise(indent)
					}
				case in.rng.Bool():
					gap = gap + in.noise(indent)
				default:
					gap = in.noise(indent) + gap
				}
				if gap == "" || (i > 0 && toks[i-1].kind != 'p' && t.kind != 'p' && !strings.ContainsAny(gap[:1], " \t\n") && !strings.HasPrefix(gap, "/")) {
					gap = " " + gap
				}
			}
		}
		sb.WriteString(gap)
		sb.WriteString(t.text)
	}
	sb.WriteString(tail)
	switch in.rng.Intn(4) {
	case 0:
		sb.WriteString("// " + in.id() + " (at EOF, no newline)")
	case 1:
		sb.WriteString("\n/* " + in.id() + " */\n")
	}
	return sb.String(), true
}
