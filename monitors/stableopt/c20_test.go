package stableopt

import (
	"fmt"
	"strings"
	"testing"

	"google.golang.org/protobuf/encoding/prototext"
	"google.golang.org/protobuf/proto"
	"google.golang.org/protobuf/reflect/protoreflect"
	"google.golang.org/protobuf/types/descriptorpb"
	"google.golang.org/protobuf/types/dynamicpb"

	"github.com/bufbuild/protocompile/internal/verifmon/gen"
	"github.com/bufbuild/protocompile/internal/verifmon/vlib"
)

// C20 — option values are interpreted like protoc.
//
// Oracles (DESIGN.md §3): (G) by construction — the generator chooses every
// option value first, the renderer writes it in one of the source syntaxes,
// the compiled options message must equal the model's; (M) option-specific
// rejection cases whose verdict is anchored in a protoc-verified R3 case of
// the same rule (unanchored ones are observed only; literal forms may be
// decided by the Go runtime's prototext as independent implementation);
// (R1/R2) recorded protoc values.

func TestC20(t *testing.T) {
	r := vlib.Start(t, "C20")
	defer r.Finish()
	r.Extra("rule", "G: generated models with a generated custom-option schema, each in R renderings (option paths vs message literals, <>/{} , separators, dec/hex/octal, escapes); one evaluation = one (element, options message) "+
		"comparison compiled-vs-model per option field (NaN- and -0.0-aware), plus default/json_name pseudo-options, plus a walk asserting no uninterpreted_option; non-trivial = the element carries >=1 option; distinct = (source set, element). "+
		"M: per model one control block (values at the integer limits, enum numbers in literals, repeated statements, target types, a google.protobuf.Any expansion; expected values written independently in text format) and ~75 rule-tagged bad statements appended as text; "+
		"R1 options/*.protoset and every R2 descriptor with source: per element comparison of the options with protoc's recorded values; R3 anchors replayed.")
	r.Extra("assumptions", []string{
		"the model a source was rendered from is what protoc would output for it (renderer calibrated on protoc's own descriptors, C02)",
		"a rejection class decides only if an R3 case of the same rule records protoc rejecting it (diff_with_protoc honoured); literal-form classes without R3 anchor decide only if the Go runtime's prototext (independent implementation of the text format used for message literals) also refuses the literal; everything else is observed",
		"R1/R2 descriptors are protoc's answers; R2 had source-retention options stripped (compiled side stripped with the reference strip)",
	})
	anch, err := loadAnchors()
	if err != nil {
		t.Fatal(err)
	}
	c20Anchors(r, anch)
	c20Generated(r, anch)
	c20R2(r)
	c20R1(r)
}

// ---------------------------------------------------------------------------
// per-element comparison of options
// ---------------------------------------------------------------------------

type optCmp struct {
	sites, withOptions int
	diffs              []optDiff
}

type optDiff struct {
	Elem, Kind, Diff string
}

// compareOptions compares, element by element, the options (and the field
// pseudo-options) of got against want. Both must be decoded.
func compareOptions(got, want *descriptorpb.FileDescriptorProto) *optCmp {
	res := &optCmp{}
	gs := map[string]*optSite{}
	var order []string
	walkOptionSites(got, func(s *optSite) { gs[s.Elem+"#"+s.Kind] = s })
	ws := map[string]*optSite{}
	walkOptionSites(want, func(s *optSite) { k := s.Elem + "#" + s.Kind; ws[k] = s; order = append(order, k) })
	for k := range gs {
		if _, ok := ws[k]; !ok {
			order = append(order, k)
		}
	}
	for _, k := range order {
		g, w := gs[k], ws[k]
		res.sites++
		switch {
		case g == nil:
			if w.Has {
				res.withOptions++
				res.diffs = append(res.diffs, optDiff{w.Elem, w.Kind, "element missing on the compiled side (structure differs; C02)"})
			}
			continue
		case w == nil:
			if g.Has {
				res.withOptions++
				res.diffs = append(res.diffs, optDiff{g.Elem, g.Kind, "element missing on the expected side (structure differs; C02)"})
			}
			continue
		}
		if g.Has || w.Has {
			res.withOptions++
		}
		if g.Has != w.Has {
			res.diffs = append(res.diffs, optDiff{g.Elem, g.Kind, fmt.Sprintf("options: presence %v != %v (got %v, want %v)", g.Has, w.Has, g.Opts.Interface(), w.Opts.Interface())})
			continue
		}
		if g.Has {
			if d := gen.Diff(g.Opts.Interface(), w.Opts.Interface()); d != "" {
				res.diffs = append(res.diffs, optDiff{g.Elem, g.Kind, d})
			}
		}
		// pseudo-options of fields
		if g.Kind == "FieldOptions" {
			gf, _ := g.Parent.Interface().(*descriptorpb.FieldDescriptorProto)
			wf, _ := w.Parent.Interface().(*descriptorpb.FieldDescriptorProto)
			if gf != nil && wf != nil {
				if (gf.DefaultValue == nil) != (wf.DefaultValue == nil) || gf.GetDefaultValue() != wf.GetDefaultValue() {
					res.diffs = append(res.diffs, optDiff{g.Elem, "pseudo", fmt.Sprintf("default_value: %q != %q", gf.GetDefaultValue(), wf.GetDefaultValue())})
				}
				if gf.GetJsonName() != wf.GetJsonName() {
					res.diffs = append(res.diffs, optDiff{g.Elem, "pseudo", fmt.Sprintf("json_name: %q != %q", gf.GetJsonName(), wf.GetJsonName())})
				}
			}
		}
	}
	return res
}

// checkNoUninterpreted walks every options message of fd (as compiled, not
// re-decoded) and reports the elements that still carry uninterpreted_option.
func checkNoUninterpreted(fd *descriptorpb.FileDescriptorProto) []string {
	var bad []string
	walkOptionSites(fd, func(s *optSite) {
		if !s.Has {
			return
		}
		if uf := s.Opts.Descriptor().Fields().ByName("uninterpreted_option"); uf != nil && s.Opts.Get(uf).List().Len() > 0 {
			bad = append(bad, s.Elem+"#"+s.Kind)
		}
	})
	return bad
}

func isOptionError(msg string) bool {
	return strings.Contains(msg, "option ") || strings.Contains(msg, "option:") || strings.Contains(msg, "extension ") || strings.Contains(msg, "allowed on")
}

// ---------------------------------------------------------------------------
// G: generated models
// ---------------------------------------------------------------------------

func c20Generated(r *vlib.Run, anch map[string]anchorInfo) {
	n := r.N(220, 4000)
	R := r.N(3, 6)
	r.Par(n, func(i int) {
		id := fmt.Sprintf("g/%d", i)
		if !r.Want(id) {
			return
		}
		rng := r.Rng(id)
		m, err := gen.GenModel(rng, optConfig(rng, i))
		if err != nil {
			r.Class("g:model-not-decided (refused by protodesc)")
			return
		}
		for k, v := range m.Tags {
			if strings.HasPrefix(k, "option:custom:") || strings.HasPrefix(k, "optvalue:") {
				r.ClassN("tag:"+k, int64(v))
			}
		}
		for v := 0; v < R; v++ {
			vid := fmt.Sprintf("%s/r%d", id, v)
			if !r.Want(vid) {
				continue
			}
			var stf func(int) *gen.Style
			if v > 0 {
				stf = styleFn(r.Rng(vid), "st")
			}
			src, err := m.Sources(stf)
			if err != nil {
				r.Inconclusive("render: " + err.Error())
				continue
			}
			out := gen.Compile(src, m.Names(), gen.Opts{Par: 1 + v%4})
			sk := gen.SrcKey(src)
			if out.Panic != nil {
				r.Eval(sk)
				r.Violation("compile.panic", "panic interpreting generated options: "+vlib.PanicSite(fmt.Sprint(out.Panic)), vid, map[string]any{"sources": src, "panic": fmt.Sprint(out.Panic)})
				continue
			}
			if !out.OK() {
				r.Eval(sk)
				if isOptionError(out.ErrSummary()) {
					r.Violation("c20.rejects-valid-option", gen.ClassifyErr(out.ErrSummary()), vid, map[string]any{"sources": src, "errors": out.ErrSummary()})
				} else {
					r.Class("g:rejected for a reason outside options (decided by C01)")
				}
				continue
			}
			protos := gen.AllProtos(out.Files)
			for _, f := range m.Files {
				got := protos[f.GetName()]
				if got == nil {
					r.Violation("c20.file-missing", "requested file missing from the results", vid, map[string]any{"file": f.GetName()})
					continue
				}
				if bad := checkNoUninterpreted(got); len(bad) > 0 {
					r.Violation("c20.uninterpreted-left", elemKindOf(strings.SplitN(bad[0], "#", 2)[0])+" "+strings.SplitN(bad[0], "#", 2)[1], vid,
						map[string]any{"file": f.GetName(), "source": src[f.GetName()], "elements": bad})
				}
				gd, err1 := decode(got, m.Types)
				wd, err2 := decode(f, m.Types)
				if err1 != nil || err2 != nil {
					r.Inconclusive(fmt.Sprint("decode: ", err1, err2))
					continue
				}
				cmp := compareOptions(gd, wd)
				if i%16 == 0 && v == 0 {
					c20OracleSelfTest(r, wd)
				}
				for e := 0; e < cmp.sites-cmp.withOptions; e++ {
					r.Eval("")
				}
				for e := 0; e < cmp.withOptions; e++ {
					r.Eval(fmt.Sprint(sk, "\x00", f.GetName(), "\x00", e))
				}
				r.ClassN("g:elements-with-options-compared", int64(cmp.withOptions))
				for _, d := range cmp.diffs {
					kind := "c20.value-differs"
					if strings.Contains(d.Diff, "structure differs") {
						kind = "c20.structure-differs"
					}
					r.Violation(kind, elemKindOf(d.Elem)+" "+d.Kind+": "+gen.DiffClass(d.Diff), vid,
						map[string]any{"file": f.GetName(), "element": d.Elem, "diff compiled!=model": d.Diff, "source": src[f.GetName()]})
				}
				// unknown fields left inside compiled options (value not decodable with the model's schema)
				walkOptionSites(gd, func(s *optSite) {
					if s.Has {
						if at := hasUnknownDeep(s.Opts, s.Kind); at != "" {
							r.Violation("c20.undecodable-value", elemKindOf(s.Elem)+" "+at, vid, map[string]any{"file": f.GetName(), "element": s.Elem, "source": src[f.GetName()]})
						}
					}
				})
			}
			if i == 1 && v == 1 {
				r.Sample("generated-source-with-options", trunc(src[m.Names()[len(m.Names())-1]], 1800))
			}
		}
		if r.Want(id + "/m") {
			c20Mutants(r, id+"/m", m, anch)
		}
	})
}

// ---------------------------------------------------------------------------
// M: control block and rule-tagged bad statements
// ---------------------------------------------------------------------------

// probeTarget picks the model file the probe block is appended to.
func probeTarget(m *gen.Model) *descriptorpb.FileDescriptorProto {
	for i := len(m.Files) - 1; i >= 0; i-- {
		if m.Files[i].GetName() != optSchemaFile {
			return m.Files[i]
		}
	}
	return nil
}

// expectedControl is the expected MessageOptions of C20Probe in text format.
func expectedControl(filePkg, pkg string) string {
	q := func(n string) string {
		if filePkg == "" {
			return "[" + n + "]"
		}
		return "[" + filePkg + "." + n + "]"
	}
	return q("c20lim") + ` { i: 2147483647 u32: 4294967295 i64: -9223372036854775808 u64: 18446744073709551615 s32: -2147483648 fx: 4294967295 sf64: 9223372036854775807 e: OPT_ONE re: OPT_NEG re: OPT_ZERO re: OPT_BIG }
` + q("c20m") + ` { i: 1 i64: 9223372036854775807 u32: 0 in { next { x: -2147483648 } } [` + pkg + `.rep_ext]: 5 [` + pkg + `.rep_ext]: -6 }
` + q("c20r") + `: 1 ` + q("c20r") + `: 2147483647 ` + q("c20r") + `: -2147483648
` + q("c20s") + `: "abc"
` + q("c20tm") + ` { w: 3 }
`
}

func c20Mutants(r *vlib.Run, id string, m *gen.Model, anch map[string]anchorInfo) {
	pkg := schemaPkg(m)
	target := probeTarget(m)
	if pkg == "" || target == nil {
		return
	}
	src, err := m.Sources(nil)
	if err != nil {
		return
	}
	syntax := syntaxOfFile(target.GetSyntax())
	withEnumExt := syntax != "proto3"
	name := target.GetName()
	base := src[name]
	compile := func(stmts []string) (*gen.Outcome, string) {
		s2 := map[string]string{}
		for k, v := range src {
			s2[k] = v
		}
		s2[name] = probeSource(base, syntax, pkg, withEnumExt, stmts)
		return gen.Compile(s2, []string{name}, gen.Opts{}), s2[name]
	}
	// control
	ctl, ctlSrc := compile(nil)
	r.Eval(id + "\x00control\x00" + ctlSrc)
	if ctl.Panic != nil {
		r.Violation("compile.panic", "panic interpreting the control block: "+vlib.PanicSite(fmt.Sprint(ctl.Panic)), id, map[string]any{"source": ctlSrc, "panic": fmt.Sprint(ctl.Panic)})
		return
	}
	if !ctl.OK() {
		// every statement of the control block is an accept case by construction; the limits and the
		// enum-number-in-literal forms are anchored by R3 success cases of the same rules
		r.Violation("c20.rejects-valid-option", "control block: "+gen.ClassifyErr(ctl.ErrSummary()), id, map[string]any{"source": ctlSrc, "errors": ctl.ErrSummary()})
		return
	}
	got := gen.AllProtos(ctl.Files)[name]
	var others []*descriptorpb.FileDescriptorProto
	for _, f := range m.Files {
		if f.GetName() != name {
			others = append(others, f)
		}
	}
	stripped := proto.Clone(got).(*descriptorpb.FileDescriptorProto)
	stripped.SourceCodeInfo = nil
	reg, errs := gen.BuildFilesLenient(append(others, stripped))
	if len(errs) > 0 {
		r.Class("m:control-not-decodable (protodesc refuses the compiled probe file)")
		return
	}
	types := gen.TypesOf(reg)
	gd, err := decode(got, types)
	if err != nil {
		r.Inconclusive("decode control: " + err.Error())
		return
	}
	if bad := checkNoUninterpreted(got); len(bad) > 0 {
		r.Violation("c20.uninterpreted-left", "control block", id, map[string]any{"source": ctlSrc, "elements": bad})
	}
	var probe *descriptorpb.DescriptorProto
	for _, md := range gd.MessageType {
		if md.GetName() == "C20Probe" {
			probe = md
		}
	}
	if probe == nil {
		r.Violation("c20.structure-differs", "control block: message C20Probe missing", id, map[string]any{"source": ctlSrc})
		return
	}
	mo, _ := types.FindMessageByName("google.protobuf.MessageOptions")
	if mo == nil {
		r.Inconclusive("MessageOptions type not found")
		return
	}
	want := dynamicpb.NewMessage(mo.Descriptor())
	if err := (prototext.UnmarshalOptions{Resolver: types}).Unmarshal([]byte(expectedControl(target.GetPackage(), pkg)), want); err != nil {
		r.Inconclusive("expected control text: " + err.Error())
		return
	}
	gotOpts := dynamicpb.NewMessage(mo.Descriptor())
	if err := (proto.UnmarshalOptions{Resolver: types}).Unmarshal(gen.DetBytes(probe.GetOptions()), gotOpts); err != nil {
		r.Inconclusive("decode control options: " + err.Error())
		return
	}
	// the Any expansions are compared by content (the value is a serialized OptMsg); the type URL is kept as written
	for _, ax := range []struct {
		num    protoreflect.FieldNumber
		prefix string
		body   string
	}{{70011, "type.googleapis.com/", `i: 7 s: "x"`}, {70013, "type.googleprod.com/", `i: 8`}} {
		anyOK := false
		if xt, err := types.FindExtensionByNumber("google.protobuf.MessageOptions", ax.num); err == nil && gotOpts.Has(xt.TypeDescriptor()) {
			am := gotOpts.Get(xt.TypeDescriptor()).Message()
			url := am.Get(am.Descriptor().Fields().ByName("type_url")).String()
			val := am.Get(am.Descriptor().Fields().ByName("value")).Bytes()
			if omt, err := types.FindMessageByName(protoreflect.FullName(pkg + ".OptMsg")); err == nil {
				gotInner, wantInner := dynamicpb.NewMessage(omt.Descriptor()), dynamicpb.NewMessage(omt.Descriptor())
				e1 := (proto.UnmarshalOptions{Resolver: types}).Unmarshal(val, gotInner)
				e2 := (prototext.UnmarshalOptions{Resolver: types}).Unmarshal([]byte(ax.body), wantInner)
				if e1 == nil && e2 == nil && url == ax.prefix+pkg+".OptMsg" && gen.Diff(gotInner, wantInner) == "" {
					anyOK = true
				}
			}
			gotOpts.Clear(xt.TypeDescriptor())
		}
		if !anyOK {
			r.Violation("c20.value-differs", "control block: google.protobuf.Any expansion ("+ax.prefix+")", id, map[string]any{"source": ctlSrc, "options": fmt.Sprint(probe.GetOptions())})
		}
	}
	if d := gen.Diff(gotOpts, want); d != "" {
		r.Violation("c20.value-differs", "control block: "+gen.DiffClass(d), id, map[string]any{"source": ctlSrc, "diff compiled!=expected": d})
	}
	r.Class("m:control-values-compared")
	// field option with matching target type
	if len(probe.Field) != 1 || probe.Field[0].GetOptions() == nil {
		r.Violation("c20.value-differs", "control block: option with matching target type missing on field", id, map[string]any{"source": ctlSrc})
	} else {
		fo := probe.Field[0].GetOptions().ProtoReflect()
		ok := false
		fo.Range(func(fd protoreflect.FieldDescriptor, v protoreflect.Value) bool {
			if fd.Number() == 70010 && fd.Kind() == protoreflect.Int32Kind && v.Int() == 5 {
				ok = true
			}
			return true
		})
		if !ok {
			r.Violation("c20.value-differs", "control block: (c20tf) on field", id, map[string]any{"source": ctlSrc, "options": fmt.Sprint(probe.Field[0].GetOptions())})
		}
	}

	ms := optMutants(pkg)
	if withEnumExt {
		ms = append(ms, enumExtMutants()...)
	}
	if syntax == "proto2" {
		ms = append(ms, reqMutants(target.GetPackage())...)
	}
	for _, mu := range ms {
		mid := id + "/" + mu.ID()
		if !r.Want(mid) {
			continue
		}
		// how the verdict is decided
		oracle := "observed"
		switch {
		case mu.ProtocAccepts:
			oracle = "observed (R3 records that protoc accepts: documented divergence)"
			if a := anch[mu.Anchor]; !a.Found || !a.Diff {
				oracle = "observed"
			}
		case mu.Anchor != "":
			if a := anch[mu.Anchor]; a.Found && !a.ProtocAccepts {
				oracle = "r3"
			}
		case mu.Literal != "":
			if rej, err := prototextRejects(m.Types, pkg+".OptMsg", mu.Literal); err == nil && rej {
				oracle = "prototext"
			}
		}
		out, msrc := compile(append(append([]string(nil), mu.Good...), mu.Bad))
		key := ""
		if strings.HasPrefix(oracle, "observed") {
			key = "" // not decided: trivial for the count
		} else {
			key = mid + "\x00" + msrc
		}
		r.Eval(key)
		w := map[string]any{"statement": mu.Bad, "preceding": mu.Good, "class": mu.Class, "form": mu.Form, "anchor": mu.Anchor, "oracle": oracle, "source": msrc}
		if out.Panic != nil {
			r.Violation("compile.panic", "panic on bad option statement "+mu.ID()+": "+vlib.PanicSite(fmt.Sprint(out.Panic)), mid, w)
			continue
		}
		verdict := "rejected"
		if out.OK() {
			verdict = "accepted"
		}
		r.Class(fmt.Sprintf("m:%s [%s] -> %s", mu.ID(), strings.SplitN(oracle, " ", 2)[0], verdict))
		if strings.HasPrefix(oracle, "observed") {
			continue
		}
		if out.OK() {
			r.Violation("c20.accepts-invalid-option", mu.ID()+" (oracle "+oracle+")", mid, w)
			continue
		}
		r.Class("m:error-shape " + mu.ID() + ": " + errTail(out.ErrSummary()))
	}
}

// c20Anchors replays the R3 cases used as anchors: the compiler's verdict on
// a protoc-verified option statement must be protoc's (unless the table
// itself documents the divergence).
func c20Anchors(r *vlib.Run, anch map[string]anchorInfo) {
	if !r.Mine(0) {
		return
	}
	names := map[string]bool{}
	for _, mu := range append(optMutants("p"), enumExtMutants()...) {
		if mu.Anchor != "" {
			names[mu.Anchor] = true
		}
	}
	for _, extra := range []string{"success_any_message_literal", "success_enum_in_msg_literal_using_negative_number", "success_large_negative_integer", "success_large_positive_integer", "success_inf_nan_in_option_value"} {
		names[extra] = true
	}
	missing := []string{}
	for _, n := range sortedKeys(names) {
		a := anch[n]
		if !a.Found {
			missing = append(missing, n)
			continue
		}
		id := "anchor/" + n
		if !r.Want(id) {
			continue
		}
		order := a.Case.InputOrder
		if len(order) == 0 {
			order = gen.SortedNames(a.Case.Input)
		}
		out := gen.Compile(a.Case.Input, order, gen.Opts{})
		r.Eval(id)
		if out.Panic != nil {
			r.Violation("compile.panic", "panic on R3 anchor "+n, id, map[string]any{"input": a.Case.Input})
			continue
		}
		if out.OK() != a.ProtocAccepts {
			if a.Diff {
				r.Class("anchor:documented divergence (diff_with_protoc)")
				continue
			}
			r.Violation("c20.anchor-verdict-differs", n, id, map[string]any{"input": a.Case.Input, "protoc accepts": a.ProtocAccepts, "errors": out.ErrSummary()})
			continue
		}
		r.Class("anchor:verdict agrees with protoc")
	}
	r.Extra("anchors_missing_from_corpus", missing)
}

// ---------------------------------------------------------------------------
// R2 / R1: recorded protoc values
// ---------------------------------------------------------------------------

func reportRecorded(r *vlib.Run, id, where, file string, gd, wd *descriptorpb.FileDescriptorProto, witness map[string]any) {
	cmp := compareOptions(gd, wd)
	for e := 0; e < cmp.sites-cmp.withOptions; e++ {
		r.Eval("")
	}
	for e := 0; e < cmp.withOptions; e++ {
		r.Eval(fmt.Sprint(id, "\x00", e))
	}
	r.ClassN(where+":elements-with-options-compared", int64(cmp.withOptions))
	for _, d := range cmp.diffs {
		kind := "c20.value-differs"
		if strings.Contains(d.Diff, "structure differs") {
			kind = "c20.structure-differs"
		}
		w := map[string]any{"file": file, "element": d.Elem, "diff compiled!=protoc": d.Diff}
		for k, v := range witness {
			w[k] = v
		}
		r.Violation(kind, where+": "+elemKindOf(d.Elem)+" "+d.Kind+": "+gen.DiffClass(d.Diff), id, w)
	}
}

func c20R2(r *vlib.Run) {
	w, err := loadR2World()
	if err != nil {
		r.Inconclusive("R2: " + err.Error())
		return
	}
	r.Par(len(w.entries), func(i int) {
		e := w.entries[i]
		id := "r2/" + e.Name
		if e.Source == "" || !r.Want(id) {
			return
		}
		if _, bad := w.refused[e.Name]; bad {
			r.Class("r2:skipped (go runtime refuses protoc's descriptor)")
			return
		}
		if e.Desc.GetEdition() > descriptorpb.Edition_EDITION_2023 {
			r.Class("r2:skipped (edition 2024, refused as documented)")
			return
		}
		out := gen.Compile(w.closure(e.Name), []string{e.Name}, gen.Opts{})
		if out.Panic != nil {
			r.Eval(id)
			r.Violation("compile.panic", "panic compiling a protoc-accepted corpus file", id, map[string]any{"file": e.Name, "panic": fmt.Sprint(out.Panic)})
			return
		}
		if !out.OK() {
			r.Eval(id)
			if isOptionError(out.ErrSummary()) {
				r.Violation("c20.rejects-valid-option", "R2: "+gen.ClassifyErr(out.ErrSummary()), id, map[string]any{"file": e.Name, "errors": out.ErrSummary()})
			} else {
				r.Class("r2:rejected for a reason outside options (decided by C01)")
			}
			return
		}
		got := gen.Protos(out.Files)[e.Name]
		if bad := checkNoUninterpreted(got); len(bad) > 0 {
			r.Violation("c20.uninterpreted-left", "R2 "+elemKindOf(strings.SplitN(bad[0], "#", 2)[0]), id, map[string]any{"file": e.Name, "elements": bad})
		}
		// protoc's recorded output has source-retention options stripped: reference strip on the compiled side
		gd, err1 := gen.RefStrip(got, w.types)
		wd, err2 := gen.Normalize(e.Desc, w.types)
		if err1 != nil || err2 != nil {
			r.Inconclusive(fmt.Sprint("R2 decode ", e.Name, ": ", err1, err2))
			return
		}
		reportRecorded(r, id, "R2", e.Name, gd, wd, nil)
		if strings.Contains(e.Name, "retention") {
			r.Sample("r2-recorded-options-file", e.Name)
		}
	})
}

func c20R1(r *vlib.Run) {
	sets, src, err := gen.LoadR1()
	if err != nil {
		r.Inconclusive("R1: " + err.Error())
		return
	}
	for si, set := range sets {
		if !strings.HasPrefix(set.Name, "options/") || !r.Mine(si) {
			continue
		}
		// the options/ directory is its own import root and overrides google/protobuf/descriptor.proto
		srcs := map[string]string{}
		for k, v := range src {
			if strings.HasPrefix(k, "options/") {
				srcs[strings.TrimPrefix(k, "options/")] = v
			}
		}
		reg, refused := gen.BuildFilesLenient(set.Files)
		types := gen.TypesOf(reg)
		for _, want := range set.Files {
			id := "r1/" + set.Name + "/" + want.GetName()
			if _, ok := srcs[want.GetName()]; !ok || !r.Want(id) {
				continue
			}
			if _, bad := refused[want.GetName()]; bad {
				r.Class("r1:skipped (go runtime refuses protoc's descriptor)")
				continue
			}
			out := gen.Compile(srcs, []string{want.GetName()}, gen.Opts{})
			if !out.OK() {
				r.Eval(id)
				if out.Panic != nil {
					r.Violation("compile.panic", "panic compiling an R1 options file", id, map[string]any{"file": want.GetName(), "panic": fmt.Sprint(out.Panic)})
				} else if isOptionError(out.ErrSummary()) {
					r.Violation("c20.rejects-valid-option", "R1: "+gen.ClassifyErr(out.ErrSummary()), id, map[string]any{"set": set.Name, "file": want.GetName(), "errors": out.ErrSummary()})
				} else {
					r.Class("r1:rejected for a reason outside options (decided by C01)")
				}
				continue
			}
			got := gen.Protos(out.Files)[want.GetName()]
			if bad := checkNoUninterpreted(got); len(bad) > 0 {
				r.Violation("c20.uninterpreted-left", "R1 "+elemKindOf(strings.SplitN(bad[0], "#", 2)[0]), id, map[string]any{"file": want.GetName(), "elements": bad})
			}
			gd, err1 := gen.Normalize(got, types)
			wd, err2 := gen.Normalize(want, types)
			if err1 != nil || err2 != nil {
				r.Inconclusive(fmt.Sprint("R1 decode ", want.GetName(), ": ", err1, err2))
				continue
			}
			reportRecorded(r, id, "R1", want.GetName(), gd, wd, map[string]any{"set": set.Name})
		}
	}
}

// errTail is the rule-specific tail of the first error of a summary (element
// and option names, which vary with the model, are dropped).
func errTail(summary string) string {
	c := gen.ClassifyErr(summary)
	if i := strings.LastIndex(c, "): "); i >= 0 {
		c = c[i+3:]
	} else if i := strings.Index(c, ": "); i >= 0 && strings.HasPrefix(c, "message ") {
		c = c[i+2:]
	}
	var sb strings.Builder
	for _, w := range strings.Fields(c) {
		if strings.Contains(w, ".") && !strings.HasSuffix(w, ".") {
			w = "<name>"
		}
		sb.WriteString(w)
		sb.WriteByte(' ')
	}
	return strings.TrimSpace(sb.String())
}

// c20OracleSelfTest changes one option value of a decoded file and requires
// the comparison to notice.
func c20OracleSelfTest(r *vlib.Run, want *descriptorpb.FileDescriptorProto) {
	mut := proto.Clone(want).(*descriptorpb.FileDescriptorProto)
	changed := ""
	walkOptionSites(mut, func(s *optSite) {
		if changed != "" || !s.Has {
			return
		}
		s.Opts.Range(func(fd protoreflect.FieldDescriptor, v protoreflect.Value) bool {
			switch {
			case fd.IsList() && v.List().Len() > 0:
				v.List().Truncate(v.List().Len() - 1)
				if v.List().Len() == 0 {
					s.Opts.Clear(fd)
				}
				changed = "list shortened"
			case fd.IsMap():
				return true
			case fd.Kind() == protoreflect.BoolKind:
				s.Opts.Set(fd, protoreflect.ValueOfBool(!v.Bool()))
				changed = "bool flipped"
			case fd.Kind() == protoreflect.Int32Kind || fd.Kind() == protoreflect.Sint32Kind || fd.Kind() == protoreflect.Sfixed32Kind:
				s.Opts.Set(fd, protoreflect.ValueOfInt32(int32(v.Int())^1))
				changed = "int32 low bit flipped"
			case fd.Kind() == protoreflect.StringKind:
				s.Opts.Set(fd, protoreflect.ValueOfString(v.String()+"x"))
				changed = "string extended"
			default:
				s.Opts.Clear(fd)
				changed = "field cleared"
			}
			return false
		})
	})
	if changed == "" {
		return
	}
	if len(compareOptions(mut, want).diffs) == 0 {
		r.Inconclusive("C20 oracle self-test failed: " + changed + " not noticed by the comparison")
		return
	}
	r.Class("oracle self-test passed (a perturbed option value is noticed)")
}
