package stableopt

import (
	"testing"

	"github.com/bufbuild/protocompile/internal/verifmon/vlib"
)

func TestC21(t *testing.T) {
	r := vlib.Start(t, "C21")
	defer r.Finish()
}
