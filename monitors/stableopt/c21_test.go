package stableopt

import (
	"bytes"
	"fmt"
	"regexp"
	"strings"
	"testing"

	"google.golang.org/protobuf/proto"
	"google.golang.org/protobuf/reflect/protoreflect"
	"google.golang.org/protobuf/types/descriptorpb"

	"github.com/bufbuild/protocompile/internal/verifmon/gen"
	"github.com/bufbuild/protocompile/internal/verifmon/vlib"
	"github.com/bufbuild/protocompile/linker"
	"github.com/bufbuild/protocompile/options"
	"github.com/bufbuild/protocompile/parser"
	"github.com/bufbuild/protocompile/reporter"
)

// C21 — lenient and unlinked interpretation agree with strict interpretation.
//
// One parse per file; parser.Clone per mode; strict = linker.Link +
// options.InterpretOptions is the reference.
//
//  (a) strict succeeds  =>  Link + InterpretOptionsLenient gives identical options.
//  (b) InterpretUnlinkedOptions: every statement it leaves is byte-identical to
//      the statement before; every value it sets is strict's value; and, per
//      statement, either the statement is gone and its whole effect is there, or
//      it is still there and none of its effect is: decided by interpreting
//      STRICTLY a clone from which exactly the kept statements were removed and
//      comparing every options message (and default/json_name) with it.
//  (c) lenient on statements strict rejects: no panic, the statement stays in
//      uninterpreted_option verbatim.

func TestC21(t *testing.T) {
	r := vlib.Start(t, "C21")
	defer r.Finish()
	r.Extra("rule", "every file of every generated model (custom options, features, default/json_name) in 2 renderings, plus editions files with an added `option features.(pb.go)…` statement, plus every R2 corpus file with source: "+
		"parsed once, cloned per mode, interpreted strict / lenient(linked) / unlinked / strict-on-the-clone-without-the-statements-unlinked-kept; one evaluation = one (file, relation) check; "+
		"non-trivial = the file has >=1 option statement; distinct = (source, relation). Rejected statements: the C20 rule-tagged bad statements, each interpreted leniently on the linked file.")
	r.Extra("assumptions", []string{
		"strict interpretation (InterpretOptions on a linked clone of the same parse) is the reference; nothing about protoc is assumed",
		"deterministic proto marshalling is a faithful identity of an uninterpreted option statement",
	})
	c21Fixed(r)
	c21Generated(r)
	c21R2(r)
}

var c21Fixtures = []struct{ name, src string }{
	// minimal witness: a standard option path that continues into an extension the unlinked pass cannot resolve
	{"features-ext-path", "edition = \"2023\";\nimport \"google/protobuf/go_features.proto\";\noption features.(pb.go).api_level = API_OPAQUE;\nmessage M { int32 a = 1; }\n"},
	{"features-ext-path-on-message", "edition = \"2023\";\nimport \"google/protobuf/go_features.proto\";\nmessage M { option features.(pb.go).api_level = API_OPAQUE; option deprecated = true; int32 a = 1 [features.field_presence = IMPLICIT]; }\n"},
	{"features-literal-with-ext", "edition = \"2023\";\nimport \"google/protobuf/go_features.proto\";\noption features = { field_presence: IMPLICIT [pb.go] { api_level: API_OPAQUE } };\nmessage M { int32 a = 1; }\n"},
	{"pseudo-options", "syntax = \"proto2\";\nenum E { A = 1; B = 2; }\nmessage M { optional E e = 1 [default = B, json_name = \"ee\", deprecated = true]; optional int32 i = 2 [default = -7]; optional string s = 3 [json_name = \"S\", ctype = CORD]; }\n"},
	{"custom-and-standard", "syntax = \"proto2\";\nimport \"google/protobuf/descriptor.proto\";\nextend google.protobuf.FieldOptions { repeated int32 x = 50000; }\nmessage M { optional int32 i = 1 [(x) = 1, deprecated = true, (x) = 2 ]; }\n"},
}

// c21Fixed: small fixed files, one per way the unlinked pass can fail to interpret a statement.
func c21Fixed(r *vlib.Run) {
	if !r.Mine(0) {
		return
	}
	for _, fx := range c21Fixtures {
		id := "fixed/" + fx.name
		if !r.Want(id) {
			continue
		}
		res0, err := parseOnce("c21.proto", fx.src)
		if err != nil {
			r.Inconclusive("fixed input does not parse: " + err.Error())
			continue
		}
		deps, ok := compileDeps(map[string]string{"c21.proto": fx.src}, res0)
		if !ok {
			r.Inconclusive("fixed input: dependencies rejected")
			continue
		}
		e := &c21Env{r: r, id: id, name: "c21.proto", src: fx.src, deps: deps, res0: res0}
		if e.checkFile() {
			r.Class("fixed input checked")
		}
	}
}

func parseOnce(name, src string) (parser.Result, error) {
	h := reporter.NewHandler(nil)
	fn, err := parser.Parse(name, strings.NewReader(src), h)
	if err != nil {
		return nil, err
	}
	return parser.ResultFromAST(fn, true, h)
}

// siteStmts lists, per options site (in walk order), the encoded uninterpreted statements.
func siteStmts(fd *descriptorpb.FileDescriptorProto) (sites []*optSite, stmts [][][]byte) {
	walkOptionSites(fd, func(s *optSite) {
		var l [][]byte
		if s.Has {
			uf := s.Opts.Descriptor().Fields().ByName("uninterpreted_option")
			ul := s.Opts.Get(uf).List()
			for i := 0; i < ul.Len(); i++ {
				l = append(l, gen.DetBytes(ul.Get(i).Message().Interface()))
			}
		}
		sites = append(sites, s)
		stmts = append(stmts, l)
	})
	return
}

// interpretedPart returns a copy of the options of a site without uninterpreted_option (nil if absent).
func interpretedPart(s *optSite) proto.Message {
	if !s.Has {
		return nil
	}
	c := proto.Clone(s.Opts.Interface())
	c.ProtoReflect().Clear(c.ProtoReflect().Descriptor().Fields().ByName("uninterpreted_option"))
	return c
}

func isEmpty(m proto.Message) bool {
	if m == nil {
		return true
	}
	empty := true
	m.ProtoReflect().Range(func(protoreflect.FieldDescriptor, protoreflect.Value) bool { empty = false; return false })
	return empty && len(m.ProtoReflect().GetUnknown()) == 0
}

// subsetOf checks that everything set in u is set, with an equal value, in s
// (messages field-wise, lists as subsequences, maps key-wise). "" = holds.
func subsetOf(path string, u, s protoreflect.Message) string {
	var bad string
	u.Range(func(fd protoreflect.FieldDescriptor, uv protoreflect.Value) bool {
		p := path + "." + string(fd.Name())
		if fd.IsExtension() {
			p = path + ".(" + string(fd.FullName()) + ")"
		}
		sfd := fd
		if s.Descriptor() != u.Descriptor() {
			// strict may hold the options in a message of another Go type with the same schema
			sfd = s.Descriptor().Fields().ByNumber(fd.Number())
		}
		if sfd == nil || !s.Has(sfd) {
			bad = p + ": set by unlinked interpretation but absent from strict's options"
			return false
		}
		sv := s.Get(sfd)
		switch {
		case fd.IsMap():
			uv.Map().Range(func(k protoreflect.MapKey, v protoreflect.Value) bool {
				if !sv.Map().Has(k) {
					bad = fmt.Sprintf("%s[%v]: absent from strict's map", p, k.Interface())
					return false
				}
				if fd.MapValue().Message() != nil {
					bad = subsetOf(fmt.Sprintf("%s[%v]", p, k.Interface()), v.Message(), sv.Map().Get(k).Message())
				} else if !v.Equal(sv.Map().Get(k)) {
					bad = fmt.Sprintf("%s[%v]: %v != strict %v", p, k.Interface(), v.Interface(), sv.Map().Get(k).Interface())
				}
				return bad == ""
			})
		case fd.IsList():
			ul, sl := uv.List(), sv.List()
			j := 0
			for i := 0; i < ul.Len(); i++ {
				found := false
				for ; j < sl.Len() && !found; j++ {
					if fd.Message() != nil {
						found = subsetOf(p, ul.Get(i).Message(), sl.Get(j).Message()) == ""
					} else {
						found = ul.Get(i).Equal(sl.Get(j))
					}
				}
				if !found {
					bad = fmt.Sprintf("%s[%d]: element not found (in order) in strict's list", p, i)
					break
				}
			}
		case fd.Message() != nil:
			bad = subsetOf(p, uv.Message(), sv.Message())
		default:
			if !uv.Equal(sv) {
				bad = fmt.Sprintf("%s: %v != strict %v", p, uv.Interface(), sv.Interface())
			}
		}
		return bad == ""
	})
	return bad
}

// customNames matches the parenthesised extension names of generated schemas in a diff class.
var customNames = regexp.MustCompile(`\([A-Za-z0-9_.]+\)`)

type c21Env struct {
	r    *vlib.Run
	id   string
	name string
	src  string
	deps linker.Files
	res0 parser.Result
}

func strictOn(p parser.Result, deps linker.Files) (linker.Result, error, any) {
	var lr linker.Result
	var err error
	pv, _ := vlib.Try(func() {
		h := reporter.NewHandler(nil)
		lr, err = linker.Link(p, deps, nil, h)
		if err != nil {
			return
		}
		_, err = options.InterpretOptions(lr, h)
	})
	return lr, err, pv
}

// checkFile runs the three relations on one accepted file. It returns false if strict does not accept the file.
func (e *c21Env) checkFile() bool {
	r := e.r
	witness := func(extra map[string]any) map[string]any {
		w := map[string]any{"file": e.name, "source": e.src}
		for k, v := range extra {
			w[k] = v
		}
		return w
	}
	before := gen.DetBytes(e.res0.FileDescriptorProto())
	nstmts := 0
	_, st0 := siteStmts(e.res0.FileDescriptorProto())
	for _, l := range st0 {
		nstmts += len(l)
	}
	key := func(rel string) string {
		if nstmts == 0 {
			return ""
		}
		return e.src + "\x00" + rel
	}

	// strict
	pS := parser.Clone(e.res0)
	lS, err, pv := strictOn(pS, e.deps)
	if pv != nil {
		r.Violation("c21.panic", "strict interpretation panics", e.id, witness(map[string]any{"panic": fmt.Sprint(pv)}))
		return false
	}
	if err != nil {
		r.Class("strict rejects the file (not in the domain): " + trunc(gen.ClassifyErr(err.Error()), 80))
		return false
	}
	strictFd := lS.FileDescriptorProto()

	// (a) lenient on the same linked file
	pL := parser.Clone(e.res0)
	var lL linker.Result
	var lerr error
	pv, stack := vlib.Try(func() {
		lL, lerr = linker.Link(pL, e.deps, nil, reporter.NewHandler(nil))
		if lerr == nil {
			_, lerr = options.InterpretOptionsLenient(lL)
		}
	})
	r.Eval(key("lenient"))
	switch {
	case pv != nil:
		r.Violation("c21.panic", "lenient interpretation panics on an accepted file: "+vlib.PanicSite(stack), e.id, witness(map[string]any{"panic": fmt.Sprint(pv), "stack": trunc(stack, 3000)}))
	case lerr != nil:
		r.Violation("c21.lenient-fails", "lenient interpretation fails where strict succeeds: "+trunc(gen.ClassifyErr(lerr.Error()), 100), e.id, witness(map[string]any{"error": lerr.Error()}))
	default:
		lfd := lL.FileDescriptorProto()
		if !bytes.Equal(gen.DetBytes(lfd), gen.DetBytes(strictFd)) {
			if proto.Equal(lfd, strictFd) {
				r.Class("lenient: equal but encoded differently (not a difference of options)")
			} else {
				d := gen.Diff(lfd, strictFd)
				r.Violation("c21.lenient-differs", gen.DiffClass(d), e.id, witness(map[string]any{"diff lenient!=strict": d}))
			}
		}
		r.Class("relation (a) lenient==strict checked")
	}

	// (b) unlinked
	pU := parser.Clone(e.res0)
	var uerr error
	pv, stack = vlib.Try(func() { _, uerr = options.InterpretUnlinkedOptions(pU) })
	r.Eval(key("unlinked"))
	if pv != nil {
		r.Violation("c21.panic", "unlinked interpretation panics: "+vlib.PanicSite(stack), e.id, witness(map[string]any{"panic": fmt.Sprint(pv), "stack": trunc(stack, 3000)}))
		return true
	}
	if uerr != nil {
		r.Class("unlinked: returns an error (observed): " + trunc(gen.ClassifyErr(uerr.Error()), 80))
	}
	if !bytes.Equal(before, gen.DetBytes(e.res0.FileDescriptorProto())) {
		r.Violation("c21.clone-not-independent", "interpreting clones changed the original parse result", e.id, witness(nil))
	}
	uSites, uStmts := siteStmts(pU.FileDescriptorProto())
	sSites, _ := siteStmts(strictFd)
	if len(uSites) != len(st0) || len(sSites) != len(st0) {
		r.Inconclusive("C21: option sites differ between clones of one parse")
		return true
	}
	kept := make([]map[int]bool, len(st0))
	gone, keptN := 0, 0
	verbatim := true
	for i := range st0 {
		kept[i] = map[int]bool{}
		j := 0
		for _, b := range uStmts[i] {
			found := false
			for ; j < len(st0[i]) && !found; j++ {
				if bytes.Equal(st0[i][j], b) {
					found = true
					kept[i][j] = true
				}
			}
			if !found {
				verbatim = false
				r.Violation("c21.unlinked-statement-altered", elemKindOf(uSites[i].Elem)+" "+uSites[i].Kind+": a remaining uninterpreted_option is not one of the original statements (or is out of order)", e.id,
					witness(map[string]any{"element": uSites[i].Elem, "remaining": fmt.Sprint(uSites[i].Opts.Interface())}))
				break
			}
		}
		keptN += len(kept[i])
		gone += len(st0[i]) - len(kept[i])
	}
	r.ClassN("unlinked: statements kept verbatim", int64(keptN))
	r.ClassN("unlinked: statements interpreted", int64(gone))
	if !verbatim {
		return true
	}
	// values only equal to strict's
	for i, us := range uSites {
		ip := interpretedPart(us)
		if isEmpty(ip) {
			continue
		}
		if !sSites[i].Has {
			r.Violation("c21.unlinked-value-differs", elemKindOf(us.Elem)+" "+us.Kind+": options set by unlinked interpretation, none by strict", e.id, witness(map[string]any{"element": us.Elem, "unlinked": fmt.Sprint(ip)}))
			continue
		}
		if d := subsetOf("", ip.ProtoReflect(), sSites[i].Opts); d != "" {
			r.Violation("c21.unlinked-value-differs", us.Kind+": "+customNames.ReplaceAllString(gen.DiffClass(d+": x"), "(custom option)"), e.id, witness(map[string]any{"element": us.Elem, "detail": d}))
		}
	}
	// statement-level accounting against strict interpretation of exactly the statements that are gone
	pV := parser.Clone(e.res0)
	vi := 0
	walkOptionSites(pV.FileDescriptorProto(), func(s *optSite) {
		i := vi
		vi++
		if !s.Has || len(kept[i]) == 0 {
			return
		}
		uf := s.Opts.Descriptor().Fields().ByName("uninterpreted_option")
		l := s.Opts.Mutable(uf).List()
		var keep []protoreflect.Value
		for j := 0; j < l.Len(); j++ {
			if !kept[i][j] {
				keep = append(keep, l.Get(j))
			}
		}
		l.Truncate(0)
		for _, v := range keep {
			l.Append(v)
		}
	})
	lV, verr, pv := strictOn(pV, e.deps)
	r.Eval(key("accounting"))
	if pv != nil || verr != nil {
		r.Class("accounting: strict interpretation of the interpreted subset fails (observed, not decided): " + trunc(gen.ClassifyErr(fmt.Sprint(verr, pv)), 80))
		return true
	}
	vSites, _ := siteStmts(lV.FileDescriptorProto())
	for i, us := range uSites {
		ui, vi := interpretedPart(us), interpretedPart(vSites[i])
		if isEmpty(ui) && isEmpty(vi) {
			// an options message that exists but is empty and one that is absent reflect the same statements (none)
		} else if ui == nil || vi == nil || !proto.Equal(ui, vi) {
			d := "options absent on one side"
			if ui != nil && vi != nil {
				d = gen.Diff(ui, vi)
			}
			what := "reflects part of a statement it kept uninterpreted, or lacks part of one it removed"
			sig := us.Kind + ": " + customNames.ReplaceAllString(gen.DiffClass(d), "(custom option)")
			if at := emptyMessageLeft(ui, vi); at != "" {
				// the signature of one specific defect, whatever the element kind
				sig = "empty message left at `" + at + "` by a path statement that stayed uninterpreted"
			}
			r.Violation("c21.unlinked-half-populated", sig, e.id,
				witness(map[string]any{"element": us.Elem, "what": what, "unlinked (interpreted part)": fmt.Sprint(ui), "strict on exactly the removed statements": fmt.Sprint(vi), "diff": d,
					"kept statements": fmt.Sprint(us.Opts.Get(us.Opts.Descriptor().Fields().ByName("uninterpreted_option")).List().Len())}))
		}
		if us.Kind == "FieldOptions" {
			uf, _ := us.Parent.Interface().(*descriptorpb.FieldDescriptorProto)
			vf, _ := vSites[i].Parent.Interface().(*descriptorpb.FieldDescriptorProto)
			if uf != nil && vf != nil {
				if (uf.DefaultValue == nil) != (vf.DefaultValue == nil) || uf.GetDefaultValue() != vf.GetDefaultValue() {
					r.Violation("c21.unlinked-half-populated", "field default_value", e.id, witness(map[string]any{"element": us.Elem, "unlinked": uf.DefaultValue, "strict on removed statements": vf.DefaultValue}))
				}
				if (uf.JsonName == nil) != (vf.JsonName == nil) || uf.GetJsonName() != vf.GetJsonName() {
					r.Violation("c21.unlinked-half-populated", "field json_name", e.id, witness(map[string]any{"element": us.Elem, "unlinked": uf.JsonName, "strict on removed statements": vf.JsonName}))
				}
			}
		}
	}
	r.Class("relation (b) unlinked accounting checked")
	return true
}

// emptyMessageLeft reports the field path at which u has an empty message
// that v lacks, when that is the only kind of difference between them.
func emptyMessageLeft(u, v proto.Message) string {
	if u == nil {
		return ""
	}
	var um, vm protoreflect.Message = u.ProtoReflect(), nil
	if v != nil {
		vm = v.ProtoReflect()
	}
	at := ""
	var rec func(path string, a, b protoreflect.Message) bool
	rec = func(path string, a, b protoreflect.Message) bool {
		ok := true
		a.Range(func(fd protoreflect.FieldDescriptor, av protoreflect.Value) bool {
			p := string(fd.Name())
			if path != "" {
				p = path + "." + p
			}
			if fd.Message() != nil && !fd.IsList() && !fd.IsMap() {
				if b == nil || !b.Has(fd) {
					if isEmpty(av.Message().Interface()) {
						if at == "" {
							at = p
						}
						return true
					}
					ok = false
					return false
				}
				ok = rec(p, av.Message(), b.Get(fd).Message())
				return ok
			}
			if b == nil || !b.Has(fd) || !av.Equal(b.Get(fd)) {
				ok = false
			}
			return ok
		})
		return ok
	}
	if !rec("", um, vm) {
		return ""
	}
	return at
}

func compileDeps(src map[string]string, res parser.Result) (linker.Files, bool) {
	deps := res.FileDescriptorProto().GetDependency()
	if len(deps) == 0 {
		return nil, true
	}
	out := gen.Compile(src, deps, gen.Opts{})
	return out.Files, out.OK()
}

const goFeaturesStmt = "import \"google/protobuf/go_features.proto\";\noption features.(pb.go).api_level = API_OPAQUE;\n"

func c21Generated(r *vlib.Run) {
	n := r.N(220, 3500)
	r.Par(n, func(i int) {
		id := fmt.Sprintf("g/%d", i)
		if !r.Want(id) {
			return
		}
		rng := r.Rng(id)
		m, err := gen.GenModel(rng, optConfig(rng, i))
		if err != nil {
			r.Class("g:model-not-decided (refused by protodesc)")
			return
		}
		for v := 0; v < 2; v++ {
			vid := fmt.Sprintf("%s/r%d", id, v)
			if !r.Want(vid) {
				continue
			}
			var stf func(int) *gen.Style
			if v > 0 {
				stf = styleFn(r.Rng(vid), "st")
			}
			src, err := m.Sources(stf)
			if err != nil {
				r.Inconclusive("render: " + err.Error())
				continue
			}
			for _, f := range m.Files {
				name := f.GetName()
				variants := []string{src[name]}
				if f.GetSyntax() == "editions" && v == 0 && !strings.Contains(src[name], "go_features") {
					// a standard option whose path continues into an extension: strict accepts, unlinked cannot resolve (pb.go)
					if k := strings.Index(src[name], "\n"); k >= 0 {
						variants = append(variants, src[name][:k+1]+goFeaturesStmt+src[name][k+1:])
					}
				}
				for vi, text := range variants {
					fid := fmt.Sprintf("%s/%s/%d", vid, name, vi)
					if !r.Want(fid) {
						continue
					}
					res0, err := parseOnce(name, text)
					if err != nil {
						r.Class("g:parse fails (decided by C01)")
						continue
					}
					s2 := src
					if vi > 0 {
						s2 = map[string]string{}
						for k, v := range src {
							s2[k] = v
						}
						s2[name] = text
					}
					deps, ok := compileDeps(s2, res0)
					if !ok {
						r.Class("g:dependencies rejected (decided by C01)")
						continue
					}
					e := &c21Env{r: r, id: fid, name: name, src: text, deps: deps, res0: res0}
					if e.checkFile() && vi > 0 {
						r.Class("g:variant with features.(pb.go) accepted by strict")
					}
				}
			}
			if i == 3 && v == 1 {
				r.Sample("generated-source", trunc(src[m.Names()[len(m.Names())-1]], 1500))
			}
		}
		if r.Want(id + "/m") {
			c21Rejected(r, id+"/m", m)
		}
	})
}

// c21Rejected interprets leniently the linked file carrying one statement
// strict rejects: no panic, the statement stays verbatim.
func c21Rejected(r *vlib.Run, id string, m *gen.Model) {
	pkg := schemaPkg(m)
	target := probeTarget(m)
	if pkg == "" || target == nil {
		return
	}
	src, err := m.Sources(nil)
	if err != nil {
		return
	}
	syntax := syntaxOfFile(target.GetSyntax())
	withEnumExt := syntax != "proto3"
	name := target.GetName()
	ctlSrc := probeSource(src[name], syntax, pkg, withEnumExt, nil)
	ctl0, err := parseOnce(name, ctlSrc)
	if err != nil {
		r.Class("m:control does not parse")
		return
	}
	s2 := map[string]string{}
	for k, v := range src {
		s2[k] = v
	}
	s2[name] = ctlSrc
	deps, ok := compileDeps(s2, ctl0)
	if !ok {
		r.Class("m:dependencies rejected")
		return
	}
	if _, err, pv := strictOn(parser.Clone(ctl0), deps); err != nil || pv != nil {
		r.Class("m:control rejected by strict (decided by C20)")
		return
	}
	ms := optMutants(pkg)
	if withEnumExt {
		ms = append(ms, enumExtMutants()...)
	}
	for _, mu := range ms {
		mid := id + "/" + mu.ID()
		if !r.Want(mid) {
			continue
		}
		text := probeSource(src[name], syntax, pkg, withEnumExt, append(append([]string(nil), mu.Good...), mu.Bad))
		w := map[string]any{"statement": mu.Bad, "preceding": mu.Good, "class": mu.ID(), "source": text}
		res0, err := parseOnce(name, text)
		if err != nil {
			r.Class("m:" + mu.ID() + ": rejected by the parser (not an interpretation case)")
			continue
		}
		// strict must reject, and in the interpreter (not the linker)
		pS := parser.Clone(res0)
		h := reporter.NewHandler(nil)
		lS, lerr := linker.Link(pS, deps, nil, h)
		if lerr != nil {
			r.Class("m:" + mu.ID() + ": rejected by the linker (not an interpretation case)")
			continue
		}
		var serr error
		pv, stack := vlib.Try(func() { _, serr = options.InterpretOptions(lS, h) })
		if pv != nil {
			r.Eval(mid + text)
			w["panic"], w["stack"] = fmt.Sprint(pv), trunc(stack, 3000)
			r.Violation("c21.panic", "strict interpretation panics on "+mu.ID()+": "+vlib.PanicSite(stack), mid, w)
			continue
		}
		if serr == nil {
			r.Class("m:" + mu.ID() + ": accepted by strict (not a rejected statement)")
			continue
		}
		pL := parser.Clone(res0)
		lL, lerr := linker.Link(pL, deps, nil, reporter.NewHandler(nil))
		if lerr != nil {
			r.Inconclusive("second link of one parse fails: " + lerr.Error())
			continue
		}
		probeStmts := func(fd *descriptorpb.FileDescriptorProto) [][]byte {
			for _, md := range fd.MessageType {
				if md.GetName() == "C20Probe" {
					var l [][]byte
					for _, uo := range md.GetOptions().GetUninterpretedOption() {
						l = append(l, gen.DetBytes(uo))
					}
					return l
				}
			}
			return nil
		}
		beforeStmts := probeStmts(lL.FileDescriptorProto())
		if len(beforeStmts) == 0 {
			r.Inconclusive("probe statements not found before interpretation")
			continue
		}
		bad := beforeStmts[len(beforeStmts)-1]
		var ierr error
		pv, stack = vlib.Try(func() { _, ierr = options.InterpretOptionsLenient(lL) })
		r.Eval(mid + "\x00" + text)
		if pv != nil {
			w["panic"], w["stack"] = fmt.Sprint(pv), trunc(stack, 3000)
			r.Violation("c21.panic", "lenient interpretation panics on rejected statement "+mu.ID()+": "+vlib.PanicSite(stack), mid, w)
			continue
		}
		if ierr != nil {
			r.Class("m:" + mu.ID() + ": lenient returns an error (observed)")
		}
		after := probeStmts(lL.FileDescriptorProto())
		found := false
		for _, b := range after {
			if bytes.Equal(b, bad) {
				found = true
			}
		}
		if !found {
			w["strict error"] = serr.Error()
			r.Violation("c21.lenient-drops-rejected-statement", mu.ID(), mid, w)
			continue
		}
		r.Class(fmt.Sprintf("m:%s/%s: kept verbatim (%d of %d statements left)", strings.SplitN(mu.Class, ":", 2)[0], mu.Form, len(after), len(beforeStmts)))
		// observed only (the property states statement-level atomicity for unlinked interpretation): does the
		// rejected statement leave a partial effect behind in lenient mode?
		refText := probeSource(src[name], syntax, pkg, withEnumExt, mu.Good)
		if ref0, err := parseOnce(name, refText); err == nil {
			if lR, err, pv := strictOn(parser.Clone(ref0), deps); err == nil && pv == nil {
				probeOpts := func(fd *descriptorpb.FileDescriptorProto) *descriptorpb.MessageOptions {
					for _, md := range fd.MessageType {
						if md.GetName() == "C20Probe" {
							o := proto.Clone(md.GetOptions()).(*descriptorpb.MessageOptions)
							o.UninterpretedOption = nil
							return o
						}
					}
					return nil
				}
				if bytes.Equal(gen.DetBytes(probeOpts(lL.FileDescriptorProto())), gen.DetBytes(probeOpts(lR.FileDescriptorProto()))) {
					r.Class("m:lenient leaves no partial effect of the rejected statement (observed)")
				} else {
					r.Class("m:lenient leaves a PARTIAL EFFECT of the rejected statement (observed, not decided): " + strings.SplitN(mu.Class, ":", 2)[0] + "/" + mu.Form)
				}
			}
		}
	}
}

func c21R2(r *vlib.Run) {
	w, err := loadR2World()
	if err != nil {
		r.Inconclusive("R2: " + err.Error())
		return
	}
	r.Par(len(w.entries), func(i int) {
		e := w.entries[i]
		id := "r2/" + e.Name
		if e.Source == "" || !r.Want(id) {
			return
		}
		if e.Desc.GetEdition() > descriptorpb.Edition_EDITION_2023 {
			return
		}
		res0, err := parseOnce(e.Name, e.Source)
		if err != nil {
			r.Class("r2:parse fails (decided by C01)")
			return
		}
		deps, ok := compileDeps(w.closure(e.Name), res0)
		if !ok {
			r.Class("r2:dependencies rejected (decided by C01)")
			return
		}
		env := &c21Env{r: r, id: id, name: e.Name, src: e.Source, deps: deps, res0: res0}
		if env.checkFile() {
			r.Class("r2:file checked")
		}
	})
}
