package stableopt

import (
	"fmt"
	"strings"
	"sync"

	"google.golang.org/protobuf/encoding/prototext"
	"google.golang.org/protobuf/reflect/protoreflect"
	"google.golang.org/protobuf/types/dynamicpb"

	"github.com/bufbuild/protocompile/internal/verifmon/gen"
)

// Option-statement probes: a block of source text appended to a generated
// file. The block declares its own extensions of MessageOptions/FieldOptions
// over the generated option schema (message OptMsg, enum OptEnum of package
// PKG) and a message C20Probe carrying option statements. The *control* block
// holds only statements whose value is chosen here (so the expected stored
// value is known by construction); a *mutant* adds statements that break
// exactly one rule of option interpretation.

type optMutant struct {
	Class  string   // stable rule class
	Form   string   // "path", "literal", "stmt"
	Anchor string   // protoc-verified R3 case of the same rule ("" = none)
	Good   []string // accepted statements that precede the bad one
	Bad    string   // the statement the rule forbids
	// Literal is the body of the message literal of Bad as protobuf text format
	// for OptMsg ("" = not a literal form): lets the Go runtime's prototext act
	// as independent implementation when there is no R3 anchor.
	Literal string
	// ProtocAccepts: R3 records that protoc ACCEPTS this although protocompile
	// rejects it (documented divergence, diff_with_protoc) — observed only.
	ProtocAccepts bool
}

func (m *optMutant) ID() string { return m.Class + "/" + m.Form }

const (
	probeImportDesc = `import "google/protobuf/descriptor.proto";`
)

// optMutants lists the rejection cases. Names: (c20m) OptMsg with .i set by the
// control, (c20x) OptMsg untouched by the control, (c20i) int32, (c20r)
// repeated int32, (c20s) string, (c20e) OptEnum (proto2/editions only),
// (c20t) int32 with targets=FIELD, (c20tm) C20T whose field v has
// targets=ENUM, PKG.msg_ext extends OptMsg (not an options message).
func optMutants(pkg string) []optMutant {
	var ms []optMutant
	add := func(class, form, anchor, bad string, good ...string) *optMutant {
		ms = append(ms, optMutant{Class: class, Form: form, Anchor: anchor, Bad: bad, Good: good})
		return &ms[len(ms)-1]
	}
	lit := func(class, anchor, body string) *optMutant {
		m := add(class, "literal", anchor, "option (c20x) = { "+body+" };")
		m.Literal = body
		return m
	}
	// unknown names
	add("unknown-field", "path", "failure_option_unknown_field", "option (c20x).nope = 1;")
	add("unknown-field", "stmt", "failure_unknown_file_option", "option nope = 1;")
	lit("unknown-field", "failure_not_looks_like_group_in_custom_option_msg_literal_wrong_field_name", "nope: 1")
	add("unknown-extension", "stmt", "failure_unknown_extension", "option (c20nope) = 1;")
	add("unknown-extension", "path", "failure_option_scoping_rules_limited2", "option (c20x).(c20nope) = 1;")
	add("extension-of-other-message", "stmt", "failure_extension_message_not_file", "option (."+pkg+".msg_ext) = \"x\";")
	// path through a scalar / repeated field
	add("path-through-scalar", "path", "", "option (c20x).i.x = 1;")
	add("path-through-repeated", "path", "", "option (c20x).rin.x = 1;")
	// list literals
	add("list-literal-top-level", "stmt", "", "option (c20r) = [1, 2];")
	lit("list-literal-for-non-repeated", "failure_option_not_repeated", "i: [1]")
	// set twice
	add("non-repeated-set-twice", "path", "failure_option_non_repeated_override2", "option (c20m).i = 2;")
	add("non-repeated-set-twice", "stmt", "failure_option_non_repeated_override", "option (c20i) = 2;", "option (c20i) = 1;")
	lit("non-repeated-set-twice", "", "i: 1 i: 2")
	// oneof
	lit("oneof-two-fields", "failure_oneof_extension_already_set_msg_literal", `ob: true os: "x"`)
	m := add("oneof-two-fields", "path", "failure_oneof_extension_already_set", `option (c20x).os = "x";`, "option (c20x).ob = true;")
	m.ProtocAccepts = true
	// integer ranges, one beyond each limit
	type rg struct{ fld, hi, lo string }
	for _, x := range []rg{
		{"i", "2147483648", "-2147483649"}, {"s32", "2147483648", "-2147483649"},
		{"u32", "4294967296", "-1"}, {"fx", "4294967296", "-1"},
		{"i64", "9223372036854775808", "-9223372036854775809"}, {"sf64", "9223372036854775808", "-9223372036854775809"},
		{"u64", "18446744073709551616", "-1"},
	} {
		add("int-above-max:"+x.fld, "path", "", fmt.Sprintf("option (c20x).%s = %s;", x.fld, x.hi))
		lit("int-above-max:"+x.fld, "", x.fld+": "+x.hi)
		add("int-below-min:"+x.fld, "path", "", fmt.Sprintf("option (c20x).%s = %s;", x.fld, x.lo))
		lit("int-below-min:"+x.fld, "", x.fld+": "+x.lo)
	}
	add("int-above-max:ext-int32", "stmt", "", "option (c20i) = 2147483648;")
	add("int-below-min:ext-int32", "stmt", "", "option (c20i) = -2147483649;")
	// wrong kind of value
	add("kind:float-for-int", "path", "failure_option_int32_not_string", "option (c20x).i = 1.5;")
	lit("kind:float-for-int", "failure_option_repeated_string_integer", "i: 1.5")
	add("kind:float-for-uint64", "path", "failure_option_int32_not_string", "option (c20x).u64 = 2.5;")
	add("kind:string-for-int", "path", "failure_option_int32_not_string", `option (c20x).i = "1";`)
	lit("kind:string-for-int", "failure_option_repeated_string_integer", `i: "1"`)
	add("kind:string-for-int", "stmt", "failure_option_int32_not_string", `option (c20i) = "1";`)
	add("kind:int-for-string", "path", "failure_option_wrong_type", "option (c20x).s = 1;")
	lit("kind:int-for-string", "failure_option_repeated_string_integer", "s: 1")
	add("kind:identifier-for-string", "path", "failure_option_wrong_type", "option (c20x).s = foo;")
	lit("kind:identifier-for-string", "failure_option_repeated_string_integer", "s: foo")
	add("kind:identifier-for-string", "stmt", "failure_option_wrong_type", "option (c20s) = foo;")
	add("kind:identifier-for-int", "path", "failure_option_int32_not_string", "option (c20x).i = foo;")
	add("kind:string-for-bool", "path", "failure_option_boolean_names", `option (c20x).ob = "true";`)
	add("kind:identifier-for-bool", "path", "failure_option_boolean_names", "option (c20x).ob = True;")
	add("kind:int-for-message", "path", "", "option (c20x).in = 1;")
	add("kind:message-for-int", "path", "", "option (c20x).i = { x: 1 };")
	// enums
	add("enum-unknown-name", "path", "failure_enum_default_not_found", "option (c20x).e = OPT_NOPE;")
	lit("enum-unknown-name", "failure_enum_default_not_found", "e: OPT_NOPE")
	add("enum-by-number-outside-literal", "path", "failure_enum_option_using_number", "option (c20x).e = 1;")
	add("enum-string", "path", "", `option (c20x).e = "OPT_ONE";`)
	lit("enum-number-out-of-range", "failure_enum_in_msg_literal_using_out_of_range_number", "e: 2147483648")
	lit("enum-number-out-of-range", "failure_enum_in_msg_literal_using_out_of_range_negative_number", "e: -2147483649").Form = "literal-neg"
	lit("closed-enum-unknown-number", "failure_closed_enum_in_msg_literal_using_unknown_number", "e: 5")
	// google.protobuf.Any expansions
	anyRef := "[type.googleapis.com/" + pkg + ".OptMsg]"
	add("any-unknown-type", "literal", "failure_any_message_literal_incorrect_type", "option (c20anyx) = { [type.googleapis.com/"+pkg+".Nope] { } };")
	add("any-unsupported-domain", "literal", "failure_any_message_literal_unsupported_domain", "option (c20anyx) = { [types.custom.io/"+pkg+".OptMsg] { i: 1 } };")
	add("any-reference-in-non-any", "literal", "failure_any_message_literal_not_any", "option (c20x) = { "+anyRef+" { i: 1 } };")
	add("any-scalar-value", "literal", "failure_any_message_literal_scalar", "option (c20anyx) = { "+anyRef+": 1 };")
	add("any-duplicate", "literal", "failure_any_message_literal_duplicate", "option (c20anyx) = { "+anyRef+" { i: 1 } "+anyRef+" { i: 1 } };")
	// target types
	add("target-type", "stmt", "failure_editions_feature_on_wrong_target_type", "option (c20t) = 1;")
	add("target-type", "path", "failure_editions_feature_on_wrong_target_type", "option (c20tm).v = 1;")
	add("target-type", "literal", "failure_editions_feature_on_wrong_target_type_msg_literal", "option (c20tm) = { v: 1 };")
	return ms
}

// enumExtMutants are only usable where an extension of enum type can be
// declared without doubt (proto2 and editions files).
func enumExtMutants() []optMutant {
	return []optMutant{
		{Class: "enum-by-number-outside-literal", Form: "stmt", Anchor: "failure_enum_option_using_number", Bad: "option (c20e) = 1;"},
		{Class: "enum-unknown-name", Form: "stmt", Anchor: "failure_enum_default_not_found", Bad: "option (c20e) = OPT_NOPE;"},
	}
}

// reqMutants need a message with a required field (proto2 files only); filePkg is the package of the probed file.
// Both are instances of the rule "required fields of an option value must be set" (R3 failure_option_required_field_unset);
// the second packs the incomplete message into a google.protobuf.Any, which hides it from a check that only looks at the
// top-level option message.
func reqMutants(filePkg string) []optMutant {
	full := "C20Req"
	if filePkg != "" {
		full = filePkg + ".C20Req"
	}
	return []optMutant{
		{Class: "required-unset", Form: "literal", Anchor: "failure_option_required_field_unset", Bad: "option (c20req) = { o: 1 };"},
		{Class: "required-unset", Form: "path", Anchor: "failure_option_required_field_unset2", Bad: "option (c20req).o = 1;"},
		{Class: "required-unset-inside-any", Form: "literal", Anchor: "failure_option_required_field_unset", Bad: "option (c20anyx) = { [type.googleapis.com/" + full + "] { o: 1 } };"},
	}
}

// controlStmts are the accepted statements of the probe message; their
// expected values are checked by checkControlValues.
var controlStmts = []string{
	"option (c20lim) = { i: 2147483647 u32: 4294967295 i64: -9223372036854775808 u64: 18446744073709551615 s32: -2147483648 fx: 4294967295 sf64: 9223372036854775807 e: 1 re: [-1, 0, OPT_BIG] };",
	"option (c20m).i = 1;",
	"option (c20m).i64 = 9223372036854775807;",
	"option (c20m).u32 = 0;",
	"option (c20m).in.next.x = -2147483648;",
	"option (c20m).(." + "%PKG%" + ".rep_ext) = 5;",
	"option (c20m).(." + "%PKG%" + ".rep_ext) = -6;",
	"option (c20r) = 1;",
	"option (c20r) = 0x7fffffff;",
	"option (c20r) = -2147483648;",
	"option (c20s) = \"a\" 'b' \"\\x63\";",
	"option (c20any) = { [type.googleapis.com/%PKG%.OptMsg] { i: 7 s: \"x\" } };",
	"option (c20anyp) = { [type.googleprod.com/%PKG%.OptMsg] { i: 8 } };",
}

// probeSource returns src with the probe block appended; stmts go into the
// probe message after the control statements.
func probeSource(src, syntax, pkg string, withEnumExt bool, stmts []string) string {
	opt := "optional "
	if syntax == "editions" {
		opt = ""
	}
	var sb strings.Builder
	// imports right after the syntax/edition statement
	head, rest := "", src
	if strings.HasPrefix(src, "syntax") || strings.HasPrefix(src, "edition") {
		if i := strings.Index(src, "\n"); i >= 0 {
			head, rest = src[:i+1], src[i+1:]
		}
	}
	sb.WriteString(head)
	if !strings.Contains(src, "google/protobuf/descriptor.proto") {
		sb.WriteString(probeImportDesc + "\n")
	}
	if !strings.Contains(src, "google/protobuf/any.proto") {
		sb.WriteString("import \"google/protobuf/any.proto\";\n")
	}
	if !strings.Contains(src, `"`+optSchemaFile+`"`) && !strings.Contains(src, `'`+optSchemaFile+`'`) {
		sb.WriteString(`import "` + optSchemaFile + "\";\n")
	}
	sb.WriteString(rest)
	fmt.Fprintf(&sb, "extend google.protobuf.MessageOptions {\n")
	fmt.Fprintf(&sb, "  %s.%s.OptMsg c20m = 70001;\n  %s.%s.OptMsg c20lim = 70002;\n  %s.%s.OptMsg c20x = 70003;\n", opt, pkg, opt, pkg, opt, pkg)
	fmt.Fprintf(&sb, "  repeated int32 c20r = 70004;\n  %sint32 c20i = 70005;\n  %sstring c20s = 70006;\n", opt, opt)
	fmt.Fprintf(&sb, "  %sint32 c20t = 70007 [targets = TARGET_TYPE_FIELD];\n  %sC20T c20tm = 70008;\n", opt, opt)
	if withEnumExt {
		fmt.Fprintf(&sb, "  %s.%s.OptEnum c20e = 70009;\n", opt, pkg)
	}
	fmt.Fprintf(&sb, "  %s.google.protobuf.Any c20any = 70011;\n  %s.google.protobuf.Any c20anyx = 70012;\n  %s.google.protobuf.Any c20anyp = 70013;\n", opt, opt, opt)
	if syntax == "proto2" {
		fmt.Fprintf(&sb, "  optional C20Req c20req = 70014;\n")
	}
	fmt.Fprintf(&sb, "}\n")
	if syntax == "proto2" {
		fmt.Fprintf(&sb, "message C20Req {\n  required int32 q = 1;\n  optional int32 o = 2;\n}\n")
	}
	fmt.Fprintf(&sb, "extend google.protobuf.FieldOptions {\n  %sint32 c20tf = 70010 [targets = TARGET_TYPE_FIELD, targets = TARGET_TYPE_ENUM];\n}\n", opt)
	fmt.Fprintf(&sb, "message C20T {\n  %sint32 v = 1 [targets = TARGET_TYPE_ENUM];\n  %sint32 w = 2;\n}\n", opt, opt)
	fmt.Fprintf(&sb, "message C20Probe {\n")
	for _, s := range controlStmts {
		fmt.Fprintf(&sb, "  %s\n", strings.ReplaceAll(s, "%PKG%", pkg))
	}
	fmt.Fprintf(&sb, "  option (c20tm).w = 3;\n")
	for _, s := range stmts {
		fmt.Fprintf(&sb, "  %s\n", s)
	}
	fmt.Fprintf(&sb, "  %sint32 pf = 1 [(c20tf) = 5];\n", opt)
	fmt.Fprintf(&sb, "}\n")
	return sb.String()
}

// syntaxOf tells the syntax of a rendered file from its descriptor.
func syntaxOfFile(s string) string {
	switch s {
	case "proto3", "editions":
		return s
	}
	return "proto2"
}

// ---------------------------------------------------------------------------
// Anchors: protoc-verified cases of the same rule
// ---------------------------------------------------------------------------

type anchorInfo struct {
	Found         bool
	ProtocAccepts bool
	Diff          bool
	ExpectedErr   string
	Case          gen.R3Case
}

var (
	anchorOnce sync.Once
	anchors    map[string]anchorInfo
	anchorErr  error
)

func loadAnchors() (map[string]anchorInfo, error) {
	anchorOnce.Do(func() {
		anchors = map[string]anchorInfo{}
		for _, tbl := range []string{"linker_validation", "basic_validation"} {
			cs, err := gen.LoadR3(tbl)
			if err != nil {
				anchorErr = err
				return
			}
			for _, c := range cs {
				anchors[c.Name] = anchorInfo{Found: true, ProtocAccepts: c.ProtocAccepts(), Diff: c.DiffWithProtoc, ExpectedErr: c.ExpectedErr, Case: c}
			}
		}
	})
	return anchors, anchorErr
}

// prototextRejects reports whether the Go runtime's text-format parser (an
// implementation independent of the AST-based interpreter under test) refuses
// the literal body for the message type.
func prototextRejects(types gen.TypeResolver, msgName, body string) (bool, error) {
	mt, err := types.FindMessageByName(protoreflect.FullName(msgName))
	if err != nil {
		return false, err
	}
	m := dynamicpb.NewMessage(mt.Descriptor())
	err = prototext.UnmarshalOptions{Resolver: types, AllowPartial: true}.Unmarshal([]byte(body), m)
	return err != nil, nil
}
