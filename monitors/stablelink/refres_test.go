package stablelink

import (
	"sort"
	"strings"
)

// Reference name resolver: an independent implementation of protoc's
// DescriptorBuilder::LookupSymbolNoPlaceholder over a world (element table +
// visibility closure), written from the algorithm description, not from
// /repo/linker/resolve.go.
//
//   * a leading dot means fully qualified: one lookup of the rest of the name;
//   * otherwise walk from the innermost enclosing scope outwards; at each scope
//     look up scope + "." + FIRST component of the name;
//       - compound name, first component found: if it is an aggregate the whole
//         name scope + "." + name is looked up and that is the answer (found, or
//         "resolved to X which is not defined" — the search does NOT continue);
//         a non-aggregate first component is skipped and the walk continues;
//       - simple name found: answer, unless only types are wanted (field type
//         references) and the symbol is not a type, then the walk continues;
//   * at the root the whole name is looked up directly;
//   * a symbol counts only if its file is visible (own file, direct imports and
//     their public-import closure); a package counts if some visible file is in
//     that package or a sub-package.
//
// Everything the R3/R1/R2 calibration does not pin down is a toggle; a case is
// decided only if every toggle assignment gives the same expectation.

type refToggles struct {
	EnumAggregate    bool // protoc: Symbol::IsAggregate includes ENUM
	ServiceAggregate bool // protoc: Symbol::IsAggregate includes SERVICE
}

var refDefault = refToggles{EnumAggregate: true, ServiceAggregate: true}

// allToggles used to enumerate all four assignments, which left every spelling whose verdict depends on
// an enum or a service being an aggregate undecided. That hid a realistic break (a seeded change that
// drops enums from the aggregate kinds). protoc's rule is explicit in its source (descriptor.cc,
// Symbol::IsAggregate: message, enum, package, service) and the compiler under test documents the same
// rule, so it is now a decided part of the reference; the assumption is written into the evidence.
func allToggles() []refToggles {
	return []refToggles{refDefault}
}

const (
	stFound      = "found"
	stNotFound   = "not-found"
	stNotDefined = "not-defined" // aggregate first component found, remainder missing
)

type refResult struct {
	Status string
	Kind   string // element kind or "package" (Status == stFound)
	FQN    string // found: the element; not-defined: the name that was tried
	Elem   *elem
	Tags   []string // which rules fired (stable, for signatures)
}

func (r refResult) tagString() string {
	t := append([]string(nil), r.Tags...)
	sort.Strings(t)
	out := t[:0]
	for i, x := range t {
		if i == 0 || x != t[i-1] {
			out = append(out, x)
		}
	}
	return strings.Join(out, ",")
}

// find looks name up as seen from file.
func (w *world) find(file, name string) (kind string, e *elem, ok bool) {
	V := w.visible(file)
	for _, i := range w.byFQN[name] {
		if V[w.elems[i].File] {
			return w.elems[i].Kind, &w.elems[i], true
		}
	}
	for _, f := range w.pkgFiles[name] {
		if V[f] {
			return kPackage, nil, true
		}
	}
	return "", nil, false
}

func isAggregateKind(k string, tg refToggles) bool {
	switch k {
	case kMessage, kPackage:
		return true
	case kEnum:
		return tg.EnumAggregate
	case kService:
		return tg.ServiceAggregate
	}
	return false
}

func isTypeKind(k string) bool { return k == kMessage || k == kEnum }

// lookup resolves name as written in file, starting the scope walk at
// startScope (a fully-qualified scope name, "" = root).
func (w *world) lookup(file, startScope, name string, typesOnly bool, tg refToggles) refResult {
	var res refResult
	tag := func(t string) { res.Tags = append(res.Tags, t) }
	done := func(kind string, e *elem, fqn string) refResult {
		res.Status, res.Kind, res.Elem, res.FQN = stFound, kind, e, fqn
		return res
	}
	if strings.HasPrefix(name, ".") {
		tag("leading-dot")
		full := name[1:]
		if k, e, ok := w.find(file, full); ok {
			return done(k, e, full)
		}
		res.Status = stNotFound
		return res
	}
	first := name
	if i := strings.IndexByte(name, '.'); i >= 0 {
		first = name[:i]
	}
	compound := first != name
	if compound {
		tag("compound")
	} else {
		tag("simple")
	}
	for scope := startScope; scope != ""; scope = parentOf(scope) {
		cand := scope + "." + first
		k, e, ok := w.find(file, cand)
		if !ok {
			continue
		}
		level := "@message-scope"
		if len(w.pkgFiles[scope]) > 0 {
			level = "@package-scope"
		}
		if compound {
			if !isAggregateKind(k, tg) {
				tag("skip-non-aggregate-first-component" + level)
				continue
			}
			if k == kPackage {
				tag("first-component-is-package")
			} else {
				tag("first-component-is-" + k + level)
			}
			full := scope + "." + name
			if k2, e2, ok := w.find(file, full); ok {
				return done(k2, e2, full)
			}
			tag("aggregate-remainder-missing")
			res.Status, res.FQN = stNotDefined, full
			return res
		}
		if typesOnly && !isTypeKind(k) {
			tag("skip-non-type" + level)
			continue
		}
		return done(k, e, cand)
	}
	tag("root")
	if k, e, ok := w.find(file, name); ok {
		return done(k, e, name)
	}
	res.Status = stNotFound
	return res
}

// ---------- reference sites ----------

const (
	siteType     = "type"
	siteExtendee = "extendee"
	siteMethod   = "method"
	siteOptName  = "optname"
	siteLiteral  = "literal-ext"
)

// expectation of one spelling at one site.
const (
	expFail      = "fail"      // protoc rejects the file
	expResolves  = "resolves"  // resolves to To (an element of an acceptable kind)
	expUndecided = "undecided" // toggle assignments / candidate scopes disagree, or an uncalibrated rule decides
)

type expectation struct {
	What string
	To   string // expResolves: fully-qualified name
	Why  string // fail: reason class; undecided: what is not calibrated
	Tags string
}

func acceptableKind(site, kind string, e *elem) (bool, string) {
	switch site {
	case siteType:
		if kind == kMessage && e != nil && e.MapEntry {
			return false, "map-entry"
		}
		return kind == kMessage || kind == kEnum, ""
	case siteExtendee, siteMethod:
		return kind == kMessage, ""
	case siteOptName, siteLiteral:
		return kind == kExtension, ""
	}
	return false, ""
}

// expect evaluates one spelling under every toggle assignment and every
// candidate start scope; the result is decided only if they all agree.
func (w *world) expect(file, site string, startScopes []string, name string) expectation {
	var first *expectation
	for _, tg := range allToggles() {
		for _, sc := range startScopes {
			r := w.lookup(file, sc, name, site == siteType, tg)
			var e expectation
			e.Tags = r.tagString()
			switch r.Status {
			case stFound:
				ok, special := acceptableKind(site, r.Kind, r.Elem)
				switch {
				case special == "map-entry":
					return expectation{What: expUndecided, Why: "resolves to a synthetic map entry (protoc's verdict not calibrated)"}
				case ok:
					e.What, e.To = expResolves, r.FQN
				default:
					e.What, e.Why = expFail, "wrong-kind:"+r.Kind
				}
			case stNotDefined:
				e.What, e.Why = expFail, "not-defined"
			default:
				e.What, e.Why = expFail, "not-found"
			}
			if first == nil {
				first = &e
				continue
			}
			if first.What != e.What || first.To != e.To {
				why := "candidate start scopes disagree"
				if len(startScopes) == 1 {
					why = "enum/service aggregate-ness decides (not calibrated by R3)"
				}
				return expectation{What: expUndecided, Why: why}
			}
		}
	}
	return *first
}

// optionStartScopes gives the candidate start scopes of an option name that
// occurs in the options of an element. elemKind is the options message
// ("MessageOptions", ...); owner is the scope argument the renderer passes:
// package (file), message (message, field, oneof, extension range options),
// enum (enum and enum value options), service, service.method.
//
// Calibrated: file → package; message → ENCLOSING scope of the message
// (R3 failure_option_scoping_rules_limited*); service → enclosing scope (R3
// success_scope_extension); method → the service (R3 failure_scope_extension2);
// enum / enum value → enclosing scope of the enum (nothing lives under an
// enum's own name, so the enum's own scope would give the same answer).
// Not calibrated (both candidates kept): field, oneof and extension range
// options — the message's own scope or its enclosing scope.
func (w *world) optionStartScopes(elemKind, owner string) []string {
	switch elemKind {
	case "FileOptions":
		return []string{owner}
	case "MessageOptions", "ServiceOptions", "EnumOptions", "EnumValueOptions":
		return []string{parentOf(owner)}
	case "MethodOptions":
		return []string{parentOf(owner)}
	case "FieldOptions", "OneofOptions", "ExtensionRangeOptions":
		isMsg := false
		for _, i := range w.byFQN[owner] {
			if w.elems[i].Kind == kMessage {
				isMsg = true
			}
		}
		if !isMsg {
			// file-level extension field: the package scope, nothing else to choose from
			return []string{owner}
		}
		return []string{owner, parentOf(owner)}
	}
	return nil
}
