package stablelink

import (
	"bytes"
	"fmt"
	"reflect"
	"sort"
	"strings"
	"testing"

	"google.golang.org/protobuf/proto"
	"google.golang.org/protobuf/types/descriptorpb"

	"github.com/bufbuild/protocompile/ast"
	"github.com/bufbuild/protocompile/internal/verifmon/gen"
	"github.com/bufbuild/protocompile/internal/verifmon/vlib"
	"github.com/bufbuild/protocompile/linker"
	"github.com/bufbuild/protocompile/options"
	"github.com/bufbuild/protocompile/parser"
	"github.com/bufbuild/protocompile/reporter"
	"github.com/bufbuild/protocompile/sourceinfo"
)

// C24 — cloned parse results are independent deep copies.

// ---------- address walk ----------

type addrs struct {
	at map[uintptr]string // address -> what lives there (first path seen)
	n  map[string]int
}

func newAddrs() *addrs { return &addrs{at: map[uintptr]string{}, n: map[string]int{}} }

func (a *addrs) put(p uintptr, what, path string) {
	if p == 0 {
		return
	}
	a.n[what]++
	if _, ok := a.at[p]; !ok {
		a.at[p] = what + " at " + path
	}
}

// collect walks a generated-message value reflectively (Go reflection, so
// that slice backing arrays and pointers to scalars are seen) and records the
// address of every message struct, every slice backing array (repeated fields,
// bytes, unknown fields), every pointer to a scalar and every map.
// Strings are immutable in Go and are not recorded.
func (a *addrs) collect(v reflect.Value, path string) {
	switch v.Kind() {
	case reflect.Ptr:
		if v.IsNil() {
			return
		}
		if v.Elem().Kind() == reflect.Struct {
			a.put(v.Pointer(), "message", path)
			a.collect(v.Elem(), path)
			return
		}
		a.put(v.Pointer(), "scalar-pointer", path)
	case reflect.Struct:
		t := v.Type()
		for i := 0; i < v.NumField(); i++ {
			f := t.Field(i)
			switch f.Name {
			case "state", "sizeCache":
				continue
			}
			a.collect(v.Field(i), path+"."+f.Name)
		}
	case reflect.Slice:
		if v.IsNil() || v.Cap() == 0 {
			return
		}
		a.put(v.Pointer(), "slice-backing-array", path)
		ek := v.Type().Elem().Kind()
		if ek == reflect.Ptr || ek == reflect.Struct || ek == reflect.Slice || ek == reflect.Interface {
			for i := 0; i < v.Len(); i++ {
				a.collect(v.Index(i), fmt.Sprintf("%s[%d]", path, i))
			}
		}
	case reflect.Map:
		if v.IsNil() {
			return
		}
		a.put(v.Pointer(), "map", path)
	case reflect.Interface:
		if !v.IsNil() {
			a.collect(v.Elem(), path)
		}
	}
}

func pathClass(p string) string {
	var sb strings.Builder
	depth := 0
	for _, c := range p {
		switch {
		case c == '[':
			depth++
		case c == ']':
			depth--
			sb.WriteString("[]")
		case depth == 0:
			sb.WriteRune(c)
		}
	}
	return sb.String()
}

// ---------- parallel element walk ----------

type lookup struct {
	what string // element kind + lookup method
	o, c func() ast.Node
}

func optionLookups(elem string, ro, rc parser.Result, uo, uc []*descriptorpb.UninterpretedOption, out *[]lookup) {
	for i := range uo {
		o, c := uo[i], uc[i]
		*out = append(*out,
			lookup{elem + " option: OptionNode", func() ast.Node { return ro.OptionNode(o) }, func() ast.Node { return rc.OptionNode(c) }},
			lookup{elem + " option: Node", func() ast.Node { return ro.Node(o) }, func() ast.Node { return rc.Node(c) }})
		for j := range o.Name {
			po, pc := o.Name[j], c.Name[j]
			*out = append(*out,
				lookup{elem + " option name part: OptionNamePartNode", func() ast.Node { return ro.OptionNamePartNode(po) }, func() ast.Node { return rc.OptionNamePartNode(pc) }},
				lookup{elem + " option name part: Node", func() ast.Node { return ro.Node(po) }, func() ast.Node { return rc.Node(pc) }})
		}
	}
}

func fieldLookups(kind string, ro, rc parser.Result, o, c *descriptorpb.FieldDescriptorProto, out *[]lookup) {
	*out = append(*out,
		lookup{kind + ": FieldNode", func() ast.Node { return ro.FieldNode(o) }, func() ast.Node { return rc.FieldNode(c) }},
		lookup{kind + ": Node", func() ast.Node { return ro.Node(o) }, func() ast.Node { return rc.Node(c) }})
	optionLookups(kind, ro, rc, o.GetOptions().GetUninterpretedOption(), c.GetOptions().GetUninterpretedOption(), out)
}

func enumLookups(ro, rc parser.Result, o, c *descriptorpb.EnumDescriptorProto, out *[]lookup) {
	*out = append(*out,
		lookup{"enum: EnumNode", func() ast.Node { return ro.EnumNode(o) }, func() ast.Node { return rc.EnumNode(c) }},
		lookup{"enum: Node", func() ast.Node { return ro.Node(o) }, func() ast.Node { return rc.Node(c) }})
	optionLookups("enum", ro, rc, o.GetOptions().GetUninterpretedOption(), c.GetOptions().GetUninterpretedOption(), out)
	for i := range o.Value {
		vo, vc := o.Value[i], c.Value[i]
		*out = append(*out,
			lookup{"enum value: EnumValueNode", func() ast.Node { return ro.EnumValueNode(vo) }, func() ast.Node { return rc.EnumValueNode(vc) }},
			lookup{"enum value: Node", func() ast.Node { return ro.Node(vo) }, func() ast.Node { return rc.Node(vc) }})
		optionLookups("enum value", ro, rc, vo.GetOptions().GetUninterpretedOption(), vc.GetOptions().GetUninterpretedOption(), out)
	}
	for i := range o.ReservedRange {
		xo, xc := o.ReservedRange[i], c.ReservedRange[i]
		*out = append(*out,
			lookup{"enum reserved range: EnumReservedRangeNode", func() ast.Node { return ro.EnumReservedRangeNode(xo) }, func() ast.Node { return rc.EnumReservedRangeNode(xc) }},
			lookup{"enum reserved range: Node", func() ast.Node { return ro.Node(xo) }, func() ast.Node { return rc.Node(xc) }})
	}
}

func messageLookups(ro, rc parser.Result, o, c *descriptorpb.DescriptorProto, out *[]lookup) {
	kind := "message"
	fkind := "field"
	if o.GetOptions().GetMapEntry() {
		kind = "map entry message"
		fkind = "map entry field"
	}
	*out = append(*out,
		lookup{kind + ": MessageNode", func() ast.Node { return ro.MessageNode(o) }, func() ast.Node { return rc.MessageNode(c) }},
		lookup{kind + ": Node", func() ast.Node { return ro.Node(o) }, func() ast.Node { return rc.Node(c) }})
	optionLookups(kind, ro, rc, o.GetOptions().GetUninterpretedOption(), c.GetOptions().GetUninterpretedOption(), out)
	for i := range o.Field {
		k := fkind
		switch {
		case o.Field[i].GetType() == descriptorpb.FieldDescriptorProto_TYPE_GROUP:
			k = "group field"
		case o.Field[i].GetProto3Optional():
			k = "proto3 optional field"
		case o.Field[i].OneofIndex != nil:
			k = "oneof member field"
		}
		fieldLookups(k, ro, rc, o.Field[i], c.Field[i], out)
	}
	synth := map[int]bool{}
	for _, f := range o.Field {
		if f.GetProto3Optional() && f.OneofIndex != nil {
			synth[int(f.GetOneofIndex())] = true
		}
	}
	for i := range o.OneofDecl {
		xo, xc := o.OneofDecl[i], c.OneofDecl[i]
		k := "oneof"
		if synth[i] {
			k = "synthetic oneof"
		}
		*out = append(*out,
			lookup{k + ": OneofNode", func() ast.Node { return ro.OneofNode(xo) }, func() ast.Node { return rc.OneofNode(xc) }},
			lookup{k + ": Node", func() ast.Node { return ro.Node(xo) }, func() ast.Node { return rc.Node(xc) }})
		optionLookups(k, ro, rc, xo.GetOptions().GetUninterpretedOption(), xc.GetOptions().GetUninterpretedOption(), out)
	}
	for i := range o.ExtensionRange {
		xo, xc := o.ExtensionRange[i], c.ExtensionRange[i]
		*out = append(*out,
			lookup{"extension range: ExtensionRangeNode", func() ast.Node { return ro.ExtensionRangeNode(xo) }, func() ast.Node { return rc.ExtensionRangeNode(xc) }},
			lookup{"extension range: ExtensionsNode", func() ast.Node { return ro.ExtensionsNode(xo) }, func() ast.Node { return rc.ExtensionsNode(xc) }},
			lookup{"extension range: Node", func() ast.Node { return ro.Node(xo) }, func() ast.Node { return rc.Node(xc) }})
		optionLookups("extension range", ro, rc, xo.GetOptions().GetUninterpretedOption(), xc.GetOptions().GetUninterpretedOption(), out)
	}
	for i := range o.ReservedRange {
		xo, xc := o.ReservedRange[i], c.ReservedRange[i]
		*out = append(*out,
			lookup{"message reserved range: MessageReservedRangeNode", func() ast.Node { return ro.MessageReservedRangeNode(xo) }, func() ast.Node { return rc.MessageReservedRangeNode(xc) }},
			lookup{"message reserved range: Node", func() ast.Node { return ro.Node(xo) }, func() ast.Node { return rc.Node(xc) }})
	}
	for i := range o.NestedType {
		messageLookups(ro, rc, o.NestedType[i], c.NestedType[i], out)
	}
	for i := range o.EnumType {
		enumLookups(ro, rc, o.EnumType[i], c.EnumType[i], out)
	}
	for i := range o.Extension {
		fieldLookups("extension", ro, rc, o.Extension[i], c.Extension[i], out)
	}
}

func fileLookups(ro, rc parser.Result) []lookup {
	o, c := ro.FileDescriptorProto(), rc.FileDescriptorProto()
	out := []lookup{
		{"file: FileNode", func() ast.Node { return ro.FileNode() }, func() ast.Node { return rc.FileNode() }},
		{"file: Node", func() ast.Node { return ro.Node(o) }, func() ast.Node { return rc.Node(c) }},
	}
	optionLookups("file", ro, rc, o.GetOptions().GetUninterpretedOption(), c.GetOptions().GetUninterpretedOption(), &out)
	for i := range o.MessageType {
		messageLookups(ro, rc, o.MessageType[i], c.MessageType[i], &out)
	}
	for i := range o.EnumType {
		enumLookups(ro, rc, o.EnumType[i], c.EnumType[i], &out)
	}
	for i := range o.Extension {
		fieldLookups("extension", ro, rc, o.Extension[i], c.Extension[i], &out)
	}
	for i := range o.Service {
		so, sc := o.Service[i], c.Service[i]
		out = append(out,
			lookup{"service: ServiceNode", func() ast.Node { return ro.ServiceNode(so) }, func() ast.Node { return rc.ServiceNode(sc) }},
			lookup{"service: Node", func() ast.Node { return ro.Node(so) }, func() ast.Node { return rc.Node(sc) }})
		optionLookups("service", ro, rc, so.GetOptions().GetUninterpretedOption(), sc.GetOptions().GetUninterpretedOption(), &out)
		for j := range so.Method {
			mo, mc := so.Method[j], sc.Method[j]
			out = append(out,
				lookup{"method: MethodNode", func() ast.Node { return ro.MethodNode(mo) }, func() ast.Node { return rc.MethodNode(mc) }},
				lookup{"method: Node", func() ast.Node { return ro.Node(mo) }, func() ast.Node { return rc.Node(mc) }})
			optionLookups("method", ro, rc, mo.GetOptions().GetUninterpretedOption(), mc.GetOptions().GetUninterpretedOption(), &out)
		}
	}
	return out
}

func isNilNode(n ast.Node) bool {
	if n == nil {
		return true
	}
	v := reflect.ValueOf(n)
	return v.Kind() == reflect.Ptr && v.IsNil()
}

func sameNode(a, b ast.Node) (same bool) {
	defer func() {
		if recover() != nil {
			same = reflect.DeepEqual(a, b)
		}
	}()
	return a == b
}

// hand-written files for constructs the generator's renderer never emits:
// several ranges per extensions/reserved statement (shared options), option
// names with many parts, groups in oneofs and extend blocks, nested literals.
var c24Extras = map[string]string{
	// files that declare nothing (umbrella files): there is still a descriptor proto to copy
	"extras/umbrella.proto":     "syntax = \"proto3\";\npackage extras.umbrella;\nimport public \"extras/ranges.proto\";\nimport \"google/protobuf/any.proto\";\n",
	"extras/syntax_only.proto":  "syntax = \"proto2\";\n",
	"extras/package_only.proto": "edition = \"2023\";\npackage extras.po;\n",
	"extras/empty.proto":        "",
	"extras/ranges.proto": `syntax = "proto2";
package extras.ranges;
import "google/protobuf/descriptor.proto";
extend google.protobuf.ExtensionRangeOptions { optional string label = 50001; repeated int32 nums = 50002; optional Meta meta = 50003; }
extend google.protobuf.FieldOptions { optional Meta fmeta = 50001; }
extend google.protobuf.MessageOptions { optional Meta mmeta = 50001; }
extend google.protobuf.EnumValueOptions { optional Meta vmeta = 50001; }
message Meta { optional string a = 1; optional Meta child = 2; repeated int64 r = 3; extensions 100 to 110; }
extend Meta { optional string meta_ext = 100; optional Meta meta_child = 101; }
message M {
  option (mmeta).child.child.a = "deep";
  option (mmeta).(meta_child).(extras.ranges.meta_ext) = "x";
  option (mmeta).r = 1; option (mmeta).r = 2;
  extensions 100 to 110, 120, 130 to 140 [(label) = "shared", (nums) = 1, (nums) = 2, (meta) = { a: "z" child { [extras.ranges.meta_ext]: "lit" } }];
  extensions 200 to max;
  reserved 1, 2 to 5, 9;
  reserved "old", "older";
  optional int32 f = 10 [(fmeta) = { a: "q" r: [1,2,3] }, (fmeta).child.a = "w", deprecated = true, json_name = "F"];
  optional group G = 11 [(fmeta).a = "grp"] { optional int32 x = 1; reserved 5 to 6; }
  oneof which { option (oneof_label) = "o"; int32 a = 12; group H = 13 { optional string y = 1 [(fmeta).a = "in group"]; } }
  map<string, Meta> mm = 14 [(fmeta).a = "map"];
  enum E { option allow_alias = true; E0 = 0 [(vmeta) = { a: "v" }, deprecated = false]; E1 = 1; E1B = 1; reserved -5 to -1, 100, 200 to max; reserved "EX"; }
  extend M { optional int32 nested_ext = 100 [(fmeta).a = "ext"]; optional group XG = 101 { optional int32 z = 1; } }
  message N { extensions 1 to 5 [(label) = "n"]; reserved 9 to 11, 20; }
}
extend google.protobuf.OneofOptions { optional string oneof_label = 50001; }
service S {
  option deprecated = true;
  rpc A (M) returns (stream M) { option deprecated = true; option idempotency_level = IDEMPOTENT; }
  rpc B (stream .extras.ranges.M) returns (M.N);
}
`,
	"extras/p3.proto": `syntax = "proto3";
package extras.p3;
import "extras/ranges.proto";
option java_package = "x.y";
option (fopt).a = "file"; option (fopt).child = { a: "c" [extras.ranges.meta_ext]: "e" };
import "google/protobuf/descriptor.proto";
extend google.protobuf.FileOptions { extras.ranges.Meta fopt = 50009; }
message P {
  option (extras.ranges.mmeta) = { a: "p" };
  optional int32 a = 1; optional string b = 2 [(extras.ranges.fmeta).a = "opt"];
  oneof o { int32 c = 3; extras.ranges.Meta d = 4; }
  map<int32, P> m = 5; repeated E e = 6;
  enum E { Z = 0; reserved 2, 4 to 6; }
  message Q { optional bool q = 1; }
  reserved 100 to 200, 300; reserved "zz";
}
`,
	"extras/ed.proto": `edition = "2023";
package extras.ed;
option features.field_presence = IMPLICIT;
message A {
  int32 a = 1 [features.field_presence = EXPLICIT, default = 3];
  A b = 2 [features.message_encoding = DELIMITED];
  extensions 10 to 20 [declaration = { number: 10 full_name: ".extras.ed.x" type: "int32" }, verification = DECLARATION];
  extensions 30 to 40, 45, 47 to 49 [verification = UNVERIFIED];
  reserved r1, r2; reserved 50 to 60, 70;
  enum En { option features.enum_type = CLOSED; X = 1; reserved RX; reserved 5 to 9; }
  oneof oo { string s = 3; bytes t = 4; }
}
extend A { int32 x = 10; }
`,
}

func parseResult(name, text string) (parser.Result, error) {
	a, err := parser.Parse(name, strings.NewReader(text), reporter.NewHandler(nil))
	if err != nil {
		return nil, err
	}
	return parser.ResultFromAST(a, true, reporter.NewHandler(nil))
}

// checkClone runs the structural checks (equality, address disjointness, node
// lookups) on one parse result and its clone.
func checkClone(r *vlib.Run, id string, name, text string, orig, clone parser.Result) {
	wit := func(extra map[string]any) map[string]any {
		extra["file"] = name
		extra["source"] = text
		return extra
	}
	po, pc := orig.FileDescriptorProto(), clone.FileDescriptorProto()
	if po == pc {
		r.Violation("c24.shared", "clone returns the same FileDescriptorProto pointer", id, wit(map[string]any{}))
		return
	}
	if !proto.Equal(po, pc) {
		r.Violation("c24.not-equal", "clone proto differs: "+gen.DiffClass(gen.Diff(pc, po)), id, wit(map[string]any{"diff": gen.Diff(pc, po)}))
		return
	}
	if !bytes.Equal(gen.DetBytes(po), gen.DetBytes(pc)) {
		r.Violation("c24.not-equal", "clone proto marshals differently", id, wit(map[string]any{}))
	}
	if clone.AST() != orig.AST() {
		r.Class("clones with a different AST object")
	}
	// address disjointness
	ao, ac := newAddrs(), newAddrs()
	ao.collect(reflect.ValueOf(po), "file")
	ac.collect(reflect.ValueOf(pc), "file")
	for p, what := range ac.at {
		if w2, ok := ao.at[p]; ok {
			r.Violation("c24.shared", "clone shares a "+strings.SplitN(what, " at ", 2)[0]+" with the original: "+pathClass(strings.SplitN(what, " at ", 2)[1]), id,
				wit(map[string]any{"clone": what, "original": w2}))
		}
	}
	for k, n := range ac.n {
		r.ClassN("addresses compared: "+k, int64(n))
	}
	// node lookups
	ls := fileLookups(orig, clone)
	for _, l := range ls {
		var no, nc ast.Node
		if pv, _ := vlib.Try(func() { no = l.o() }); pv != nil {
			r.Class("lookup panics on the ORIGINAL (" + l.what + ")")
			continue
		}
		pv, stack := vlib.Try(func() { nc = l.c() })
		r.Class("lookups: " + l.what)
		switch {
		case pv != nil && !isNilNode(no):
			r.Violation("c24.node-lookup", l.what+" panics on the clone (index entry missing)", id, wit(map[string]any{"panic": fmt.Sprint(pv), "site": vlib.PanicSite(stack)}))
		case pv != nil:
			r.Class("lookup panics on clone where the original's node is nil")
		case isNilNode(no):
			r.Class("original node nil (" + l.what + ")")
			if !isNilNode(nc) {
				r.Violation("c24.node-lookup", l.what+" is nil on the original but not on the clone", id, wit(map[string]any{}))
			}
		case isNilNode(nc):
			r.Violation("c24.node-lookup", l.what+" returns nil on the clone, non-nil on the original", id, wit(map[string]any{"original_node": fmt.Sprintf("%T", no)}))
		case !sameNode(no, nc):
			r.Violation("c24.node-lookup", l.what+" returns a different node on the clone", id, wit(map[string]any{"original_node": fmt.Sprintf("%T", no), "clone_node": fmt.Sprintf("%T", nc)}))
		}
	}
}

// mutate links the result against deps, interprets options and generates
// source code info into its proto — what compiler.go does with a clone.
func mutate(res parser.Result, deps linker.Files, extra bool) error {
	h := reporter.NewHandler(nil)
	linked, err := linker.Link(res, deps, nil, h)
	if err != nil {
		return fmt.Errorf("link: %w", err)
	}
	idx, err := options.InterpretOptions(linked, h)
	if err != nil {
		return fmt.Errorf("options: %w", err)
	}
	var so []sourceinfo.GenerateOption
	if extra {
		so = append(so, sourceinfo.WithExtraComments(), sourceinfo.WithExtraOptionLocations())
	}
	res.FileDescriptorProto().SourceCodeInfo = sourceinfo.GenerateSourceInfo(res.AST(), idx, so...)
	linked.PopulateSourceCodeInfo()
	return nil
}

func TestC24(t *testing.T) {
	r := vlib.Start(t, "C24")
	defer r.Finish()
	r.Extra("rule", "every file of accepted generated models (proto2/proto3/editions, custom options, random option syntaxes so that option names have 1-4 parts) + 3 hand-written files (multi-range extensions/reserved statements with shared options, groups in oneofs/extends, deep option paths) + every parseable R1/R2 corpus source: "+
		"res = ResultFromAST(Parse(src)); c = parser.Clone(res). Checked: proto.Equal and equal deterministic bytes; Go-reflection walk of both protos collecting addresses of message structs, slice backing arrays (repeated fields, bytes, unknown fields), pointers to scalars and maps — intersection must be empty (strings are immutable and excluded); "+
		"for every element (file, message incl. map entries and group messages, field, oneof incl. synthetic, extension range, message/enum reserved range, enum, enum value, extension, service, method, every uninterpreted option and option name part) every applicable lookup of parser.Result returns the identical node for the clone's element as for the original's, non-nil where the original's is; "+
		"then (generated models and extras) one side is linked against its compiled dependencies + options interpreted + source info generated (compiler.go's sequence) and the other side's deterministic bytes must not change (clone mutated on even cases, original on odd ones; a second clone taken before must stay equal too). "+
		"one evaluation = one file; non-trivial = file with >=1 message; distinct = source text")
	r.Extra("assumptions", []string{
		"sharing the *ast.FileNode and Go strings between original and clone is allowed (immutable)",
		"deterministic marshalling detects any modification of a descriptor proto",
	})

	type job struct {
		id, name, text string
		src            map[string]string // nil = parse-only (corpus)
		deps           []string
	}
	var jobs []job
	// corpus sources: structural checks only
	if _, src, err := gen.LoadR1(); err == nil {
		for _, n := range gen.SortedNames(src) {
			jobs = append(jobs, job{id: "r1/" + n, name: n, text: src[n]})
		}
	} else {
		r.Inconclusive("R1 corpus: " + err.Error())
	}
	if _, src, err := gen.LoadR2(); err == nil {
		for _, n := range gen.SortedNames(src) {
			jobs = append(jobs, job{id: "r2/" + n, name: n, text: src[n]})
		}
	} else {
		r.Inconclusive("R2 corpus: " + err.Error())
	}
	for _, n := range gen.SortedNames(c24Extras) {
		var deps []string
		for _, d := range []string{"extras/ranges.proto"} {
			if n == "extras/p3.proto" || n == "extras/umbrella.proto" {
				deps = append(deps, d)
			}
		}
		jobs = append(jobs, job{id: "x/" + n, name: n, text: c24Extras[n], src: c24Extras, deps: deps})
	}
	nCorpus := len(jobs)
	nModels := r.N(800, 8000)

	r.Par(nCorpus+nModels, func(i int) {
		if i < nCorpus {
			j := jobs[i]
			if !r.Want(j.id) {
				return
			}
			if j.src != nil {
				if out := gen.Compile(j.src, []string{j.name}, gen.Opts{}); !out.OK() {
					r.Inconclusive("hand-written extra file is not accepted: " + out.ErrSummary())
					return
				}
			}
			runC24File(r, j.id, j.name, j.text, j.src, i)
			return
		}
		k := i - nCorpus
		id := fmt.Sprintf("g/%d", k)
		if !r.Want(id) {
			return
		}
		rng := r.Rng(id)
		m, err := gen.GenModel(rng, gen.StdConfig(rng, k))
		if err != nil {
			r.Class("model-not-decided")
			return
		}
		srng := r.Rng(id + "/style")
		var stf func(int) *gen.Style
		if k%3 != 0 {
			stf = func(fi int) *gen.Style { return &gen.Style{Rng: srng.Fork(fmt.Sprint(fi))} }
		}
		src, err := m.Sources(stf)
		if err != nil {
			r.Inconclusive("render: " + err.Error())
			return
		}
		out := gen.Compile(src, m.Names(), gen.Opts{})
		if !out.OK() {
			r.Class("model rejected by the compiler (not an accepted file; C01's concern)")
			return
		}
		for fi, f := range m.Files {
			fid := fmt.Sprintf("%s/%s", id, f.GetName())
			if !r.Want(fid) {
				continue
			}
			runC24File(r, fid, f.GetName(), src[f.GetName()], src, k+fi)
		}
		if k == 1 {
			r.Sample("generated-file", src)
		}
	})
}

func runC24File(r *vlib.Run, id, name, text string, src map[string]string, salt int) {
	orig, err := parseResult(name, text)
	if err != nil {
		r.Class("corpus file not parseable/valid (skipped)")
		return
	}
	key := ""
	if len(orig.FileDescriptorProto().MessageType) > 0 {
		key = text
	}
	r.Eval(key)
	var clone parser.Result
	if pv, stack := vlib.Try(func() { clone = parser.Clone(orig) }); pv != nil {
		r.Violation("c24.panic", "parser.Clone panics at "+vlib.PanicSite(stack), id, map[string]any{"file": name, "source": text, "panic": fmt.Sprint(pv)})
		return
	}
	checkClone(r, id, name, text, orig, clone)
	// clone of a clone
	if salt%4 == 0 {
		var c2 parser.Result
		if pv, _ := vlib.Try(func() { c2 = parser.Clone(clone) }); pv == nil {
			checkClone(r, id+"/clone-of-clone", name, text, clone, c2)
			r.Class("clone-of-clone checked")
		}
	}
	// a result that has no AST (parser.ResultWithoutAST): its clone has none either, answers every lookup with the
	// placeholder node like the original, and owns its descriptor proto
	if salt%3 == 0 {
		noast := parser.ResultWithoutAST(proto.Clone(orig.FileDescriptorProto()).(*descriptorpb.FileDescriptorProto))
		var c3 parser.Result
		w := map[string]any{"file": name, "source": text}
		if pv, stack := vlib.Try(func() { c3 = parser.Clone(noast) }); pv != nil {
			r.Violation("c24.panic", "parser.Clone of a result without AST panics at "+vlib.PanicSite(stack), id, w)
		} else if pv, stack := vlib.Try(func() {
			switch {
			case c3.AST() != nil:
				r.Violation("c24.no-ast-clone", "the clone of a result without AST claims to have an AST", id, w)
			case c3.FileNode() == nil || c3.FileNode() != noast.FileNode():
				r.Violation("c24.no-ast-clone", "FileNode of the clone differs from the original's placeholder node", id, w)
			case !proto.Equal(c3.FileDescriptorProto(), noast.FileDescriptorProto()):
				r.Violation("c24.no-ast-clone", "descriptor proto of the clone differs", id, w)
			case c3.FileDescriptorProto() == noast.FileDescriptorProto():
				r.Violation("c24.no-ast-clone", "the clone shares the descriptor proto object", id, w)
			}
			for i, md := range c3.FileDescriptorProto().MessageType {
				if c3.MessageNode(md) == nil || c3.MessageNode(md) != noast.MessageNode(noast.FileDescriptorProto().MessageType[i]) {
					r.Violation("c24.no-ast-clone", "MessageNode of the clone differs from the original's placeholder node", id, w)
					break
				}
			}
		}); pv != nil {
			r.Violation("c24.panic", "a lookup on the clone of a result without AST panics at "+vlib.PanicSite(stack), id, w)
		}
		r.Class("clone of a result without AST checked")
	}
	if src == nil {
		r.Class("files checked structurally only (corpus)")
		return
	}
	// mutation independence
	deps := orig.FileDescriptorProto().Dependency
	var depFiles linker.Files
	if len(deps) > 0 {
		out := gen.Compile(src, deps, gen.Opts{})
		if !out.OK() {
			r.Inconclusive("dependencies of an accepted file do not compile: " + out.ErrSummary())
			return
		}
		depFiles = out.Files
	}
	witness := parser.Clone(orig) // a second clone, never touched
	mutated, kept, which := clone, orig, "clone"
	if salt%2 == 1 {
		mutated, kept, which = orig, clone, "original"
	}
	before := gen.DetBytes(kept.FileDescriptorProto())
	beforeW := gen.DetBytes(witness.FileDescriptorProto())
	beforeM := gen.DetBytes(mutated.FileDescriptorProto())
	var merr error
	if pv, stack := vlib.Try(func() { merr = mutate(mutated, depFiles, salt%3 == 0) }); pv != nil {
		r.Violation("c24.panic", "linking a "+which+" panics at "+vlib.PanicSite(stack), id, map[string]any{"file": name, "source": text, "panic": fmt.Sprint(pv), "stack": stack})
		return
	}
	if merr != nil {
		r.Violation("c24.link-fails", "accepted file: linking the "+which+" by hand fails: "+gen.ClassifyErr(merr.Error()), id, map[string]any{"file": name, "sources": src, "error": merr.Error()})
		return
	}
	afterM := gen.DetBytes(mutated.FileDescriptorProto())
	if bytes.Equal(beforeM, afterM) {
		r.Class("mutation did not change the mutated side (nothing to observe)")
	} else {
		r.Class("mutated side changed (" + which + ")")
	}
	if after := gen.DetBytes(kept.FileDescriptorProto()); !bytes.Equal(before, after) {
		a, b := &descriptorpb.FileDescriptorProto{}, &descriptorpb.FileDescriptorProto{}
		_ = proto.Unmarshal(before, a)
		_ = proto.Unmarshal(after, b)
		r.Violation("c24.mutation-leaks", "mutating the "+which+" changes the other side: "+gen.DiffClass(gen.Diff(b, a)), id, map[string]any{"file": name, "sources": src, "diff": gen.Diff(b, a)})
	}
	if after := gen.DetBytes(witness.FileDescriptorProto()); !bytes.Equal(beforeW, after) {
		r.Violation("c24.mutation-leaks", "mutating the "+which+" changes an untouched second clone", id, map[string]any{"file": name, "sources": src})
	}
	// lookups still agree between the untouched side and the untouched second clone
	if which == "clone" {
		checkClone(r, id+"/after-mutation", name, text, orig, witness)
	}
}

var _ = sort.Strings
