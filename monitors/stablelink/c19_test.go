package stablelink

import "testing"

func TestC19(t *testing.T) { t.Skip("under construction") }
