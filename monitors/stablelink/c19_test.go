package stablelink

import (
	"errors"
	"fmt"
	"sort"
	"strings"
	"testing"

	"google.golang.org/protobuf/proto"
	"google.golang.org/protobuf/types/descriptorpb"

	"github.com/bufbuild/protocompile"
	"github.com/bufbuild/protocompile/internal/verifmon/gen"
	"github.com/bufbuild/protocompile/internal/verifmon/vlib"
	"github.com/bufbuild/protocompile/linker"
)

// C19 — unused-import warnings are exact.
//
// Oracle: the property's own operational definition. For the explicitly
// requested file X and each non-public import i: warned(i) ⇔ X without the
// import line of i still compiles and gives the same descriptor apart from
// dependency / public_dependency / weak_dependency.

// ---------- builder ----------

var c19OptKinds = []struct{ short, msg string }{
	{"file", "FileOptions"}, {"msg", "MessageOptions"}, {"fld", "FieldOptions"}, {"oneof", "OneofOptions"}, {"enum", "EnumOptions"},
	{"val", "EnumValueOptions"}, {"svc", "ServiceOptions"}, {"mtd", "MethodOptions"}, {"rng", "ExtensionRangeOptions"},
}

var c19SimpleUsages = []string{
	"field-msg", "field-enum", "map-value", "ext-type", "extendee", "method-in", "method-out",
	"optname:file", "optname:msg", "optname:fld", "optname:oneof", "optname:enum", "optname:val", "optname:svc", "optname:mtd", "optname:rng",
}

type c19Import struct {
	Path    string `json:"path"`
	Usage   string `json:"usage"`
	Public  bool   `json:"public"`
	Rel     bool   `json:"relative_reference"`
	Partial bool   `json:"partially_qualified"`
	// the import's package is (inside) the namespace that the first component of
	// some partially-qualified reference of X resolves to
	NsMatch bool   `json:"package_is_namespace_of_a_partial_reference"`
	Pkg     string `json:"package"`
	// by-construction expectation (cross-check of the builder, not the oracle)
	ExpectRemovable bool `json:"expect_removable"`
	// redundant-provider class
	Redundant string `json:"redundant,omitempty"`
	idx       int
}

type c19Case struct {
	src     map[string]string
	xName   string
	imports []*c19Import
	header  string
	body    string
	class   string // "unique" or "redundant:<shape>"
	// multi-request family: the request list (wrapper files that import X, and X itself);
	// nil = X alone
	requests []string
	wrappers []string
}

func (c *c19Case) renderX(skip int) string {
	var sb strings.Builder
	sb.WriteString(c.header)
	for k, im := range c.imports {
		if k == skip {
			continue
		}
		mod := ""
		if im.Public {
			mod = "public "
		}
		fmt.Fprintf(&sb, "import %s%q;\n", mod, im.Path)
	}
	sb.WriteString(c.body)
	return sb.String()
}

// provider writes provider file number i. extendsBase: it imports base.proto
// and extends base.BaseOpt.
func c19Provider(i int, pkg string, extendsBase bool) string {
	var sb strings.Builder
	sb.WriteString("syntax = \"proto2\";\n")
	fmt.Fprintf(&sb, "package %s;\n", pkg)
	sb.WriteString("import \"google/protobuf/descriptor.proto\";\n")
	if extendsBase {
		sb.WriteString("import \"base.proto\";\n")
	}
	fmt.Fprintf(&sb, "message M%d { optional int32 f = 1; extensions 100 to 199; }\n", i)
	fmt.Fprintf(&sb, "enum E%d { E%d_ZERO = 0; E%d_ONE = 1; }\n", i, i, i)
	for k, ok := range c19OptKinds {
		fmt.Fprintf(&sb, "extend google.protobuf.%s { optional int32 %s_o%d = %d; }\n", ok.msg, ok.short, i, 50000+i*20+k)
	}
	if extendsBase {
		fmt.Fprintf(&sb, "extend base.BaseOpt { optional int32 bx%d = %d; }\n", i, 100+i)
	}
	return sb.String()
}

const c19Base = `syntax = "proto2";
package base;
import "google/protobuf/descriptor.proto";
import "google/protobuf/any.proto";
message BaseOpt { optional int32 v = 1; optional BaseOpt child = 2; optional google.protobuf.Any any = 3; extensions 100 to 199; }
extend google.protobuf.MessageOptions { optional BaseOpt bopt = 49001; optional google.protobuf.Any bany = 49002; }
`

// usage snippet for provider i inside X. ref(name) spells a reference to a
// symbol of the provider's package. lbl is "optional " in proto2, "" in editions.
func c19Snippet(usage string, i int, ref func(string) string, optRef func(string) string, full func(string) string, lbl string) (fileLevel, decl string) {
	M, E := ref(fmt.Sprintf("M%d", i)), ref(fmt.Sprintf("E%d", i))
	o := func(short string) string { return optRef(fmt.Sprintf("%s_o%d", short, i)) }
	switch usage {
	case "field-msg":
		return "", fmt.Sprintf("message U%d { %s%s f = 1; }\n", i, lbl, M)
	case "field-enum":
		return "", fmt.Sprintf("message U%d { %s%s e = 1 [default = E%d_ONE]; }\n", i, lbl, E, i)
	case "map-value":
		return "", fmt.Sprintf("message U%d { map<string, %s> m = 1; }\n", i, M)
	case "ext-type":
		return "", fmt.Sprintf("message U%d { extensions 100 to 110; }\nextend U%d { %s%s ux%d = 100; }\n", i, i, lbl, M, i)
	case "extendee":
		return "", fmt.Sprintf("extend %s { %sint32 xx%d = 150; }\n", M, lbl, i)
	case "method-in":
		return "", fmt.Sprintf("service US%d { rpc R(%s) returns (Own); }\n", i, M)
	case "method-out":
		return "", fmt.Sprintf("service US%d { rpc R(Own) returns (stream %s); }\n", i, M)
	case "optname:file":
		return fmt.Sprintf("option (%s) = %d;\n", o("file"), i), ""
	case "optname:msg":
		return "", fmt.Sprintf("message U%d { option (%s) = 1; }\n", i, o("msg"))
	case "optname:fld":
		return "", fmt.Sprintf("message U%d { %sint32 f = 1 [(%s) = 1]; }\n", i, lbl, o("fld"))
	case "optname:oneof":
		return "", fmt.Sprintf("message U%d { oneof o { option (%s) = 1; int32 a = 1; } }\n", i, o("oneof"))
	case "optname:enum":
		return "", fmt.Sprintf("enum UE%d { option (%s) = 1; UE%d_Z = 0; }\n", i, o("enum"), i)
	case "optname:val":
		return "", fmt.Sprintf("enum UE%d { UE%d_Z = 0 [(%s) = 1]; }\n", i, i, o("val"))
	case "optname:svc":
		return "", fmt.Sprintf("service US%d { option (%s) = 1; }\n", i, o("svc"))
	case "optname:mtd":
		return "", fmt.Sprintf("service US%d { rpc R(Own) returns (Own) { option (%s) = 1; } }\n", i, o("mtd"))
	case "optname:rng":
		return "", fmt.Sprintf("message U%d { extensions 10 to 20 [(%s) = 1]; }\n", i, o("rng"))
	case "optname-part2":
		return "", fmt.Sprintf("message U%d { option (base.bopt).(%s) = 1; }\n", i, optRef(fmt.Sprintf("bx%d", i)))
	case "optname-part3":
		return "", fmt.Sprintf("message U%d { option (base.bopt).child.(%s) = 1; }\n", i, optRef(fmt.Sprintf("bx%d", i)))
	case "literal-ext":
		return "", fmt.Sprintf("message U%d { option (base.bopt) = { v: 2 [%s]: 1 }; }\n", i, strings.TrimPrefix(optRef(fmt.Sprintf("bx%d", i)), "."))
	case "literal-ext-nested":
		return "", fmt.Sprintf("message U%d { option (base.bopt) = { child { [%s]: 1 } }; }\n", i, strings.TrimPrefix(optRef(fmt.Sprintf("bx%d", i)), "."))
	case "any-url":
		return "", fmt.Sprintf("message U%d { option (base.bany) = { [type.googleapis.com/%s] { f: 1 } }; }\n", i, full(fmt.Sprintf("M%d", i)))
	case "any-url-nested":
		return "", fmt.Sprintf("message U%d { option (base.bopt) = { any { [type.googleapis.com/%s] { f: 1 } } }; }\n", i, full(fmt.Sprintf("M%d", i)))
	case "related-unnamed":
		return "", fmt.Sprintf("message U%d { option (top.tmsg%d) = { f: 1 }; option (top.tenum%d) = E%d_ONE; }\n", i, i, i, i)
	case "unused":
		return "", ""
	}
	panic("unknown usage " + usage)
}

var c19PkgPool = []string{"a", "a.b", "a.b.c", "b", "c.d", "a.c"}

// buildC19 builds one case. redundant == "" builds a deciding-set case
// (every symbol reachable through exactly one import of X).
func buildC19(rng *vlib.RNG, redundant string, nsBias bool) *c19Case {
	c := &c19Case{src: map[string]string{}, xName: "x.proto", class: "unique"}
	editions := rng.Chance(0.3)
	lbl := "optional "
	if editions {
		c.header = "edition = \"2023\";\n"
		lbl = ""
	} else if rng.Chance(0.85) {
		c.header = "syntax = \"proto2\";\n"
	}
	xpkg := vlib.Pick(rng, []string{"x", "", "x.y", "a.x", "a.b.x"})
	if nsBias {
		// X inside the package tree of the providers: partially-qualified references are possible
		xpkg = vlib.Pick(rng, []string{"a.x", "a.b.x", "a.b.c.x", "a.b"})
	}
	if xpkg != "" {
		c.header += "package " + xpkg + ";\n"
	}
	n := rng.Range(2, 6)
	needBase, needTop := false, false
	var topImports, topDecls []string
	var fileLevel, decls []string
	decls = append(decls, "message Own {}\n")
	var anchors []string // package names that the first component of a partially-qualified reference resolves to
	sharePkgs := rng.Chance(0.5) || nsBias
	pkgs := make([]string, n+1)
	allPkgs := []string{"base", "top", "rs", "rb", "rc", "google.protobuf"}
	for i := 1; i <= n; i++ {
		pkgs[i] = fmt.Sprintf("pk%d", i)
		if sharePkgs {
			pkgs[i] = vlib.Pick(rng, c19PkgPool)
		}
		allPkgs = append(allPkgs, pkgs[i], fmt.Sprintf("re%d", i))
	}
	// relOK: a relative reference pkg.Name from X's package resolves at the root
	// only if no enclosing package scope of X has a package named like its first component.
	relOK := func(refPkg string) bool {
		first := strings.SplitN(refPkg, ".", 2)[0]
		parts := strings.Split(xpkg, ".")
		if xpkg == "" {
			parts = nil
		}
		for k := 1; k <= len(parts); k++ {
			cand := strings.Join(parts[:k], ".") + "." + first
			for _, p := range append(allPkgs, xpkg) {
				if p == cand || strings.HasPrefix(p, cand+".") {
					return false
				}
			}
		}
		return true
	}
	for i := 1; i <= n; i++ {
		im := &c19Import{idx: i}
		pkg := pkgs[i]
		im.Pkg = pkg
		im.Rel = (rng.Chance(0.5) || nsBias) && relOK(pkg)
		// choose the usage
		var usage string
		switch k := rng.Intn(20); {
		case k < 5:
			usage = "unused"
		case k < 6:
			usage = "related-unnamed"
		case k < 10:
			usage = vlib.Pick(rng, []string{"optname-part2", "optname-part3", "literal-ext", "literal-ext-nested", "any-url", "any-url-nested"})
		default:
			usage = vlib.Pick(rng, c19SimpleUsages)
		}
		if strings.HasPrefix(usage, "literal-ext") && !relOK(pkg) {
			// extension names in message literals cannot carry a leading dot
			usage = "optname-part2"
		}
		viaPublic := usage != "unused" && usage != "related-unnamed" && rng.Chance(0.15)
		extendsBase := strings.HasPrefix(usage, "optname-part") || strings.HasPrefix(usage, "literal-ext")
		if extendsBase || strings.HasPrefix(usage, "any-url") {
			needBase = true
		}
		ppath := fmt.Sprintf("p%d.proto", i)
		if rng.Chance(0.3) {
			ppath = fmt.Sprintf("dir/p%d.proto", i)
		}
		c.src[ppath] = c19Provider(i, pkg, extendsBase)
		im.Path = ppath
		im.Usage = usage
		if viaPublic {
			rpath := fmt.Sprintf("re%d.proto", i)
			c.src[rpath] = fmt.Sprintf("syntax = \"proto3\";\npackage re%d;\nimport public %q;\nmessage ReOwn%d {}\n", i, ppath, i)
			im.Path = rpath
			im.Usage = "via-public:" + usage
		}
		if usage == "related-unnamed" {
			needTop = true
			topImports = append(topImports, fmt.Sprintf("import %q;\n", ppath))
			topDecls = append(topDecls, fmt.Sprintf("extend google.protobuf.MessageOptions { optional .%s.M%d tmsg%d = %d; optional .%s.E%d tenum%d = %d; }\n", pkg, i, i, 48000+2*i, pkg, i, i, 48001+2*i))
		}
		im.ExpectRemovable = usage == "unused" || usage == "related-unnamed"
		if usage != "unused" && rng.Chance(0.08) && !im.ExpectRemovable {
			// a used import that is public: never warned, not quantified by the removal rule
			im.Public = true
		}
		if usage == "unused" && rng.Chance(0.2) {
			im.Public = true
		}
		// partially-qualified spelling: drop the leading k components that the
		// provider's package shares with X's package (resolved by the scope walk)
		spellPkg := pkg
		if im.Rel && xpkg != "" && rng.Chance(0.7) {
			xp, pp := strings.Split(xpkg, "."), strings.Split(pkg, ".")
			common := 0
			for common < len(xp) && common < len(pp) && xp[common] == pp[common] {
				common++
			}
			if common > 0 {
				k := rng.Range(1, common)
				rest := strings.Join(pp[k:], ".")
				first := strings.SplitN(rest, ".", 2)[0]
				ok := true
				if rest != "" {
					for j := len(xp); j > k; j-- {
						cand := strings.Join(xp[:j], ".") + "." + first
						for _, p := range append(allPkgs, xpkg) {
							if p == cand || strings.HasPrefix(p, cand+".") {
								ok = false
							}
						}
					}
				}
				if ok {
					spellPkg = rest
					im.Partial = true
					if rest != "" {
						anchors = append(anchors, strings.Join(xp[:k], ".")+"."+first)
					}
				}
			}
		}
		ref := func(name string) string {
			if im.Rel {
				if spellPkg == "" {
					return name
				}
				return spellPkg + "." + name
			}
			return "." + pkg + "." + name
		}
		full := func(name string) string { return pkg + "." + name }
		fl, d := c19Snippet(usage, i, ref, ref, full, lbl)
		if fl != "" {
			fileLevel = append(fileLevel, fl)
		}
		if d != "" {
			decls = append(decls, d)
		}
		c.imports = append(c.imports, im)
	}
	// well-known imports
	if rng.Chance(0.3) {
		if rng.Bool() {
			c.imports = append(c.imports, &c19Import{Path: "google/protobuf/timestamp.proto", Usage: "unused", ExpectRemovable: true, Pkg: "google.protobuf"})
		} else {
			c.imports = append(c.imports, &c19Import{Path: "google/protobuf/duration.proto", Usage: "field-msg", Pkg: "google.protobuf"})
			decls = append(decls, fmt.Sprintf("message UW { %s.google.protobuf.Duration d = 1; }\n", lbl))
		}
	}
	if needBase {
		c.src["base.proto"] = c19Base
		c.imports = append(c.imports, &c19Import{Path: "base.proto", Usage: "base (option names of X)", Pkg: "base"})
	}
	if needTop {
		c.src["top.proto"] = "syntax = \"proto2\";\npackage top;\nimport \"google/protobuf/descriptor.proto\";\n" + strings.Join(topImports, "") + strings.Join(topDecls, "")
		c.imports = append(c.imports, &c19Import{Path: "top.proto", Usage: "top (option names of X)", Pkg: "top"})
	}

	if redundant != "" {
		c.class = "redundant:" + redundant
		// S = message RS in rs.proto, used by X as a field type / option; two routes to it.
		c.src["rs.proto"] = "syntax = \"proto2\";\npackage rs;\nimport \"google/protobuf/descriptor.proto\";\nmessage RS { optional int32 f = 1; }\nextend google.protobuf.MessageOptions { optional int32 rs_opt = 47001; }\n"
		reexp := func(name string, via string) {
			c.src[name] = fmt.Sprintf("syntax = \"proto3\";\npackage %s;\nimport public %q;\nmessage Own_%s {}\n", strings.TrimSuffix(name, ".proto"), via, strings.TrimSuffix(name, ".proto"))
		}
		var red []*c19Import
		switch redundant {
		case "direct+reexport":
			reexp("rb.proto", "rs.proto")
			red = []*c19Import{{Path: "rs.proto", Redundant: "direct"}, {Path: "rb.proto", Redundant: "re-exporter"}}
		case "two-reexporters":
			reexp("rb.proto", "rs.proto")
			reexp("rc.proto", "rs.proto")
			red = []*c19Import{{Path: "rb.proto", Redundant: "re-exporter"}, {Path: "rc.proto", Redundant: "re-exporter"}}
		case "chain+direct":
			reexp("rc.proto", "rs.proto")
			reexp("rb.proto", "rc.proto")
			red = []*c19Import{{Path: "rs.proto", Redundant: "direct"}, {Path: "rb.proto", Redundant: "re-exporter (2 hops)"}}
		case "public+nonpublic":
			reexp("rb.proto", "rs.proto")
			red = []*c19Import{{Path: "rs.proto", Redundant: "direct", Public: true}, {Path: "rb.proto", Redundant: "re-exporter"}}
		default:
			panic(redundant)
		}
		use := vlib.Pick(rng, []string{"field", "option", "method", "both"})
		switch use {
		case "field":
			decls = append(decls, fmt.Sprintf("message UR { %s.rs.RS r = 1; }\n", lbl))
		case "option":
			decls = append(decls, "message UR { option (rs.rs_opt) = 1; }\n")
		case "method":
			decls = append(decls, "service URS { rpc R(.rs.RS) returns (rs.RS); }\n")
		default:
			decls = append(decls, fmt.Sprintf("message UR { option (.rs.rs_opt) = 1; %srs.RS r = 1; }\n", lbl))
		}
		for _, im := range red {
			im.Usage = "redundant:" + use
			im.Pkg = "rs"
			c.imports = append(c.imports, im)
		}
	}
	for _, im := range c.imports {
		for _, a := range anchors {
			if im.Pkg == a || strings.HasPrefix(im.Pkg, a+".") {
				im.NsMatch = true
			}
		}
	}
	vlib.Shuffle(rng, c.imports)
	// interleave file-level options and declarations
	vlib.Shuffle(rng, decls)
	c.body = strings.Join(fileLevel, "") + strings.Join(decls, "")
	c.src[c.xName] = c.renderX(-1)
	return c
}

// ---------- observation ----------

func unusedWarnings(out *gen.Outcome) map[string][]string {
	w := map[string][]string{} // file -> warned import paths
	for _, e := range out.WarnObjs {
		var ui linker.ErrorUnusedImport
		if errors.As(e, &ui) {
			w[e.GetPosition().Filename] = append(w[e.GetPosition().Filename], ui.UnusedImport())
		}
	}
	return w
}

// stripDeps re-decodes fd without any resolver (custom options become unknown
// fields, so that descriptors from two separate compilations are comparable
// with proto.Equal) and clears the dependency lists.
func stripDeps(fd *descriptorpb.FileDescriptorProto) *descriptorpb.FileDescriptorProto {
	c := &descriptorpb.FileDescriptorProto{}
	if fd == nil {
		return c
	}
	if err := proto.Unmarshal(gen.DetBytes(fd), c); err != nil {
		panic(err)
	}
	c.Dependency, c.PublicDependency, c.WeakDependency = nil, nil, nil
	c.SourceCodeInfo = nil
	return c
}

func TestC19(t *testing.T) {
	r := vlib.Start(t, "C19")
	defer r.Finish()
	r.Extra("rule", "built files X (proto2 or edition 2023, 5 package shapes) with 2-6 provider imports (+ optional well-known import, base.proto/top.proto helper imports), import order shuffled; each provider is used by X through exactly one of: "+
		"message field type, enum field type (+default), map value type, extension type, extendee, method input, method output, custom option name on file/message/field/oneof/enum/enum value/service/method/extension range, second/third option name part, extension name in a message literal (top level / nested), Any type URL in a message literal (top level / nested), "+
		"the same through a pure re-exporter (import public), a related-but-unnamed import (its types are only the value types of options defined elsewhere), or not at all; references relative or leading-dot; provider packages unique or drawn from a small pool with shared prefixes; some imports public. "+
		"Oracle = removal differential: for each non-public import i, X minus the import line is compiled (explicitly requested) and compared (accepted? descriptor equal apart from dependency/public_dependency/weak_dependency?) — warned(i) must hold iff removable(i); a public import must never be warned; warnings must name imports of X. "+
		"Deciding set = every symbol reachable through exactly one import. Separate class 'redundant:*' = one symbol reachable through two imports (direct + re-exporter, two re-exporters, 2-hop chain + direct, public + non-public), reported under its own (kind, sig). "+
		"one evaluation = one (case, import); non-trivial = X accepted with >=1 used and >=1 removable import; distinct = sources of X and providers")
	r.Extra("assumptions", []string{
		"the removal differential is run with the same compiler, so it decides only the warning logic, not resolution itself (C15/C18 do that)",
		"by-construction expectation (unused / related-unnamed imports are the removable ones) is used as a cross-check of the builder: a disagreement with the removal differential is reported as inconclusive, not as a violation",
	})
	// fixed minimal cases (one per phenomenon the random classes are aimed at)
	if r.Mine(0) {
		for _, fc := range c19Fixed() {
			if r.Want(fc.id) {
				runC19(r, fc.id, fc.c, 0)
			}
		}
	}
	shapes := []string{"direct+reexport", "two-reexporters", "chain+direct", "public+nonpublic"}
	n := r.N(2000, 20000)
	r.Par(n, func(i int) {
		id := fmt.Sprintf("u/%d", i)
		redundant := ""
		if i%5 == 4 {
			redundant = shapes[(i/5)%len(shapes)]
			id = fmt.Sprintf("red/%s/%d", redundant, i)
		}
		if i%5 == 3 {
			id = fmt.Sprintf("ns/%d", i)
		}
		if !r.Want(id) {
			return
		}
		c := buildC19(r.Rng(id), redundant, i%5 == 3)
		runC19(r, id, c, i)
	})
	// multi-request family: X is requested together with K files that import it (and are
	// requested before it, after it, or around it). Whether a file's task is created by the
	// request loop or by an importer's task must not change its warnings.
	nm := r.N(48, 400)
	r.Par(nm, func(i int) {
		id := fmt.Sprintf("multi/%d", i)
		if !r.Want(id) {
			return
		}
		rng := r.Rng(id)
		c := buildC19(rng, "", i%4 == 3)
		k := []int{1, 3, 40, 400, 1500, 1500}[i%6]
		for j := 0; j < k; j++ {
			w := fmt.Sprintf("w%04d.proto", j)
			c.src[w] = fmt.Sprintf("syntax = \"proto3\";\npackage wrap.w%d;\nimport %q;\n", j, c.xName)
			c.wrappers = append(c.wrappers, w)
		}
		switch (i / 6) % 4 {
		case 0, 1: // X last
			c.requests = append(append([]string{}, c.wrappers...), c.xName)
		case 2: // X first
			c.requests = append([]string{c.xName}, c.wrappers...)
		default: // X somewhere inside
			at := rng.Intn(k + 1)
			c.requests = append(append(append([]string{}, c.wrappers[:at]...), c.xName), c.wrappers[at:]...)
		}
		r.Class(fmt.Sprintf("multi-request: %d importers of X in the request list", k))
		runC19(r, id, c, i)
	})
}

func runC19(r *vlib.Run, id string, c *c19Case, salt int) {
	par := 1 + (salt%2)*7
	reqs := []string{c.xName}
	if c.requests != nil {
		reqs = c.requests
		par = []int{1, 4, 16}[salt%3]
	}
	out := gen.Compile(c.src, reqs, gen.Opts{Par: par})
	wit := func(extra map[string]any) map[string]any {
		extra["sources"] = c.src
		extra["imports"] = c.imports
		extra["class"] = c.class
		return extra
	}
	if !out.OK() {
		r.Inconclusive("built file X is rejected (builder bug or resolution defect): " + gen.ClassifyErr(out.ErrSummary()))
		r.Sample("rejected-x", wit(map[string]any{"errors": out.ErrSummary()}))
		return
	}
	base := gen.Protos(out.Files)[c.xName]
	if base == nil {
		r.Inconclusive("no descriptor for X")
		return
	}
	warned := map[string]int{}
	ws := unusedWarnings(out)
	if c.requests != nil {
		// every wrapper is explicitly requested too and imports X without using it:
		// exactly one warning, naming X
		bad := 0
		for _, w := range c.wrappers {
			if got := ws[w]; len(got) != 1 || got[0] != c.xName {
				bad++
				if bad == 1 {
					r.Violation("c19.multi-request.wrapper", fmt.Sprintf("a requested file whose only import (of another requested file) is unused draws %s warnings", map[bool]string{true: "no", false: "other/duplicate"}[len(got) == 0]), id,
						wit(map[string]any{"wrapper": w, "warnings": got, "requests": len(reqs), "max_parallelism": par}))
				}
			}
			delete(ws, w)
		}
		r.ClassN("multi-request: wrapper files checked for exactly one warning", int64(len(c.wrappers)))
	}
	for f, paths := range ws {
		for _, p := range paths {
			if f != c.xName {
				r.Class("unused-import warnings positioned in a non-explicit file (observed)")
				continue
			}
			warned[p]++
		}
	}
	// the same file handed over as a descriptor proto (no source, no AST) must draw the same warnings
	if pr, perr := parseResult(c.xName, c.src[c.xName]); perr == nil {
		xp := proto.Clone(pr.FileDescriptorProto()).(*descriptorpb.FileDescriptorProto)
		res := protocompile.WithStandardImports(protocompile.ResolverFunc(func(name string) (protocompile.SearchResult, error) {
			if name == c.xName {
				return protocompile.SearchResult{Proto: xp}, nil
			}
			if t, ok := c.src[name]; ok {
				return protocompile.SearchResult{Source: strings.NewReader(t)}, nil
			}
			return protocompile.SearchResult{}, fmt.Errorf("file not found: %s", name)
		}))
		outP := gen.CompileWith(res, []string{c.xName}, gen.Opts{Par: par})
		if outP.OK() {
			warnedP := map[string]int{}
			for f, paths := range unusedWarnings(outP) {
				for _, p := range paths {
					if f == c.xName {
						warnedP[p]++
					}
				}
			}
			for p := range warned {
				if warnedP[p] == 0 {
					r.Violation("c19.form-dependent", "an import reported unused for the source is not reported when the same file is supplied as a descriptor proto", id, wit(map[string]any{"import": p}))
				}
			}
			for p := range warnedP {
				if warned[p] == 0 {
					r.Violation("c19.form-dependent", "an import is reported unused only when the file is supplied as a descriptor proto", id, wit(map[string]any{"import": p}))
				}
			}
			r.Class("descriptor-proto form compared")
		} else {
			r.Class("descriptor-proto form rejected (observed)")
		}
	}
	known := map[string]*c19Import{}
	for _, im := range c.imports {
		known[im.Path] = im
	}
	for p, k := range warned {
		if known[p] == nil {
			r.Violation("c19.unknown-warning", "unused-import warning names a path that X does not import", id, wit(map[string]any{"warned": p}))
		}
		if k > 1 {
			r.Violation("c19.duplicate-warning", "the same import is reported unused more than once", id, wit(map[string]any{"warned": p, "times": k}))
		}
	}
	baseStripped := stripDeps(base)
	nUsed, nRemovable := 0, 0
	var evaluated []string
	// the first import (in X's order) through which the redundant symbol is visible
	firstRed := -1
	for k, im := range c.imports {
		if im.Redundant != "" && firstRed < 0 {
			firstRed = k
		}
	}
	for k, im := range c.imports {
		iid := fmt.Sprintf("%s/%s", id, im.Path)
		if !r.Want(iid) {
			continue
		}
		isWarned := warned[im.Path] > 0
		cls := "unique provider: " + im.Usage
		if im.Redundant != "" {
			pos := "searched later"
			if k == firstRed {
				pos = "searched first"
			}
			cls = fmt.Sprintf("redundant provider (%s): %s, %s", strings.TrimPrefix(c.class, "redundant:"), im.Redundant, pos)
		} else if c.class != "unique" {
			cls = "unique provider next to a redundant pair: " + im.Usage
		}
		if im.Redundant == "" && im.NsMatch && im.ExpectRemovable {
			cls = "unique provider: removable import (unused / related-unnamed) whose package is the namespace through which a partially-qualified reference to ANOTHER import resolves"
		}
		if c.requests != nil {
			cls = "X requested together with files that import it | " + cls
		}
		if im.Public {
			evaluated = append(evaluated, "")
			r.Class("public imports (must never be warned)")
			if isWarned {
				r.Violation("c19.public-warned", "a public import is reported unused ("+cls+")", iid, wit(map[string]any{"import": im}))
			}
			continue
		}
		// removal differential
		src2 := map[string]string{}
		for n, s := range c.src {
			src2[n] = s
		}
		src2[c.xName] = c.renderX(k)
		out2 := gen.Compile(src2, []string{c.xName}, gen.Opts{Par: 1})
		removable := false
		why := ""
		if out2.Panic != nil {
			r.Violation("compile.panic", "panic compiling X without one import", iid, wit(map[string]any{"import": im, "panic": fmt.Sprint(out2.Panic)}))
			continue
		}
		if !out2.OK() {
			why = "compilation fails: " + gen.ClassifyErr(out2.ErrSummary())
		} else {
			got := gen.Protos(out2.Files)[c.xName]
			if got != nil && proto.Equal(stripDeps(got), baseStripped) {
				removable = true
			} else {
				why = "descriptor changes: " + gen.DiffClass(gen.Diff(stripDeps(got), baseStripped))
			}
		}
		if removable {
			nRemovable++
		} else {
			nUsed++
		}
		evaluated = append(evaluated, im.Path)
		r.Class(fmt.Sprintf("%s | removable=%v warned=%v", cls, removable, isWarned))
		if im.Redundant == "" && removable != im.ExpectRemovable {
			// the builder's claim about this import is wrong, or resolution leaks: not C19's verdict
			r.Inconclusive(fmt.Sprintf("builder expectation differs from removal differential for %s: removable=%v (%s)", cls, removable, why))
			r.Sample("builder-mismatch", wit(map[string]any{"import": im, "why": why}))
			continue
		}
		w := wit(map[string]any{"import": im, "import_index_in_x": k, "removable": removable, "removal_result": why, "warned_imports": sortedKeys(warned), "x_without_import": src2[c.xName]})
		switch {
		case isWarned && !removable:
			kind := "c19.warned-but-needed"
			if im.Redundant != "" {
				kind = "c19.redundant.warned-but-needed"
			}
			r.Violation(kind, cls+": reported unused, but removing it "+strings.SplitN(why, ":", 2)[0], iid, w)
		case !isWarned && removable:
			kind := "c19.removable-not-warned"
			if im.Redundant != "" {
				kind = "c19.redundant.removable-not-warned"
			}
			r.Violation(kind, cls+": removing it changes nothing, yet it is not reported unused", iid, w)
		}
	}
	for _, p := range evaluated {
		if nUsed > 0 && nRemovable > 0 && p != "" {
			r.Eval(gen.SrcKey(c.src) + "\x00" + p)
		} else {
			r.Eval("")
		}
	}
	if salt < 3 {
		r.Sample("case:"+c.class, map[string]any{"sources": c.src, "imports": c.imports, "warned": sortedKeys(warned)})
	}
	_ = sort.Strings
}

type c19FixedCase struct {
	id string
	c  *c19Case
}

// c19Fixed are hand-minimised cases.
func c19Fixed() []c19FixedCase {
	mk := func(header, body string, src map[string]string, class string, imports ...*c19Import) *c19Case {
		c := &c19Case{src: src, xName: "x.proto", header: header, body: body, class: class, imports: imports}
		c.src[c.xName] = c.renderX(-1)
		return c
	}
	return []c19FixedCase{
		{"fixed/namespace-match", mk("syntax = \"proto2\";\npackage a.x;\n", "message T { optional b.M f = 1; }\n",
			map[string]string{
				"u.proto": "syntax = \"proto2\";\npackage a.b;\nmessage Unrelated {}\n",
				"w.proto": "syntax = \"proto2\";\npackage a.b;\nmessage M {}\n",
			}, "unique",
			&c19Import{Path: "u.proto", Usage: "unused", Pkg: "a.b", ExpectRemovable: true, NsMatch: true},
			&c19Import{Path: "w.proto", Usage: "field-msg", Pkg: "a.b", Rel: true, Partial: true})},
		{"fixed/namespace-match-leading-dot-control", mk("syntax = \"proto2\";\npackage a.x;\n", "message T { optional .a.b.M f = 1; }\n",
			map[string]string{
				"u.proto": "syntax = \"proto2\";\npackage a.b;\nmessage Unrelated {}\n",
				"w.proto": "syntax = \"proto2\";\npackage a.b;\nmessage M {}\n",
			}, "unique",
			&c19Import{Path: "u.proto", Usage: "unused", Pkg: "a.b", ExpectRemovable: true},
			&c19Import{Path: "w.proto", Usage: "field-msg", Pkg: "a.b"})},
		{"fixed/redundant-direct+reexport", mk("syntax = \"proto2\";\npackage x;\n", "message T { optional .rs.RS f = 1; }\n",
			map[string]string{
				"rs.proto": "syntax = \"proto2\";\npackage rs;\nmessage RS {}\n",
				"rb.proto": "syntax = \"proto2\";\npackage rb;\nimport public \"rs.proto\";\n",
			}, "redundant:direct+reexport",
			&c19Import{Path: "rs.proto", Usage: "redundant:field", Pkg: "rs", Redundant: "direct"},
			&c19Import{Path: "rb.proto", Usage: "redundant:field", Pkg: "rs", Redundant: "re-exporter"})},
	}
}
