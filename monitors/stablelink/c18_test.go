package stablelink

import (
	"errors"
	"fmt"
	"sort"
	"strings"
	"testing"

	"google.golang.org/protobuf/proto"
	"google.golang.org/protobuf/reflect/protoreflect"
	"google.golang.org/protobuf/reflect/protoregistry"
	"google.golang.org/protobuf/types/descriptorpb"

	"github.com/bufbuild/protocompile/internal/verifmon/gen"
	"github.com/bufbuild/protocompile/internal/verifmon/vlib"
	"github.com/bufbuild/protocompile/linker"
)

// C18 — resolvers expose exactly the visible elements.
//
// Oracle: V(f) = {f} ∪ for each direct import d: Pub*(d), computed from the
// dependency / public_dependency lists of the MODEL (never from the compiled
// files). Every element of the whole file set is queried through every lookup
// of linker.ResolverFromFile(f), for every file f of the set.

// augmentImports adds import edges (to earlier files only, so no cycle can
// arise) and flips public flags, so that graphs have 3-8 files with long
// public chains, diamonds and non-public cuts. Adding an import or making one
// public never invalidates a file whose references are fully qualified.
func augmentImports(rng *vlib.RNG, files []*descriptorpb.FileDescriptorProto) {
	for i, fd := range files {
		has := map[string]bool{}
		for _, d := range fd.Dependency {
			has[d] = true
		}
		for j := 0; j < i; j++ {
			if has[files[j].GetName()] || !rng.Chance(0.25) {
				continue
			}
			fd.Dependency = append(fd.Dependency, files[j].GetName())
		}
		pub := map[int32]bool{}
		for _, p := range fd.PublicDependency {
			pub[p] = true
		}
		for k := range fd.Dependency {
			if !pub[int32(k)] && rng.Chance(0.4) {
				pub[int32(k)] = true
			}
		}
		fd.PublicDependency = nil
		for k := range fd.Dependency {
			if pub[int32(k)] {
				fd.PublicDependency = append(fd.PublicDependency, int32(k))
			}
		}
	}
}

// allLinkerFiles walks requested files and imports.
func allLinkerFiles(files linker.Files) map[string]linker.File {
	out := map[string]linker.File{}
	var walk func(f linker.File)
	walk = func(f linker.File) {
		if f == nil {
			return
		}
		if _, ok := out[f.Path()]; ok {
			return
		}
		out[f.Path()] = f
		imps := f.Imports()
		for i := 0; i < imps.Len(); i++ {
			walk(f.FindImportByPath(imps.Get(i).Path()))
		}
	}
	for _, f := range files {
		walk(f)
	}
	return out
}

func kindOfDescriptor(d protoreflect.Descriptor) string {
	switch d := d.(type) {
	case protoreflect.MessageDescriptor:
		return kMessage
	case protoreflect.EnumDescriptor:
		return kEnum
	case protoreflect.EnumValueDescriptor:
		return kEnumValue
	case protoreflect.FieldDescriptor:
		if d.IsExtension() {
			return kExtension
		}
		return kField
	case protoreflect.OneofDescriptor:
		return kOneof
	case protoreflect.ServiceDescriptor:
		return kService
	case protoreflect.MethodDescriptor:
		return kMethod
	case protoreflect.FileDescriptor:
		return "file"
	}
	return fmt.Sprintf("%T", d)
}

func TestC18(t *testing.T) {
	r := vlib.Start(t, "C18")
	defer r.Finish()
	r.Extra("rule", "generated models (gen.GenModel, 3-8 model files + option schema + well-known imports; import edges augmented with random extra edges and public flags) compiled with the stable compiler; "+
		"for EVERY file f of the compiled closure (model files, opts/options.proto, google/protobuf/*.proto) linker.ResolverFromFile(f) is queried with every message/enum/enum value/field/oneof/extension/service/method full name of the WHOLE closure "+
		"(FindDescriptorByName, FindMessageByName, FindMessageByURL in 3 URL shapes, FindExtensionByName), every (extendee, number) of every extension (FindExtensionByNumber), every file path (FindFileByPath), plus absent names/numbers/paths and package names; "+
		"found iff the defining file is in V(f), and what is found must be that element (name, kind, defining file). one evaluation = one (model, f); non-trivial = V(f) is a proper subset of the closure and contains a file reached only through a public import; distinct = (model sources, f)")
	r.Extra("assumptions", []string{
		"V(f) = {f} ∪ direct imports ∪ their public-import closure is computed from the model's dependency lists by an independent 15-line closure",
		"the element universe comes from the model descriptors (what was rendered) and, for well-known files, from the Go protobuf runtime's registry (the compiler's standard imports are those same descriptors)",
	})
	n := r.N(600, 6000)
	r.Par(n, func(i int) {
		id := fmt.Sprintf("g/%d", i)
		if !r.Want(id) {
			return
		}
		rng := r.Rng(id)
		cfg := gen.Config{MaxFiles: 8, CustomOptions: i%3 != 0, Collide: i%4 == 1, Small: true}
		var m *gen.Model
		for try := 0; try < 20; try++ {
			mm, err := gen.GenModel(rng, cfg)
			if err != nil {
				continue
			}
			nf := 0
			for _, f := range mm.Files {
				if f.GetName() != "opts/options.proto" {
					nf++
				}
			}
			if nf >= 3 {
				m = mm
				break
			}
		}
		if m == nil {
			r.Class("model-not-decided")
			return
		}
		// work on copies: the model's registry stays as generated
		files := make([]*descriptorpb.FileDescriptorProto, len(m.Files))
		for k, f := range m.Files {
			files[k] = proto.Clone(f).(*descriptorpb.FileDescriptorProto)
		}
		augmentImports(rng, files)
		src := map[string]string{}
		for _, f := range files {
			s, err := gen.Render(f, m.Types, nil)
			if err != nil {
				r.Inconclusive("render: " + err.Error())
				return
			}
			src[f.GetName()] = s
		}
		var names []string
		for _, f := range files {
			names = append(names, f.GetName())
		}
		if i%3 == 1 {
			// request only the last file: everything else is compiled as a dependency
			names = names[len(names)-1:]
		}
		out := gen.Compile(src, names, gen.Opts{Par: 1 + (i%2)*7})
		if !out.OK() {
			r.Violation("c18.model-rejected", "generated model with augmented imports rejected: "+gen.ClassifyErr(out.ErrSummary()), id, map[string]any{"sources": src, "errors": out.ErrSummary()})
			return
		}
		lfs := allLinkerFiles(out.Files)
		var closure []*descriptorpb.FileDescriptorProto
		for _, f := range files {
			if _, ok := lfs[f.GetName()]; ok {
				closure = append(closure, f)
			}
		}
		w := newWorld(closure)
		// the compiled closure and the model's closure must be the same file set
		for p := range lfs {
			if w.files[p] == nil {
				r.Inconclusive("compiled closure has a file the model does not know: " + p)
				return
			}
		}
		for p := range w.files {
			if lfs[p] == nil {
				r.Inconclusive("model closure has a file the compiler did not load: " + p)
				return
			}
		}
		exts := []elem{}
		for _, e := range w.elems {
			if e.Kind == kExtension {
				exts = append(exts, e)
			}
		}
		absentNames := []string{"nonexistent.Thing", "Zzz", "google.protobuf.NoSuchMessage"}
		for p := range w.pkgFiles {
			if len(w.byFQN[p]) == 0 {
				absentNames = append(absentNames, p)
			}
		}
		sort.Strings(absentNames)
		paths := append([]string(nil), w.names...)
		absentPaths := []string{"nope.proto", "google/protobuf/nope.proto", ""}

		for _, fname := range w.names {
			fid := id + "/" + fname
			if !r.Want(fid) {
				continue
			}
			lf := lfs[fname]
			V := w.visible(fname)
			res := linker.ResolverFromFile(lf)
			var nq, nFound, nHidden int64
			bad := func(kind, sig string, wit map[string]any) {
				wit["resolver_of"] = fname
				wit["V(f)"] = sortedKeys(V)
				wit["imports"] = importSummary(w)
				wit["sources"] = src
				r.Violation(kind, sig, fid, wit)
			}
			pv, stack := vlib.Try(func() {
				for _, e := range w.elems {
					vis := V[e.File]
					if vis {
						nFound++
					} else {
						nHidden++
					}
					state := "visible"
					if !vis {
						state = "hidden"
					}
					// --- FindDescriptorByName
					nq++
					d, err := res.FindDescriptorByName(protoreflect.FullName(e.FQN))
					switch {
					case vis && (err != nil || d == nil):
						bad("c18.missing", "FindDescriptorByName misses a visible "+e.Kind, map[string]any{"name": e.FQN, "defined_in": e.File, "err": fmt.Sprint(err)})
					case !vis && err == nil && d != nil:
						bad("c18.leak", "FindDescriptorByName finds a hidden "+e.Kind, map[string]any{"name": e.FQN, "defined_in": e.File})
					case vis:
						if string(d.FullName()) != e.FQN || kindOfDescriptor(d) != e.Kind || d.ParentFile() == nil || d.ParentFile().Path() != e.File {
							bad("c18.wrong-element", "FindDescriptorByName returns another element for a "+e.Kind, map[string]any{"name": e.FQN, "defined_in": e.File, "got": string(d.FullName()), "got_kind": kindOfDescriptor(d)})
						}
					default:
						if !errors.Is(err, protoregistry.NotFound) {
							r.Class("hidden lookups failing with an error other than NotFound")
						}
					}
					// --- FindMessageByName / FindMessageByURL
					urls := []string{e.FQN, "type.googleapis.com/" + e.FQN, "example.com/a/b/" + e.FQN}
					for k := 0; k < 1+len(urls); k++ {
						nq++
						var mt protoreflect.MessageType
						var err error
						api := "FindMessageByName"
						if k == 0 {
							mt, err = res.FindMessageByName(protoreflect.FullName(e.FQN))
						} else {
							api = "FindMessageByURL"
							mt, err = res.FindMessageByURL(urls[k-1])
						}
						found := err == nil && mt != nil
						switch {
						case e.Kind == kMessage && vis && !found:
							bad("c18.missing", api+" misses a visible message", map[string]any{"name": e.FQN, "defined_in": e.File, "err": fmt.Sprint(err), "url_shape": k})
						case e.Kind == kMessage && !vis && found:
							bad("c18.leak", api+" finds a hidden message", map[string]any{"name": e.FQN, "defined_in": e.File, "url_shape": k})
						case e.Kind != kMessage && found:
							bad("c18.wrong-element", api+" returns a message type for a "+state+" "+e.Kind, map[string]any{"name": e.FQN, "defined_in": e.File})
						case found:
							if string(mt.Descriptor().FullName()) != e.FQN || mt.Descriptor().ParentFile().Path() != e.File {
								bad("c18.wrong-element", api+" returns another message", map[string]any{"name": e.FQN, "got": string(mt.Descriptor().FullName())})
							}
						}
					}
					// --- FindExtensionByName
					nq++
					xt, err := res.FindExtensionByName(protoreflect.FullName(e.FQN))
					found := err == nil && xt != nil
					switch {
					case e.Kind == kExtension && vis && !found:
						bad("c18.missing", "FindExtensionByName misses a visible extension", map[string]any{"name": e.FQN, "defined_in": e.File, "err": fmt.Sprint(err)})
					case e.Kind == kExtension && !vis && found:
						bad("c18.leak", "FindExtensionByName finds a hidden extension", map[string]any{"name": e.FQN, "defined_in": e.File})
					case e.Kind != kExtension && found:
						bad("c18.wrong-element", "FindExtensionByName returns an extension type for a "+state+" "+e.Kind, map[string]any{"name": e.FQN, "defined_in": e.File})
					case found:
						xd := xt.TypeDescriptor()
						if string(xd.FullName()) != e.FQN || xd.ParentFile().Path() != e.File || string(xd.ContainingMessage().FullName()) != e.Extendee || int32(xd.Number()) != e.Number {
							bad("c18.wrong-element", "FindExtensionByName returns another extension", map[string]any{"name": e.FQN, "got": string(xd.FullName())})
						}
					}
				}
				// --- FindExtensionByNumber
				for _, e := range exts {
					vis := V[e.File]
					nq++
					xt, err := res.FindExtensionByNumber(protoreflect.FullName(e.Extendee), protoreflect.FieldNumber(e.Number))
					found := err == nil && xt != nil
					switch {
					case vis && !found:
						bad("c18.missing", "FindExtensionByNumber misses a visible extension", map[string]any{"name": e.FQN, "extendee": e.Extendee, "number": e.Number, "defined_in": e.File, "err": fmt.Sprint(err)})
					case !vis && found:
						bad("c18.leak", "FindExtensionByNumber finds a hidden extension", map[string]any{"name": e.FQN, "extendee": e.Extendee, "number": e.Number, "defined_in": e.File})
					case found:
						xd := xt.TypeDescriptor()
						if string(xd.FullName()) != e.FQN || xd.ParentFile().Path() != e.File {
							bad("c18.wrong-element", "FindExtensionByNumber returns another extension", map[string]any{"name": e.FQN, "got": string(xd.FullName())})
						}
					}
					// a number nobody uses for that extendee, and the right number for a wrong extendee
					nq += 2
					if xt, err := res.FindExtensionByNumber(protoreflect.FullName(e.Extendee), protoreflect.FieldNumber(536870000)); err == nil && xt != nil {
						bad("c18.wrong-element", "FindExtensionByNumber finds an extension for an unused number", map[string]any{"extendee": e.Extendee})
					}
					if xt, err := res.FindExtensionByNumber(protoreflect.FullName(e.Extendee+"x"), protoreflect.FieldNumber(e.Number)); err == nil && xt != nil {
						bad("c18.wrong-element", "FindExtensionByNumber finds an extension for an unknown extendee", map[string]any{"extendee": e.Extendee + "x"})
					}
				}
				// --- FindFileByPath
				for _, p := range paths {
					nq++
					fd, err := res.FindFileByPath(p)
					found := err == nil && fd != nil
					switch {
					case V[p] && !found:
						bad("c18.missing", "FindFileByPath misses a visible file", map[string]any{"path": p, "err": fmt.Sprint(err)})
					case !V[p] && found:
						bad("c18.leak", "FindFileByPath finds a hidden file", map[string]any{"path": p})
					case found && fd.Path() != p:
						bad("c18.wrong-element", "FindFileByPath returns another file", map[string]any{"path": p, "got": fd.Path()})
					}
				}
				for _, p := range absentPaths {
					nq++
					if fd, err := res.FindFileByPath(p); err == nil && fd != nil {
						bad("c18.wrong-element", "FindFileByPath finds a file that does not exist", map[string]any{"path": p})
					}
				}
				// --- absent names and package names
				for _, nm := range absentNames {
					nq += 4
					if d, err := res.FindDescriptorByName(protoreflect.FullName(nm)); err == nil && d != nil {
						bad("c18.wrong-element", "FindDescriptorByName finds a name that is no element (absent name or package)", map[string]any{"name": nm})
					}
					if d, err := res.FindMessageByName(protoreflect.FullName(nm)); err == nil && d != nil {
						bad("c18.wrong-element", "FindMessageByName finds a name that is no element", map[string]any{"name": nm})
					}
					if d, err := res.FindMessageByURL("type.googleapis.com/" + nm); err == nil && d != nil {
						bad("c18.wrong-element", "FindMessageByURL finds a name that is no element", map[string]any{"name": nm})
					}
					if d, err := res.FindExtensionByName(protoreflect.FullName(nm)); err == nil && d != nil {
						bad("c18.wrong-element", "FindExtensionByName finds a name that is no element", map[string]any{"name": nm})
					}
				}
			})
			if pv != nil {
				bad("c18.panic", "resolver panics at "+vlib.PanicSite(stack), map[string]any{"panic": fmt.Sprint(pv), "stack": stack})
			}
			// non-trivial: proper subset, and something visible only through a public import
			viaPublic := false
			direct := map[string]bool{fname: true}
			for _, d := range w.files[fname].Dependency {
				direct[d] = true
			}
			for v := range V {
				if !direct[v] {
					viaPublic = true
				}
			}
			key := ""
			if len(V) < len(w.files) && viaPublic {
				key = gen.SrcKey(src) + "\x00" + fname
				r.Class("resolvers with hidden files and files visible only through public imports")
			} else if len(V) < len(w.files) {
				r.Class("resolvers with hidden files, no public-only file")
			} else {
				r.Class("resolvers that see every file")
			}
			r.Eval(key)
			r.ClassN("queries", nq)
			r.ClassN("element lookups on visible elements", nFound)
			r.ClassN("element lookups on hidden elements", nHidden)
			if key != "" {
				r.Sample("resolver", map[string]any{"file": fname, "V(f)": sortedKeys(V), "all_files": w.names, "imports": importSummary(w)})
			}
		}
	})
}

func sortedKeys[V any](m map[string]V) []string {
	ks := make([]string, 0, len(m))
	for k := range m {
		ks = append(ks, k)
	}
	sort.Strings(ks)
	return ks
}

// importSummary renders the import graph ("f -> a, public b").
func importSummary(w *world) []string {
	var out []string
	for _, n := range w.names {
		fd := w.files[n]
		pub := map[int32]bool{}
		for _, p := range fd.PublicDependency {
			pub[p] = true
		}
		var ds []string
		for k, d := range fd.Dependency {
			if pub[int32(k)] {
				d = "public " + d
			}
			ds = append(ds, d)
		}
		out = append(out, n+" -> "+strings.Join(ds, ", "))
	}
	return out
}
