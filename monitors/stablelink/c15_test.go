package stablelink

import (
	"fmt"
	"sort"
	"strings"
	"sync"
	"sync/atomic"
	"testing"

	"google.golang.org/protobuf/types/descriptorpb"

	"github.com/bufbuild/protocompile"
	"github.com/bufbuild/protocompile/internal/verifmon/gen"
	"github.com/bufbuild/protocompile/internal/verifmon/vlib"
	"github.com/bufbuild/protocompile/linker"
)

// C15 — relative name resolution follows protoc scoping.

type siteKey struct {
	Kind   string // type, extendee, method, optname, optname-part (2nd.. name part), literal-ext
	Scope  string // scope argument of the renderer
	Target string // fully-qualified target in the model
	Elem   string // options message kind for option sites ("" = unknown)
}

func (k siteKey) siteClass() string {
	if k.Elem != "" {
		return k.Kind + " in " + k.Elem
	}
	return k.Kind
}

// c15Model is one compiled model.
type c15Model struct {
	files []*descriptorpb.FileDescriptorProto
	types gen.TypeResolver
	w     *world
	src   map[string]string      // canonical sources
	lfs   map[string]linker.File // baseline compile
}

func (m *c15Model) file(name string) *descriptorpb.FileDescriptorProto {
	for _, f := range m.files {
		if f.GetName() == name {
			return f
		}
	}
	return nil
}

// render renders one file. override (may be nil) respells the sites of one
// key; calls receives every reference site in rendering order.
func (m *c15Model) render(fd *descriptorpb.FileDescriptorProto, styleSeed uint64, override *siteKey, spelling string, calls *[]siteKey) (string, error) {
	var curScope, curElem string
	st := &gen.Style{}
	if styleSeed != 0 {
		st.Rng = vlib.NewRNG(styleSeed)
	}
	st.Ref = func(scope, target, kind string) string {
		k := siteKey{Kind: kind, Scope: scope, Target: target}
		switch kind {
		case "optname":
			ext := ""
			for _, i := range m.w.byFQN[target] {
				if m.w.elems[i].Kind == kExtension {
					ext = m.w.elems[i].Extendee
				}
			}
			if strings.HasPrefix(ext, "google.protobuf.") && strings.HasSuffix(ext, "Options") {
				k.Elem = strings.TrimPrefix(ext, "google.protobuf.")
				curScope, curElem = scope, k.Elem
			} else {
				k.Kind = "optname-part"
				if curScope == scope {
					k.Elem = curElem
				}
			}
		case "literal-ext":
			if curScope == scope {
				k.Elem = curElem
			}
		}
		if calls != nil {
			*calls = append(*calls, k)
		}
		if override != nil && k == *override {
			return spelling
		}
		return "." + target
	}
	return gen.Render(fd, m.types, st)
}

// compileVariant compiles file name from text; every other model file is the
// already-linked descriptor of the baseline compile.
func (m *c15Model) compileVariant(name, text string) *gen.Outcome {
	res := protocompile.WithStandardImports(protocompile.ResolverFunc(func(p string) (protocompile.SearchResult, error) {
		if p == name {
			return protocompile.SearchResult{Source: strings.NewReader(text)}, nil
		}
		if lf, ok := m.lfs[p]; ok {
			return protocompile.SearchResult{Desc: lf}, nil
		}
		return protocompile.SearchResult{}, fmt.Errorf("file not found: %s", p)
	}))
	return gen.CompileWith(res, []string{name}, gen.Opts{Par: 1})
}

func newC15Model(files []*descriptorpb.FileDescriptorProto, types gen.TypeResolver) (*c15Model, string) {
	m := &c15Model{files: files, types: types, w: newWorld(files), src: map[string]string{}}
	for _, f := range files {
		s, err := gen.Render(f, types, nil)
		if err != nil {
			return nil, "render: " + err.Error()
		}
		m.src[f.GetName()] = s
	}
	var names []string
	for _, f := range files {
		names = append(names, f.GetName())
	}
	out := gen.Compile(m.src, names, gen.Opts{Par: 1})
	if !out.OK() {
		return nil, "baseline rejected: " + gen.ClassifyErr(out.ErrSummary())
	}
	m.lfs = allLinkerFiles(out.Files)
	// the baseline must be the model (otherwise the model is not a decided case)
	got := gen.Protos(out.Files)
	for _, f := range files {
		if d, err := gen.CompareNormalized(got[f.GetName()], f, types); err != nil || d != "" {
			return nil, "baseline differs from model: " + gen.DiffClass(d)
		}
	}
	return m, ""
}

// startScopes gives the candidate start scopes of a site.
func (m *c15Model) startScopes(file string, k siteKey) []string {
	switch k.Kind {
	case siteType, siteExtendee, siteMethod:
		return []string{k.Scope}
	case "optname", "optname-part":
		if k.Elem == "" {
			return nil
		}
		return m.w.optionStartScopes(k.Elem, k.Scope)
	case siteLiteral:
		// A: the package of the file that uses the option (what the R3 cases
		// failure_msg_literal_scoping_rules_limited* show: no message scopes);
		// B: the scope enclosing the message the extension is set in (the extendee),
		// which is what protoc's text-format finder starts from. The corpora do not
		// separate A from B, so both are candidates.
		pkg := m.w.files[file].GetPackage()
		out := []string{pkg}
		for _, i := range m.w.byFQN[k.Target] {
			if m.w.elems[i].Kind == kExtension {
				if p := parentOf(m.w.elems[i].Extendee); p != pkg {
					out = append(out, p)
				}
			}
		}
		return out
	}
	return nil
}

func refSite(k siteKey) string {
	switch k.Kind {
	case "optname", "optname-part":
		return siteOptName
	}
	return k.Kind
}

// spellings of a target: every suffix of its full name, with and without a
// leading dot (message literals cannot carry a leading dot).
func spellings(k siteKey) []string {
	parts := strings.Split(k.Target, ".")
	var out []string
	for i := range parts {
		s := strings.Join(parts[i:], ".")
		out = append(out, s)
		if k.Kind != siteLiteral {
			out = append(out, "."+s)
		}
	}
	return out
}

func spellingShape(k siteKey, sp string) string {
	n := strings.Count(k.Target, ".") + 1
	c := strings.Count(strings.TrimPrefix(sp, "."), ".") + 1
	shape := "partial"
	switch {
	case c == n:
		shape = "full"
	case c == 1:
		shape = "simple"
	}
	if strings.HasPrefix(sp, ".") {
		shape += "+leading-dot"
	}
	return shape
}

// siteValues reads, from a compiled descriptor, the resolved names at every
// position that belongs to key k in the model descriptor (parallel walk).
func siteValues(model, got *descriptorpb.FileDescriptorProto, k siteKey) (vals []string, ok bool) {
	ok = true
	tgt := "." + k.Target
	pkg := model.GetPackage()
	fieldPos := func(mf, gf *descriptorpb.FieldDescriptorProto, syntax string) {
		switch k.Kind {
		case siteType:
			if mf.GetTypeName() == tgt && !(syntax == "proto2" && mf.GetType() == descriptorpb.FieldDescriptorProto_TYPE_GROUP) {
				vals = append(vals, gf.GetTypeName())
			}
		case siteExtendee:
			if mf.GetExtendee() == tgt {
				vals = append(vals, gf.GetExtendee())
			}
		}
	}
	syntax := "proto2"
	if model.GetSyntax() != "" {
		syntax = model.GetSyntax()
	}
	var msg func(scope string, mm, gm *descriptorpb.DescriptorProto)
	msg = func(scope string, mm, gm *descriptorpb.DescriptorProto) {
		fq := join(scope, mm.GetName())
		if len(mm.Field) != len(gm.Field) || len(mm.NestedType) != len(gm.NestedType) || len(mm.Extension) != len(gm.Extension) {
			ok = false
			return
		}
		if fq == k.Scope {
			for i := range mm.Field {
				fieldPos(mm.Field[i], gm.Field[i], syntax)
			}
			for i := range mm.Extension {
				fieldPos(mm.Extension[i], gm.Extension[i], syntax)
			}
			// value types of map fields are spelled in the enclosing message
			for i, n := range mm.NestedType {
				if n.GetOptions().GetMapEntry() && len(n.Field) == len(gm.NestedType[i].Field) {
					for j := range n.Field {
						fieldPos(n.Field[j], gm.NestedType[i].Field[j], syntax)
					}
				}
			}
		}
		for i := range mm.NestedType {
			msg(fq, mm.NestedType[i], gm.NestedType[i])
		}
	}
	if len(model.MessageType) != len(got.MessageType) || len(model.Extension) != len(got.Extension) || len(model.Service) != len(got.Service) {
		return nil, false
	}
	for i := range model.MessageType {
		msg(pkg, model.MessageType[i], got.MessageType[i])
	}
	if k.Scope == pkg {
		for i := range model.Extension {
			fieldPos(model.Extension[i], got.Extension[i], syntax)
		}
	}
	if k.Kind == siteMethod {
		for i, s := range model.Service {
			if join(pkg, s.GetName()) != k.Scope || len(s.Method) != len(got.Service[i].Method) {
				continue
			}
			for j, mt := range s.Method {
				if mt.GetInputType() == tgt {
					vals = append(vals, got.Service[i].Method[j].GetInputType())
				}
				if mt.GetOutputType() == tgt {
					vals = append(vals, got.Service[i].Method[j].GetOutputType())
				}
			}
		}
	}
	return vals, ok
}

func isResolutionFailure(errs string) bool { return isResolutionErr(errs) }

// resolutionErrClass is the stable shape of a resolution error message.
func resolutionErrClass(errs string) string {
	for _, s := range []string{"which is not defined", "invalid type:", "unknown type", "extendee is invalid", "unknown extendee", "invalid extension:", "unknown extension",
		"invalid request type", "unknown request type", "invalid response type", "unknown response type", "may not be referenced explicitly", "not in valid range"} {
		if strings.Contains(errs, s) {
			return strings.TrimSuffix(s, ":")
		}
	}
	return "other error: " + gen.ClassifyErr(errs)
}

func TestC15(t *testing.T) {
	r := vlib.Start(t, "C15")
	defer r.Finish()
	r.Extra("rule", "models: (a) scope-collision generator — 2-4 proto2 files in packages a, a.b, a.b.c, b, b.c, a.c or none, imports incl. public, every element kind (message, enum, enum value, field, oneof, extension, custom option declared at file level and inside messages, service, method) named from the pool {a,b,c,T,U,x}; custom options on every element kind, message-typed options with extensions of extensions; (b) gen.GenModel with Collide. "+
		"For every reference site class of every file (field/map-value/extension type, extendee, method input/output, option name (first and later name parts) per element kind, extension name inside a message literal) and EVERY spelling (each suffix of the target's full name, with and without leading dot) the file is rendered with that spelling at exactly the sites of that class (gen.Style.Ref), compiled against the linked baseline of the other files, and compared with the reference resolver: "+
		"same element ⇒ accepted and descriptor equal to the model; another element of an acceptable kind ⇒ if accepted, the compiled type_name/extendee/input_type/output_type at those sites is that element (options: descriptor differs from the model); failure (not found / first component found but remainder not defined / wrong kind) ⇒ rejected. "+
		"A spelling is DECIDED only if the expectation is the same under every uncalibrated choice (start scope of field/oneof/extension-range options: message or enclosing scope; start scope of message-literal extension names: using file's package or scope enclosing the extendee; key/value first components in map value types); undecided spellings are only observed. "+
		"one evaluation = one (model, file, site class, spelling); non-trivial = relative spelling (no leading dot) that is decided; distinct = (model sources, site, spelling)")
	r.Extra("assumptions", []string{
		"reference resolver ≡ protoc on the decided domain: calibrated at every run against the protoc-verified R3 verdicts (resolution cases) and the protoc-produced descriptors of R1/R2 (every type/extendee/method reference must resolve to protoc's recorded name); a disagreement makes the run inconclusive",
		"the canonical (leading-dot) rendering of a model compiles to the model (checked per model; otherwise the model is skipped)",
		"an enum or a service found for the first component of a compound name ends the search like a message or a package does (protoc descriptor.cc Symbol::IsAggregate; not covered by a recorded protoc verdict)",
		"protoc is not available: other rules that only its source code (as remembered) supports are toggles, never deciders",
	})

	// ---------- calibration ----------
	if r.Mine(0) && r.Want("calibration") {
		rep := calibrate()
		recordCalibration(r, rep)
		r.ClassN("calibration: R3 cases reproduced", int64(len(rep.R3Reproduced)))
		r.ClassN("calibration: R1/R2 sites equal to protoc", int64(rep.R12Sites))
	}

	if r.Mine(0) {
		for _, c := range c15FixedCases {
			if r.Want(c.id) {
				runC15Source(r, c)
			}
		}
	}

	nScope := r.N(160, 3000)
	nGen := r.N(40, 800)
	maxSites := r.N(60, 200)
	type task struct {
		m         *c15Model
		id        string
		fd        *descriptorpb.FileDescriptorProto
		styleSeed uint64
		k         siteKey
	}
	// Models are prepared in waves (generation + baseline compile, parallel per
	// model); the (model, file, site class) tasks of a wave are then spread over
	// all workers, so that one large model does not serialise the run.
	const wave = 64
	total := nScope + nGen
	for lo := 0; lo < total; lo += wave {
		hi := lo + wave
		if hi > total {
			hi = total
		}
		var mu sync.Mutex
		var tasks []task
		r.Par(hi-lo, func(j int) {
			i := lo + j
			var id string
			var files []*descriptorpb.FileDescriptorProto
			var types gen.TypeResolver
			if i < nScope {
				id = fmt.Sprintf("s/%d", i)
				if !r.Want(id) {
					return
				}
				fs, ty, err := genScopeModel(r.Rng(id))
				if err != nil {
					r.Class("scope model refused by protodesc (not decided)")
					return
				}
				files, types = fs, ty
			} else {
				id = fmt.Sprintf("g/%d", i-nScope)
				if !r.Want(id) {
					return
				}
				rng := r.Rng(id)
				gm, err := gen.GenModel(rng, gen.Config{MaxFiles: 4, CustomOptions: i%2 == 0, Collide: true, Small: true, Syntaxes: []string{"proto2", "proto3", "editions"}})
				if err != nil {
					r.Class("gen model refused by protodesc (not decided)")
					return
				}
				files, types = gm.Files, gm.Types
			}
			m, why := newC15Model(files, types)
			if m == nil {
				r.Class("model skipped: " + strings.SplitN(why, ":", 2)[0])
				if strings.HasPrefix(why, "baseline rejected") {
					r.Class("model skipped, baseline rejected: " + resolutionErrClass(why))
					if !isResolutionErr(why) {
						src := map[string]string{}
						for _, f := range files {
							src[f.GetName()], _ = gen.Render(f, types, nil)
						}
						r.Sample("model skipped: canonical rendering rejected for a non-resolution reason", map[string]any{"id": id, "why": why, "sources": src})
					}
				}
				return
			}
			r.Class("models explored")
			srng := r.Rng(id + "/sites")
			var mine []task
			for fi, fd := range m.files {
				fname := fd.GetName()
				// half of the files are rendered with a random (but fixed) style, so that
				// option paths with several name parts appear
				var styleSeed uint64
				if (i+fi)%2 == 1 {
					styleSeed = vlib.Hash64(id+"/"+fname) | 1
				}
				var calls []siteKey
				base, err := m.render(fd, styleSeed, nil, "", &calls)
				if err != nil {
					r.Inconclusive("render: " + err.Error())
					continue
				}
				if styleSeed != 0 {
					// the styled rendering must itself compile to the model
					out := m.compileVariant(fname, base)
					if !out.OK() {
						r.Class("styled baseline rejected (file skipped; C01's concern)")
						continue
					}
				}
				seen := map[siteKey]bool{}
				var keys []siteKey
				for _, k := range calls {
					if !seen[k] {
						seen[k] = true
						keys = append(keys, k)
					}
				}
				if len(keys) > maxSites {
					vlib.Shuffle(srng, keys)
					keys = keys[:maxSites]
				}
				for _, k := range keys {
					mine = append(mine, task{m: m, id: id, fd: fd, styleSeed: styleSeed, k: k})
				}
			}
			if i == 0 {
				r.Sample("scope-collision model", m.src)
			}
			mu.Lock()
			tasks = append(tasks, mine...)
			mu.Unlock()
		})
		// the wave's tasks all belong to this batch already (r.Par selected the models)
		var next atomic.Int64
		var wg sync.WaitGroup
		for wk := 0; wk < r.Workers; wk++ {
			wg.Add(1)
			go func() {
				defer wg.Done()
				for {
					ti := int(next.Add(1) - 1)
					if ti >= len(tasks) {
						return
					}
					tk := tasks[ti]
					func() {
						defer func() {
							if p := recover(); p != nil {
								r.Inconclusive(fmt.Sprintf("harness panic in %s: %v", tk.id, p))
							}
						}()
						fname := tk.fd.GetName()
						scopes := tk.m.startScopes(fname, tk.k)
						for _, sp := range spellings(tk.k) {
							cid := fmt.Sprintf("%s/%s/%s@%s>%s/%s", tk.id, fname, tk.k.Kind, tk.k.Scope, tk.k.Target, sp)
							if !r.Want(cid) {
								continue
							}
							runC15Spelling(r, tk.m, cid, tk.fd, tk.styleSeed, tk.k, scopes, sp)
						}
					}()
				}
			}()
		}
		wg.Wait()
	}
}

func runC15Spelling(r *vlib.Run, m *c15Model, cid string, fd *descriptorpb.FileDescriptorProto, styleSeed uint64, k siteKey, scopes []string, sp string) {
	fname := fd.GetName()
	var exp expectation
	switch {
	case len(scopes) == 0:
		exp = expectation{What: expUndecided, Why: "option site whose element kind could not be identified"}
	case k.Kind == siteType && (strings.HasPrefix(sp, "key.") || strings.HasPrefix(sp, "value.") || sp == "key" || sp == "value"):
		exp = expectation{What: expUndecided, Why: "first component key/value (map entry scope) not calibrated"}
	default:
		exp = m.w.expect(fname, refSite(k), scopes, sp)
	}
	text, err := m.render(fd, styleSeed, &k, sp, nil)
	if err != nil {
		r.Inconclusive("render: " + err.Error())
		return
	}
	out := m.compileVariant(fname, text)
	shape := spellingShape(k, sp)
	key := ""
	if exp.What != expUndecided && !strings.HasPrefix(sp, ".") {
		key = gen.SrcKey(m.src) + "\x00" + cid
	}
	r.Eval(key)
	wit := func(extra map[string]any) map[string]any {
		extra["file"] = fname
		extra["site"] = k
		extra["spelling"] = sp
		extra["reference"] = exp
		extra["start_scopes"] = scopes
		extra["variant_source"] = text
		extra["sources"] = m.src
		extra["compile_errors"] = out.ErrSummary()
		return extra
	}
	sigBase := k.siteClass() + "; reference rules: " + sigTags(exp.Tags)
	if out.Panic != nil {
		// A crash of the compiler is not a statement about name resolution; it is
		// recorded (class + one sample) and reported as a by-product finding.
		site := vlib.PanicSite(fmt.Sprint(out.Panic))
		r.Class("by-product: compiler panic at " + site + " (expected by the reference: " + exp.What + ")")
		r.Sample("by-product panic at "+site, wit(map[string]any{"panic": trunc(fmt.Sprint(out.Panic), 1500)}))
		if exp.What == expResolves && exp.To == k.Target {
			r.Violation("c15.fails-where-protoc-resolves", sigBase+"; here: panic at "+site, cid, wit(map[string]any{"panic": fmt.Sprint(out.Panic)}))
		}
		return
	}
	// observation
	obs := "rejected"
	var got *descriptorpb.FileDescriptorProto
	if out.OK() {
		got = gen.Protos(out.Files)[fname]
		d, err := gen.CompareNormalized(got, fd, m.types)
		switch {
		case err != nil:
			obs = "accepted, not comparable"
		case d == "":
			obs = "accepted, equal to model"
		default:
			obs = "accepted, differs from model"
		}
	}
	if exp.What == expUndecided {
		r.Class(fmt.Sprintf("undecided (%s) | %s | %s | observed: %s", exp.Why, k.siteClass(), shape, obs))
		return
	}
	switch exp.What {
	case expFail:
		r.Class("decided: must fail (" + strings.SplitN(exp.Why, ":", 2)[0] + ") | " + k.siteClass())
		if out.OK() {
			r.Violation("c15.resolves-where-protoc-fails", sigBase+"; protoc: "+strings.SplitN(exp.Why, ":", 2)[0]+"; here: "+obs, cid, wit(map[string]any{}))
		} else if !isResolutionFailure(out.ErrSummary()) {
			r.Class("must-fail spelling rejected with a non-resolution message (observed)")
		}
	case expResolves:
		if exp.To == k.Target {
			r.Class("decided: resolves to the model's target | " + k.siteClass())
			switch {
			case !out.OK():
				r.Violation("c15.fails-where-protoc-resolves", sigBase+"; here: "+resolutionErrClass(out.ErrSummary()), cid, wit(map[string]any{}))
			case obs != "accepted, equal to model":
				d, _ := gen.CompareNormalized(got, fd, m.types)
				r.Violation("c15.resolves-differently", sigBase+"; expected the model's target, descriptor differs at "+gen.DiffClass(d), cid, wit(map[string]any{"diff": d}))
			}
			return
		}
		r.Class("decided: resolves to ANOTHER element | " + k.siteClass())
		switch {
		case !out.OK() && isResolutionFailure(out.ErrSummary()):
			r.Violation("c15.fails-where-protoc-resolves", sigBase+"; here: "+resolutionErrClass(out.ErrSummary()), cid, wit(map[string]any{"expected_target": exp.To}))
		case !out.OK():
			r.Class("other-element spelling rejected downstream of resolution (observed)")
		case obs == "accepted, equal to model":
			r.Violation("c15.resolves-differently", sigBase+"; protoc resolves to another element, here the descriptor equals the model", cid, wit(map[string]any{"expected_target": exp.To}))
		default:
			if k.Kind == siteType || k.Kind == siteExtendee || k.Kind == siteMethod {
				vals, ok := siteValues(fd, got, k)
				if !ok || len(vals) == 0 {
					r.Inconclusive("site positions not found in the compiled descriptor for " + k.siteClass())
					return
				}
				for _, v := range vals {
					if v != "."+exp.To {
						r.Violation("c15.resolves-differently", sigBase+"; protoc resolves to another element, here to a third one", cid, wit(map[string]any{"expected_target": exp.To, "observed": vals}))
						break
					}
				}
			}
		}
	}
}

// sigTags keeps the rule tags that say WHY the reference answers as it does
// (skips, first-component matches, missing remainder), not where it ended.
func sigTags(tags string) string {
	var out []string
	for _, t := range strings.Split(tags, ",") {
		switch t {
		case "simple", "compound", "root", "leading-dot", "":
			continue
		}
		out = append(out, t)
	}
	if len(out) == 0 {
		return "plain lookup"
	}
	return strings.Join(out, ",")
}

func trunc(s string, n int) string {
	if len(s) > n {
		return s[:n] + "…"
	}
	return s
}

var _ = sort.Strings
