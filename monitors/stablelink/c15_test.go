package stablelink

import "testing"

func TestC15(t *testing.T) { t.Skip("under construction") }
