package stablelink

import (
	"fmt"
	"strings"

	"google.golang.org/protobuf/proto"
	"google.golang.org/protobuf/reflect/protoreflect"
	"google.golang.org/protobuf/types/descriptorpb"
	"google.golang.org/protobuf/types/dynamicpb"

	"github.com/bufbuild/protocompile/internal/verifmon/gen"
	"github.com/bufbuild/protocompile/internal/verifmon/vlib"
)

// Scope-collision generator for C15: 2-4 proto2 files in packages that share
// prefixes (a, a.b, a.b.c, b, b.c, none); every kind of element (message, enum,
// enum value, field, oneof, extension, custom option, service, method) draws
// its simple name from ONE tiny pool, so the same simple name is a message in
// one scope, a field in the next, a package component in a third. Custom
// options are declared at file level and nested inside messages and are used
// on every kind of element; message-typed options carry extensions of
// extensions (message-literal extension names).

var sgNamePool = []string{"a", "b", "c", "T", "U", "x"}
var sgPkgPool = []string{"", "a", "a.b", "a.b.c", "b", "b.c", "a.c"}

var sgOptionKinds = []string{"FileOptions", "MessageOptions", "FieldOptions", "OneofOptions", "EnumOptions", "EnumValueOptions", "ServiceOptions", "MethodOptions", "ExtensionRangeOptions"}

type sgMsg struct {
	fqn    string
	file   int
	d      *descriptorpb.DescriptorProto
	extNum int32 // next free extension number (0 = no extension range)
	depth  int
}

type sgExt struct {
	fqn      string
	file     int
	extendee string
	typeMsg  string // fqn of the message type ("" = int32)
}

type sgState struct {
	rng     *vlib.RNG
	used    map[string]string
	files   []*descriptorpb.FileDescriptorProto
	vis     []map[int]bool
	msgs    []*sgMsg
	enums   []sgMsg
	exts    []sgExt
	optNum  int32
	ctr     int
	extUsed map[string]int32
}

func (g *sgState) fresh(scope string) string {
	for _, k := range g.rng.Perm(len(sgNamePool)) {
		n := sgNamePool[k]
		if _, ok := g.used[join(scope, n)]; !ok {
			return n
		}
	}
	for {
		g.ctr++
		n := fmt.Sprintf("%s%d", sgNamePool[g.rng.Intn(len(sgNamePool))], g.ctr)
		if _, ok := g.used[join(scope, n)]; !ok {
			return n
		}
	}
}

func (g *sgState) claim(fqn, kind string) { g.used[fqn] = kind }

func (g *sgState) visibleMsgs(file int, needExt bool) []*sgMsg {
	var out []*sgMsg
	for _, m := range g.msgs {
		if g.vis[file][m.file] && (!needExt || m.extNum > 0) {
			out = append(out, m)
		}
	}
	return out
}

var (
	lblOpt = descriptorpb.FieldDescriptorProto_LABEL_OPTIONAL.Enum
)

// genScopeModel returns the files (dependencies first) and a type resolver for
// rendering, or an error when the Go runtime refuses the model.
func genScopeModel(rng *vlib.RNG) ([]*descriptorpb.FileDescriptorProto, gen.TypeResolver, error) {
	g := &sgState{rng: rng, used: map[string]string{}, optNum: 50000, extUsed: map[string]int32{}}
	nf := rng.Range(2, 4)
	for idx := 0; idx < nf; idx++ {
		fd := &descriptorpb.FileDescriptorProto{Name: proto.String(fmt.Sprintf("s%d.proto", idx)), Dependency: []string{"google/protobuf/descriptor.proto"}}
		for try := 0; try < 10; try++ {
			pkg := sgPkgPool[rng.Intn(len(sgPkgPool))]
			ok := true
			if pkg != "" {
				parts := strings.Split(pkg, ".")
				for i := range parts {
					if k, u := g.used[strings.Join(parts[:i+1], ".")]; u && k != kPackage {
						ok = false
					}
				}
				if ok {
					for i := range parts {
						g.used[strings.Join(parts[:i+1], ".")] = kPackage
					}
					fd.Package = proto.String(pkg)
				}
			}
			if ok {
				break
			}
		}
		vis := map[int]bool{idx: true}
		for _, j := range rng.Perm(idx) {
			if !rng.Chance(0.7) {
				continue
			}
			fd.Dependency = append(fd.Dependency, g.files[j].GetName())
			if rng.Chance(0.35) {
				fd.PublicDependency = append(fd.PublicDependency, int32(len(fd.Dependency)-1))
			}
			g.pubClosure(j, vis)
		}
		g.files = append(g.files, fd)
		g.vis = append(g.vis, vis)
		g.genFile(idx)
	}
	reg, errs := gen.BuildFilesLenient(g.files)
	if len(errs) > 0 {
		for n, e := range errs {
			return nil, nil, fmt.Errorf("%s: %w", n, e)
		}
	}
	types := gen.TypesOf(reg)
	if err := g.applyOptions(types); err != nil {
		return nil, nil, err
	}
	// plain bytes again (option values were set through dynamic extension types)
	for i, f := range g.files {
		nf := &descriptorpb.FileDescriptorProto{}
		if err := proto.Unmarshal(gen.DetBytes(f), nf); err != nil {
			return nil, nil, err
		}
		g.files[i] = nf
	}
	return g.files, types, nil
}

func (g *sgState) pubClosure(j int, into map[int]bool) {
	if into[j] {
		return
	}
	into[j] = true
	fd := g.files[j]
	for _, pi := range fd.PublicDependency {
		dep := fd.Dependency[pi]
		for k, f := range g.files {
			if f.GetName() == dep {
				g.pubClosure(k, into)
			}
		}
	}
}

func (g *sgState) shell(file int, scope string, depth int, list *[]*descriptorpb.DescriptorProto) {
	name := g.fresh(scope)
	fqn := join(scope, name)
	g.claim(fqn, kMessage)
	d := &descriptorpb.DescriptorProto{Name: proto.String(name)}
	*list = append(*list, d)
	m := &sgMsg{fqn: fqn, file: file, d: d, depth: depth}
	if g.rng.Chance(0.6) {
		d.ExtensionRange = []*descriptorpb.DescriptorProto_ExtensionRange{{Start: proto.Int32(100), End: proto.Int32(200)}}
		m.extNum = 100
	}
	g.msgs = append(g.msgs, m)
	if depth < 2 {
		for i, n := 0, g.rng.Intn(3); i < n; i++ {
			g.shell(file, fqn, depth+1, &d.NestedType)
		}
	}
	if g.rng.Chance(0.35) {
		g.enum(file, fqn, &d.EnumType)
	}
}

func (g *sgState) enum(file int, scope string, list *[]*descriptorpb.EnumDescriptorProto) {
	name := g.fresh(scope)
	fqn := join(scope, name)
	g.claim(fqn, kEnum)
	e := &descriptorpb.EnumDescriptorProto{Name: proto.String(name)}
	for i, n := 0, g.rng.Range(1, 2); i < n; i++ {
		vn := g.fresh(scope)
		g.claim(join(scope, vn), kEnumValue)
		e.Value = append(e.Value, &descriptorpb.EnumValueDescriptorProto{Name: proto.String(vn), Number: proto.Int32(int32(i))})
	}
	*list = append(*list, e)
	g.enums = append(g.enums, sgMsg{fqn: fqn, file: file})
}

func (g *sgState) refField(file int, f *descriptorpb.FieldDescriptorProto) {
	switch k := g.rng.Intn(10); {
	case k < 6:
		if ms := g.visibleMsgs(file, false); len(ms) > 0 {
			f.Type = descriptorpb.FieldDescriptorProto_TYPE_MESSAGE.Enum()
			f.TypeName = proto.String("." + ms[g.rng.Intn(len(ms))].fqn)
			return
		}
	case k < 8:
		var es []sgMsg
		for _, e := range g.enums {
			if g.vis[file][e.file] {
				es = append(es, e)
			}
		}
		if len(es) > 0 {
			f.Type = descriptorpb.FieldDescriptorProto_TYPE_ENUM.Enum()
			f.TypeName = proto.String("." + es[g.rng.Intn(len(es))].fqn)
			return
		}
	}
	f.Type = descriptorpb.FieldDescriptorProto_TYPE_INT32.Enum()
}

func sgJSON(name string) string { return name }

// extensions declares n extensions in scope (file level or inside a message):
// of visible extendable messages, or custom options.
func (g *sgState) extensions(file int, scope string, list *[]*descriptorpb.FieldDescriptorProto, n int) {
	for i := 0; i < n; i++ {
		name := g.fresh(scope)
		f := &descriptorpb.FieldDescriptorProto{Name: proto.String(name), Label: lblOpt(), JsonName: proto.String(sgJSON(name))}
		x := sgExt{fqn: join(scope, name), file: file}
		cands := g.visibleMsgs(file, true)
		if g.rng.Chance(0.6) || len(cands) == 0 {
			// custom option
			kind := sgOptionKinds[g.rng.Intn(len(sgOptionKinds))]
			g.optNum++
			f.Number = proto.Int32(g.optNum)
			f.Extendee = proto.String(".google.protobuf." + kind)
			x.extendee = "google.protobuf." + kind
			// a message-typed option needs an extendable message type
			if len(cands) > 0 && g.rng.Chance(0.35) {
				t := cands[g.rng.Intn(len(cands))]
				f.Type = descriptorpb.FieldDescriptorProto_TYPE_MESSAGE.Enum()
				f.TypeName = proto.String("." + t.fqn)
				x.typeMsg = t.fqn
			} else {
				f.Type = descriptorpb.FieldDescriptorProto_TYPE_INT32.Enum()
			}
		} else {
			t := cands[g.rng.Intn(len(cands))]
			if t.extNum >= 199 {
				continue
			}
			f.Number = proto.Int32(t.extNum)
			t.extNum++
			f.Extendee = proto.String("." + t.fqn)
			x.extendee = t.fqn
			g.refField(file, f)
		}
		g.claim(x.fqn, kExtension)
		*list = append(*list, f)
		g.exts = append(g.exts, x)
	}
}

func (g *sgState) fill(file int, m *sgMsg) {
	d := m.d
	num := int32(1)
	for i, n := 0, g.rng.Intn(4); i < n; i++ {
		name := g.fresh(m.fqn)
		g.claim(join(m.fqn, name), kField)
		f := &descriptorpb.FieldDescriptorProto{Name: proto.String(name), Number: proto.Int32(num), Label: lblOpt(), JsonName: proto.String(sgJSON(name))}
		num++
		g.refField(file, f)
		d.Field = append(d.Field, f)
	}
	if g.rng.Chance(0.25) {
		on := g.fresh(m.fqn)
		g.claim(join(m.fqn, on), kOneof)
		d.OneofDecl = append(d.OneofDecl, &descriptorpb.OneofDescriptorProto{Name: proto.String(on)})
		name := g.fresh(m.fqn)
		g.claim(join(m.fqn, name), kField)
		f := &descriptorpb.FieldDescriptorProto{Name: proto.String(name), Number: proto.Int32(num), Label: lblOpt(), JsonName: proto.String(sgJSON(name)), OneofIndex: proto.Int32(0)}
		g.refField(file, f)
		d.Field = append(d.Field, f)
	}
	if g.rng.Chance(0.45) {
		g.extensions(file, m.fqn, &d.Extension, g.rng.Range(1, 2))
	}
}

func (g *sgState) genFile(idx int) {
	fd := g.files[idx]
	pkg := fd.GetPackage()
	first := len(g.msgs)
	for i, n := 0, g.rng.Range(1, 3); i < n; i++ {
		g.shell(idx, pkg, 0, &fd.MessageType)
	}
	for i, n := 0, g.rng.Intn(2); i < n; i++ {
		g.enum(idx, pkg, &fd.EnumType)
	}
	mine := append([]*sgMsg(nil), g.msgs[first:]...)
	// file-level extensions first, so that messages of this file can use them
	g.extensions(idx, pkg, &fd.Extension, g.rng.Range(1, 3))
	for _, m := range mine {
		g.fill(idx, m)
	}
	// 0-3 services: a later service must not see the methods of an earlier one
	for si, ns := 0, []int{0, 1, 1, 2, 3}[g.rng.Intn(5)]; si < ns; si++ {
		name := g.fresh(pkg)
		fq := join(pkg, name)
		g.claim(fq, kService)
		s := &descriptorpb.ServiceDescriptorProto{Name: proto.String(name)}
		ms := g.visibleMsgs(idx, false)
		for i, n := 0, g.rng.Range(1, 2); i < n && len(ms) > 0; i++ {
			mn := g.fresh(fq)
			g.claim(join(fq, mn), kMethod)
			s.Method = append(s.Method, &descriptorpb.MethodDescriptorProto{Name: proto.String(mn),
				InputType: proto.String("." + ms[g.rng.Intn(len(ms))].fqn), OutputType: proto.String("." + ms[g.rng.Intn(len(ms))].fqn)})
		}
		fd.Service = append(fd.Service, s)
	}
}

// applyOptions sets custom option values on elements.
func (g *sgState) applyOptions(types gen.TypeResolver) error {
	byKind := map[string][]sgExt{}
	for _, x := range g.exts {
		if strings.HasPrefix(x.extendee, "google.protobuf.") {
			byKind[strings.TrimPrefix(x.extendee, "google.protobuf.")] = append(byKind[strings.TrimPrefix(x.extendee, "google.protobuf.")], x)
		}
	}
	var firstErr error
	set := func(file int, kind string, get func() proto.Message, p float64) {
		if !g.rng.Chance(p) {
			return
		}
		var cands []sgExt
		for _, x := range byKind[kind] {
			if g.vis[file][x.file] {
				cands = append(cands, x)
			}
		}
		if len(cands) == 0 {
			return
		}
		x := cands[g.rng.Intn(len(cands))]
		xt, err := types.FindExtensionByName(protoreflect.FullName(x.fqn))
		if err != nil {
			firstErr = err
			return
		}
		var v protoreflect.Value
		if x.typeMsg == "" {
			v = protoreflect.ValueOfInt32(7)
		} else {
			md := xt.TypeDescriptor().Message()
			msg := dynamicpb.NewMessage(md)
			// extensions of the option's message type that the using file can see
			var inner []sgExt
			for _, y := range g.exts {
				if y.extendee == x.typeMsg && g.vis[file][y.file] {
					inner = append(inner, y)
				}
			}
			if len(inner) > 0 {
				y := inner[g.rng.Intn(len(inner))]
				if yt, err := types.FindExtensionByName(protoreflect.FullName(y.fqn)); err == nil {
					yd := yt.TypeDescriptor()
					switch {
					case yd.Kind() == protoreflect.Int32Kind:
						msg.Set(yd, protoreflect.ValueOfInt32(3))
					case yd.Kind() == protoreflect.EnumKind:
						msg.Set(yd, protoreflect.ValueOfEnum(yd.Enum().Values().Get(0).Number()))
					case yd.Message() != nil:
						msg.Set(yd, protoreflect.ValueOfMessage(dynamicpb.NewMessage(yd.Message())))
					}
				}
			}
			v = protoreflect.ValueOfMessage(msg)
		}
		get().ProtoReflect().Set(xt.TypeDescriptor(), v)
	}
	for idx, fd := range g.files {
		fd := fd
		set(idx, "FileOptions", func() proto.Message {
			if fd.Options == nil {
				fd.Options = &descriptorpb.FileOptions{}
			}
			return fd.Options
		}, 0.5)
		doField := func(f *descriptorpb.FieldDescriptorProto) {
			set(idx, "FieldOptions", func() proto.Message {
				if f.Options == nil {
					f.Options = &descriptorpb.FieldOptions{}
				}
				return f.Options
			}, 0.4)
		}
		doEnum := func(e *descriptorpb.EnumDescriptorProto) {
			set(idx, "EnumOptions", func() proto.Message {
				if e.Options == nil {
					e.Options = &descriptorpb.EnumOptions{}
				}
				return e.Options
			}, 0.5)
			for _, v := range e.Value {
				v := v
				set(idx, "EnumValueOptions", func() proto.Message {
					if v.Options == nil {
						v.Options = &descriptorpb.EnumValueOptions{}
					}
					return v.Options
				}, 0.4)
			}
		}
		var doMsg func(m *descriptorpb.DescriptorProto)
		doMsg = func(m *descriptorpb.DescriptorProto) {
			set(idx, "MessageOptions", func() proto.Message {
				if m.Options == nil {
					m.Options = &descriptorpb.MessageOptions{}
				}
				return m.Options
			}, 0.6)
			for _, f := range m.Field {
				doField(f)
			}
			for _, f := range m.Extension {
				doField(f)
			}
			for _, o := range m.OneofDecl {
				o := o
				set(idx, "OneofOptions", func() proto.Message {
					if o.Options == nil {
						o.Options = &descriptorpb.OneofOptions{}
					}
					return o.Options
				}, 0.6)
			}
			for _, er := range m.ExtensionRange {
				er := er
				set(idx, "ExtensionRangeOptions", func() proto.Message {
					if er.Options == nil {
						er.Options = &descriptorpb.ExtensionRangeOptions{}
					}
					return er.Options
				}, 0.5)
			}
			for _, e := range m.EnumType {
				doEnum(e)
			}
			for _, n := range m.NestedType {
				doMsg(n)
			}
		}
		for _, m := range fd.MessageType {
			doMsg(m)
		}
		for _, e := range fd.EnumType {
			doEnum(e)
		}
		for _, f := range fd.Extension {
			doField(f)
		}
		for _, s := range fd.Service {
			s := s
			set(idx, "ServiceOptions", func() proto.Message {
				if s.Options == nil {
					s.Options = &descriptorpb.ServiceOptions{}
				}
				return s.Options
			}, 0.6)
			for _, m := range s.Method {
				m := m
				set(idx, "MethodOptions", func() proto.Message {
					if m.Options == nil {
						m.Options = &descriptorpb.MethodOptions{}
					}
					return m.Options
				}, 0.6)
			}
		}
	}
	return firstErr
}
