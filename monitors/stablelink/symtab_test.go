package stablelink

import (
	"sort"
	"strings"
	"sync"

	"google.golang.org/protobuf/reflect/protodesc"
	"google.golang.org/protobuf/reflect/protoregistry"
	"google.golang.org/protobuf/types/descriptorpb"
)

// Shared reference models of the stablelink monitors: the element table of a
// set of files (built from descriptor protos only, never from the code under
// test) and the visibility closure V(f).

const (
	kPackage   = "package"
	kMessage   = "message"
	kEnum      = "enum"
	kEnumValue = "enum value"
	kField     = "field"
	kOneof     = "oneof"
	kExtension = "extension"
	kService   = "service"
	kMethod    = "method"
)

// elem is one named element of a file.
type elem struct {
	Kind     string
	FQN      string
	File     string
	Extendee string // extensions: fully-qualified extendee without the leading dot (as written in the descriptor)
	Number   int32  // extensions and fields
	MapEntry bool   // messages: synthetic map entry
}

func join(scope, name string) string {
	if scope == "" {
		return name
	}
	return scope + "." + name
}

func parentOf(fqn string) string {
	if i := strings.LastIndexByte(fqn, '.'); i >= 0 {
		return fqn[:i]
	}
	return ""
}

// elemsOf lists every named element of fd (enum values live in the scope that
// encloses their enum).
func elemsOf(fd *descriptorpb.FileDescriptorProto) []elem {
	var out []elem
	file := fd.GetName()
	add := func(k, fqn string) *elem {
		out = append(out, elem{Kind: k, FQN: fqn, File: file})
		return &out[len(out)-1]
	}
	enum := func(scope string, e *descriptorpb.EnumDescriptorProto) {
		add(kEnum, join(scope, e.GetName()))
		for _, v := range e.Value {
			add(kEnumValue, join(scope, v.GetName()))
		}
	}
	ext := func(scope string, f *descriptorpb.FieldDescriptorProto) {
		x := add(kExtension, join(scope, f.GetName()))
		x.Extendee = strings.TrimPrefix(f.GetExtendee(), ".")
		x.Number = f.GetNumber()
	}
	var msg func(scope string, m *descriptorpb.DescriptorProto)
	msg = func(scope string, m *descriptorpb.DescriptorProto) {
		fq := join(scope, m.GetName())
		add(kMessage, fq).MapEntry = m.GetOptions().GetMapEntry()
		for _, f := range m.Field {
			add(kField, join(fq, f.GetName())).Number = f.GetNumber()
		}
		for _, o := range m.OneofDecl {
			add(kOneof, join(fq, o.GetName()))
		}
		for _, n := range m.NestedType {
			msg(fq, n)
		}
		for _, e := range m.EnumType {
			enum(fq, e)
		}
		for _, x := range m.Extension {
			ext(fq, x)
		}
	}
	pkg := fd.GetPackage()
	for _, m := range fd.MessageType {
		msg(pkg, m)
	}
	for _, e := range fd.EnumType {
		enum(pkg, e)
	}
	for _, x := range fd.Extension {
		ext(pkg, x)
	}
	for _, s := range fd.Service {
		fq := join(pkg, s.GetName())
		add(kService, fq)
		for _, m := range s.Method {
			add(kMethod, join(fq, m.GetName()))
		}
	}
	return out
}

var (
	wktMu    sync.Mutex
	wktCache = map[string]*descriptorpb.FileDescriptorProto{}
)

// wktProto returns the descriptor proto of a file known to the Go protobuf
// runtime (the compiler's standard imports are taken from the same registry).
func wktProto(path string) *descriptorpb.FileDescriptorProto {
	wktMu.Lock()
	defer wktMu.Unlock()
	if fd, ok := wktCache[path]; ok {
		return fd
	}
	var fd *descriptorpb.FileDescriptorProto
	if d, err := protoregistry.GlobalFiles.FindFileByPath(path); err == nil {
		fd = protodesc.ToFileDescriptorProto(d)
	}
	wktCache[path] = fd
	return fd
}

// world is a closed set of files: the given ones plus every well-known file
// they (transitively) import.
type world struct {
	files map[string]*descriptorpb.FileDescriptorProto
	names []string // sorted
	elems []elem   // all elements of all files
	byFQN map[string][]int
	// pkgFiles[p] = files whose package is p or has p as a dotted prefix
	pkgFiles map[string][]string
	vis      map[string]map[string]bool
}

func newWorld(fds []*descriptorpb.FileDescriptorProto) *world {
	w := &world{files: map[string]*descriptorpb.FileDescriptorProto{}, byFQN: map[string][]int{}, pkgFiles: map[string][]string{}, vis: map[string]map[string]bool{}}
	var add func(fd *descriptorpb.FileDescriptorProto)
	add = func(fd *descriptorpb.FileDescriptorProto) {
		if fd == nil {
			return
		}
		if _, ok := w.files[fd.GetName()]; ok {
			return
		}
		w.files[fd.GetName()] = fd
		for _, d := range fd.Dependency {
			if _, ok := w.files[d]; !ok {
				known := false
				for _, o := range fds {
					if o.GetName() == d {
						known = true
					}
				}
				if !known {
					add(wktProto(d))
				}
			}
		}
	}
	for _, fd := range fds {
		add(fd)
	}
	for n := range w.files {
		w.names = append(w.names, n)
	}
	sort.Strings(w.names)
	for _, n := range w.names {
		fd := w.files[n]
		for _, e := range elemsOf(fd) {
			w.byFQN[e.FQN] = append(w.byFQN[e.FQN], len(w.elems))
			w.elems = append(w.elems, e)
		}
		if p := fd.GetPackage(); p != "" {
			parts := strings.Split(p, ".")
			for i := range parts {
				pp := strings.Join(parts[:i+1], ".")
				w.pkgFiles[pp] = append(w.pkgFiles[pp], n)
			}
		}
	}
	// visibility is precomputed: a world is read-only afterwards (shared by workers)
	for _, n := range w.names {
		w.visible(n)
	}
	return w
}

// pubClosure adds d and everything reachable from d through public imports.
func (w *world) pubClosure(d string, into map[string]bool) {
	if into[d] {
		return
	}
	fd := w.files[d]
	if fd == nil {
		return
	}
	into[d] = true
	for _, pi := range fd.PublicDependency {
		if int(pi) < len(fd.Dependency) {
			w.pubClosure(fd.Dependency[pi], into)
		}
	}
}

// visible is V(f) = {f} ∪ ⋃_{d direct import of f} Pub*(d).
func (w *world) visible(f string) map[string]bool {
	if v, ok := w.vis[f]; ok {
		return v
	}
	v := map[string]bool{}
	fd := w.files[f]
	if fd != nil {
		for _, d := range fd.Dependency {
			w.pubClosure(d, v)
		}
	}
	v[f] = true // after the closure so that a (bogus) self reference cannot cut the walk short
	w.vis[f] = v
	return v
}
