package stablelink

import (
	"bytes"
	"fmt"
	"sort"
	"strings"

	"google.golang.org/protobuf/types/descriptorpb"

	"github.com/bufbuild/protocompile/ast"
	"github.com/bufbuild/protocompile/internal/verifmon/gen"
	"github.com/bufbuild/protocompile/internal/verifmon/vlib"
	"github.com/bufbuild/protocompile/parser"
)

// Calibration of the reference resolver against recorded protoc answers.
//
// R3: every TestLinkerValidation case is parsed (parser only — names stay as
// written), the reference resolves every reference site, and the predicted
// verdict (some site fails ⇒ reject) is compared with protoc's recorded verdict
// for the cases protoc accepted and the cases it rejected with a resolution
// error.
// R1/R2: for every source with a protoc-produced descriptor the reference must
// resolve every type / extendee / method reference to exactly the
// fully-qualified name in protoc's descriptor, and every option name to an
// extension.

type calibSite struct {
	File   string
	Site   string
	Name   string
	Scopes []string
	Want   string // protoc's fully-qualified answer (with leading dot) when known
	Where  string
}

func isMapEntryRef(parent *descriptorpb.DescriptorProto, f *descriptorpb.FieldDescriptorProto) bool {
	if f.GetLabel() != descriptorpb.FieldDescriptorProto_LABEL_REPEATED {
		return false
	}
	for _, n := range parent.NestedType {
		if n.GetOptions().GetMapEntry() && n.GetName() == f.GetTypeName() {
			return true
		}
	}
	return false
}

// literalExtNames collects the extension names written in message literals of
// an option value (type URLs excluded).
func literalExtNames(v ast.ValueNode, out *[]string) {
	switch v := v.(type) {
	case *ast.MessageLiteralNode:
		for _, f := range v.Elements {
			if f.Name.IsExtension() && !f.Name.IsAnyTypeReference() {
				*out = append(*out, string(f.Name.Name.AsIdentifier()))
			}
			literalExtNames(f.Val, out)
		}
	case *ast.ArrayLiteralNode:
		for _, e := range v.Elements {
			literalExtNames(e, out)
		}
	}
}

// unlinkedSites lists the reference sites of a parsed (not linked) file.
// pf, when not nil, is protoc's descriptor of the same file (same shape).
func unlinkedSites(w *world, res parser.Result, pf *descriptorpb.FileDescriptorProto) (sites []calibSite, shapeMismatch bool) {
	u := res.FileDescriptorProto()
	file := u.GetName()
	pkg := u.GetPackage()
	add := func(site, name string, scopes []string, want, where string) {
		sites = append(sites, calibSite{File: file, Site: site, Name: name, Scopes: scopes, Want: want, Where: where})
	}
	opts := func(elemKind, owner string, uo []*descriptorpb.UninterpretedOption, where string) {
		scopes := w.optionStartScopes(elemKind, owner)
		for _, o := range uo {
			for _, np := range o.Name {
				if np.GetIsExtension() {
					add(siteOptName, np.GetNamePart(), scopes, "", where+" "+elemKind)
				}
			}
			if on := res.OptionNode(o); on != nil {
				if val := on.GetValue(); val != nil {
					var names []string
					literalExtNames(val, &names)
					for _, n := range names {
						add(siteLiteral, n, []string{pkg}, "", where+" "+elemKind+" literal")
					}
				}
			}
		}
	}
	field := func(scope string, parent *descriptorpb.DescriptorProto, f, p *descriptorpb.FieldDescriptorProto, where string) {
		if f.GetExtendee() != "" {
			want := ""
			if p != nil {
				want = p.GetExtendee()
			}
			add(siteExtendee, f.GetExtendee(), []string{scope}, want, where)
		}
		if f.GetTypeName() != "" && f.GetType() != descriptorpb.FieldDescriptorProto_TYPE_GROUP && (parent == nil || !isMapEntryRef(parent, f)) {
			want := ""
			if p != nil {
				want = p.GetTypeName()
			}
			add(siteType, f.GetTypeName(), []string{scope}, want, where)
		}
		opts("FieldOptions", scope, f.GetOptions().GetUninterpretedOption(), where)
	}
	enum := func(scope string, e *descriptorpb.EnumDescriptorProto) {
		fq := join(scope, e.GetName())
		opts("EnumOptions", fq, e.GetOptions().GetUninterpretedOption(), fq)
		for _, v := range e.Value {
			opts("EnumValueOptions", fq, v.GetOptions().GetUninterpretedOption(), fq)
		}
	}
	var msg func(scope string, m, p *descriptorpb.DescriptorProto)
	msg = func(scope string, m, p *descriptorpb.DescriptorProto) {
		fq := join(scope, m.GetName())
		if p != nil && (len(p.Field) != len(m.Field) || len(p.NestedType) != len(m.NestedType) || len(p.Extension) != len(m.Extension) || p.GetName() != m.GetName()) {
			shapeMismatch = true
			p = nil
		}
		opts("MessageOptions", fq, m.GetOptions().GetUninterpretedOption(), fq)
		for i, f := range m.Field {
			var pfld *descriptorpb.FieldDescriptorProto
			if p != nil {
				pfld = p.Field[i]
			}
			field(fq, m, f, pfld, fq+"."+f.GetName())
		}
		for _, o := range m.OneofDecl {
			opts("OneofOptions", fq, o.GetOptions().GetUninterpretedOption(), fq+"."+o.GetName())
		}
		for _, er := range m.ExtensionRange {
			opts("ExtensionRangeOptions", fq, er.GetOptions().GetUninterpretedOption(), fq)
		}
		for i, n := range m.NestedType {
			var pn *descriptorpb.DescriptorProto
			if p != nil {
				pn = p.NestedType[i]
			}
			msg(fq, n, pn)
		}
		for _, e := range m.EnumType {
			enum(fq, e)
		}
		for i, x := range m.Extension {
			var px *descriptorpb.FieldDescriptorProto
			if p != nil {
				px = p.Extension[i]
			}
			field(fq, nil, x, px, fq+"."+x.GetName())
		}
	}
	if pf != nil && (len(pf.MessageType) != len(u.MessageType) || len(pf.Extension) != len(u.Extension) || len(pf.Service) != len(u.Service)) {
		shapeMismatch = true
		pf = nil
	}
	opts("FileOptions", pkg, u.GetOptions().GetUninterpretedOption(), "file")
	for i, m := range u.MessageType {
		var p *descriptorpb.DescriptorProto
		if pf != nil {
			p = pf.MessageType[i]
		}
		msg(pkg, m, p)
	}
	for _, e := range u.EnumType {
		enum(pkg, e)
	}
	for i, x := range u.Extension {
		var px *descriptorpb.FieldDescriptorProto
		if pf != nil {
			px = pf.Extension[i]
		}
		field(pkg, nil, x, px, join(pkg, x.GetName()))
	}
	for i, s := range u.Service {
		fq := join(pkg, s.GetName())
		opts("ServiceOptions", fq, s.GetOptions().GetUninterpretedOption(), fq)
		for j, m := range s.Method {
			wi, wo := "", ""
			if pf != nil && len(pf.Service[i].Method) == len(s.Method) {
				wi, wo = pf.Service[i].Method[j].GetInputType(), pf.Service[i].Method[j].GetOutputType()
			}
			add(siteMethod, m.GetInputType(), []string{fq}, wi, fq+"."+m.GetName())
			add(siteMethod, m.GetOutputType(), []string{fq}, wo, fq+"."+m.GetName())
			opts("MethodOptions", join(fq, m.GetName()), m.GetOptions().GetUninterpretedOption(), fq+"."+m.GetName())
		}
	}
	return sites, shapeMismatch
}

var resolutionErrShapes = []string{
	"unknown type", "unknown extendee", "unknown extension", "unknown request type", "unknown response type", "which is not defined",
	"invalid type:", "extendee is invalid", "invalid request type", "invalid response type", "invalid extension:",
}

func isResolutionErr(msg string) bool {
	for _, s := range resolutionErrShapes {
		if strings.Contains(msg, s) {
			return true
		}
	}
	return false
}

type calibReport struct {
	R3Reproduced   []string
	R3Skipped      int
	R3Undecided    []string
	Mismatches     []string
	R12Sites       int
	R12Files       int
	R12OptionSites int
	CandidateSplit []string // corpus sites where candidate start scopes give different answers (what they pin down)
}

func parseUnlinked(name, text string) (parser.Result, error) {
	return parseResult(name, text)
}

// calibrate runs the whole calibration; it is deterministic and cheap (< 1 s).
func calibrate() *calibReport {
	rep := &calibReport{}
	// ---------- R3 ----------
	cases, err := gen.LoadR3("linker_validation")
	if err != nil {
		rep.Mismatches = append(rep.Mismatches, "cannot load R3: "+err.Error())
		return rep
	}
	for _, c := range cases {
		accept := c.ProtocAccepts()
		if !accept && !isResolutionErr(c.ExpectedErr) {
			rep.R3Skipped++
			continue
		}
		if !accept && c.DiffWithProtoc {
			rep.R3Skipped++
			continue
		}
		var results []parser.Result
		var fds []*descriptorpb.FileDescriptorProto
		bad := false
		for _, n := range gen.SortedNames(c.Input) {
			res, err := parseUnlinked(n, c.Input[n])
			if err != nil || res == nil {
				bad = true
				break
			}
			results = append(results, res)
			fds = append(fds, res.FileDescriptorProto())
		}
		if bad {
			rep.R3Skipped++
			continue
		}
		w := newWorld(fds)
		missingImport := false
		for _, fd := range fds {
			for _, d := range fd.Dependency {
				if w.files[d] == nil {
					missingImport = true
				}
			}
		}
		if missingImport {
			rep.R3Skipped++
			continue
		}
		predictedReject, undecided := false, false
		var failing []string
		for _, res := range results {
			sites, _ := unlinkedSites(w, res, nil)
			for _, s := range sites {
				e := w.expect(s.File, s.Site, s.Scopes, s.Name)
				switch e.What {
				case expFail:
					predictedReject = true
					failing = append(failing, fmt.Sprintf("%s %s %q: %s", s.Where, s.Site, s.Name, e.Why))
				case expUndecided:
					undecided = true
					if len(s.Scopes) > 1 {
						rep.CandidateSplit = append(rep.CandidateSplit, fmt.Sprintf("R3 %s: %s %s %q", c.Name, s.Where, s.Site, s.Name))
					}
				}
			}
		}
		switch {
		case undecided:
			rep.R3Undecided = append(rep.R3Undecided, c.Name)
		case predictedReject == !accept:
			if !accept || strings.Contains(c.Name, "scop") || strings.Contains(c.Name, "namespace") {
				rep.R3Reproduced = append(rep.R3Reproduced, c.Name)
			} else {
				rep.R3Reproduced = append(rep.R3Reproduced, c.Name)
			}
		default:
			rep.Mismatches = append(rep.Mismatches, fmt.Sprintf("R3 %s: protoc accepts=%v (%q) but the reference predicts reject=%v %v", c.Name, accept, c.ExpectedErr, predictedReject, failing))
		}
	}
	sort.Strings(rep.R3Reproduced)
	// ---------- R1 ----------
	if sets, src, err := gen.LoadR1(); err == nil {
		for _, set := range sets {
			w := newWorld(set.Files)
			for _, pf := range set.Files {
				text, ok := src[pf.GetName()]
				if !ok {
					continue
				}
				calibrateFile(rep, w, "R1 "+set.Name, pf, text)
			}
		}
	} else {
		rep.Mismatches = append(rep.Mismatches, "cannot load R1: "+err.Error())
	}
	// ---------- R2 ----------
	if es, _, err := gen.LoadR2(); err == nil {
		var fds []*descriptorpb.FileDescriptorProto
		for _, e := range es {
			fds = append(fds, e.Desc)
		}
		w := newWorld(fds)
		for _, e := range es {
			if e.Source == "" {
				continue
			}
			calibrateFile(rep, w, "R2", e.Desc, e.Source)
		}
	} else {
		rep.Mismatches = append(rep.Mismatches, "cannot load R2: "+err.Error())
	}
	return rep
}

func calibrateFile(rep *calibReport, w *world, corpus string, pf *descriptorpb.FileDescriptorProto, text string) {
	for _, d := range pf.Dependency {
		if w.files[d] == nil {
			return // import closure not in the corpus
		}
	}
	res, err := parseUnlinked(pf.GetName(), text)
	if err != nil || res == nil {
		return
	}
	sites, _ := unlinkedSites(w, res, pf)
	rep.R12Files++
	for _, s := range sites {
		e := w.expect(s.File, s.Site, s.Scopes, s.Name)
		where := fmt.Sprintf("%s %s: %s %s %q", corpus, pf.GetName(), s.Where, s.Site, s.Name)
		if e.What == expUndecided {
			if len(s.Scopes) > 1 {
				// which candidate does protoc's acceptance pin down?
				var ok []string
				for _, sc := range s.Scopes {
					if e1 := w.expect(s.File, s.Site, []string{sc}, s.Name); e1.What == expResolves {
						ok = append(ok, "scope="+sc)
					}
				}
				rep.CandidateSplit = append(rep.CandidateSplit, where+" accepted by protoc; candidates that resolve: "+strings.Join(ok, " | "))
			}
			continue
		}
		switch s.Site {
		case siteType, siteExtendee, siteMethod:
			rep.R12Sites++
			if s.Want == "" {
				continue
			}
			if e.What != expResolves || "."+e.To != s.Want {
				rep.Mismatches = append(rep.Mismatches, fmt.Sprintf("%s: protoc resolved to %s, reference says %s %s (%s)", where, s.Want, e.What, e.To, e.Why))
			}
		default:
			rep.R12OptionSites++
			if e.What != expResolves {
				rep.Mismatches = append(rep.Mismatches, fmt.Sprintf("%s: protoc accepted the file, reference says %s (%s)", where, e.What, e.Why))
			}
		}
	}
}

func recordCalibration(r *vlib.Run, rep *calibReport) {
	r.Extra("calibration_r3_cases_reproduced", rep.R3Reproduced)
	r.Extra("calibration_r3_cases_reproduced_count", len(rep.R3Reproduced))
	r.Extra("calibration_r3_cases_not_about_resolution_or_unparseable", rep.R3Skipped)
	r.Extra("calibration_r3_cases_undecided", rep.R3Undecided)
	r.Extra("calibration_r1_r2_files", rep.R12Files)
	r.Extra("calibration_r1_r2_type_extendee_method_sites_equal_to_protoc", rep.R12Sites)
	r.Extra("calibration_r1_r2_option_name_sites_resolving_to_an_extension", rep.R12OptionSites)
	r.Extra("calibration_candidate_scope_splits_in_corpora", rep.CandidateSplit)
	r.Extra("calibration_mismatches", rep.Mismatches)
	for _, m := range rep.Mismatches {
		r.Inconclusive("reference resolver disagrees with a recorded protoc answer (bug in the reference): " + m)
	}
}

// ---------- source-level differential (hand-minimised cases) ----------

type c15Fixed struct {
	id  string
	src map[string]string
}

var c15FixedCases = []c15Fixed{
	{"fixed/non-type-at-package-scope-is-skipped", map[string]string{
		"a.proto": "syntax = \"proto2\";\npackage a;\nmessage T {}\n",
		"b.proto": "syntax = \"proto2\";\npackage a.b;\nimport \"a.proto\";\nmessage Ext { extensions 100 to 199; }\nextend Ext { optional int32 T = 100; }\nmessage M { optional T f = 1; }\n",
	}},
	{"fixed/non-type-at-package-scope-is-skipped-root", map[string]string{
		"a.proto": "syntax = \"proto2\";\nmessage T {}\n",
		"b.proto": "syntax = \"proto2\";\npackage a;\nimport \"a.proto\";\nmessage Ext { extensions 100 to 199; }\nextend Ext { optional int32 T = 100; }\nmessage M { optional T f = 1; }\n",
	}},
	{"fixed/package-name-at-package-scope-is-skipped", map[string]string{
		"r.proto": "syntax = \"proto2\";\nmessage c {}\n",
		"p.proto": "syntax = \"proto2\";\npackage a.b.c;\nmessage Other {}\n",
		"x.proto": "syntax = \"proto2\";\npackage a.b;\nimport \"r.proto\";\nimport \"p.proto\";\nmessage M { optional c f = 1; }\n",
	}},
	{"fixed/non-type-service-at-package-scope-is-skipped", map[string]string{
		"a.proto": "syntax = \"proto2\";\npackage a;\nenum T { Z = 0; }\n",
		"b.proto": "syntax = \"proto2\";\npackage a.b;\nimport \"a.proto\";\nmessage M { optional T f = 1; }\nservice T {}\n",
	}},
	{"fixed/by-product-literal-extension-of-another-message", map[string]string{
		"x.proto": "syntax = \"proto2\";\nimport \"google/protobuf/descriptor.proto\";\nmessage A { extensions 100 to 199; }\nmessage B { extensions 100 to 199; }\nextend A { optional int32 xa = 100; }\nextend google.protobuf.MessageOptions { optional B opt = 50001; }\nmessage M { option (opt) = { [xa]: 1 }; }\n",
	}},
	{"fixed/by-product-option-path-extension-of-another-message", map[string]string{
		"x.proto": "syntax = \"proto2\";\nimport \"google/protobuf/descriptor.proto\";\nmessage A { extensions 100 to 199; }\nmessage B { extensions 100 to 199; }\nextend A { optional int32 xa = 100; }\nextend google.protobuf.MessageOptions { optional B opt = 50001; }\nmessage M { option (opt).(xa) = 1; }\n",
	}},
	// extension names inside message literals that are ELEMENTS OF A LIST literal resolve like any other (R3 success
	// case with [bar.b.c.i] in package foo.bar anchors the partially qualified spelling)
	{"fixed/literal-extension-in-list-literal-partially-qualified", map[string]string{
		"x.proto": "syntax = \"proto2\";\npackage a.b;\nimport \"google/protobuf/descriptor.proto\";\nmessage Item { extensions 100 to 199; }\nextend Item { optional int32 weight = 100; }\nmessage Opt { repeated Item items = 1; optional Item single = 2; }\nextend google.protobuf.MessageOptions { optional Opt opt = 50001; }\nmessage M { option (opt) = { items: [ { [b.weight]: 1 }, { [a.b.weight]: 2 } ] single: { [b.weight]: 3 } }; }\n",
	}},
	{"fixed/literal-extension-in-list-literal-shadowed-simple-name", map[string]string{
		"t.proto": "syntax = \"proto2\";\nimport \"i.proto\";\nextend a.b.Item { optional int32 weight = 101; }\n",
		"i.proto": "syntax = \"proto2\";\npackage a.b;\nmessage Item { extensions 100 to 199; }\n",
		"x.proto": "syntax = \"proto2\";\npackage a.b;\nimport \"google/protobuf/descriptor.proto\";\nimport \"i.proto\";\nimport \"t.proto\";\nextend Item { optional int32 weight = 100; }\nmessage Opt { repeated Item items = 1; }\nextend google.protobuf.MessageOptions { optional Opt opt = 50001; }\nmessage M { option (opt) = { items: [ { [weight]: 1 } ] }; }\n",
	}},
	{"fixed/control-non-type-at-message-scope-is-skipped", map[string]string{
		"b.proto": "syntax = \"proto2\";\npackage a.b;\nmessage T {}\nmessage Ext { extensions 100 to 199; }\nmessage Outer { extend Ext { optional int32 T = 100; } message M { optional T f = 1; } }\n",
	}},
	{"fixed/control-compound-name-is-not-skipped", map[string]string{
		"a.proto": "syntax = \"proto2\";\npackage a;\nmessage T { message N {} }\n",
		"b.proto": "syntax = \"proto2\";\npackage a.b;\nimport \"a.proto\";\nmessage T { }\nmessage M { optional T.N f = 1; }\n",
	}},
}

// runC15Source compares the compiler with the reference on hand-written
// sources: the verdict (some site fails ⇒ reject) and, when accepted, the
// resolved name at every type / extendee / method site.
func runC15Source(r *vlib.Run, c c15Fixed) {
	var results []parser.Result
	var fds []*descriptorpb.FileDescriptorProto
	names := gen.SortedNames(c.src)
	for _, n := range names {
		res, err := parseUnlinked(n, c.src[n])
		if err != nil {
			r.Inconclusive("fixed case does not parse: " + c.id)
			return
		}
		results = append(results, res)
		fds = append(fds, res.FileDescriptorProto())
	}
	w := newWorld(fds)
	out := gen.Compile(c.src, names, gen.Opts{Par: 1})
	compiled := gen.Protos(out.Files)
	r.Eval(c.id)
	if out.Panic != nil {
		r.Class("by-product: compiler panic at " + vlib.PanicSite(fmt.Sprint(out.Panic)) + " (fixed case " + c.id + ")")
		r.Sample("by-product panic (fixed case "+c.id+")", map[string]any{"sources": c.src, "panic": trunc(fmt.Sprint(out.Panic), 1200)})
		return
	}
	if strings.HasPrefix(c.id, "fixed/literal-extension-in-list-literal") {
		// all spellings here denote a.b.weight (number 100); the root-level weight (number 101) is further out
		wit := map[string]any{"sources": c.src, "compile_errors": out.ErrSummary()}
		if !out.OK() {
			r.Violation("c15.fails-where-protoc-resolves", "literal-ext inside a list literal; here: "+resolutionErrClass(out.ErrSummary()), c.id, wit)
		} else if x := compiled["x.proto"]; x != nil {
			var opts []byte
			for _, m := range x.MessageType {
				if m.GetName() == "M" {
					opts = gen.DetBytes(m.GetOptions())
				}
			}
			if bytes.Contains(opts, []byte{0xa8, 0x06}) || !bytes.Contains(opts, []byte{0xa0, 0x06}) {
				wit["options_bytes"] = fmt.Sprintf("%x", opts)
				r.Violation("c15.resolves-differently", "literal-ext inside a list literal; here resolved to another extension", c.id, wit)
			}
		}
	}
	for _, res := range results {
		var pf *descriptorpb.FileDescriptorProto
		if out.OK() {
			pf = compiled[res.FileDescriptorProto().GetName()]
		}
		sites, _ := unlinkedSites(w, res, pf)
		for _, s := range sites {
			e := w.expect(s.File, s.Site, s.Scopes, s.Name)
			wit := map[string]any{"sources": c.src, "site": s, "reference": e, "compile_errors": out.ErrSummary()}
			sig := s.Site + "; reference rules: " + sigTags(e.Tags)
			switch e.What {
			case expUndecided:
				r.Class("fixed case site undecided")
			case expFail:
				if out.OK() {
					r.Violation("c15.resolves-where-protoc-fails", sig+"; protoc: "+strings.SplitN(e.Why, ":", 2)[0]+"; here: accepted", c.id, wit)
				}
			case expResolves:
				switch {
				case !out.OK() && isResolutionErr(out.ErrSummary()) && strings.Contains(out.ErrSummary(), s.Name):
					r.Violation("c15.fails-where-protoc-resolves", sig+"; here: "+resolutionErrClass(out.ErrSummary()), c.id, wit)
				case out.OK() && s.Want != "" && s.Want != "."+e.To:
					r.Violation("c15.resolves-differently", sig+"; here resolved to another element", c.id, wit)
				}
			}
		}
	}
}
