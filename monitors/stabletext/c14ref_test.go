package stabletext

// Reference decoders for C14, written from the language / text-format
// specification as summarised in DESIGN.md §4 C14. Three-valued: a literal is
// decided-accept (with its value), decided-reject (with the reason), or
// undecided (behaviours only remembered from protoc: \X, octal > \377,
// surrogate code points, malformed numbers other than bad octal digits, ...).

import (
	"math"
	"regexp"
	"sort"
	"strconv"
	"strings"
	"unicode/utf8"
)

type verdict int

const (
	vAccept verdict = iota
	vReject
	vUndecided
)

func (v verdict) String() string { return [...]string{"accept", "reject", "undecided"}[v] }

// strElem is one decoded element of a string literal.
type strElem struct {
	class string // stable class name: simple, octal1..3, hex1, hex2, u, U, raw-ascii, raw-control, raw-utf8, raw-invalid-utf8
	bytes []byte
}

type strRef struct {
	verdict verdict
	reason  string // for reject / undecided
	elems   []strElem
	value   []byte
	nLits   int
}

func (s *strRef) classes() string {
	set := map[string]bool{}
	for _, e := range s.elems {
		set[e.class] = true
	}
	if s.nLits > 1 {
		set["concat"] = true
	}
	var out []string
	for k := range set {
		out = append(out, k)
	}
	sort.Strings(out)
	return strings.Join(out, ",")
}

// refDecodeStringFragment decodes a source fragment that should consist of one
// or more adjacent string literals separated by blanks. The fragment is
// followed by a newline in the test source, so running off its end inside a
// literal is "newline or end of input inside the literal".
func refDecodeStringFragment(frag string) *strRef {
	res := &strRef{}
	rejectReason, undecidedReason := "", ""
	reject := func(why string) {
		if rejectReason == "" {
			rejectReason = why
		}
	}
	undecided := func(why string) {
		if undecidedReason == "" {
			undecidedReason = why
		}
	}
	i, n := 0, len(frag)
	hexRun := func(max int) (v uint32, k int) {
		for k < max && i < n && isHexDigit(frag[i]) {
			v = v*16 + uint32(hexVal(frag[i]))
			i++
			k++
		}
		return
	}
	for i < n {
		c := frag[i]
		if c == ' ' || c == '\t' || c == '\n' || c == '\r' {
			i++
			continue
		}
		if c != '"' && c != '\'' {
			undecided("text between or after the literals")
			break
		}
		q := c
		i++
		res.nLits++
		closed := false
		for i < n {
			c = frag[i]
			if c == q {
				i++
				closed = true
				break
			}
			if c == '\n' {
				break
			}
			if c == 0 {
				reject("raw NUL character in the literal")
				i++
				continue
			}
			if c != '\\' {
				// raw byte(s)
				if c < 0x80 {
					cls := "raw-ascii"
					if c < 0x20 || c == 0x7f {
						cls = "raw-control"
					}
					res.elems = append(res.elems, strElem{cls, []byte{c}})
					i++
					continue
				}
				r, sz := utf8.DecodeRuneInString(frag[i:])
				if r == utf8.RuneError && sz == 1 {
					res.elems = append(res.elems, strElem{"raw-invalid-utf8", []byte{c}})
					i++
					continue
				}
				res.elems = append(res.elems, strElem{"raw-utf8", []byte(frag[i : i+sz])})
				i += sz
				continue
			}
			// escape
			i++
			if i >= n {
				break // backslash then end of input
			}
			e := frag[i]
			i++
			switch {
			case strings.IndexByte(`abfnrtv\'"?`, e) >= 0:
				m := map[byte]byte{'a': 7, 'b': 8, 'f': 12, 'n': 10, 'r': 13, 't': 9, 'v': 11, '\\': '\\', '\'': '\'', '"': '"', '?': '?'}
				res.elems = append(res.elems, strElem{"simple", []byte{m[e]}})
			case isOct(e):
				v, k := int(e-'0'), 1
				for k < 3 && i < n && isOct(frag[i]) {
					v = v*8 + int(frag[i]-'0')
					i++
					k++
				}
				if v > 0xff {
					undecided("octal escape above \\377")
					res.elems = append(res.elems, strElem{"octal-above-377", nil})
				} else {
					res.elems = append(res.elems, strElem{"octal" + strconv.Itoa(k), []byte{byte(v)}})
				}
			case e == 'x':
				v, k := hexRun(2)
				if k == 0 {
					if i < n && (frag[i] == '+' || frag[i] == '-') {
						reject("\\x escape without a hex digit (followed by a sign character)")
					} else {
						reject("\\x escape without a hex digit")
					}
				} else {
					res.elems = append(res.elems, strElem{"hex" + strconv.Itoa(k), []byte{byte(v)}})
				}
			case e == 'X':
				undecided("\\X escape")
				res.elems = append(res.elems, strElem{"X", nil})
			case e == 'u' || e == 'U':
				want := 4
				if e == 'U' {
					want = 8
				}
				v, k := hexRun(want)
				switch {
				case k < want:
					if i < n && (frag[i] == '+' || frag[i] == '-') && k == 0 {
						reject("\\" + string(e) + " escape with too few hex digits (followed by a sign character)")
					} else {
						reject("\\" + string(e) + " escape with too few hex digits")
					}
				case v > 0x10ffff:
					reject("\\U escape above 10FFFF")
				case v >= 0xd800 && v <= 0xdfff:
					undecided("surrogate code point escape")
					res.elems = append(res.elems, strElem{"surrogate", nil})
				default:
					res.elems = append(res.elems, strElem{string(e), []byte(string(rune(v)))})
				}
			case e == '\n':
				i-- // let the outer loop see the newline: end of line inside the literal
			default:
				if e >= 0x80 || e < 0x20 {
					reject("invalid escape character (non-ASCII or control)")
				} else if isLetter(e) {
					reject("unknown escape letter")
				} else {
					reject("invalid escape character")
				}
			}
		}
		if !closed {
			reject("newline or end of input inside the literal")
			break
		}
	}
	switch {
	case rejectReason != "":
		res.verdict, res.reason = vReject, rejectReason
	case undecidedReason != "":
		res.verdict, res.reason = vUndecided, undecidedReason
	case res.nLits == 0:
		res.verdict, res.reason = vUndecided, "no literal"
	default:
		res.verdict = vAccept
		for _, e := range res.elems {
			res.value = append(res.value, e.bytes...)
		}
	}
	return res
}

// ---------------------------------------------------------------------------

type numRef struct {
	verdict verdict
	class   string // decimal-int, octal-int, hex-int, int-above-uint64, float-point, float-exp, float-leading-point, or a reason
	isInt   bool
	u       uint64
	f       float64
}

var (
	reDec    = regexp.MustCompile(`^(0|[1-9][0-9]*)$`)
	reOct    = regexp.MustCompile(`^0[0-7]+$`)
	reBadOct = regexp.MustCompile(`^0[0-9]+$`)
	reHex    = regexp.MustCompile(`^0[xX][0-9a-fA-F]+$`)
	reFloat1 = regexp.MustCompile(`^(0|[1-9][0-9]*)\.[0-9]*([eE][+-]?[0-9]+)?$`)
	reFloat2 = regexp.MustCompile(`^(0|[1-9][0-9]*)[eE][+-]?[0-9]+$`)
	reFloat3 = regexp.MustCompile(`^\.[0-9]+([eE][+-]?[0-9]+)?$`)
	// one numeric token by the language's greedy rule: starts with a digit or .digit,
	// then letters, digits, '.', '_' and a sign only right after e/E
	reOneToken = regexp.MustCompile(`^(\.?[0-9])([0-9A-Za-z_.]|[eE][+-])*$`)
)

func parseFloatRef(s string) float64 {
	f, err := strconv.ParseFloat(s, 64)
	if err != nil {
		if ne, ok := err.(*strconv.NumError); ok && ne.Err == strconv.ErrRange {
			return f // ±Inf on overflow, nearest (0/denormal) on underflow
		}
		return math.NaN()
	}
	return f
}

// refDecodeNumber classifies an unsigned numeric literal.
func refDecodeNumber(s string) numRef {
	switch {
	case !reOneToken.MatchString(s):
		return numRef{verdict: vUndecided, class: "not a single numeric token"}
	case reDec.MatchString(s):
		u, err := strconv.ParseUint(s, 10, 64)
		if err != nil {
			return numRef{verdict: vAccept, class: "int-above-uint64", f: parseFloatRef(s)}
		}
		return numRef{verdict: vAccept, class: "decimal-int", isInt: true, u: u}
	case reOct.MatchString(s):
		u, err := strconv.ParseUint(s[1:], 8, 64)
		if err != nil {
			return numRef{verdict: vUndecided, class: "octal integer above uint64"}
		}
		return numRef{verdict: vAccept, class: "octal-int", isInt: true, u: u}
	case reBadOct.MatchString(s):
		return numRef{verdict: vReject, class: "invalid octal digit"}
	case reHex.MatchString(s):
		u, err := strconv.ParseUint(s[2:], 16, 64)
		if err != nil {
			return numRef{verdict: vUndecided, class: "hex integer above uint64"}
		}
		return numRef{verdict: vAccept, class: "hex-int", isInt: true, u: u}
	case reFloat1.MatchString(s):
		return floatRef(s, "float-point")
	case reFloat2.MatchString(s):
		return floatRef(s, "float-exp")
	case reFloat3.MatchString(s):
		return floatRef(s, "float-leading-point")
	}
	return numRef{verdict: vUndecided, class: undecidedNumberClass(s)}
}

func floatRef(s, class string) numRef {
	f := parseFloatRef(s)
	if math.IsNaN(f) {
		return numRef{verdict: vUndecided, class: "reference could not parse"}
	}
	if math.IsInf(f, 0) {
		class += "-overflow"
	}
	return numRef{verdict: vAccept, class: class, f: f}
}

func undecidedNumberClass(s string) string {
	switch {
	case strings.Contains(s, "_"):
		return "underscore"
	case strings.HasPrefix(s, "0x") || strings.HasPrefix(s, "0X"):
		return "malformed hex"
	case regexp.MustCompile(`^0[0-9]+[.eE]`).MatchString(s):
		return "leading-zero float"
	case regexp.MustCompile(`[eE][+-]?$`).MatchString(s):
		return "exponent without digits"
	case strings.Count(s, ".") > 1:
		return "several points"
	case regexp.MustCompile(`[a-zA-Z]$`).MatchString(s):
		return "letter suffix"
	}
	return "other malformed number"
}
