package stabletext

import (
	"encoding/json"
	"fmt"
	"os"
	"testing"
)

func TestZZDebug(t *testing.T) {
	b, _ := os.ReadFile(os.Getenv("DBG_FILE"))
	var d struct{ Witness struct{ Text string } }
	json.Unmarshal(b, &d)
	text := []byte(d.Witness.Text)
	o := parseCollect("x.proto", text, false)
	pt := newPosTable(stripBOM(text))
	for _, e := range o.errs {
		p := e.GetPosition()
		fmt.Printf("err %v | off=%d ref=%d:%d\n", e, p.Offset, pt.line[p.Offset], pt.col[p.Offset])
	}
}
