package stabletext

import (
	"fmt"
	"reflect"
	"strings"
	"testing"
	"unsafe"

	"github.com/bufbuild/protocompile/ast"
	"github.com/bufbuild/protocompile/internal/verifmon/vlib"
)

// C13 — line/column positions equal a byte-scan reference; Start <= End.
//
// Observation points: (a) FileInfo.SourcePos(off) of the FileInfo the lexer
// built (reached through the FileNode's unexported field) at every character
// boundary, (b) Start()/End() of every item (token and comment) and of every
// AST node, (c) the positions of reported errors. Reference: newPosTable.

// fileInfoOf digs the *ast.FileInfo out of a parsed file.
func fileInfoOf(f *ast.FileNode) *ast.FileInfo {
	if f == nil {
		return nil
	}
	v := reflect.ValueOf(f).Elem().FieldByName("fileInfo")
	if !v.IsValid() || v.Kind() != reflect.Ptr || v.IsNil() {
		return nil
	}
	if v.Type() != reflect.TypeOf((*ast.FileInfo)(nil)) {
		return nil
	}
	return (*ast.FileInfo)(unsafe.Pointer(v.Pointer()))
}

// lineFlavor names what the line holds before off: a stable input class.
func lineFlavor(data []byte, off int) string {
	if off > len(data) {
		off = len(data)
	}
	s := off
	for s > 0 && data[s-1] != '\n' {
		s--
	}
	var tab, multi, cr, ctl bool
	for _, b := range data[s:off] {
		switch {
		case b == '\t':
			tab = true
		case b >= 0x80:
			multi = true
		case b == '\r':
			cr = true
		case b < 0x20 || b == 0x7f:
			ctl = true
		}
	}
	var fs []string
	if tab {
		fs = append(fs, "tab")
	}
	if multi {
		fs = append(fs, "multibyte")
	}
	if cr {
		fs = append(fs, "cr")
	}
	if ctl {
		fs = append(fs, "control")
	}
	if len(fs) == 0 {
		return "ascii"
	}
	return strings.Join(fs, "+")
}

type posChecker struct {
	r    *vlib.Run
	id   string
	text []byte // as given (may start with a BOM)
	data []byte // BOM stripped: what the lexer indexes
	pt   *posTable
	fi   *ast.FileInfo
	lim  int // offsets [0,lim] are covered by the lexer's line table
	bad  bool
}

// lineDefect localises a line-table defect: the first offset whose line
// differs from the reference, and what kind of element holds the newline
// before it.
func (pc *posChecker) lineDefect() (kind, sig string, extra map[string]any, ok bool) {
	if pc.fi == nil {
		return "", "", nil, false
	}
	for off := 0; off <= pc.lim && off <= len(pc.data); off++ {
		var p ast.SourcePos
		if pv, _ := vlib.Try(func() { p = pc.fi.SourcePos(off) }); pv != nil {
			return "", "", nil, false
		}
		if p.Line == pc.pt.line[off] {
			continue
		}
		extra = map[string]any{"first_wrong_offset": off, "reported_line": p.Line, "reference_line": pc.pt.line[off]}
		if p.Line < pc.pt.line[off] && off > 0 && pc.data[off-1] == '\n' {
			return "pos.line-table-misses-newline", "newline inside a " + byteClass(pc.data, off-1) + " is not recorded", extra, true
		}
		if p.Line > pc.pt.line[off] {
			return "pos.line-table-extra-line", "line start recorded after a byte that is not LF, inside a " + byteClass(pc.data, off-1), extra, true
		}
		return "", "", nil, false
	}
	return "", "", nil, false
}

func (pc *posChecker) witness(extra map[string]any) map[string]any {
	w := map[string]any{"id": pc.id, "text": string(pc.text)}
	for k, v := range extra {
		w[k] = v
	}
	return w
}

// check compares one reported position with the reference. at names the
// observation point.
func (pc *posChecker) check(at string, p ast.SourcePos) {
	if pc.bad {
		return
	}
	off := p.Offset
	if off < 0 || off > len(pc.data) {
		pc.bad = true
		pc.r.Violation("pos.offset-out-of-range", at, pc.id, pc.witness(map[string]any{"reported": fmt.Sprint(p), "offset": off, "len": len(pc.data)}))
		return
	}
	if p.Line != pc.pt.line[off] {
		pc.bad = true
		if kind, sig, extra, ok := pc.lineDefect(); ok {
			extra["observed_at"] = at
			extra["offset"] = off
			pc.r.Violation(kind, sig, pc.id, pc.witness(extra))
			return
		}
		if pc.fi == nil && p.Line < pc.pt.line[off] {
			// no line table to inspect (parser.Parse fell back to an empty AST): infer. If
			// exactly as many newlines sit inside string elements before the offset as
			// lines are missing, those are the unrecorded ones.
			cls := classifyBytes(pc.data)
			cnt := 0
			for k := 0; k < off; k++ {
				if pc.data[k] == '\n' && cls[k] == "string" {
					cnt++
				}
			}
			if cnt > 0 && cnt == pc.pt.line[off]-p.Line {
				pc.r.Violation("pos.line-table-misses-newline", "newline inside a string is not recorded", pc.id,
					pc.witness(map[string]any{"observed_at": at, "offset": off, "reported_line": p.Line, "reference_line": pc.pt.line[off], "inferred": true}))
				return
			}
		}
		pc.r.Violation("pos.line-mismatch", fmt.Sprintf("at=%s reported-minus-reference=%+d", at, clampInt(p.Line-pc.pt.line[off], -3, 3)), pc.id,
			pc.witness(map[string]any{"offset": off, "reported_line": p.Line, "reference_line": pc.pt.line[off], "reported_col": p.Col}))
		return
	}
	if !pc.pt.bound[off] || !pc.pt.colOK[off] {
		return // mid-character or after invalid UTF-8 on this line: column not decided
	}
	if p.Col != pc.pt.col[off] {
		pc.bad = true
		pc.r.Violation("pos.col-mismatch", pc.colCulprit(off), pc.id,
			pc.witness(map[string]any{"observed_at": at, "offset": off, "line": p.Line, "reported_col": p.Col, "reference_col": pc.pt.col[off], "line_holds": lineFlavor(pc.data, off)}))
	}
}

// colCulprit names the character after which the column first goes wrong on
// the line of off (needs the lexer's FileInfo; otherwise the line's content
// class is used).
func (pc *posChecker) colCulprit(off int) string {
	s := off
	for s > 0 && pc.data[s-1] != '\n' {
		s--
	}
	if pc.fi != nil {
		prev := s
		for o := s; o <= off; o++ {
			if !pc.pt.bound[o] {
				continue
			}
			var p ast.SourcePos
			if pv, _ := vlib.Try(func() { p = pc.fi.SourcePos(o) }); pv != nil {
				break
			}
			if p.Col != pc.pt.col[o] {
				if o == s {
					return "column wrong at the start of a line"
				}
				c := pc.data[prev]
				switch {
				case c == '\t':
					return "column wrong after a tab"
				case c == '\r':
					return "column wrong after a CR"
				case c >= 0x80:
					return fmt.Sprintf("column wrong after a %d-byte character", o-prev)
				case c < 0x20 || c == 0x7f:
					return "column wrong after a control character"
				default:
					return "column wrong after an ASCII character"
				}
			}
			prev = o
		}
	}
	return "column wrong on a line holding " + lineFlavor(pc.data, off)
}

func clampInt(v, lo, hi int) int {
	if v < lo {
		return lo
	}
	if v > hi {
		return hi
	}
	return v
}

func posLE(a, b ast.SourcePos) bool {
	return a.Line < b.Line || a.Line == b.Line && a.Col <= b.Col
}

func (pc *posChecker) span(at string, s, e ast.SourcePos) {
	if pc.bad {
		return
	}
	if !posLE(s, e) || s.Offset > e.Offset {
		pc.bad = true
		pc.r.Violation("pos.start-after-end", at, pc.id, pc.witness(map[string]any{"start": fmt.Sprintf("%d:%d@%d", s.Line, s.Col, s.Offset), "end": fmt.Sprintf("%d:%d@%d", e.Line, e.Col, e.Offset)}))
	}
}

// end checks an exclusive end position: "the location after the last character". When the last character of the
// element is a one-column ASCII character (not a tab, CR or newline) that is, by the column rule, the line of that
// character and its column plus one — whatever the element contains before it (tabs, multi-byte characters).
func (pc *posChecker) end(at string, s ast.SourcePos, raw string, e ast.SourcePos) {
	if pc.bad || len(raw) == 0 {
		return
	}
	last := s.Offset + len(raw) - 1
	if last < 0 || last >= len(pc.data) || last > pc.lim {
		return
	}
	c := pc.data[last]
	if c >= 0x80 || c < 0x20 || c == 0x7f {
		return
	}
	if !pc.pt.bound[last] || !pc.pt.colOK[last] {
		return
	}
	if e.Line != pc.pt.line[last] || e.Col != pc.pt.col[last]+1 {
		pc.bad = true
		holds := "plain ASCII"
		switch {
		case strings.ContainsRune(raw, '\t'):
			holds = "a tab"
		case strings.ContainsAny(raw, "\r\n"):
			holds = "a line break"
		default:
			for i := 0; i < len(raw); i++ {
				if raw[i] >= 0x80 {
					holds = "a multi-byte character"
					break
				}
			}
		}
		pc.r.Violation("pos.end-mismatch", fmt.Sprintf("End() of a %s that holds %s is not the position after its last character", strings.SplitN(at, " ", 2)[0], holds), pc.id,
			pc.witness(map[string]any{"observed_at": at, "start_offset": s.Offset, "raw_text": raw, "reported_end": fmt.Sprintf("%d:%d", e.Line, e.Col),
				"reference_end": fmt.Sprintf("%d:%d", pc.pt.line[last], pc.pt.col[last]+1)}))
	}
}

// checkText parses text (never aborting) and checks every observable position.
// Returns the number of positions compared.
func checkPositions13(r *vlib.Run, id string, text []byte, allNodes bool) (npos int, lexedAll bool, observed bool) {
	o := parseCollect("c13.proto", text, false)
	if o.panicVal != nil || o.file == nil {
		return 0, false, false // totality is C12's property
	}
	data := stripBOM(text)
	pc := &posChecker{r: r, id: id, text: text, data: data, pt: newPosTable(data)}
	f := o.file

	// how far did the lexer get?
	lexedEnd := -1
	seq := f.Items()
	nItems := 0
	for it, ok := seq.First(); ok; it, ok = seq.Next(it) {
		nItems++
		info := f.ItemInfo(it)
		if info == nil {
			continue
		}
		s := info.Start()
		raw := info.RawText()
		if s.Offset+len(raw) > lexedEnd {
			lexedEnd = s.Offset + len(raw)
		}
		if s.Offset == len(data) && raw == "" && len(data) > 0 {
			lexedAll = true
		}
	}
	fi := fileInfoOf(f)
	if len(data) == 0 {
		lexedAll = true
	}
	pc.lim = lexedEnd
	if lexedAll {
		pc.lim = len(data)
	}
	synthesized := len(data) > 0 && nItems == 1 && lexedEnd <= 0 && !lexedAll
	if synthesized {
		// parser.Parse fell back to an empty AST: its FileInfo does not describe this text
		for _, e := range o.errs {
			pc.check("error-position", e.GetPosition())
			npos++
		}
		return npos, false, npos > 0
	}

	pc.fi = fi

	// (b) items
	for it, ok := seq.First(); ok; it, ok = seq.Next(it) {
		info := f.ItemInfo(it)
		if info == nil {
			continue
		}
		at := "token"
		if _, cmt := f.GetItem(it); cmt.IsValid() {
			at = "comment"
		}
		s, e := info.Start(), info.End()
		pc.check(at+"-start", s)
		pc.span(at, s, e)
		if at == "token" {
			// NodeInfo.End is documented as exclusive; Comment.End is the position OF the last character
			pc.end(at, s, info.RawText(), e)
		} else {
			pc.check("comment-end", e)
		}
		npos++
	}
	// every AST node
	if allNodes {
		pv, _ := vlib.Try(func() {
			_ = ast.Walk(f, &ast.SimpleVisitor{}, ast.WithBefore(func(n ast.Node) error {
				info := f.NodeInfo(n)
				if !info.IsValid() {
					return nil
				}
				s, e := info.Start(), info.End()
				pc.check("node-start", s)
				pc.span(fmt.Sprintf("node %T", n), s, e)
				pc.end("node", s, info.RawText(), e)
				npos++
				return nil
			}))
		})
		if pv != nil {
			r.Class("node-walk-panicked(not-decided-here)")
		}
	}
	// (c) error positions
	for _, e := range o.errs {
		pc.check("error-position", e.GetPosition())
		pc.check("error-end-position", e.End())
		npos++
	}
	// (a) SourcePos at every character boundary the line table covers
	if fi != nil {
		for off := 0; off <= pc.lim && off <= len(data); off++ {
			if !pc.pt.bound[off] {
				continue
			}
			var p ast.SourcePos
			pv, _ := vlib.Try(func() { p = fi.SourcePos(off) })
			if pv != nil {
				if !pc.bad {
					pc.bad = true
					r.Violation("pos.sourcepos-panic", "SourcePos panics on an offset inside the lexed text", id, pc.witness(map[string]any{"offset": off, "panic": fmt.Sprint(pv)}))
				}
				break
			}
			pc.check("SourcePos(offset)", p)
			npos++
		}
	} else {
		r.Class("fileinfo-unreachable")
	}
	return npos, lexedAll, true
}

var alpha13 = []string{"a", "\t", "é", "€", "😀", "\n", "\r", " "}

func TestC13(t *testing.T) {
	r := vlib.Start(t, "C13")
	defer r.Finish()
	maxLen := r.N(6, 8)
	r.Extra("rule", fmt.Sprintf("part 1 (exhaustive): every string over {a, TAB, é, €, 😀, LF, CR, SP} up to length %d, wrapped four ways so that it "+
		"lexes (block comment, line comment, string literal followed by a token, bare followed by a token; thorough: length-8 strings in the block comment only); part 1b: every string-literal body over "+
		"{a, backslash, double quote, LF, CR, TAB, é, x} up to length 5 (thorough 6) in double and single quotes, followed by tokens on the same and the next line; part 2: corpus files verbatim "+
		"and re-rendered with tab/CR/FF/VT/multi-byte rich trivia, generator files, byte mutants (error positions). For each text every item "+
		"(token/comment) Start, every AST node Start/End, every error position and FileInfo.SourcePos at every character boundary of the "+
		"lexed part is compared with the byte-scan reference; evaluation = one text; non-trivial = text with a tab, CR, LF or multi-byte character", maxLen))
	r.Extra("assumptions", []string{
		"columns are compared only at character boundaries and only where the line holds valid UTF-8 up to the offset; lines are compared everywhere",
		"a leading UTF-8 BOM is not part of the text the positions refer to (offsets count from the byte after it)",
		"when the parser did not lex to EOF (it stops after an error it cannot recover from), only offsets up to the last lexed item are compared",
		"the FileInfo of a parsed file is reached through the FileNode's unexported field fileInfo (reflection); if that field disappears only item/node/error positions are compared",
	})
	r.Extra("exhaustive", true)

	// ---- part 1: exhaustive short texts
	pow := []int{1}
	for i := 1; i <= maxLen; i++ {
		pow = append(pow, pow[i-1]*len(alpha13))
	}
	total := 0
	for L := 0; L <= maxLen; L++ {
		total += pow[L]
	}
	// strings of the maximal length are wrapped one way only in the thorough tier (cost)
	totalShort := total
	if !r.Quick() {
		totalShort = total - pow[maxLen]
	}
	const chunk = 2048
	nChunks := (total + chunk - 1) / chunk
	decode := func(idx int) string {
		L := 0
		for idx >= pow[L] {
			idx -= pow[L]
			L++
		}
		var sb strings.Builder
		for k := 0; k < L; k++ {
			sb.WriteString(alpha13[idx%len(alpha13)])
			idx /= len(alpha13)
		}
		return sb.String()
	}
	wrappers := []struct {
		name string
		wrap func(s string) string
	}{
		{"block", func(s string) string { return "/*" + s + "*/x" }},
		{"line", func(s string) string { return "//" + s + "\nx" }},
		{"string", func(s string) string { return "x = \"" + s + "\" y" }},
		{"bare", func(s string) string { return s + "x" }},
	}
	r.Par(nChunks, func(c int) {
		cid := fmt.Sprintf("exh/c%d", c)
		if !r.Want(cid) {
			return
		}
		var evals, nontrivial, positions, full int64
		for idx := c * chunk; idx < (c+1)*chunk && idx < total; idx++ {
			s := decode(idx)
			for wi, w := range wrappers {
				if wi > 0 && idx >= totalShort {
					continue // the longest strings go through the block-comment wrapper only
				}
				id := fmt.Sprintf("%s/%d/%s", cid, idx, w.name)
				if r.Replaying() && !r.Want(id) {
					continue
				}
				n, all, obs := checkPositions13(r, id, []byte(w.wrap(s)), false)
				if !obs {
					continue
				}
				evals++
				positions += int64(n)
				if all {
					full++
				}
				if strings.ContainsAny(s, "\t\n\r") || len(s) != strings.Count(s, "")-1 {
					nontrivial++
				}
			}
		}
		r.EvalN(evals, nontrivial)
		r.ClassN("exhaustive.texts", evals)
		r.ClassN("exhaustive.lexed-to-eof", full)
		r.ClassN("positions-compared", positions)
	})
	r.Sample("exhaustive", map[string]any{"example": wrappers[0].wrap("a\té€\r\n😀 "), "wrappers": []string{"/*S*/x", "//S\\nx", "x = \"S\" y", "Sx"}})

	// ---- part 1b: exhaustive string-literal bodies with escapes (a backslash before a line end, quotes, ...)
	alphaEsc := []string{"a", "\\", "\"", "\n", "\r", "\t", "é", "x"}
	maxEsc := r.N(5, 6)
	powE := []int{1}
	for i := 1; i <= maxEsc; i++ {
		powE = append(powE, powE[i-1]*len(alphaEsc))
	}
	totalE := 0
	for L := 0; L <= maxEsc; L++ {
		totalE += powE[L]
	}
	decodeE := func(idx int) string {
		L := 0
		for idx >= powE[L] {
			idx -= powE[L]
			L++
		}
		var sb strings.Builder
		for k := 0; k < L; k++ {
			sb.WriteString(alphaEsc[idx%len(alphaEsc)])
			idx /= len(alphaEsc)
		}
		return sb.String()
	}
	escWrappers := []struct {
		name string
		wrap func(s string) string
	}{
		{"dq", func(s string) string { return "x = \"" + s + "\" y\n z" }},
		{"sq", func(s string) string { return "x = '" + s + "' y\n z" }},
	}
	nChunksE := (totalE + chunk - 1) / chunk
	r.Par(nChunksE, func(c int) {
		cid := fmt.Sprintf("esc/c%d", c)
		if !r.Want(cid) {
			return
		}
		var evals, nontrivial, positions int64
		for idx := c * chunk; idx < (c+1)*chunk && idx < totalE; idx++ {
			s := decodeE(idx)
			for _, w := range escWrappers {
				id := fmt.Sprintf("%s/%d/%s", cid, idx, w.name)
				if r.Replaying() && !r.Want(id) {
					continue
				}
				n, _, obs := checkPositions13(r, id, []byte(w.wrap(s)), false)
				if !obs {
					continue
				}
				evals++
				positions += int64(n)
				if strings.ContainsAny(s, "\t\n\r\\") {
					nontrivial++
				}
			}
		}
		r.EvalN(evals, nontrivial)
		r.ClassN("exhaustive.string-bodies-with-escapes", evals)
		r.ClassN("positions-compared", positions)
	})

	// ---- part 2: rich texts
	cases := textCases(r, "C13", r.N(500, 8000), r.N(400, 8000), r.N(800, 16000))
	nTab := r.N(600, 12000)
	for i := 0; i < nTab; i++ {
		id := fmt.Sprintf("tabrich/%d", i)
		cases = append(cases, textCase{id, func() []byte {
			rng := r.Rng("C13/" + id)
			g := genProtoFile(rng)
			st := gapStyle{pWS: 0.9, pLine: 0.4, pBlock: 0.4, maxPieces: 4, exotic: true, bom: rng.Chance(0.2), noFinalNewline: rng.Bool()}
			return renderTokens(rng, g.toks, st)
		}})
	}
	r.Par(len(cases), func(i int) {
		c := cases[i]
		if !r.Want(c.id) {
			return
		}
		text := c.make()
		src := strings.SplitN(c.id, "/", 2)[0]
		n, all, obs := checkPositions13(r, c.id, text, true)
		if !obs {
			r.Class("unobserved." + src)
			return
		}
		key := ""
		if strings.ContainsAny(string(text), "\t\r\n") || !isASCII(text) {
			key = string(text)
		}
		r.Eval(key)
		r.Class("texts." + src)
		if all {
			r.Class("lexed-to-eof." + src)
		}
		r.ClassN("positions-compared", int64(n))
		if key != "" {
			r.Sample(src, map[string]any{"id": c.id, "text": clip(string(text), 240)})
		}
	})
}

func isASCII(b []byte) bool {
	for _, c := range b {
		if c >= 0x80 {
			return false
		}
	}
	return true
}
