package stabletext

// A text-level random .proto generator: builds a token list for a file that
// the stable parser (parser.Parse + parser.ResultFromAST with validation) is
// expected to accept, without resolving any names (nothing is linked). The
// tokens are then rendered with generated trivia by renderTokens.

import (
	"fmt"
	"strings"

	"github.com/bufbuild/protocompile/internal/verifmon/vlib"
)

var kwIdents = []string{
	"syntax", "edition", "import", "weak", "public", "package", "option", "true", "false", "inf", "nan",
	"repeated", "optional", "required", "double", "float", "int32", "int64", "uint32", "uint64", "sint32",
	"sint64", "fixed32", "fixed64", "sfixed32", "sfixed64", "bool", "string", "bytes", "group", "oneof", "map",
	"extensions", "to", "max", "reserved", "enum", "message", "extend", "service", "rpc", "stream", "returns",
	"export", "local",
}

var scalarTypes = []string{"double", "float", "int32", "int64", "uint32", "uint64", "sint32", "sint64",
	"fixed32", "fixed64", "sfixed32", "sfixed64", "bool", "string", "bytes"}

type importSpec struct {
	path     string
	modifier string // "", "public", "weak"
}

type pgen struct {
	rng     *vlib.RNG
	toks    []tok
	syntax  string // "proto2", "proto3", "2023"
	uid     int
	pkg     string
	imports []importSpec
}

func (g *pgen) id(t string) { g.toks = append(g.toks, tok{'i', t}) }
func (g *pgen) p(ts ...string) {
	for _, t := range ts {
		g.toks = append(g.toks, tok{'p', t})
	}
}
func (g *pgen) num(t string) { g.toks = append(g.toks, tok{'n', t}) }
func (g *pgen) strRaw(t string) {
	g.toks = append(g.toks, tok{'s', t})
}

// str emits the byte string as one or more adjacent literal tokens.
func (g *pgen) str(content string) {
	s := spellBytes(g.rng, []byte(content), vlib.Pick(g.rng, []int{0, 0, 0, 1, 2}), false)
	lits, ok := tokenize([]byte(s))
	if !ok || len(lits) == 0 {
		g.strRaw(`"` + "bad" + `"`)
		return
	}
	g.toks = append(g.toks, lits...)
}

func (g *pgen) plainStr(content string) {
	q := vlib.Pick(g.rng, []string{`"`, `'`})
	g.strRaw(q + content + q)
}

func (g *pgen) fresh(prefix string) string {
	g.uid++
	return fmt.Sprintf("%s%d", prefix, g.uid)
}

// name returns an identifier for a declaration; sometimes a keyword.
func (g *pgen) name(prefix string, kwOK bool) string {
	if kwOK && g.rng.Chance(0.12) {
		return vlib.Pick(g.rng, kwIdents)
	}
	return g.fresh(prefix)
}

func (g *pgen) qualified(n int) []string {
	var parts []string
	for i := 0; i < n; i++ {
		if g.rng.Chance(0.15) {
			parts = append(parts, vlib.Pick(g.rng, kwIdents))
		} else {
			parts = append(parts, vlib.Pick(g.rng, []string{"foo", "bar", "a", "b1", "Baz", "_x", "com", "example", "v1"}))
		}
	}
	return parts
}

func (g *pgen) emitQualified(parts []string) {
	for i, p := range parts {
		if i > 0 {
			g.p(".")
		}
		g.id(p)
	}
}

func (g *pgen) uintLit(v uint64) {
	switch g.rng.Intn(5) {
	case 0:
		g.num(fmt.Sprintf("0x%x", v))
	case 1:
		g.num(fmt.Sprintf("0X%X", v))
	case 2:
		g.num(fmt.Sprintf("0%o", v))
	default:
		g.num(fmt.Sprintf("%d", v))
	}
}

func (g *pgen) floatLit() {
	g.num(vlib.Pick(g.rng, []string{"1.5", ".5", "1.", "1e10", "1E-3", "2.5e+7", "0.0", "1e400", "123456789012345678901234567890", "3.14159", "0e0", "00.5", "1.e1", ".0E1"}))
}

// scalarValue emits an option value usable where any scalar is allowed
// syntactically (names are not resolved by the parser).
func (g *pgen) scalarValue() {
	switch g.rng.Intn(10) {
	case 0:
		g.str(vlib.Pick(g.rng, stringContents))
	case 1:
		g.uintLit(uint64(g.rng.Intn(100000)))
	case 2:
		g.p("-")
		g.uintLit(uint64(g.rng.Intn(1000)))
	case 3:
		g.floatLit()
	case 4:
		g.p("-")
		g.floatLit()
	case 5:
		g.id(vlib.Pick(g.rng, []string{"true", "false", "inf", "nan", "FOO", "BAR_BAZ", "max", "message"}))
	case 6:
		g.p("-")
		g.id(vlib.Pick(g.rng, []string{"inf", "nan"}))
	case 7:
		g.uintLit(g.rng.Uint64())
	default:
		g.str(vlib.Pick(g.rng, stringContents))
	}
}

var stringContents = []string{
	"", "a", "hello world", "import \"x\";", "package p;", "// not a comment", "/* nor this */", "é€😀", "\x00\x01\x7f",
	"tab\there", "line\nbreak", "quote\"s'", "back\\slash", "\xff\xfe", "{}[]<>()", "a;b", "?", "import 'y';\nimport public \"z\";",
}

func (g *pgen) msgLiteral(depth int) {
	open, close := "{", "}"
	if depth > 0 && g.rng.Chance(0.3) {
		open, close = "<", ">"
	}
	g.p(open)
	n := g.rng.Intn(4)
	for i := 0; i < n; i++ {
		// field name
		switch g.rng.Intn(6) {
		case 0:
			g.p("[")
			g.emitQualified(g.qualified(1 + g.rng.Intn(3)))
			g.p("]")
		case 1:
			g.p("[")
			g.emitQualified([]string{"type", "googleapis", "com"})
			g.p("/")
			g.emitQualified(g.qualified(2))
			g.p("]")
		case 2:
			g.id(vlib.Pick(g.rng, kwIdents))
		default:
			g.id(g.fresh("f"))
		}
		// value
		switch k := g.rng.Intn(8); {
		case k == 0 && depth < 3:
			if g.rng.Bool() {
				g.p(":")
			}
			g.msgLiteral(depth + 1)
		case k == 1:
			g.p(":", "[")
			m := g.rng.Intn(3)
			for j := 0; j < m; j++ {
				if j > 0 {
					g.p(",")
				}
				if depth < 3 && g.rng.Chance(0.3) {
					g.msgLiteral(depth + 1)
				} else {
					g.fieldScalar()
				}
			}
			g.p("]")
		case k == 2 && depth < 3:
			// list of messages without colon
			g.p("[")
			m := g.rng.Intn(3)
			for j := 0; j < m; j++ {
				if j > 0 {
					g.p(",")
				}
				g.msgLiteral(depth + 1)
			}
			g.p("]")
		default:
			g.p(":")
			g.fieldScalar()
		}
		switch g.rng.Intn(3) {
		case 0:
			g.p(",")
		case 1:
			g.p(";")
		}
	}
	g.p(close)
}

func (g *pgen) fieldScalar() {
	if g.rng.Chance(0.1) {
		g.p("-")
		g.id(vlib.Pick(g.rng, []string{"inf", "nan", "infinity", "Inf", "NAN"}))
		return
	}
	g.scalarValue()
}

func (g *pgen) optionName() {
	n := 1 + g.rng.Intn(3)
	for i := 0; i < n; i++ {
		if i > 0 {
			g.p(".")
		}
		if g.rng.Chance(0.5) {
			g.p("(")
			if g.rng.Chance(0.3) {
				g.p(".")
			}
			g.emitQualified(g.qualified(1 + g.rng.Intn(3)))
			g.p(")")
		} else {
			g.id(g.name("opt", true))
		}
	}
}

func (g *pgen) optionValue() {
	if g.rng.Chance(0.3) {
		g.msgLiteral(0)
	} else {
		g.scalarValue()
	}
}

func (g *pgen) optionStmt() {
	g.id("option")
	g.optionName()
	g.p("=")
	g.optionValue()
	g.semis()
}

func (g *pgen) semis() {
	g.p(";")
	for g.rng.Chance(0.08) {
		g.p(";")
	}
}

func (g *pgen) compactOptions(extra func()) {
	n := g.rng.Intn(3)
	if extra == nil && n == 0 {
		return
	}
	if extra != nil && n == 0 && g.rng.Bool() {
		n = 0
	}
	g.p("[")
	first := true
	if extra != nil {
		extra()
		first = false
	}
	for i := 0; i < n; i++ {
		if !first {
			g.p(",")
		}
		first = false
		g.optionName()
		g.p("=")
		g.optionValue()
	}
	g.p("]")
}

func (g *pgen) typeRef() {
	if g.rng.Chance(0.2) {
		g.p(".")
	}
	parts := []string{vlib.Pick(g.rng, []string{"Foo", "bar", "M1", "pkg", "x_y"})}
	for g.rng.Chance(0.4) {
		parts = append(parts, vlib.Pick(g.rng, append([]string{"Inner", "T", "v1"}, kwIdents...)))
	}
	g.emitQualified(parts)
}

type tagAlloc struct{ next int }

func (t *tagAlloc) take(rng *vlib.RNG) int {
	t.next += 1 + rng.Intn(3)
	if t.next >= 19000 && t.next <= 19999 {
		t.next = 20000
	}
	return t.next
}

func (g *pgen) field(tags *tagAlloc, inOneof, inExtend bool) {
	proto2 := g.syntax == "proto2"
	label := ""
	if !inOneof {
		switch {
		case proto2:
			label = vlib.Pick(g.rng, []string{"optional", "optional", "repeated", "required"})
			if inExtend && label == "required" {
				label = "optional"
			}
		case g.syntax == "proto3":
			label = vlib.Pick(g.rng, []string{"", "", "repeated", "optional"})
		default:
			label = vlib.Pick(g.rng, []string{"", "", "repeated"})
		}
	}
	if label != "" {
		g.id(label)
	}
	scalar := g.rng.Chance(0.7)
	typ := ""
	if scalar {
		typ = vlib.Pick(g.rng, scalarTypes)
		g.id(typ)
	} else {
		g.typeRef()
	}
	g.id(g.name("fld", true))
	g.p("=")
	g.uintLit(uint64(tags.take(g.rng)))
	var extra func()
	if scalar && proto2 && label != "repeated" && g.rng.Chance(0.4) {
		extra = func() {
			g.id("default")
			g.p("=")
			switch typ {
			case "string", "bytes":
				g.str(vlib.Pick(g.rng, stringContents))
			case "bool":
				g.id(vlib.Pick(g.rng, []string{"true", "false"}))
			case "double", "float":
				switch g.rng.Intn(4) {
				case 0:
					g.id(vlib.Pick(g.rng, []string{"inf", "nan"}))
				case 1:
					g.p("-")
					g.id("inf")
				case 2:
					g.p("-")
					g.floatLit()
				default:
					g.floatLit()
				}
			case "uint32", "uint64", "fixed32", "fixed64":
				g.uintLit(uint64(g.rng.Intn(1 << 20)))
			default:
				if g.rng.Bool() {
					g.p("-")
				}
				g.uintLit(uint64(g.rng.Intn(1 << 20)))
			}
		}
	}
	if g.rng.Chance(0.3) || extra != nil {
		g.compactOptions(extra)
	}
	g.semis()
}

func (g *pgen) mapField(tags *tagAlloc) {
	g.id("map")
	g.p("<")
	g.id(vlib.Pick(g.rng, []string{"int32", "int64", "uint32", "uint64", "sint32", "sint64", "fixed32", "fixed64", "sfixed32", "sfixed64", "bool", "string"}))
	g.p(",")
	if g.rng.Bool() {
		g.id(vlib.Pick(g.rng, scalarTypes))
	} else {
		g.typeRef()
	}
	g.p(">")
	g.id(g.name("mp", true))
	g.p("=")
	g.uintLit(uint64(tags.take(g.rng)))
	if g.rng.Chance(0.2) {
		g.compactOptions(nil)
	}
	g.semis()
}

func (g *pgen) ranges(max string, allowNeg bool) {
	n := 1 + g.rng.Intn(3)
	lo := 100000 + g.rng.Intn(1000)
	for i := 0; i < n; i++ {
		if i > 0 {
			g.p(",")
		}
		if allowNeg && i == 0 && g.rng.Chance(0.3) {
			g.p("-")
			g.uintLit(uint64(5 + g.rng.Intn(5)))
			g.id("to")
			g.p("-")
			g.uintLit(uint64(1 + g.rng.Intn(3)))
			continue
		}
		g.uintLit(uint64(lo))
		if g.rng.Bool() {
			g.id("to")
			if i == n-1 && g.rng.Chance(0.3) {
				g.id(max)
			} else {
				lo += 1 + g.rng.Intn(10)
				g.uintLit(uint64(lo))
			}
		}
		lo += 1 + g.rng.Intn(10)
	}
}

func (g *pgen) reserved(isEnum bool) {
	g.id("reserved")
	if g.rng.Bool() {
		g.ranges("max", isEnum)
	} else {
		n := 1 + g.rng.Intn(3)
		for i := 0; i < n; i++ {
			if i > 0 {
				g.p(",")
			}
			if g.syntax == "2023" {
				g.id(g.fresh("rsv"))
			} else {
				g.plainStr(g.fresh("rsv"))
			}
		}
	}
	g.semis()
}

func (g *pgen) message(depth int) {
	g.id("message")
	g.id(g.name("Msg", true))
	g.messageBody(depth)
}

func (g *pgen) messageBody(depth int) {
	g.p("{")
	tags := &tagAlloc{}
	n := g.rng.Intn(7)
	for i := 0; i < n; i++ {
		switch k := g.rng.Intn(14); {
		case k == 0 && depth < 3:
			g.message(depth + 1)
		case k == 1:
			g.enum()
		case k == 2:
			g.optionStmt()
		case k == 3:
			g.reserved(false)
		case k == 4 && g.syntax != "proto3":
			g.id("extensions")
			g.ranges("max", false)
			if g.rng.Chance(0.2) {
				g.compactOptions(nil)
			}
			g.semis()
		case k == 5:
			g.id("oneof")
			g.id(g.name("oo", true))
			g.p("{")
			if g.rng.Chance(0.2) {
				g.optionStmt()
			}
			m := 1 + g.rng.Intn(3)
			for j := 0; j < m; j++ {
				g.field(tags, true, false)
			}
			g.p("}")
		case k == 6:
			g.mapField(tags)
		case k == 7 && g.syntax == "proto2" && depth < 3:
			g.id(vlib.Pick(g.rng, []string{"optional", "repeated", "required"}))
			g.id("group")
			g.id("Grp" + g.fresh(""))
			g.p("=")
			g.uintLit(uint64(tags.take(g.rng)))
			if g.rng.Chance(0.2) {
				g.compactOptions(nil)
			}
			g.messageBody(depth + 1)
		case k == 8 && g.syntax == "proto2":
			g.extend()
		case k == 9:
			g.p(";")
		default:
			g.field(tags, false, false)
		}
	}
	g.p("}")
	if g.rng.Chance(0.05) {
		g.p(";")
	}
}

func (g *pgen) enum() {
	g.id("enum")
	g.id(g.name("En", true))
	g.p("{")
	if g.rng.Chance(0.2) {
		g.optionStmt()
	}
	n := 1 + g.rng.Intn(4)
	for i := 0; i < n; i++ {
		g.id(g.fresh("VAL_"))
		g.p("=")
		if i > 0 && g.rng.Chance(0.2) {
			g.p("-")
			g.uintLit(uint64(i))
		} else {
			g.uintLit(uint64(i))
		}
		if g.rng.Chance(0.2) {
			g.compactOptions(nil)
		}
		g.semis()
		if g.rng.Chance(0.1) {
			g.reserved(true)
		}
	}
	g.p("}")
}

func (g *pgen) extend() {
	g.id("extend")
	g.typeRef()
	g.p("{")
	tags := &tagAlloc{next: 100}
	n := 1 + g.rng.Intn(3)
	for i := 0; i < n; i++ {
		g.field(tags, false, true)
	}
	g.p("}")
}

func (g *pgen) service() {
	g.id("service")
	g.id(g.name("Svc", true))
	g.p("{")
	n := g.rng.Intn(4)
	for i := 0; i < n; i++ {
		if g.rng.Chance(0.2) {
			g.optionStmt()
			continue
		}
		g.id("rpc")
		g.id(g.name("Do", true))
		g.p("(")
		if g.rng.Chance(0.3) {
			g.id("stream")
		}
		g.typeRef()
		g.p(")")
		g.id("returns")
		g.p("(")
		if g.rng.Chance(0.3) {
			g.id("stream")
		}
		g.typeRef()
		g.p(")")
		if g.rng.Bool() {
			g.semis()
		} else {
			g.p("{")
			for g.rng.Chance(0.4) {
				g.optionStmt()
			}
			g.p("}")
			if g.rng.Chance(0.1) {
				g.p(";")
			}
		}
	}
	g.p("}")
}

var importPaths = []string{
	"a.proto", "foo/bar.proto", "google/protobuf/descriptor.proto", "x", "dir with space/f.proto", "é/ü.proto",
	"q\"uote.proto", "b\\s.proto", "import \"x\";", "", "semi;colon", "a/b/c/d/e.proto", "tab\t.proto", "\x01ctl.proto", "'single'.proto",
}

func (g *pgen) importStmt() {
	sp := importSpec{path: vlib.Pick(g.rng, importPaths)}
	if g.rng.Chance(0.3) {
		sp.path = fmt.Sprintf("gen/f%d.proto", g.rng.Intn(50))
	}
	// the parser rejects duplicate imports? keep paths unique to be safe
	for _, e := range g.imports {
		if e.path == sp.path {
			sp.path = g.fresh("dup/") + ".proto"
		}
	}
	g.id("import")
	switch g.rng.Intn(4) {
	case 0:
		sp.modifier = "public"
		g.id("public")
	case 1:
		sp.modifier = "weak"
		g.id("weak")
	}
	g.str(sp.path)
	g.semis()
	g.imports = append(g.imports, sp)
}

// genProtoFile returns the tokens of one random file plus what it declares.
func genProtoFile(rng *vlib.RNG) *pgen {
	g := &pgen{rng: rng}
	switch x := rng.Intn(20); {
	case x < 9:
		g.syntax = "proto2"
		g.id("syntax")
		g.p("=")
		g.str("proto2")
		g.p(";")
	case x < 15:
		g.syntax = "proto3"
		g.id("syntax")
		g.p("=")
		g.str("proto3")
		g.p(";")
	case x < 18:
		g.syntax = "2023"
		g.id("edition")
		g.p("=")
		g.str("2023")
		g.p(";")
	default:
		g.syntax = "proto2"
	}
	for rng.Chance(0.1) {
		g.p(";")
	}
	n := rng.Intn(9)
	pkgDone := false
	for i := 0; i < n; i++ {
		switch k := rng.Intn(12); {
		case k <= 1 && !pkgDone:
			pkgDone = true
			parts := g.qualified(1 + rng.Intn(3))
			g.pkg = strings.Join(parts, ".")
			g.id("package")
			g.emitQualified(parts)
			g.semis()
		case k <= 4:
			g.importStmt()
		case k == 5:
			g.optionStmt()
		case k == 6:
			g.enum()
		case k == 7:
			g.service()
		case k == 8 && g.syntax == "proto2":
			g.extend()
		case k == 9:
			g.p(";")
		default:
			g.message(0)
		}
	}
	return g
}
