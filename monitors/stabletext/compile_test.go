package stabletext

import (
	"context"

	"github.com/bufbuild/protocompile"
	"github.com/bufbuild/protocompile/internal/verifmon/vlib"
	"github.com/bufbuild/protocompile/linker"
	"github.com/bufbuild/protocompile/reporter"
)

type compileOutcome struct {
	res      linker.Result
	err      error
	errs     []reporter.ErrorWithPos
	panicVal any
	stack    string
}

// compileSource compiles one in-memory file with the stable compiler
// (standard imports available), collecting every reported error.
func compileSource(name, src string) compileOutcome {
	var o compileOutcome
	var warns int
	c := protocompile.Compiler{
		Resolver: protocompile.WithStandardImports(&protocompile.SourceResolver{
			Accessor: protocompile.SourceAccessorFromMap(map[string]string{name: src}),
		}),
		MaxParallelism: 1,
		Reporter: reporter.NewReporter(
			func(e reporter.ErrorWithPos) error { o.errs = append(o.errs, e); return nil },
			func(reporter.ErrorWithPos) { warns++ },
		),
	}
	o.panicVal, o.stack = vlib.Try(func() {
		files, err := c.Compile(context.Background(), name)
		o.err = err
		if err == nil && len(files) == 1 {
			if lr, ok := files[0].(linker.Result); ok {
				o.res = lr
			}
		}
	})
	return o
}

func (o compileOutcome) accepted() bool {
	return o.panicVal == nil && o.err == nil && len(o.errs) == 0 && o.res != nil
}

func (o compileOutcome) firstError() string {
	if o.panicVal != nil {
		return "panic"
	}
	if len(o.errs) > 0 {
		return o.errs[0].Unwrap().Error()
	}
	if o.err != nil {
		return o.err.Error()
	}
	return ""
}
