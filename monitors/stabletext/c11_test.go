package stabletext

import (
	"bytes"
	"fmt"
	"strings"
	"testing"
	"unicode/utf8"

	"github.com/bufbuild/protocompile/ast"
	"github.com/bufbuild/protocompile/internal/verifmon/vlib"
)

// C11 — AST reproduces the source exactly.
//
// For every text the stable parser accepts: walking the AST with ast.Walk and
// printing, for each terminal node, the comments attributed to it (each with
// its own leading whitespace), its leading whitespace and its raw text — the
// EOF node, last in the walk, carries the file's trailing trivia — must give
// back the input bytes (minus a leading UTF-8 BOM).

// printAST11 is the monitor's own printer, written from the property
// statement. It reports how many terminals were visited and whether the EOF
// node was among them.
func printAST11(file *ast.FileNode) (out []byte, terminals int, sawEOF bool, err error) {
	var buf bytes.Buffer
	comments := func(cs ast.Comments) {
		for i := 0; i < cs.Len(); i++ {
			c := cs.Index(i)
			buf.WriteString(c.LeadingWhitespace())
			buf.WriteString(c.RawText())
		}
	}
	emit := func(n ast.Node) {
		info := file.NodeInfo(n)
		comments(info.LeadingComments())
		buf.WriteString(info.LeadingWhitespace())
		buf.WriteString(info.RawText())
		comments(info.TrailingComments())
	}
	err = ast.Walk(file, &ast.SimpleVisitor{
		DoVisitTerminalNode: func(tn ast.TerminalNode) error {
			terminals++
			if rn, ok := tn.(*ast.RuneNode); ok && rn == file.EOF {
				sawEOF = true
			}
			emit(tn)
			return nil
		},
	})
	if !sawEOF && file.EOF != nil {
		// "followed by the file's trailing trivia"
		emit(file.EOF)
	}
	return buf.Bytes(), terminals, sawEOF, err
}

// classifyBytes labels every byte of src with the lexical element that holds
// it, using an independent scanner (for stable signatures only).
func classifyBytes(src []byte) []string {
	out := make([]string, len(src))
	i, n := 0, len(src)
	for i < n {
		start := i
		c := src[i]
		kind := ""
		switch {
		case c == ' ' || c == '\t' || c == '\n' || c == '\r' || c == '\f' || c == '\v':
			for i < n && strings.IndexByte(" \t\n\r\f\v", src[i]) >= 0 {
				i++
			}
			kind = "whitespace"
		case c == '/' && i+1 < n && src[i+1] == '/':
			// the lexer gives up on a comment at a NUL and resumes right after it
			for i < n && src[i] != '\n' {
				i++
				if src[i-1] == 0 {
					break
				}
			}
			kind = "line-comment"
		case c == '/' && i+1 < n && src[i+1] == '*':
			i += 2
			for {
				if i >= n {
					break
				}
				if src[i] == 0 {
					i++
					break
				}
				if src[i] == '*' && i+1 < n && src[i+1] == '/' {
					i += 2
					break
				}
				i++
			}
			kind = "block-comment"
		case c == '"' || c == '\'':
			i = scanStringLikeLexer(src, i)
			kind = "string"
		case isLetter(c):
			for i < n && isWordy(src[i]) {
				i++
			}
			kind = "identifier"
		case isDigit(c):
			for i < n && (isWordy(src[i]) || src[i] == '.') {
				i++
			}
			kind = "number"
		default:
			i++
			kind = "punctuation"
		}
		for k := start; k < i; k++ {
			out[k] = kind
		}
	}
	return out
}

// scanStringLikeLexer returns the end of the string literal that starts at
// src[i]: it follows the stable lexer's consumption rules (a newline ends the
// scan and is consumed; \x takes one character unless it is the quote or a
// backslash, then one more if it is a hex digit; \u / \U take up to 4 / 8
// characters stopping before a quote or backslash; errors do not end the
// scan). Used only to name the context of a position in signatures.
func scanStringLikeLexer(src []byte, i int) int {
	n := len(src)
	q := rune(src[i])
	j := i + 1
	next := func() (rune, int) {
		r, sz := utf8.DecodeRune(src[j:])
		return r, sz
	}
	for j < n {
		c, sz := next()
		j += sz
		if c == '\n' || c == q {
			return j
		}
		if c != '\\' {
			continue
		}
		if j >= n {
			return n
		}
		e, sz := next()
		j += sz
		switch {
		case e == 'x' || e == 'X':
			if j >= n {
				return n
			}
			c1, sz := next()
			if c1 == q || c1 == '\\' {
				continue
			}
			j += sz
			if j >= n {
				return n
			}
			c2, sz := next()
			if c2 < 0x80 && isHexDigit(byte(c2)) {
				j += sz
			}
		case e >= '0' && e <= '7':
			for k := 0; k < 2; k++ {
				if j >= n {
					return n
				}
				c2, sz := next()
				if c2 < '0' || c2 > '7' {
					break
				}
				j += sz
			}
		case e == 'u' || e == 'U':
			m := 4
			if e == 'U' {
				m = 8
			}
			for k := 0; k < m; k++ {
				if j >= n {
					return n
				}
				c2, sz := next()
				if c2 == q || c2 == '\\' {
					break
				}
				j += sz
			}
		}
	}
	return n
}

// byteClass names what sits at an offset of the input.
func byteClass(src []byte, off int) string {
	if off < 0 || off >= len(src) {
		return "end-of-input"
	}
	return classifyBytes(src)[off]
}

func TestC11(t *testing.T) {
	r := vlib.Start(t, "C11")
	defer r.Finish()
	r.Extra("rule", "texts = corpus *.proto (repo testdata + protobuf-go) verbatim, the same files re-rendered from their token "+
		"list with generated trivia (space/tab/CR/LF/CRLF/FF/VT, line and block comments with unique ids in any token gap, BOM, "+
		"missing final newline) and re-spelled string literals, files of the text-level random generator (keywords as identifiers, "+
		"escapes, numeric spellings, message literals), hand-written edge texts and 1-3 byte-level mutants; evaluation = one text "+
		"accepted by parser.Parse printed back and compared byte for byte; rejected texts are counted in classes only; distinct = "+
		"distinct accepted texts with at least one token")
	r.Extra("assumptions", []string{
		"'the parser accepts' = parser.Parse returns a nil error with the default reporter",
		"a token's comments are its NodeInfo.LeadingComments and TrailingComments (a trailing comment belongs to the token before it); " +
			"the file's trailing trivia is the trivia of the EOF node",
	})

	nRetrivia, nGen, nMut := r.N(2000, 60000), r.N(2000, 60000), r.N(2500, 80000)
	cases := textCases(r, "C11", nRetrivia, nGen, nMut)
	r.Par(len(cases), func(i int) {
		c := cases[i]
		if !r.Want(c.id) {
			return
		}
		text := c.make()
		src := strings.SplitN(c.id, "/", 2)[0]
		o := parseCollect("c11.proto", text, true)
		if o.panicVal != nil {
			// totality is C12's property; here the text is simply not "accepted"
			r.Class("rejected." + src + ".panic")
			return
		}
		if o.err != nil || o.file == nil {
			r.Class("rejected." + src)
			return
		}
		want := stripBOM(text)
		var got []byte
		var terms int
		var sawEOF bool
		var werr error
		pv, stack := vlib.Try(func() { got, terms, sawEOF, werr = printAST11(o.file) })
		key := ""
		if terms > 1 {
			key = string(text)
		}
		r.Eval(key)
		r.Class("accepted." + src)
		if len(want) != len(text) {
			r.Class("accepted.with-bom")
		}
		if terms > 1 {
			r.Sample(src, map[string]any{"id": c.id, "text": clip(string(text), 300)})
		}
		w := map[string]any{"id": c.id, "text": string(text)}
		if pv != nil {
			w["panic"] = fmt.Sprint(pv)
			r.Violation("ast.print-panic", "panic while printing an accepted file at "+vlib.PanicSite(stack), c.id, w)
			return
		}
		if werr != nil {
			w["error"] = werr.Error()
			r.Violation("ast.walk-error", "ast.Walk returned an error on an accepted file", c.id, w)
			return
		}
		if !sawEOF {
			r.Class("eof-not-visited-by-walk")
		}
		if bytes.Equal(got, want) {
			return
		}
		d := 0
		for d < len(got) && d < len(want) && got[d] == want[d] {
			d++
		}
		how := "differs"
		switch {
		case d == len(got):
			how = "output ends early"
		case d == len(want):
			how = "output has extra bytes"
		case len(got) < len(want):
			how = "output drops bytes"
		case len(got) > len(want):
			how = "output duplicates bytes"
		}
		w["first_diff_offset"] = d
		w["printed"] = string(got)
		lo := d - 40
		if lo < 0 {
			lo = 0
		}
		hi := d + 40
		if hi > len(want) {
			hi = len(want)
		}
		w["input_around_diff"] = string(want[lo:hi])
		// name the first token at or after the difference (trivia before it is skipped)
		cls := classifyBytes(want)
		j := d
		for j < len(want) && (cls[j] == "whitespace" || cls[j] == "line-comment" || cls[j] == "block-comment") {
			j++
		}
		where := "the end of the input"
		if j < len(want) {
			where = "a " + cls[j]
			if cls[j] == "punctuation" {
				where += " " + string(want[j])
			}
			if j > d {
				where = "the trivia before " + where
			}
		} else if d < len(want) {
			where = "the trailing trivia"
		}
		r.Violation("ast.roundtrip-mismatch", fmt.Sprintf("%s at %s", how, where), c.id, w)
	})
}
