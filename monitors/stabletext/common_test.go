package stabletext

// Shared helpers of the stabletext monitors (C11, C12, C13, C14, C25, C26):
// corpora, an independent mini tokenizer, a trivia (gap) renderer, a random
// .proto text generator, literal spellers and the byte-scan position
// reference. Nothing here calls the code under test except parseCollect.

import (
	"bytes"
	"fmt"
	"os"
	"path/filepath"
	"sort"
	"strings"
	"sync"
	"unicode/utf8"

	"github.com/bufbuild/protocompile/ast"
	"github.com/bufbuild/protocompile/internal/verifmon/vlib"
	"github.com/bufbuild/protocompile/parser"
	"github.com/bufbuild/protocompile/reporter"
)

// namedSource is one input text with a stable name (used in case ids).
type namedSource struct {
	Name string
	Text []byte
}

// extraSources is the seam for the shared schema generator (lib/gen): append
// a func here (from an init in another file of this package) and C11, C13 and
// C25 will consume its texts in addition to their own.
var extraSources []func(rng *vlib.RNG) []namedSource

func extraTexts(r *vlib.Run, stream string) []namedSource {
	var out []namedSource
	for i, f := range extraSources {
		for _, s := range f(r.Rng(fmt.Sprintf("%s/extra%d", stream, i))) {
			s.Name = fmt.Sprintf("extra%d/%s", i, s.Name)
			out = append(out, s)
		}
	}
	return out
}

func repoRoot() string {
	if v := os.Getenv("VERIF_REPO"); v != "" {
		return v
	}
	return "/repo"
}

func modCache() string {
	if v := os.Getenv("GOMODCACHE"); v != "" {
		return v
	}
	return "/root/go/pkg/mod"
}

var (
	corpusOnce sync.Once
	corpusAll  []namedSource
)

// loadCorpus returns every *.proto of the repository's testdata and of the
// protobuf-go module in the module cache, sorted by name.
func loadCorpus() []namedSource {
	corpusOnce.Do(func() {
		roots := []struct{ tag, dir string }{
			{"repo", filepath.Join(repoRoot(), "internal", "testdata")},
			{"pbgo", filepath.Join(modCache(), "google.golang.org", "protobuf@v1.36.11")},
		}
		for _, rt := range roots {
			_ = filepath.Walk(rt.dir, func(p string, fi os.FileInfo, err error) error {
				if err != nil || fi.IsDir() || !strings.HasSuffix(p, ".proto") {
					return nil
				}
				b, err := os.ReadFile(p)
				if err != nil {
					return nil
				}
				rel, _ := filepath.Rel(rt.dir, p)
				corpusAll = append(corpusAll, namedSource{Name: rt.tag + ":" + filepath.ToSlash(rel), Text: b})
				return nil
			})
		}
		sort.Slice(corpusAll, func(i, j int) bool { return corpusAll[i].Name < corpusAll[j].Name })
	})
	return corpusAll
}

var bom = []byte{0xEF, 0xBB, 0xBF}

func stripBOM(b []byte) []byte {
	if bytes.HasPrefix(b, bom) {
		return b[3:]
	}
	return b
}

// ---------------------------------------------------------------------------
// Position reference (C12, C13): a plain byte scan.

type posTable struct {
	data  []byte
	line  []int  // 1-based line of offset i (i in [0,len])
	col   []int  // 1-based column of offset i (valid only where bound[i] && colOK[i])
	bound []bool // offset i is a character boundary (or inside an invalid sequence: each byte its own)
	colOK []bool // no invalid UTF-8 between the start of the line and offset i
	// per line (index = line-1)
	lineEndCol   []int // 1-based column just past the last character of the line (exact if lineValid)
	lineEndColUB []int // upper bound of the above when every byte is counted as a character
	lineValid    []bool
	nLines       int
}

// newPosTable computes, for every offset, line = 1 + number of '\n' before it
// and col = 1 + characters since the line start with a tab advancing to the
// next multiple of 8.
func newPosTable(data []byte) *posTable {
	n := len(data)
	t := &posTable{data: data, line: make([]int, n+1), col: make([]int, n+1), bound: make([]bool, n+1), colOK: make([]bool, n+1)}
	line, col, colUB, ok := 1, 0, 0, true
	endLine := func() {
		t.lineEndCol = append(t.lineEndCol, col+1)
		t.lineEndColUB = append(t.lineEndColUB, colUB+1)
		t.lineValid = append(t.lineValid, ok)
	}
	adv := func(c int, b byte) int {
		if b == '\t' {
			return c + 8 - c%8
		}
		return c + 1
	}
	for i := 0; i < n; {
		r, sz := utf8.DecodeRune(data[i:])
		if r == utf8.RuneError && sz == 1 {
			t.line[i], t.col[i], t.bound[i], t.colOK[i] = line, col+1, true, ok
			ok = false
			col++
			colUB++
			i++
			continue
		}
		t.line[i], t.col[i], t.bound[i], t.colOK[i] = line, col+1, true, ok
		for k := 1; k < sz; k++ {
			t.line[i+k], t.col[i+k], t.bound[i+k], t.colOK[i+k] = line, col+1, false, ok
		}
		if data[i] == '\n' {
			endLine()
			line++
			col, colUB, ok = 0, 0, true
		} else {
			col = adv(col, data[i])
			for k := 0; k < sz; k++ {
				colUB = adv(colUB, data[i])
			}
		}
		i += sz
	}
	t.line[n], t.col[n], t.bound[n], t.colOK[n] = line, col+1, true, ok
	endLine()
	t.nLines = line
	return t
}

// ---------------------------------------------------------------------------
// Parsing with a collecting reporter.

type parseOutcome struct {
	file     *ast.FileNode
	err      error
	errs     []reporter.ErrorWithPos
	warnings int
	panicVal any
	stack    string
}

func collectingHandler(abort bool, errs *[]reporter.ErrorWithPos, warns *int) *reporter.Handler {
	return reporter.NewHandler(reporter.NewReporter(
		func(e reporter.ErrorWithPos) error {
			*errs = append(*errs, e)
			if abort {
				return e
			}
			return nil
		},
		func(reporter.ErrorWithPos) { *warns++ },
	))
}

// parseCollect runs the stable parser on text, recovering panics.
func parseCollect(name string, text []byte, abort bool) parseOutcome {
	var o parseOutcome
	o.panicVal, o.stack = vlib.Try(func() {
		o.file, o.err = parser.Parse(name, bytes.NewReader(text), collectingHandler(abort, &o.errs, &o.warnings))
	})
	return o
}

// ---------------------------------------------------------------------------
// Mini tokenizer (independent of the code under test). Only needs to be right
// on texts that are valid protobuf sources; on anything odd it reports !ok and
// the caller skips the text.

type tok struct {
	kind byte // 'i' identifier, 'n' number, 's' string, 'p' punctuation
	text string
}

func isLetter(c byte) bool { return c == '_' || c >= 'a' && c <= 'z' || c >= 'A' && c <= 'Z' }
func isDigit(c byte) bool  { return c >= '0' && c <= '9' }
func isWordy(c byte) bool  { return isLetter(c) || isDigit(c) }
func isOct(c byte) bool    { return c >= '0' && c <= '7' }
func isHexDigit(c byte) bool {
	return isDigit(c) || c >= 'a' && c <= 'f' || c >= 'A' && c <= 'F'
}

func tokenize(src []byte) ([]tok, bool) {
	src = stripBOM(src)
	var out []tok
	i, n := 0, len(src)
	for i < n {
		c := src[i]
		switch {
		case c == ' ' || c == '\t' || c == '\n' || c == '\r' || c == '\f' || c == '\v':
			i++
		case c == '/' && i+1 < n && src[i+1] == '/':
			for i < n && src[i] != '\n' {
				if src[i] == 0 {
					return nil, false
				}
				i++
			}
		case c == '/' && i+1 < n && src[i+1] == '*':
			j := bytes.Index(src[i+2:], []byte("*/"))
			if j < 0 || bytes.IndexByte(src[i:i+2+j], 0) >= 0 {
				return nil, false
			}
			i += 2 + j + 2
		case isLetter(c):
			j := i
			for j < n && isWordy(src[j]) {
				j++
			}
			out = append(out, tok{'i', string(src[i:j])})
			i = j
		case isDigit(c) || c == '.' && i+1 < n && isDigit(src[i+1]):
			j := i + 1
			for j < n {
				d := src[j]
				if (d == '+' || d == '-') && (src[j-1] == 'e' || src[j-1] == 'E') {
					j++
					continue
				}
				if d == '.' || isWordy(d) {
					j++
					continue
				}
				break
			}
			out = append(out, tok{'n', string(src[i:j])})
			i = j
		case c == '"' || c == '\'':
			j := i + 1
			for {
				if j >= n || src[j] == '\n' || src[j] == 0 {
					return nil, false
				}
				if src[j] == '\\' {
					j += 2
					continue
				}
				if src[j] == c {
					break
				}
				j++
			}
			out = append(out, tok{'s', string(src[i : j+1])})
			i = j + 1
		case strings.IndexByte(";,.:=-+(){}[]<>/", c) >= 0:
			out = append(out, tok{'p', string(src[i : i+1])})
			i++
		default:
			return nil, false
		}
	}
	return out, true
}

// ---------------------------------------------------------------------------
// Trivia renderer: joins tokens with generated gaps.

type gapStyle struct {
	pWS, pLine, pBlock float64 // per-gap probabilities of adding a piece of that kind
	maxPieces          int
	exotic             bool // use CR / FF / VT / tabs / multi-byte in trivia
	bom                bool
	noFinalNewline     bool // allow the file to end in a line comment without newline
}

func randomGapStyle(rng *vlib.RNG) gapStyle {
	switch rng.Intn(6) {
	case 0: // minimal: only mandatory separators
		return gapStyle{maxPieces: 0}
	case 1: // plain pretty
		return gapStyle{pWS: 0.9, maxPieces: 1}
	case 2: // comment in every gap
		return gapStyle{pWS: 0.5, pLine: 0.7, pBlock: 0.7, maxPieces: 4, exotic: true, noFinalNewline: rng.Bool()}
	case 3:
		return gapStyle{pWS: 0.6, pLine: 0.15, pBlock: 0.2, maxPieces: 3, exotic: true, bom: rng.Chance(0.3), noFinalNewline: rng.Bool()}
	case 4: // whitespace zoo
		return gapStyle{pWS: 0.95, maxPieces: 3, exotic: true, bom: rng.Chance(0.2)}
	default:
		return gapStyle{pWS: 0.7, pLine: 0.3, pBlock: 0.3, maxPieces: 2, exotic: rng.Bool(), bom: rng.Chance(0.1), noFinalNewline: rng.Chance(0.3)}
	}
}

var commentWords = []string{
	"x", "TODO", "import \"x\";", "package p;", "é", "€", "😀", "\t", "  ", "*", "/", "/*", "//", "\\", "\"", "'",
	"{", "}", "[", "<", ";", "\r", "0x1F", "syntax = \"proto3\";", "* /", " ", "\ufeff", "\x7f", "\x01", "\v", "\f", "**", "@param",
}

func genWS(rng *vlib.RNG, exotic bool) string {
	var sb strings.Builder
	n := 1 + rng.Intn(3)
	for i := 0; i < n; i++ {
		if exotic {
			sb.WriteString(vlib.Pick(rng, []string{" ", " ", "\t", "\n", "\r\n", "\r", "\f", "\v", "\n\n", "\t\t", "  "}))
		} else {
			sb.WriteString(vlib.Pick(rng, []string{" ", " ", "\n", "  ", "\n  ", "\t"}))
		}
	}
	return sb.String()
}

func genCommentBody(rng *vlib.RNG, id *int, block bool, exotic bool) string {
	var sb strings.Builder
	*id++
	fmt.Fprintf(&sb, " c%d", *id)
	n := rng.Intn(5)
	for i := 0; i < n; i++ {
		w := vlib.Pick(rng, commentWords)
		if !exotic && (len(w) == 1 && w[0] < 0x20 || w == "\x7f") {
			w = "w"
		}
		sb.WriteByte(' ')
		sb.WriteString(w)
	}
	if block && rng.Chance(0.3) {
		sb.WriteString("\n * more\n ")
	}
	if rng.Bool() {
		sb.WriteByte(' ')
	}
	s := sb.String()
	if block {
		for strings.Contains(s, "*/") {
			s = strings.ReplaceAll(s, "*/", "* /")
		}
	} else {
		s = strings.ReplaceAll(s, "\n", " ")
	}
	return s
}

// genGap makes the trivia between two tokens. must: a separator is needed;
// final: this is the gap before EOF.
func genGap(rng *vlib.RNG, st gapStyle, id *int, must, final bool) string {
	var sb strings.Builder
	sep := false
	pieces := 0
	if st.maxPieces > 0 {
		pieces = rng.Intn(st.maxPieces + 1)
	}
	for i := 0; i < pieces; i++ {
		x := rng.Float64()
		switch {
		case x < st.pLine:
			sb.WriteString("//" + genCommentBody(rng, id, false, st.exotic))
			if final && i == pieces-1 && st.noFinalNewline {
				// file ends inside the line comment
			} else {
				sb.WriteString("\n")
			}
			sep = true
		case x < st.pLine+st.pBlock:
			sb.WriteString("/*" + genCommentBody(rng, id, true, st.exotic) + "*/")
			sep = true
		case x < st.pLine+st.pBlock+st.pWS:
			sb.WriteString(genWS(rng, st.exotic))
			sep = true
		}
	}
	if must && !sep {
		sb.WriteString(" ")
	}
	return sb.String()
}

func needSep(prev, next tok) bool {
	if prev.text == "" || next.text == "" {
		return false
	}
	a, b := prev.text[len(prev.text)-1], next.text[0]
	if isWordy(a) && isWordy(b) {
		return true
	}
	if prev.kind == 'n' && (b == '.' || isWordy(b)) {
		return true
	}
	if a == '.' && isDigit(b) {
		return true
	}
	if (prev.kind == 'i' || prev.kind == 'n') && b == '.' && len(next.text) > 1 {
		return true // ident followed by a ".5" style number
	}
	return false
}

// renderTokens joins tokens with generated trivia. The result tokenizes (by
// the language rules) to exactly the given tokens.
func renderTokens(rng *vlib.RNG, toks []tok, st gapStyle) []byte {
	var out bytes.Buffer
	if st.bom {
		out.Write(bom)
	}
	id := 0
	var prev tok
	for i, t := range toks {
		g := genGap(rng, st, &id, i > 0 && needSep(prev, t), false)
		if prev.text == "/" && strings.HasPrefix(g, "/") {
			g = " " + g
		}
		if prev.text == "/" && g == "" && (t.text[0] == '/' || t.text[0] == '*') {
			g = " "
		}
		out.WriteString(g)
		out.WriteString(t.text)
		prev = t
	}
	g := genGap(rng, st, &id, false, true)
	if prev.text == "/" && strings.HasPrefix(g, "/") {
		g = " " + g
	}
	out.WriteString(g)
	return out.Bytes()
}

// ---------------------------------------------------------------------------
// Literal spellers.

// spellBytes writes the byte string b as one or more adjacent string literals
// whose decoded value (per the language spec) is exactly b. Only spellings in
// the decided domain of DESIGN.md §4 C14 are used: simple escapes, octal 1-3
// digits <= \377, \x with 1-2 hex digits, \u/\U for valid non-surrogate code
// points, raw bytes for printable ASCII and complete valid UTF-8 sequences.
// rawControls additionally allows raw control bytes (other than NUL and LF).
func spellBytes(rng *vlib.RNG, b []byte, mode int, rawControls bool) string {
	type piece struct {
		s     string
		short byte // 'o' short octal, 'x' short/any hex (a following hex digit would extend it)
	}
	var lits []string
	quote := byte('"')
	if rng.Bool() {
		quote = '\''
	}
	var ps []piece
	flush := func() {
		var sb strings.Builder
		sb.WriteByte(quote)
		for i, p := range ps {
			s := p.s
			if i+1 < len(ps) {
				nx := ps[i+1].s[0]
				if p.short == 'o' && isOct(nx) {
					// pad to three digits so that the next digit is not absorbed
					d := s[1:]
					for len(d) < 3 {
						d = "0" + d
					}
					s = "\\" + d
				}
				if p.short == 'x' && isHexDigit(nx) {
					if len(s) == 3 { // \xH -> \x0H
						s = s[:2] + "0" + s[2:]
					}
					// two hex digits followed by a raw hex digit: split literals instead
					if len(s) == 4 {
						sb.WriteString(s)
						sb.WriteByte(quote)
						sb.WriteByte(quote)
						continue
					}
				}
			}
			sb.WriteString(s)
		}
		sb.WriteByte(quote)
		lits = append(lits, sb.String())
		ps = ps[:0]
		if rng.Bool() {
			quote = '"'
		} else {
			quote = '\''
		}
	}
	simple := map[byte]string{'\a': `\a`, '\b': `\b`, '\f': `\f`, '\n': `\n`, '\r': `\r`, '\t': `\t`, '\v': `\v`, '\\': `\\`, '\'': `\'`, '"': `\"`, '?': `\?`}
	for i := 0; i < len(b); {
		c := b[i]
		// multi-byte valid UTF-8 sequence: maybe keep raw or use \u / \U
		if c >= 0x80 {
			r, sz := utf8.DecodeRune(b[i:])
			if r != utf8.RuneError && mode != 1 && rng.Chance(0.6) {
				switch k := rng.Intn(3); {
				case k == 0:
					ps = append(ps, piece{s: string(b[i : i+sz])})
				case k == 1 && r <= 0xffff:
					ps = append(ps, piece{s: fmt.Sprintf(vlib.Pick(rng, []string{`\u%04x`, `\u%04X`}), r)})
				default:
					ps = append(ps, piece{s: fmt.Sprintf(vlib.Pick(rng, []string{`\U%08x`, `\U%08X`}), r)})
				}
				i += sz
				continue
			}
		}
		printable := c >= 0x20 && c < 0x7f && c != '\\' && c != quote
		var soft []piece // raw and simple-escape spellings
		if printable {
			soft = append(soft, piece{s: string([]byte{c})}, piece{s: string([]byte{c})}, piece{s: string([]byte{c})})
		} else if rawControls && c != 0 && c != '\n' && c < 0x80 && c != '\\' && c != quote {
			soft = append(soft, piece{s: string([]byte{c})})
		}
		if s, ok := simple[c]; ok {
			soft = append(soft, piece{s: s}, piece{s: s})
		}
		oct := func(format string) piece {
			s := fmt.Sprintf(format, c)
			p := piece{s: s}
			if len(s) < 4 {
				p.short = 'o'
			}
			return p
		}
		numeric := []piece{
			oct(`\%o`), oct(`\%03o`),
			{s: fmt.Sprintf(`\x%x`, c), short: 'x'},
			{s: fmt.Sprintf(`\x%02X`, c), short: 'x'},
		}
		if c >= 8 {
			numeric = append(numeric, oct(`\%02o`))
		}
		if c < 0x80 {
			numeric = append(numeric, piece{s: fmt.Sprintf(`\u%04x`, c)}, piece{s: fmt.Sprintf(`\U%08x`, c)})
		}
		var p piece
		if mode == 1 || len(soft) == 0 || rng.Chance(0.35) {
			p = vlib.Pick(rng, numeric)
		} else {
			p = vlib.Pick(rng, soft)
		}
		ps = append(ps, p)
		i++
		if mode == 2 && rng.Chance(0.15) {
			flush()
			if rng.Chance(0.5) {
				lits = append(lits, vlib.Pick(rng, []string{`""`, `''`}))
			}
		}
	}
	if len(ps) > 0 || len(lits) == 0 {
		flush()
	}
	seps := []string{"", " ", "\n", "\t", " /* c */ ", " // c\n"}
	var sb strings.Builder
	for i, l := range lits {
		if i > 0 {
			sb.WriteString(vlib.Pick(rng, seps))
		}
		sb.WriteString(l)
	}
	return sb.String()
}

// cUnescapeStrict is the reference C-unescape for descriptor default_value
// strings of bytes fields: simple escapes, 1-3 octal digits, \x + 1-2 hex
// digits; anything else is an error.
func cUnescapeStrict(s string) ([]byte, error) {
	var out []byte
	for i := 0; i < len(s); {
		c := s[i]
		if c != '\\' {
			out = append(out, c)
			i++
			continue
		}
		i++
		if i >= len(s) {
			return nil, fmt.Errorf("dangling backslash")
		}
		e := s[i]
		i++
		switch e {
		case 'a':
			out = append(out, '\a')
		case 'b':
			out = append(out, '\b')
		case 'f':
			out = append(out, '\f')
		case 'n':
			out = append(out, '\n')
		case 'r':
			out = append(out, '\r')
		case 't':
			out = append(out, '\t')
		case 'v':
			out = append(out, '\v')
		case '\\', '\'', '"', '?':
			out = append(out, e)
		case 'x', 'X':
			v, k := 0, 0
			for k < 2 && i < len(s) && isHexDigit(s[i]) {
				v = v*16 + hexVal(s[i])
				i++
				k++
			}
			if k == 0 {
				return nil, fmt.Errorf("\\x without digits")
			}
			out = append(out, byte(v))
		default:
			if !isOct(e) {
				return nil, fmt.Errorf("unknown escape \\%c", e)
			}
			v, k := int(e-'0'), 1
			for k < 3 && i < len(s) && isOct(s[i]) {
				v = v*8 + int(s[i]-'0')
				i++
				k++
			}
			if v > 255 {
				return nil, fmt.Errorf("octal escape > 377")
			}
			out = append(out, byte(v))
		}
	}
	return out, nil
}

func hexVal(c byte) int {
	switch {
	case c >= '0' && c <= '9':
		return int(c - '0')
	case c >= 'a' && c <= 'f':
		return int(c-'a') + 10
	default:
		return int(c-'A') + 10
	}
}

func clip(s string, n int) string {
	if len(s) <= n {
		return s
	}
	return s[:n] + fmt.Sprintf("…(+%d bytes)", len(s)-n)
}

// ---------------------------------------------------------------------------
// Text workload shared by C11, C13 and C25.

type textCase struct {
	id   string
	make func() []byte
}

var handTexts = []string{
	"", " ", "\n", "\t", "\r\n", "\xef\xbb\xbf", "\xef\xbb\xbf\n", "// only a comment", "// only a comment\n", "/* block */", "/**/",
	"\n\t// this file has no lexical elements, just this one comment\n\t", ";", ";;", "syntax = \"proto3\";", "syntax=\"proto2\";//x",
	"syntax = \"proto3\"; // trailing\n// detached\n\n/* last */", "message A{}", "message A{}/*x*/", "message A{}//x", "message A{} //x\n//y",
	"\xef\xbb\xbfsyntax = \"proto3\";\nmessage M { int32 a = 1; }\n", "package a;\f\vmessage\tM\r{\r\n}\r", "import \"a\" 'b';",
	"message M { /* lead */ int32 a = 1; // trail\n /* x */ /* y */ int32 b = 2; /* trail block */\n\n // detached\n\n // lead c\n int32 c = 3; }",
	"enum E { A = 0; /* t1 */ /* t2 */\n B = 1; }", "option (a) = { /* in */ b /* c */ : /* d */ 1 /* e */ } /* f */ ; /* g */",
	"message M { optional string s = 1 [default = \"a\" /* mid */ \"b\" // eol\n 'c']; }",
	"syntax = \"proto3\";\n\n\n", "syntax = \"proto3\";   ", "syntax = \"proto3\";\t//\t\ttabs\té\n", "message /*é€😀*/ M /*\t*/ { }",
	"message M {}\n/* unterminated is rejected", "message M { int32 a = 1 [(x) = 1.5e3, (y) = -inf, (z) = 0x1F]; }",
	"service S { rpc M (stream .a.B) returns (c.D) { option (o) = <a: 1, b <c: [1, 2]>>; }; }",
	"//a\n//b\n\n//c\nsyntax = \"proto2\";//d\n//e\n\n//f\npackage p;", "/*a*//*b*/message/*c*/M/*d*/{/*e*/}/*f*/",
	"edition = \"2023\"; message M { reserved a, b; }", "message M { reserved \"a\", 'b'; extensions 1 to max; }",
	"message M { map<string, .x.Y> m = 1; oneof o { int32 a = 2; } optional group G = 3 { } }",
	"extend Foo { optional int32 x = 100; }", "import public \"a.proto\"; import weak 'b.proto'; package x.y;",
}

// textCases enumerates the workload: a pure function of (seed, tier).
func textCases(r *vlib.Run, prop string, nRetrivia, nGen, nMut int) []textCase {
	corpus := loadCorpus()
	var cs []textCase
	for _, c := range corpus {
		c := c
		cs = append(cs, textCase{"corpus/" + c.Name, func() []byte { return c.Text }})
	}
	for i, h := range handTexts {
		h := h
		cs = append(cs, textCase{fmt.Sprintf("hand/%d", i), func() []byte { return []byte(h) }})
	}
	for _, e := range extraTexts(r, prop) {
		e := e
		cs = append(cs, textCase{e.Name, func() []byte { return e.Text }})
	}
	for i := 0; i < nRetrivia && len(corpus) > 0; i++ {
		id := fmt.Sprintf("retrivia/%d", i)
		cs = append(cs, textCase{id, func() []byte {
			rng := r.Rng(prop + "/" + id)
			src := corpus[rng.Intn(len(corpus))]
			toks, ok := tokenize(src.Text)
			if !ok {
				return src.Text
			}
			if rng.Chance(0.3) {
				toks = respellStrings(rng, toks)
			}
			return renderTokens(rng, toks, randomGapStyle(rng))
		}})
	}
	for i := 0; i < nGen; i++ {
		id := fmt.Sprintf("gen/%d", i)
		cs = append(cs, textCase{id, func() []byte {
			rng := r.Rng(prop + "/" + id)
			g := genProtoFile(rng)
			return renderTokens(rng, g.toks, randomGapStyle(rng))
		}})
	}
	for i := 0; i < nMut; i++ {
		id := fmt.Sprintf("mut/%d", i)
		cs = append(cs, textCase{id, func() []byte {
			rng := r.Rng(prop + "/" + id)
			var base []byte
			if rng.Bool() && len(corpus) > 0 {
				base = corpus[rng.Intn(len(corpus))].Text
				if len(base) > 4000 {
					o := rng.Intn(len(base) - 4000)
					base = base[o : o+4000]
				}
			} else {
				g := genProtoFile(rng)
				base = renderTokens(rng, g.toks, randomGapStyle(rng))
			}
			return mutateBytes(rng, base, 1+rng.Intn(3))
		}})
	}
	return cs
}

// respellStrings re-spells some plain string literal tokens (different quote,
// escapes, split into adjacent literals) without changing their value.
func respellStrings(rng *vlib.RNG, toks []tok) []tok {
	out := make([]tok, 0, len(toks))
	for _, t := range toks {
		if t.kind != 's' || len(t.text) < 2 || strings.ContainsAny(t.text[1:len(t.text)-1], "\\") || !rng.Chance(0.5) {
			out = append(out, t)
			continue
		}
		content := t.text[1 : len(t.text)-1]
		if !utf8.ValidString(content) {
			out = append(out, t)
			continue
		}
		lits, ok := tokenize([]byte(spellBytes(rng, []byte(content), vlib.Pick(rng, []int{0, 1, 2}), false)))
		if !ok || len(lits) == 0 {
			out = append(out, t)
			continue
		}
		out = append(out, lits...)
	}
	return out
}

var mutFragments = []string{
	"\"", "'", "/*", "*/", "//", "\n", "\t", "\r", "\f", "\v", " ", ";", "{", "}", "[", "]", "<", ">", "(", ")", "=", ",", ".", "-", "+", ":",
	"\\", "0", "0x", "1e", ".5", "é", "€", "😀", "\x00", "\x7f", "\xff", "\xc3", "\xef\xbb\xbf", "message", "option", "import ", "syntax", "group",
	"stream", "max", "to", "inf", "-", "\\x", "\\u12", "\\777", "\\0", "08", "1.2.3", "0x1G", "_", "@", "#", "$", "`", "~", "!", "%", "^", "&", "*", "|", "?",
}

func mutateBytes(rng *vlib.RNG, b []byte, n int) []byte {
	out := append([]byte(nil), b...)
	for k := 0; k < n; k++ {
		pos := 0
		if len(out) > 0 {
			pos = rng.Intn(len(out) + 1)
		}
		switch rng.Intn(7) {
		case 0: // flip a byte
			if pos < len(out) {
				out[pos] ^= byte(1 << rng.Intn(8))
			}
		case 1: // delete a run
			if pos < len(out) {
				e := pos + 1 + rng.Intn(4)
				if e > len(out) {
					e = len(out)
				}
				out = append(out[:pos], out[e:]...)
			}
		case 2: // random byte
			if pos < len(out) {
				out[pos] = byte(rng.Intn(256))
			}
		case 3, 4: // insert a fragment
			f := vlib.Pick(rng, mutFragments)
			out = append(out[:pos], append([]byte(f), out[pos:]...)...)
		case 5: // duplicate a run
			if pos < len(out) {
				e := pos + 1 + rng.Intn(12)
				if e > len(out) {
					e = len(out)
				}
				run := append([]byte(nil), out[pos:e]...)
				out = append(out[:pos], append(run, out[pos:]...)...)
			}
		default: // truncate
			out = out[:pos]
		}
	}
	return out
}
