package stabletext

import (
	"bytes"
	"fmt"
	"runtime/debug"
	"strings"
	"sync/atomic"
	"testing"

	"github.com/bufbuild/protocompile/ast"
	"github.com/bufbuild/protocompile/internal/verifmon/vlib"
	"github.com/bufbuild/protocompile/parser"
	"github.com/bufbuild/protocompile/reporter"
)

// C12 — the stable parser is total: parser.Parse never panics and returns a
// non-nil AST for any bytes; err != nil iff an error was reported; every
// reported error position lies inside the file; parser.ResultFromAST on the
// returned AST never panics.

func panicClass(pv any) string {
	s := fmt.Sprint(pv)
	// strip numbers so that the class is stable
	var sb strings.Builder
	for _, c := range s {
		if c >= '0' && c <= '9' {
			if sb.Len() == 0 || !strings.HasSuffix(sb.String(), "N") {
				sb.WriteByte('N')
			}
			continue
		}
		sb.WriteRune(c)
	}
	out := sb.String()
	if len(out) > 90 {
		out = out[:90]
	}
	return out
}

// errPosProblem reports how an error position falls outside the file ("" = inside).
func errPosProblem(pt *posTable, p ast.SourcePos) string {
	switch {
	case p.Line < 1:
		return "line < 1"
	case p.Col < 1:
		return "col < 1"
	case p.Line > pt.nLines:
		return "line beyond the last line"
	}
	maxCol := pt.lineEndColUB[p.Line-1]
	if pt.lineValid[p.Line-1] {
		maxCol = pt.lineEndCol[p.Line-1]
	}
	if p.Col > maxCol {
		return "col beyond the end of the line"
	}
	return ""
}

func check12(r *vlib.Run, id string, text []byte) {
	data := stripBOM(text)
	var pt *posTable
	w := func(extra map[string]any) map[string]any {
		m := map[string]any{"id": id, "len": len(text)}
		if len(text) <= 6000 {
			m["text"] = string(text)
			if !isPrintableASCII(text) {
				m["text_hex"] = fmt.Sprintf("%x", text)
			}
		} else {
			m["text_head"] = string(text[:600])
			m["text_tail"] = string(text[len(text)-200:])
		}
		for k, v := range extra {
			m[k] = v
		}
		return m
	}
	for _, abort := range []bool{false, true} {
		policy := "never-abort reporter"
		if abort {
			policy = "aborting reporter"
		}
		o := parseCollect("c12.proto", text, abort)
		if o.panicVal != nil {
			r.Violation("parser.panic", "parser.Parse panics: "+panicClass(o.panicVal)+" at "+vlib.PanicSite(o.stack), id,
				w(map[string]any{"policy": policy, "panic": fmt.Sprint(o.panicVal), "stack": clip(o.stack, 3000)}))
			continue
		}
		if o.file == nil {
			r.Violation("parser.nil-ast", "parser.Parse returned a nil AST ("+policy+")", id, w(map[string]any{"err": fmt.Sprint(o.err)}))
			continue
		}
		if (o.err != nil) != (len(o.errs) > 0) {
			how := "err == nil although errors were reported"
			if o.err != nil {
				how = "err != nil although no error was reported"
			}
			first := ""
			if len(o.errs) > 0 {
				first = o.errs[0].Error()
			}
			r.Violation("parser.error-iff-reported", how+" ("+policy+")", id, w(map[string]any{"err": fmt.Sprint(o.err), "reported": len(o.errs), "first": first}))
		}
		if len(o.errs) > 0 && pt == nil {
			pt = newPosTable(data)
		}
		posReported := false
		for _, e := range o.errs {
			if posReported {
				break // one position finding per input and policy is enough
			}
			for k, p := range []ast.SourcePos{e.GetPosition(), e.End()} {
				prob := errPosProblem(pt, p)
				if prob == "" {
					continue
				}
				which := "start"
				if k == 1 {
					which = "end"
				}
				cause := ""
				if p.Offset >= 0 && p.Offset <= len(data) && p.Line < pt.line[p.Offset] {
					// the position is the right offset on a too-early line: a newline missing from the line table
					cls := classifyBytes(data)
					n := 0
					for i := 0; i < p.Offset; i++ {
						if data[i] == '\n' && cls[i] == "string" {
							n++
						}
					}
					if n > 0 && n == pt.line[p.Offset]-p.Line {
						cause = "; line table misses a newline inside a string"
					}
				}
				r.Violation("parser.error-position-outside-file", prob+cause, id,
					w(map[string]any{"policy": policy, "which": which, "error": e.Error(), "line": p.Line, "col": p.Col, "offset": p.Offset, "lines_in_file": pt.nLines}))
				posReported = true
				break
			}
		}
		for _, validate := range []bool{true, false} {
			var errs []reporter.ErrorWithPos
			var warns int
			var res parser.Result
			pv, stack := vlib.Try(func() { res, _ = parser.ResultFromAST(o.file, validate, collectingHandler(abort, &errs, &warns)) })
			if pv != nil {
				r.Violation("result.panic", "parser.ResultFromAST panics: "+panicClass(pv)+" at "+vlib.PanicSite(stack), id,
					w(map[string]any{"policy": policy, "validate": validate, "parse_err": fmt.Sprint(o.err), "panic": fmt.Sprint(pv), "stack": clip(stack, 3000)}))
				break
			}
			_ = res
		}
	}
}

func isPrintableASCII(b []byte) bool {
	for _, c := range b {
		if c >= 0x7f || c < 0x20 && c != '\n' && c != '\t' && c != '\r' {
			return false
		}
	}
	return true
}

var soupVocab = []string{
	"syntax", "edition", "import", "weak", "public", "package", "option", "true", "false", "inf", "nan", "repeated", "optional", "required",
	"double", "int32", "string", "bytes", "group", "oneof", "map", "extensions", "to", "max", "reserved", "enum", "message", "extend", "service",
	"rpc", "stream", "returns", "export", "local", "foo", "Bar", "_x", "a.b", ".a.b", "a.", "..",
	";", ",", ".", ":", "=", "-", "+", "(", ")", "{", "}", "[", "]", "<", ">", "/", "\\", "?", "*", "&", "^", "%", "$", "#", "@", "!", "~", "`", "|",
	"0", "1", "42", "0x1F", "0x", "017", "08", "1.5", ".5", "1e10", "1e", "1e+", "1.2.3", "99999999999999999999", "0xFFFFFFFFFFFFFFFFF", "-1", "1_0", "1f",
	"\"str\"", "'str'", "\"\"", "\"a\\nb\"", "\"\\x\"", "\"\\u12\"", "\"\\777\"", "\"\\q\"", "\"unterminated", "'unterminated", "\"new\nline\"", "\"nul\x00\"", "\"\\",
	"// c\n", "//", "/* c */", "/*", "*/", "/**/", "/*/", "// nul \x00\n", "/* nul \x00 */",
	" ", "\n", "\t", "\r", "\f", "\v", "\r\n", "\x00", "\x01", "\x7f", "\x80", "\xff", "\xc3", "\xc3\xa9", "\xe2\x82", "\xf0\x9f\x98\x80", "\xed\xa0\x80", "\xef\xbb\xbf", "\xfe\xff",
	"= 1;", "= 1 [", "default =", "[default = 1]", "[(a).b = {", "{ a: 1 }", "< a: 1 >", "[a.b/c.d]", "returns (", "map<", "map<string,", ">", "group G = 1 {", "to max;", "reserved \"a\"",
	"extensions 1", "extensions 1 to 2 [(o)=1]", "[a=1]", "[a]", "[a,", "= 1 [a]", "\"\\\xff", "\"\\x\xff\"", "\"\\u12\xff",
	"syntax = \"proto3\";", "edition = \"2023\";", "message M {", "enum E {", "service S {", "oneof o {", "extend E {", "rpc R(", "option (o) =", "import \"a\";", "package p;",
}

func genSoup(rng *vlib.RNG) []byte {
	var b bytes.Buffer
	n := 1 + rng.Intn(40)
	if rng.Chance(0.1) {
		n = 100 + rng.Intn(300)
	}
	sepP := rng.Float64()
	for i := 0; i < n; i++ {
		b.WriteString(vlib.Pick(rng, soupVocab))
		if rng.Chance(sepP) {
			b.WriteByte(' ')
		}
	}
	return b.Bytes()
}

func genRandomBytes(rng *vlib.RNG) []byte {
	n := rng.Intn(64)
	if rng.Chance(0.2) {
		n = rng.Intn(600)
	}
	b := make([]byte, n)
	switch rng.Intn(4) {
	case 0: // uniform
		for i := range b {
			b[i] = byte(rng.Intn(256))
		}
	case 1: // printable ASCII
		for i := range b {
			b[i] = byte(0x20 + rng.Intn(0x5f))
		}
	case 2: // punctuation heavy
		const p = "{}[]()<>;:,.=-+/*\"'\\ \n\tae019_"
		for i := range b {
			b[i] = p[rng.Intn(len(p))]
		}
	default: // ASCII with some high bytes and controls
		for i := range b {
			switch rng.Intn(10) {
			case 0:
				b[i] = byte(rng.Intn(0x20))
			case 1:
				b[i] = byte(0x80 + rng.Intn(0x80))
			default:
				b[i] = byte(0x20 + rng.Intn(0x5f))
			}
		}
	}
	return b
}

var hostileBytes = []string{"\x00", "\x80", "\xff", "\xc3", "\xe2\x82", "\xf0\x9f", "\xed\xa0\x80", "\x7f", "\x1b", "\xc0\xaf", "\xf8\x88\x80\x80\x80", "\xef\xbb\xbf", "\x0b", "\x0c", "\r"}

func genHostileInsert(rng *vlib.RNG, base []byte) []byte {
	out := append([]byte(nil), base...)
	n := 1 + rng.Intn(4)
	for k := 0; k < n; k++ {
		pos := rng.Intn(len(out) + 1)
		f := vlib.Pick(rng, hostileBytes)
		if rng.Bool() && pos < len(out) {
			// overwrite
			end := pos + len(f)
			if end > len(out) {
				end = len(out)
			}
			out = append(out[:pos], append([]byte(f), out[end:]...)...)
		} else {
			out = append(out[:pos], append([]byte(f), out[pos:]...)...)
		}
	}
	return out
}

// shapes12: small inputs around error-recovery productions and lexer error paths.
var shapes12 = []string{
	"message M { extensions 1 [a=1] }", "message M { extensions 1 to 2 [a=1]", "message M { extensions 1 }", "message M { extensions 1 to }",
	"message M { optional int32 f = 1 [a]; }", "message M { optional int32 f = 1 [a, b=1]; }", "enum E { A = 0 [a]; }", "message M { optional int32 f = 1 []; }",
	"message M { optional int32 f = 1 [a=1,]; }", "message M { optional int32 f = 1 [a=] }", "\"\\\xff", "x = \"\\\xff\"", "syntax = \"a\\\xffb\";", "\"\\x\xff\xff\"",
	"\"\\u\xff\xff\xff\xff\"", "'\\U\xff'", "\"\\", "\"\\x", "\"\\u1", "\"\\U1234567", "'", "\"", "\"\n", "\"a\n\"b\n\"c", "syntax = \"proto3\nmessage M {}\nmessage N { int32 x = 1 }\n",
	"option a. = 1;", "option .a = 1;", "option (a. = 1;", "option (a).= 1;", "option a = ;", "option a = {a:};", "option a = {[a]:1};", "option a = {[a/]:1};", "option a = {[/b]:1};",
	"option a = {a:[};", "option a = {a:[,]};", "option a = {a:<};", "option a = -;", "option a = -x;", "option a = - -1;", "package ;", "package a.;", "package .a;", "package a..b;",
	"import ;", "import public;", "import \"a\"", "import weak public \"a\";", "syntax;", "syntax = ;", "syntax = proto3;", "edition = 2023;", "syntax = \"proto3\" message M{}",
	"message { }", "message M", "message M {", "message M { int32 }", "message M { int32 x }", "message M { int32 x = }", "message M { int32 x = 1", "message M { int32 x = -1; }",
	"message M { map<> m = 1; }", "message M { map<string> m = 1; }", "message M { map<string,> m = 1; }", "message M { map<string,string m = 1; }", "message M { repeated map<string,string> m = 1; }",
	"message M { oneof { } }", "message M { oneof o { } }", "message M { oneof o { option } }", "message M { oneof o { repeated int32 x = 1; } }", "message M { oneof o { group G = 1 { } } }",
	"message M { group G = 1 { } }", "message M { optional group g = 1 { } }", "message M { optional group = 1 { } }", "message M { optional group G { } }", "message M { optional group G = 1 [a=1] }",
	"message M { reserved ; }", "message M { reserved 1 to ; }", "message M { reserved \"a\", 1; }", "message M { reserved a, \"b\"; }", "message M { reserved 1 to max to 3; }", "message M { reserved -1; }",
	"enum E { }", "enum E { A }", "enum E { A = }", "enum E { A = 1", "enum E { A = -; }", "enum E { reserved -5 to -; }", "enum E { option }", "enum { A = 0; }",
	"service S { rpc }", "service S { rpc M }", "service S { rpc M ( }", "service S { rpc M () returns (); }", "service S { rpc M (A) returns }", "service S { rpc M (stream) returns (stream); }",
	"service S { rpc M (A) returns (B) { option } }", "service S { rpc M (A) returns (B) { rpc } }", "service { }", "extend { }", "extend A { }", "extend A { int32 }", "extend A { oneof o { int32 x = 1; } }",
	"extend A { map<string,string> m = 1; }", "extend A { optional group G = 1 { extend B { } } }", ";;;message;;;", "} } }", "{ { {", "] ) >", "= = =", "\x00", "\xef\xbb", "\xef\xbb\xbf\xef\xbb\xbf", "\xff\xfe", "\xfe\xff\x00m",
	"/*", "/*/", "/**", "/* \x00 */ message M {}", "// \x00\nmessage M {}", "//", "/", "/ /", "\\", "#", "message M {} #", "0", "-", "1 2 3", ". . .", "0x", "0xg", "1e", "1e+", "08", "1.2.3", "1__2", "99999999999999999999999",
	"message M { int32 x = 99999999999999999999; }", "message M { int32 x = 0x1ffffffffffffffff; }", "message M { int32 x = 1.5; }", "message M { int32 x = 08; }", "message M { extensions 1 to 99999999999999999999; }",
	"enum E { A = 99999999999999999999; }", "enum E { A = -99999999999999999999; }", "message M { reserved 99999999999999999999; }", "message M { reserved 1 to -1; }", "enum E { reserved 5 to 1; }",
}

// specialOptionShapes: every option name the parser or the basic validation looks up by name, in compact form
// without a value, with an empty value and as the head of a path, in every syntax and on every kind of element
// that takes compact options.
func specialOptionShapes() []string {
	names := []string{"default", "json_name", "packed", "features", "deprecated", "lazy", "ctype", "jstype", "weak", "retention", "targets", "edition_defaults",
		"message_set_wire_format", "allow_alias", "map_entry", "uninterpreted_option", "debug_redact", "unverified_lazy", "verification", "declaration"}
	heads := []string{"syntax = \"proto2\";\n", "syntax = \"proto3\";\n", "edition = \"2023\";\n", ""}
	var out []string
	for hi, h := range heads {
		lbl := "optional "
		if hi == 1 || hi == 2 {
			lbl = ""
		}
		for _, n := range names {
			for _, form := range []string{"[%s]", "[%s = ]", "[%s.x = 1]", "[%s, %s = 1]", "[(%s)]"} {
				o := strings.ReplaceAll(form, "%s", n)
				out = append(out,
					h+"message M { "+lbl+"int32 f = 1 "+o+"; }",
					h+"enum E { A = 0 "+o+"; }",
					h+"message M { extensions 1 to 5 "+o+"; }",
					h+"message M { repeated int32 f = 1 "+o+"; map<string, int32> m = 2 "+o+"; }",
				)
				if hi == 0 {
					out = append(out, h+"message M { optional group G = 1 "+o+" { } }")
				}
			}
		}
	}
	return out
}

var specialShapes12 = specialOptionShapes()

type deepCase struct {
	name string
	make func(d int) string
}

var deepCases = []deepCase{
	{"nested-messages-closed", func(d int) string { return strings.Repeat("message A{", d) + strings.Repeat("}", d) }},
	{"nested-messages-open", func(d int) string { return strings.Repeat("message A{", d) }},
	{"nested-groups", func(d int) string {
		return "message M{" + strings.Repeat("optional group G=1{", d) + strings.Repeat("}", d) + "}"
	}},
	{"nested-message-literal-braces", func(d int) string { return "option (o)=" + strings.Repeat("{a", d) + strings.Repeat("}", d) + ";" }},
	{"nested-message-literal-colon", func(d int) string {
		return "option (o)=" + strings.Repeat("{a:", d) + "1" + strings.Repeat("}", d) + ";"
	}},
	{"nested-message-literal-angles", func(d int) string { return "option (o)={a" + strings.Repeat("<a", d) + strings.Repeat(">", d) + "};" }},
	{"nested-message-literal-open", func(d int) string { return "option (o)=" + strings.Repeat("{a:", d) }},
	{"nested-list-of-messages", func(d int) string {
		return "option (o)={a:" + strings.Repeat("[{a:", d) + "1" + strings.Repeat("}]", d) + "};"
	}},
	{"open-brackets", func(d int) string { return "option (o)={a:" + strings.Repeat("[", d) }},
	{"open-parens", func(d int) string { return "option " + strings.Repeat("(", d) }},
	{"open-angles", func(d int) string { return "option (o)={a" + strings.Repeat("<", d) }},
	{"open-braces", func(d int) string { return strings.Repeat("{", d) }},
	{"close-braces", func(d int) string { return strings.Repeat("}", d) }},
	{"long-qualified-name", func(d int) string { return "package a" + strings.Repeat(".a", d) + ";" }},
	{"long-option-name", func(d int) string { return "option a" + strings.Repeat(".(b).c", d) + "=1;" }},
	{"many-adjacent-strings", func(d int) string { return "option o=" + strings.Repeat("\"a\" ", d) + ";" }},
	{"many-minus", func(d int) string { return "option o=" + strings.Repeat("-", d) + "1;" }},
	{"many-semicolons", func(d int) string { return "syntax=\"proto3\";" + strings.Repeat(";", d) + "message M{}" }},
	{"many-enum-values", func(d int) string {
		var sb strings.Builder
		sb.WriteString("enum E{")
		for i := 0; i < d; i++ {
			fmt.Fprintf(&sb, "V%d=%d;", i, i)
		}
		sb.WriteString("}")
		return sb.String()
	}},
	{"many-fields-with-errors", func(d int) string {
		var sb strings.Builder
		sb.WriteString("message M{")
		for i := 0; i < d; i++ {
			fmt.Fprintf(&sb, "optional int32 f%d = %d\n", i, i)
		}
		sb.WriteString("}")
		return sb.String()
	}},
	{"long-identifier", func(d int) string { return "message " + strings.Repeat("a", d*50) + "{}" }},
	{"long-string", func(d int) string { return "option o=\"" + strings.Repeat("\\377x", d*20) + "\";" }},
	{"long-number", func(d int) string { return "option o=" + strings.Repeat("9", d*20) + ";" }},
	{"long-block-comment", func(d int) string { return "/*" + strings.Repeat("*\n", d*20) + "*/message M{}" }},
	{"many-line-comments", func(d int) string { return strings.Repeat("//c\n", d*5) + "message M{}//" }},
	{"unterminated-strings-per-line", func(d int) string { return strings.Repeat("option o=\"x\n", d) }},
	{"nested-oneof-and-extend", func(d int) string {
		return strings.Repeat("message A{extend B{", d) + strings.Repeat("}}", d)
	}},
	{"any-type-refs", func(d int) string { return "option (o)={" + strings.Repeat("[a.b/c.d]{}", d) + "};" }},
	{"nested-compact-options", func(d int) string {
		return "message M{optional int32 f=1[(o)=" + strings.Repeat("{a:", d) + "1" + strings.Repeat("}", d) + "];}"
	}},
	{"rpc-bodies", func(d int) string {
		return "service S{" + strings.Repeat("rpc R(A)returns(B){option (o)={};}", d) + "}"
	}},
}

func TestC12(t *testing.T) {
	r := vlib.Start(t, "C12")
	defer r.Finish()
	debug.SetMaxStack(256 << 20)
	r.Extra("rule", "hostile inputs: random bytes (uniform / printable / punctuation-heavy / mixed), token soup from the lexer vocabulary (keywords, "+
		"punctuation, good and malformed literals, comment openers, control and invalid-UTF-8 bytes), truncation of 20 seed-chosen corpus files at "+
		"every offset (quick: every 16th, rotating phase), 1-6 byte-level mutations of corpus and generated texts, insertion/overwrite of NUL, "+
		"invalid UTF-8, controls; deep nesting and very long tokens in 30 shapes at depths up to 3000 (quick) / 30000 (thorough) with the stack "+
		"capped by debug.SetMaxStack(256 MiB). Each input is parsed under a never-aborting and an aborting reporter and the returned AST is fed to "+
		"ResultFromAST (validate on/off); evaluation = one input; distinct = distinct non-empty inputs")
	r.Extra("assumptions", []string{
		"'a line and column that exist': 1 <= line <= 1 + number of LF; 1 <= col <= 1 + width of that line per the C13 reference (on a line with invalid UTF-8 the width is the every-byte-is-a-character upper bound)",
		"positions refer to the text after a leading UTF-8 BOM",
		"a process death (stack overflow, fatal error) is reported by the driver as a crash of the batch; with more than one worker only the input family is known",
	})
	corpus := loadCorpus()

	type stage struct {
		name string
		n    int
		make func(i int, rng *vlib.RNG) []byte
	}
	// 20 corpus files for truncation, chosen by the seed, small enough to keep every-offset truncation affordable
	var small []namedSource
	for _, c := range corpus {
		if len(c.Text) > 300 && len(c.Text) <= 9000 {
			small = append(small, c)
		}
	}
	sel := r.Rng("C12/trunc-files")
	vlib.Shuffle(sel, small)
	if len(small) > 20 {
		small = small[:20]
	}
	type truncRef struct{ file, off int }
	var truncs []truncRef
	stride := r.N(16, 1)
	for fi, f := range small {
		phase := 0
		if stride > 1 {
			phase = sel.Intn(stride)
		}
		for off := phase; off <= len(f.Text); off += stride {
			truncs = append(truncs, truncRef{fi, off})
		}
	}
	pickBase := func(rng *vlib.RNG) []byte {
		if rng.Chance(0.6) && len(corpus) > 0 {
			b := corpus[rng.Intn(len(corpus))].Text
			if len(b) > 3000 {
				o := rng.Intn(len(b) - 3000)
				b = b[o : o+3000]
			}
			return b
		}
		g := genProtoFile(rng)
		return renderTokens(rng, g.toks, randomGapStyle(rng))
	}
	stages := []stage{
		{"hand", len(handTexts), func(i int, _ *vlib.RNG) []byte { return []byte(handTexts[i]) }},
		{"shapes", len(shapes12), func(i int, _ *vlib.RNG) []byte { return []byte(shapes12[i]) }},
		{"special-option-shapes", len(specialShapes12), func(i int, _ *vlib.RNG) []byte { return []byte(specialShapes12[i]) }},
		{"random", r.N(12000, 500000), func(_ int, rng *vlib.RNG) []byte { return genRandomBytes(rng) }},
		{"soup", r.N(14000, 600000), func(_ int, rng *vlib.RNG) []byte { return genSoup(rng) }},
		{"trunc", len(truncs), func(i int, _ *vlib.RNG) []byte { t := truncs[i]; return small[t.file].Text[:t.off] }},
		{"mutate", r.N(12000, 500000), func(_ int, rng *vlib.RNG) []byte { return mutateBytes(rng, pickBase(rng), 1+rng.Intn(6)) }},
		{"hostile-bytes", r.N(6000, 250000), func(_ int, rng *vlib.RNG) []byte { return genHostileInsert(rng, pickBase(rng)) }},
		{"soup-mutants", r.N(3000, 120000), func(_ int, rng *vlib.RNG) []byte { return mutateBytes(rng, genSoup(rng), 1+rng.Intn(3)) }},
	}
	for _, st := range stages {
		st := st
		if !r.Want(st.name) {
			continue
		}
		// replaying the whole stage (a crash attributed to it) or one case of it?
		whole := false
		if r.Replaying() {
			whole = true
			for i := 0; i < st.n; i++ {
				if r.Want(fmt.Sprintf("%s/%d", st.name, i)) {
					whole = false
					break
				}
			}
		}
		r.Begin(st.name, map[string]any{"stage": st.name, "cases": st.n, "note": "one input of this stage (this batch's share) killed the process; replay runs the whole stage"})
		var done atomic.Int64
		r.Par(st.n, func(i int) {
			id := fmt.Sprintf("%s/%d", st.name, i)
			if r.Replaying() && !whole && !r.Want(id) {
				return
			}
			text := st.make(i, r.Rng("C12/"+id))
			key := ""
			if len(text) > 0 {
				key = string(text)
			}
			r.Eval(key)
			done.Add(1)
			check12(r, id, text)
		})
		r.ClassN("inputs."+st.name, done.Load())
	}

	// deep nesting / long tokens: coarse cases, run one at a time so that a
	// process death is attributed to the exact case
	depths := []int{40, 300, 3000}
	if !r.Quick() {
		depths = append(depths, 10000, 30000)
	}
	k := 0
	for _, dc := range deepCases {
		for _, d := range depths {
			idx := k
			k++
			id := fmt.Sprintf("deep/%s/%d", dc.name, d)
			if !r.Mine(idx) || !r.Want(id) {
				continue
			}
			r.Begin(id, map[string]any{"shape": dc.name, "depth": d, "text_head": clip(dc.make(8), 200)})
			text := []byte(dc.make(d))
			r.Eval(string(text))
			r.Class("inputs.deep")
			check12(r, id, text)
		}
	}
	r.Sample("soup", map[string]any{"text": string(genSoup(r.Rng("C12/sample")))})
	r.Sample("deep", map[string]any{"shape": deepCases[4].name, "text": deepCases[4].make(5)})
}
