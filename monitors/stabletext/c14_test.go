package stabletext

import (
	"bytes"
	"fmt"
	"math"
	"strconv"
	"strings"
	"testing"
	"unicode/utf8"

	"google.golang.org/protobuf/encoding/protowire"
	"google.golang.org/protobuf/proto"

	"github.com/bufbuild/protocompile/internal/verifmon/vlib"
)

// C14 — string and number literals decode like protoc (decided domain only).
//
// Observation points: default_value of bytes / string / double / uint64 /
// int64 fields and the wire value of custom message options in the descriptor
// produced by protocompile.Compiler, plus the parser.Parse verdict. The
// reference (c14ref_test.go) is three-valued; undecided literals are run and
// their behaviour is counted under observed.* classes but decide nothing.

type lit14 struct {
	id   string
	kind byte // 's' string fragment, 'n' unsigned numeric literal
	frag string
}

type family14 struct {
	name string
	n    int
	at   func(k int) (kind byte, frag string)
}

var escAlpha = []byte("0123456789abcdefABCDEFxXuUnrt\\'\"?z+-g")
var escAlphaSmall = []byte("0178aFxuU\\\"+gz")
var uniAlpha = []byte("09aFdD8g+\"\\")
var numAlpha = []byte("0123456789.eExaf+-_")

func enumStrings(alpha []byte, maxLen int) (n int, at func(k int) string) {
	pow := []int{1}
	for i := 1; i <= maxLen; i++ {
		pow = append(pow, pow[i-1]*len(alpha))
	}
	for L := 1; L <= maxLen; L++ {
		n += pow[L]
	}
	return n, func(k int) string {
		L := 1
		for k >= pow[L] {
			k -= pow[L]
			L++
		}
		b := make([]byte, L)
		for j := 0; j < L; j++ {
			b[j] = alpha[k%len(alpha)]
			k /= len(alpha)
		}
		return string(b)
	}
}

var uniSpecials = []string{
	`\U0010FFFF`, `\U00110000`, `\U0010ffff`, `\UFFFFFFFF`, `\U7FFFFFFF`, `\U80000000`, `\U00000000`, `\U0000D7FF`, `\U0000E000`, `\U0000D800`, `\U0000DFFF`,
	`\U+0000041`, `\U-0000041`, `\U0000004`, `\U000000411`, `\U0001F600`, `\U0001f600x`, `\U 0000041`, `\U0x000041`, `\U00_00041`,
	`\u0041`, `\u00e9`, `\u20ac`, `\ud7ff`, `\ue000`, `\uD800`, `\udbff`, `\udc00`, `\uffff`, `\ufffe`, `\ufffd`, `\ufeff`, `\u0000`, `\u+041`, `\u-041`, `\u 041`, `\u0x41`, `\u_041`, `\u041`, `\u04`, `\u0`, `\u`,
	`\x41`, `\x4`, `\x`, `\x+1`, `\x-1`, `\x+`, `\x 1`, `\x0x`, `\x_1`, `\xg`, `\xG1`, `\x1g`, `\xfff`, `\x00`, `\xFF`, `\X41`, `\X`, `\Xg`,
	`\0`, `\00`, `\000`, `\0000`, `\377`, `\400`, `\777`, `\1`, `\18`, `\128`, `\8`, `\9`, `\08`,
}

func families14(r *vlib.Run) []family14 {
	var fams []family14
	quotes := []string{`"`, `'`}
	// exhaustive escape bodies
	nEsc, escAt := enumStrings(escAlpha, r.N(2, 3))
	fams = append(fams, family14{"esc", nEsc * 2, func(k int) (byte, string) {
		q := quotes[k%2]
		return 's', q + `\` + escAt(k/2) + q
	}})
	if !r.Quick() {
		nEsc4, esc4At := enumStrings(escAlphaSmall, 4)
		fams = append(fams, family14{"esc4", nEsc4, func(k int) (byte, string) { return 's', `"\` + esc4At(k) + `"` }})
	}
	// \u + up to 4 characters, \U + structured tails
	nUni, uniAt := enumStrings(uniAlpha, r.N(3, 4))
	fams = append(fams, family14{"uni", nUni, func(k int) (byte, string) { return 's', `"\u` + uniAt(k) + `"` }})
	nUni8, uni8At := enumStrings(uniAlpha, r.N(2, 3))
	prefixes := []string{`\U`, `\U0`, `\U00`, `\U000`, `\U0000`, `\U00000`, `\U0010`, `\U0011`, `\U00010`}
	fams = append(fams, family14{"Uni", nUni8 * len(prefixes), func(k int) (byte, string) {
		return 's', `"` + prefixes[k%len(prefixes)] + uni8At(k/len(prefixes)) + `"`
	}})
	ctx := []struct{ pre, post string }{{"", ""}, {"a", "b"}, {"", "0"}, {"", "f"}, {"\\", ""}, {"", "\\\\"}, {"é", "€"}}
	fams = append(fams, family14{"special", len(uniSpecials) * len(ctx) * 2, func(k int) (byte, string) {
		q := quotes[k%2]
		k /= 2
		c := ctx[k%len(ctx)]
		return 's', q + c.pre + uniSpecials[k/len(ctx)] + c.post + q
	}})
	// random long literals
	nRand := r.N(4000, 120000)
	fams = append(fams, family14{"randstr", nRand, func(k int) (byte, string) {
		return 's', randStringFragment(r.Rng(fmt.Sprintf("C14/randstr/%d", k)))
	}})
	// raw bytes 0x01..0xff alone and in context
	fams = append(fams, family14{"rawbyte", 256 * 2, func(k int) (byte, string) {
		b := string([]byte{byte(k % 256)})
		if k >= 256 {
			return 's', `"a` + b + `b"`
		}
		return 's', `'` + b + `'`
	}})
	// exhaustive digit strings
	nNum, numAt := enumStrings(numAlpha, r.N(4, 5))
	fams = append(fams, family14{"num", nNum, func(k int) (byte, string) { return 'n', numAt(k) }})
	nRandNum := r.N(4000, 100000)
	fams = append(fams, family14{"randnum", nRandNum, func(k int) (byte, string) {
		return 'n', randNumber(r.Rng(fmt.Sprintf("C14/randnum/%d", k)))
	}})
	return fams
}

var strVocabValid = []string{
	"a", "z", "0", "7", "8", "9", "f", "F", "g", " ", "?", "/", "*", "é", "€", "😀", "\t", "\r", "\x7f", "\x01",
	`\a`, `\b`, `\f`, `\n`, `\r`, `\t`, `\v`, `\\`, `\'`, `\"`, `\?`,
	`\0`, `\1`, `\7`, `\12`, `\77`, `\101`, `\377`, `\000`, `\177`, `\200`,
	`\x0`, `\x7`, `\xa`, `\xF`, `\x41`, `\x7f`, `\x80`, `\xFF`, `\xe9`,
	`\u0041`, `\u00e9`, `\u20AC`, `\ufffd`, `\ufeff`, `\U00000041`, `\U0001F600`, `\U0010FFFF`, `\U000000e9`,
}
var strVocabOdd = []string{
	`\`, `\z`, `\8`, `\x`, `\X41`, `\u12`, `\U0011`, `\400`, `\777`, `\ud800`, `\U00110000`, "\xff", "\xc3", "\x80", "\xe2\x82", "\x00", `\x+1`, `\u+041`, `\-`, `\ `, `\é`,
}

func randStringFragment(rng *vlib.RNG) string {
	var sb strings.Builder
	nl := 1
	if rng.Chance(0.3) {
		nl = 2 + rng.Intn(3)
	}
	pOdd := 0.0
	if rng.Chance(0.35) {
		pOdd = 0.08
	}
	for l := 0; l < nl; l++ {
		if l > 0 {
			sb.WriteString(vlib.Pick(rng, []string{"", " ", "\n", "\t", "  "}))
		}
		q := vlib.Pick(rng, []string{`"`, `'`})
		sb.WriteString(q)
		n := rng.Intn(24)
		for i := 0; i < n; i++ {
			var e string
			if rng.Chance(pOdd) {
				e = vlib.Pick(rng, strVocabOdd)
			} else {
				e = vlib.Pick(rng, strVocabValid)
			}
			if e == q {
				e = `\` + e
			}
			sb.WriteString(e)
		}
		if q == `"` && rng.Chance(0.2) {
			sb.WriteString(`'`)
		}
		if q == `'` && rng.Chance(0.2) {
			sb.WriteString(`"`)
		}
		sb.WriteString(q)
	}
	return sb.String()
}

func randDigits(rng *vlib.RNG, n int, alphabet string) string {
	b := make([]byte, n)
	for i := range b {
		b[i] = alphabet[rng.Intn(len(alphabet))]
	}
	return string(b)
}

func randNumber(rng *vlib.RNG) string {
	switch rng.Intn(12) {
	case 0: // around 2^64
		base := []string{"18446744073709551615", "18446744073709551616", "18446744073709551614", "9223372036854775807", "9223372036854775808", "9223372036854775809",
			"18446744073709551617", "184467440737095516150", "99999999999999999999", "9007199254740993", "9007199254740992", "4294967296"}
		return vlib.Pick(rng, base)
	case 1:
		return vlib.Pick(rng, []string{"1", "2", "7", "9"}) + randDigits(rng, 15+rng.Intn(30), "0123456789")
	case 2: // hex
		return vlib.Pick(rng, []string{"0x", "0X"}) + randDigits(rng, 1+rng.Intn(17), "0123456789abcdefABCDEF")
	case 3: // octal
		return "0" + randDigits(rng, 1+rng.Intn(23), "01234567")
	case 4: // bad octal
		return "0" + randDigits(rng, 1+rng.Intn(8), "0123456789")
	case 5: // plain floats
		return randDigits(rng, 1+rng.Intn(20), "0123456789") + "." + randDigits(rng, rng.Intn(20), "0123456789")
	case 6: // exponents
		m := vlib.Pick(rng, []string{"1", "9", "12", "1.5", ".5", "4.9", "1.7976931348623157", "1.7976931348623159", "2.2250738585072014", "4.9406564584124654", "2.4703282292062327", "0.000001"})
		return m + vlib.Pick(rng, []string{"e", "E"}) + vlib.Pick(rng, []string{"", "+", "-"}) + strconv.Itoa(rng.Intn(420))
	case 7: // halfway cases
		return vlib.Pick(rng, []string{"9007199254740993", "9007199254740993.0", "9007199254740993e0", "1.00000000000000011102230246251565404236316680908203125",
			"1.00000000000000011102230246251565404236316680908203124", "1.00000000000000011102230246251565404236316680908203126", "0.1", "0.3", "123456789.123456789e-5", "1e23", "8.41e21", "2.2250738585072011e-308"})
	case 8:
		return "." + randDigits(rng, 1+rng.Intn(12), "0123456789") + vlib.Pick(rng, []string{"", "e5", "E-7", "e+300", "e400"})
	case 9: // malformed / undecided
		return vlib.Pick(rng, []string{"1e", "1e+", "0x", "1.2.3", "1_000", "1f", "1.5f", "0x1.8p1", "08.5", "09e1", "00.5", "1..2", "1e5e5", "0b101", "1L", "1u", "0xg", "0o7", "1e0x1", "0e", "1.e", "1a"})
	case 10:
		return strconv.FormatFloat(rng.NormFloat()*math.Pow(10, float64(rng.Range(-30, 30))), vlib.Pick(rng, []byte{'e', 'f', 'g', 'E'}), -1, 64)[1:]
	default:
		return strconv.FormatUint(rng.Uint64()>>uint(rng.Intn(64)), vlib.Pick(rng, []int{8, 10, 16}))
	}
}

// ---------------------------------------------------------------------------

const optHeader14 = "syntax = \"proto2\";\nimport \"google/protobuf/descriptor.proto\";\n" +
	"extend google.protobuf.MessageOptions {\n  repeated bytes rb = 50001;\n  repeated double rd = 50002;\n  repeated uint64 ru = 50003;\n  repeated int64 ri = 50004;\n  repeated double rnd = 50005;\n}\n"

type obs14 struct {
	accepted bool
	firstErr string
	// per literal index
	fields map[string]string // field name -> default_value
	opts   map[protowire.Number][][]byte
}

// optionValues extracts the raw values of the custom options (by field number)
// from the wire form of the message options.
func optionValues(m proto.Message) map[protowire.Number][][]byte {
	out := map[protowire.Number][][]byte{}
	if m == nil {
		return out
	}
	b, err := proto.Marshal(m)
	if err != nil {
		return out
	}
	for len(b) > 0 {
		num, typ, n := protowire.ConsumeTag(b)
		if n < 0 {
			break
		}
		b = b[n:]
		switch typ {
		case protowire.BytesType:
			v, n := protowire.ConsumeBytes(b)
			if n < 0 {
				return out
			}
			if num == 50001 {
				out[num] = append(out[num], append([]byte{}, v...))
			} else { // packed numerics
				for len(v) > 0 {
					if num == 50002 || num == 50005 {
						x, k := protowire.ConsumeFixed64(v)
						if k < 0 {
							break
						}
						out[num] = append(out[num], protowire.AppendFixed64(nil, x))
						v = v[k:]
					} else {
						x, k := protowire.ConsumeVarint(v)
						if k < 0 {
							break
						}
						out[num] = append(out[num], protowire.AppendVarint(nil, x))
						v = v[k:]
					}
				}
			}
			b = b[n:]
		case protowire.Fixed64Type:
			x, n := protowire.ConsumeFixed64(b)
			if n < 0 {
				return out
			}
			out[num] = append(out[num], protowire.AppendFixed64(nil, x))
			b = b[n:]
		case protowire.VarintType:
			x, n := protowire.ConsumeVarint(b)
			if n < 0 {
				return out
			}
			out[num] = append(out[num], protowire.AppendVarint(nil, x))
			b = b[n:]
		default:
			n := protowire.ConsumeFieldValue(num, typ, b)
			if n < 0 {
				return out
			}
			b = b[n:]
		}
	}
	return out
}

func compile14(body string) obs14 {
	src := optHeader14 + "message M {\n" + body + "}\n"
	o := compileSource("c14.proto", src)
	res := obs14{accepted: o.accepted(), firstErr: o.firstError(), fields: map[string]string{}}
	if !res.accepted {
		return res
	}
	md := o.res.FileDescriptorProto().GetMessageType()[0]
	for _, f := range md.GetField() {
		if f.DefaultValue != nil {
			res.fields[f.GetName()] = f.GetDefaultValue()
		} else {
			res.fields[f.GetName()] = "\x00<no default>"
		}
	}
	if md.Options != nil {
		res.opts = optionValues(md.Options)
	}
	return res
}

type strItem struct {
	c   lit14
	ref *strRef
}

// strBody renders the declarations that observe string literals i.. in one message.
func strBody(items []strItem) string {
	var sb strings.Builder
	for i, it := range items {
		fmt.Fprintf(&sb, "  option (rb) = %s\n  ;\n", it.c.frag)
		fmt.Fprintf(&sb, "  optional bytes b%d = %d [default = %s\n  ];\n", i, 2*i+1, it.c.frag)
		if it.ref.verdict != vAccept || utf8.Valid(it.ref.value) {
			fmt.Fprintf(&sb, "  optional string s%d = %d [default = %s\n  ];\n", i, 2*i+2, it.c.frag)
		}
	}
	return sb.String()
}

func errClass(msg string) string {
	if i := strings.IndexAny(msg, ":'\""); i >= 0 {
		msg = msg[:i]
	}
	if len(msg) > 70 {
		msg = msg[:70]
	}
	return strings.TrimSpace(msg)
}

func firstDifferingElem(ref *strRef, got []byte) string {
	// recognisable substitution: every raw invalid UTF-8 byte came out as U+FFFD
	var alt []byte
	sawInvalid := false
	for _, e := range ref.elems {
		if e.class == "raw-invalid-utf8" {
			alt = append(alt, 0xef, 0xbf, 0xbd)
			sawInvalid = true
		} else {
			alt = append(alt, e.bytes...)
		}
	}
	if sawInvalid && bytes.Equal(alt, got) {
		return "raw-invalid-utf8 (each such byte decoded as U+FFFD)"
	}
	pos := 0
	for _, e := range ref.elems {
		if pos+len(e.bytes) > len(got) || !bytes.Equal(got[pos:pos+len(e.bytes)], e.bytes) {
			return e.class
		}
		pos += len(e.bytes)
	}
	if pos < len(got) {
		return "extra bytes after the last element"
	}
	return "none"
}

// checkStrObserved compares an accepted observation of item idx with the reference.
func checkStrObserved(r *vlib.Run, it strItem, idx int, o obs14, _ string) {
	ref := it.ref
	src := optHeader14 + "message M {\n" + strBody([]strItem{it}) + "}\n"
	w := func(extra map[string]any) map[string]any {
		m := map[string]any{"id": it.c.id, "literal": it.c.frag, "reference_verdict": ref.verdict.String(), "reference_reason": ref.reason,
			"reference_bytes_hex": fmt.Sprintf("%x", ref.value), "source": src}
		for k, v := range extra {
			m[k] = v
		}
		return m
	}
	bdv := o.fields[fmt.Sprintf("b%d", idx)]
	gotB, uerr := cUnescapeStrict(bdv)
	if uerr != nil {
		r.Inconclusive("default_value of a bytes field is not well-formed C-escaped text (C26 decides that): " + it.c.frag)
		return
	}
	switch ref.verdict {
	case vUndecided:
		r.Class("observed." + ref.reason + ".accepted")
		r.Sample("observed-only: "+ref.reason, map[string]any{"literal": it.c.frag, "decoded_hex": fmt.Sprintf("%x", gotB)})
		return
	case vReject:
		r.Violation("literal.string.accepted-but-reference-rejects", ref.reason, it.c.id, w(map[string]any{"decoded_hex": fmt.Sprintf("%x", gotB), "default_value": bdv}))
		return
	}
	for _, e := range ref.elems {
		if e.class == "raw-invalid-utf8" {
			// What protoc does with a raw byte that is not valid UTF-8 inside a literal is remembered
			// (bytes pass through), not recorded in any oracle available here: observed, never decided
			// (DESIGN.md §3). protocompile decodes such a byte as U+FFFD.
			if bytes.Equal(gotB, ref.value) {
				r.Class("observed.raw-invalid-utf8.passed-through")
			} else {
				r.Class("observed.raw-invalid-utf8.decoded-as-" + firstDifferingElem(ref, gotB))
			}
			return
		}
	}
	if !bytes.Equal(gotB, ref.value) {
		r.Violation("literal.string.decoded-bytes-differ", "first differing element: "+firstDifferingElem(ref, gotB)+" at=bytes-default", it.c.id,
			w(map[string]any{"decoded_hex": fmt.Sprintf("%x", gotB), "default_value": bdv}))
		return
	}
	if sdv, ok := o.fields[fmt.Sprintf("s%d", idx)]; ok && sdv != string(ref.value) {
		r.Violation("literal.string.decoded-bytes-differ", "first differing element: "+firstDifferingElem(ref, []byte(sdv))+" at=string-default", it.c.id,
			w(map[string]any{"decoded_hex": fmt.Sprintf("%x", sdv)}))
		return
	}
	if vals := o.opts[50001]; idx < len(vals) {
		if !bytes.Equal(vals[idx], ref.value) {
			r.Violation("literal.string.decoded-bytes-differ", "first differing element: "+firstDifferingElem(ref, vals[idx])+" at=option-value", it.c.id,
				w(map[string]any{"decoded_hex": fmt.Sprintf("%x", vals[idx])}))
		}
	} else {
		r.Violation("literal.string.option-value-missing", "custom bytes option value absent from the compiled options", it.c.id, w(nil))
	}
}

func runStrSingle(r *vlib.Run, it strItem) {
	body := strBody([]strItem{it})
	src := optHeader14 + "message M {\n" + body + "}\n"
	po := parseCollect("c14.proto", []byte(src), false)
	parserRejects := po.panicVal != nil || po.err != nil
	ref := it.ref
	if parserRejects {
		msg := "panic"
		if len(po.errs) > 0 {
			msg = po.errs[0].Unwrap().Error()
		}
		switch ref.verdict {
		case vReject:
			r.Class("decided.reject.rejected")
		case vUndecided:
			r.Class("observed." + ref.reason + ".rejected")
			r.Sample("observed-only: "+ref.reason, map[string]any{"literal": it.c.frag, "error": msg})
		default:
			r.Violation("literal.string.rejected-but-reference-accepts", "error: "+errClass(msg), it.c.id,
				map[string]any{"id": it.c.id, "literal": it.c.frag, "reference_bytes_hex": fmt.Sprintf("%x", ref.value), "classes": ref.classes(), "error": msg, "source": src})
		}
		return
	}
	o := compile14(body)
	if !o.accepted {
		switch ref.verdict {
		case vReject:
			r.Class("decided.reject.rejected-after-parse")
		case vUndecided:
			r.Class("observed." + ref.reason + ".rejected-after-parse")
		default:
			r.Violation("literal.string.rejected-but-reference-accepts", "after parsing, error: "+errClass(o.firstErr), it.c.id,
				map[string]any{"id": it.c.id, "literal": it.c.frag, "reference_bytes_hex": fmt.Sprintf("%x", ref.value), "classes": ref.classes(), "error": o.firstErr, "source": src})
		}
		return
	}
	if ref.verdict == vAccept {
		r.Class("decided.accept.accepted")
	}
	checkStrObserved(r, it, 0, o, src)
}

// ---------------------------------------------------------------------------

type numItem struct {
	c   lit14
	ref numRef
}

func numBody(items []numItem) string {
	var sb strings.Builder
	for i, it := range items {
		s := it.c.frag
		neg := "-" + vlib.Pick(vlib.NewRNG(vlib.Hash64(it.c.id)), []string{"", "", " ", "\t", "/*s*/", "\n"}) + s
		fmt.Fprintf(&sb, "  option (rd) = %s;\n", s)
		fmt.Fprintf(&sb, "  optional double d%d = %d [default = %s];\n", i, 4*i+1, s)
		nonzero := it.ref.verdict != vAccept || (it.ref.isInt && it.ref.u != 0) || (!it.ref.isInt && it.ref.f != 0)
		if nonzero {
			fmt.Fprintf(&sb, "  option (rnd) = %s;\n", neg)
			fmt.Fprintf(&sb, "  optional double nd%d = %d [default = %s];\n", i, 4*i+2, neg)
		}
		if it.ref.verdict == vAccept && it.ref.isInt {
			fmt.Fprintf(&sb, "  option (ru) = %s;\n", s)
			fmt.Fprintf(&sb, "  optional uint64 u%d = %d [default = %s];\n", i, 4*i+3, s)
			if it.ref.u != 0 && it.ref.u <= 1<<63 {
				fmt.Fprintf(&sb, "  option (ri) = %s;\n", neg)
				fmt.Fprintf(&sb, "  optional int64 ni%d = %d [default = %s];\n", i, 4*i+4, neg)
			}
		}
	}
	return sb.String()
}

func sameFloat(a, b float64) bool { return math.Float64bits(a) == math.Float64bits(b) }

// numCursor tracks the position inside the repeated option values while
// walking the items of a batch in declaration order.
type numCursor struct{ rd, rnd, ru, ri int }

func checkNumObserved(r *vlib.Run, it numItem, idx int, o obs14, cur *numCursor, _ string) {
	ref := it.ref
	src := optHeader14 + "message M {\n" + numBody([]numItem{it}) + "}\n"
	w := func(extra map[string]any) map[string]any {
		m := map[string]any{"id": it.c.id, "literal": it.c.frag, "reference_class": ref.class, "source": src}
		if ref.isInt {
			m["reference_value"] = strconv.FormatUint(ref.u, 10)
		} else {
			m["reference_value"] = strconv.FormatFloat(ref.f, 'g', -1, 64)
		}
		for k, v := range extra {
			m[k] = v
		}
		return m
	}
	want := ref.f
	if ref.isInt {
		want = float64(ref.u)
	}
	nonzero := (ref.isInt && ref.u != 0) || (!ref.isInt && ref.f != 0)
	// positions of this item's option values
	iRd := cur.rd
	cur.rd++
	iRnd := -1
	if nonzero {
		iRnd = cur.rnd
		cur.rnd++
	}
	iRu, iRi := -1, -1
	if ref.isInt {
		iRu = cur.ru
		cur.ru++
		if ref.u != 0 && ref.u <= 1<<63 {
			iRi = cur.ri
			cur.ri++
		}
	}
	fail := func(target, got string) {
		r.Violation("literal.number.value-differs", ref.class+" in "+target, it.c.id, w(map[string]any{"observed": got, "target": target}))
	}
	parseF := func(name string) (float64, string, bool) {
		dv, ok := o.fields[name]
		if !ok {
			return 0, "<field missing>", false
		}
		f, err := strconv.ParseFloat(dv, 64)
		if err != nil {
			return 0, dv, false
		}
		return f, dv, true
	}
	if f, dv, ok := parseF(fmt.Sprintf("d%d", idx)); !ok || !sameFloat(f, want) {
		fail("double default", dv)
		return
	}
	if nonzero {
		if f, dv, ok := parseF(fmt.Sprintf("nd%d", idx)); !ok || !sameFloat(f, -want) {
			fail("negated double default", dv)
			return
		}
	}
	optF := func(num protowire.Number, i int) (float64, bool) {
		vals := o.opts[num]
		if i < 0 || i >= len(vals) {
			return 0, false
		}
		x, n := protowire.ConsumeFixed64(vals[i])
		return math.Float64frombits(x), n > 0
	}
	if f, ok := optF(50002, iRd); !ok || !sameFloat(f, want) {
		fail("double option", fmt.Sprint(f, ok))
		return
	}
	if nonzero {
		if f, ok := optF(50005, iRnd); !ok || !sameFloat(f, -want) {
			fail("negated double option", fmt.Sprint(f, ok))
			return
		}
	}
	if ref.isInt {
		if dv := o.fields[fmt.Sprintf("u%d", idx)]; dv != strconv.FormatUint(ref.u, 10) {
			fail("uint64 default", dv)
			return
		}
		if vals := o.opts[50003]; iRu >= len(vals) {
			fail("uint64 option", "<missing>")
			return
		} else if x, _ := protowire.ConsumeVarint(vals[iRu]); x != ref.u {
			fail("uint64 option", strconv.FormatUint(x, 10))
			return
		}
		if iRi >= 0 {
			wantS := "-" + strconv.FormatUint(ref.u, 10)
			if dv := o.fields[fmt.Sprintf("ni%d", idx)]; dv != wantS {
				fail("negated int64 default", dv)
				return
			}
			if vals := o.opts[50004]; iRi >= len(vals) {
				fail("negated int64 option", "<missing>")
				return
			} else if x, _ := protowire.ConsumeVarint(vals[iRi]); int64(x) != -int64(ref.u) {
				fail("negated int64 option", strconv.FormatInt(int64(x), 10))
				return
			}
		}
	}
}

func runNumSingle(r *vlib.Run, it numItem) {
	ref := it.ref
	// parser verdict on the bare literal first (cheap), then the compiler
	body := numBody([]numItem{it})
	if ref.verdict != vAccept {
		// only the plain double default: the other placements add their own rules
		body = fmt.Sprintf("  optional double d0 = 1 [default = %s];\n", it.c.frag)
	}
	src := optHeader14 + "message M {\n" + body + "}\n"
	po := parseCollect("c14.proto", []byte(src), false)
	rejected := po.panicVal != nil || po.err != nil
	msg := ""
	if rejected && len(po.errs) > 0 {
		msg = po.errs[0].Unwrap().Error()
	}
	var o obs14
	if !rejected {
		o = compile14(body)
		if !o.accepted {
			rejected, msg = true, o.firstErr
		}
	}
	switch ref.verdict {
	case vUndecided:
		if rejected {
			r.Class("observed.number " + ref.class + ".rejected")
		} else {
			r.Class("observed.number " + ref.class + ".accepted")
			r.Sample("observed-only number: "+ref.class, map[string]any{"literal": it.c.frag, "default_value": o.fields["d0"]})
		}
	case vReject:
		if rejected {
			r.Class("decided.reject.rejected")
		} else {
			r.Violation("literal.number.accepted-but-reference-rejects", ref.class, it.c.id,
				map[string]any{"id": it.c.id, "literal": it.c.frag, "default_value": o.fields["d0"], "source": src})
		}
	default:
		if rejected {
			r.Violation("literal.number.rejected-but-reference-accepts", ref.class+", error: "+errClass(msg), it.c.id,
				map[string]any{"id": it.c.id, "literal": it.c.frag, "reference_class": ref.class, "error": msg, "source": src})
			return
		}
		r.Class("decided.accept.accepted")
		checkNumObserved(r, it, 0, o, &numCursor{}, src)
	}
}

func TestC14(t *testing.T) {
	r := vlib.Start(t, "C14")
	defer r.Finish()
	r.Extra("rule", "string literals: every escape body over {0-9 a-f A-F x X u U n r t \\ ' \" ? z + - g} up to length 2 (quick) / 3 (thorough) in both quote "+
		"styles, length 4 over a 14-symbol alphabet (thorough), \\u + up to 4 and \\U + structured tails over {0 9 a F d D 8 g + \" \\}, a list of special "+
		"escapes in 7 contexts, every raw byte value, random long literals (valid vocabulary with a sprinkle of odd elements, adjacent-literal "+
		"concatenation); numbers: every string over {0-9 . e E x a f + - _} up to length 4 (quick) / 5 (thorough) that starts like a number, random "+
		"long numbers (2^64 boundary, hex/octal widths, rounding halfway cases, exponent overflow). Each literal is placed as default of bytes/string "+
		"(double/uint64/int64, also negated) fields and as value of custom options and compiled; evaluation = one literal decided by the reference; "+
		"non-trivial = decided accept or decided reject (undecided literals are run but only counted under observed.*)")
	r.Extra("assumptions", []string{
		"reference == protoc on the decided domain of DESIGN.md §4 C14: simple escapes, octal 1-3 digits <= \\377, \\x + 1-2 hex digits, \\u + 4 hex, \\U + 8 hex <= 10FFFF, " +
			"raw bytes passed through, adjacent-literal concatenation; rejected: unknown/invalid escape character, \\x without digit, short \\u/\\U, \\U > 10FFFF, newline or EOF or NUL in a literal",
		"numbers: decimal/octal/hex integers < 2^64, decimal integers >= 2^64 become doubles, invalid octal digits rejected, floats = nearest double (strconv), overflow = inf; " +
			"the sign is handled by the grammar (negated placements skip zero values)",
		"observed-only (decide nothing): \\X, octal > \\377, surrogate code points, octal/hex integers >= 2^64, malformed numbers other than bad octal digits, text between adjacent literals",
		"bytes default_value texts are read back with the reference C-unescape (their well-formedness is C26's property)",
		"R2 recorded protoc defaults are not replayed here (C02 compares whole descriptors of that corpus)",
	})

	fams := families14(r)
	total := 0
	for _, f := range fams {
		total += f.n
	}
	caseAt := func(g int) lit14 {
		for _, f := range fams {
			if g < f.n {
				kind, frag := f.at(g)
				return lit14{id: fmt.Sprintf("%s/%d", f.name, g), kind: kind, frag: frag}
			}
			g -= f.n
		}
		panic("index out of range")
	}
	const chunk = 48
	nChunks := (total + chunk - 1) / chunk
	r.Par(nChunks, func(ci int) {
		cid := fmt.Sprintf("ch%d", ci)
		if !r.Want(cid) {
			return
		}
		var sAcc []strItem
		var nAcc []numItem
		for g := ci * chunk; g < (ci+1)*chunk && g < total; g++ {
			c := caseAt(g)
			c.id = cid + "/" + c.id
			if r.Replaying() && !r.Want(c.id) {
				continue
			}
			if c.kind == 's' {
				ref := refDecodeStringFragment(c.frag)
				it := strItem{c, ref}
				switch ref.verdict {
				case vAccept:
					r.Eval(c.frag)
					sAcc = append(sAcc, it)
				case vReject:
					r.Eval(c.frag)
					runStrSingle(r, it)
				default:
					r.Eval("")
					runStrSingle(r, it)
				}
				continue
			}
			if !reOneToken.MatchString(c.frag) {
				continue // not a numeric literal at all (several tokens)
			}
			ref := refDecodeNumber(c.frag)
			it := numItem{c, ref}
			switch ref.verdict {
			case vAccept:
				r.Eval("n:" + c.frag)
				nAcc = append(nAcc, it)
			case vReject:
				r.Eval("n:" + c.frag)
				runNumSingle(r, it)
			default:
				r.Eval("")
				runNumSingle(r, it)
			}
		}
		// decided-accept literals: one compile for the whole chunk, singles on failure
		if len(sAcc) > 0 {
			body := strBody(sAcc)
			o := compile14(body)
			if o.accepted {
				src := optHeader14 + "message M {\n" + body + "}\n"
				for i, it := range sAcc {
					r.Class("decided.accept.accepted")
					checkStrObserved(r, it, i, o, src)
				}
				r.Sample("string", map[string]any{"literal": sAcc[0].c.frag, "reference_bytes_hex": fmt.Sprintf("%x", sAcc[0].ref.value)})
			} else {
				for _, it := range sAcc {
					runStrSingle(r, it)
				}
			}
		}
		if len(nAcc) > 0 {
			body := numBody(nAcc)
			o := compile14(body)
			if o.accepted {
				src := optHeader14 + "message M {\n" + body + "}\n"
				cur := &numCursor{}
				for i, it := range nAcc {
					r.Class("decided.accept.accepted")
					checkNumObserved(r, it, i, o, cur, src)
				}
				r.Sample("number", map[string]any{"literal": nAcc[0].c.frag, "class": nAcc[0].ref.class})
			} else {
				for _, it := range nAcc {
					runNumSingle(r, it)
				}
			}
		}
	})
}
