package stabletext

import (
	"bytes"
	"fmt"
	"strings"
	"testing"

	"github.com/bufbuild/protocompile/ast"
	"github.com/bufbuild/protocompile/internal/verifmon/vlib"
	"github.com/bufbuild/protocompile/parser"
	"github.com/bufbuild/protocompile/parser/fastscan"
	"github.com/bufbuild/protocompile/reporter"
)

// C25 — fastscan.Scan agrees with the full parser on package and imports for
// every text the full parser accepts.

type imp25 struct {
	Path         string
	Public, Weak bool
}

// genImportFocus builds a file whose package/import statements are surrounded
// by constructs that could confuse a statement scanner.
func genImportFocus(rng *vlib.RNG) []tok {
	g := &pgen{rng: rng, syntax: "proto2"}
	if rng.Chance(0.8) {
		g.id("syntax")
		g.p("=")
		g.str("proto2")
		g.p(";")
	}
	pkgDone := false
	decoy := func() {
		switch rng.Intn(14) {
		case 0: // option with a message literal that looks like statements
			g.id("option")
			g.p("(")
			g.emitQualified(g.qualified(1 + rng.Intn(2)))
			g.p(")", "=", "{")
			n := 1 + rng.Intn(3)
			for i := 0; i < n; i++ {
				g.id(vlib.Pick(rng, []string{"import", "package", "public", "weak", "syntax", "option"}))
				if rng.Bool() {
					g.p(":")
					g.str(vlib.Pick(rng, []string{"fake.proto", "import \"x\";", "p.q"}))
				} else {
					open, close := "{", "}"
					if rng.Bool() {
						open, close = "<", ">"
					}
					g.p(open)
					g.id("import")
					g.p(":")
					g.str("nested-fake.proto")
					g.p(vlib.Pick(rng, []string{";", ","}))
					g.id("package")
					g.p(":")
					g.id("import")
					g.p(close)
				}
				g.p(vlib.Pick(rng, []string{";", ",", ";"}))
			}
			g.p("}")
			g.semis()
		case 1: // option whose value is the identifier import / package
			g.id("option")
			g.id(vlib.Pick(rng, []string{"import", "package", "java_package", "public", "weak"}))
			g.p("=")
			if rng.Bool() {
				g.id(vlib.Pick(rng, []string{"import", "package", "public", "weak"}))
			} else {
				g.str(vlib.Pick(rng, []string{"import \"x\";", "package p;", "a;b", "}\nimport \"y\";"}))
			}
			g.semis()
		case 2: // message with fields named like the keywords
			g.id("message")
			g.id(vlib.Pick(rng, []string{"import", "package", "M", "public", "weak"}))
			g.p("{")
			n := rng.Intn(4)
			for i := 0; i < n; i++ {
				g.id("optional")
				g.id(vlib.Pick(rng, []string{"string", "bytes"}))
				g.id(vlib.Pick(rng, []string{"import", "package", "public", "weak", "f"}) + fmt.Sprint(i))
				g.p("=")
				g.uintLit(uint64(i + 1))
				if rng.Bool() {
					g.p("[")
					g.id("default")
					g.p("=")
					g.str(vlib.Pick(rng, []string{"import \"d.proto\";", ";", "}", "package z;"}))
					g.p("]")
				}
				g.semis()
			}
			if rng.Chance(0.3) {
				g.id("optional")
				g.id("int32")
				g.id("import")
				g.p("=")
				g.uintLit(100)
				g.semis()
			}
			if rng.Chance(0.3) {
				g.id("map")
				g.p("<")
				g.id("string")
				g.p(",")
				g.id("string")
				g.p(">")
				g.id("package")
				g.p("=")
				g.uintLit(101)
				g.semis()
			}
			g.p("}")
			if rng.Chance(0.2) {
				g.p(";")
			}
		case 3:
			g.id("enum")
			g.id(vlib.Pick(rng, []string{"import", "E", "package"}))
			g.p("{")
			g.id(vlib.Pick(rng, []string{"import", "package", "public", "ZERO"}))
			g.p("=")
			g.uintLit(0)
			g.semis()
			g.p("}")
		case 4:
			g.id("extend")
			g.emitQualified([]string{vlib.Pick(rng, []string{"import", "Foo", "package"}), vlib.Pick(rng, []string{"public", "Bar", "import"})})
			g.p("{")
			g.id("optional")
			g.id("int32")
			g.id("import")
			g.p("=")
			g.uintLit(1000)
			g.semis()
			g.p("}")
		case 5:
			g.id("service")
			g.id(vlib.Pick(rng, []string{"import", "S", "package"}))
			g.p("{")
			g.id("rpc")
			g.id(vlib.Pick(rng, []string{"import", "package", "Get"}))
			g.p("(")
			g.emitQualified([]string{vlib.Pick(rng, []string{"import", "Req"})})
			g.p(")")
			g.id("returns")
			g.p("(")
			g.emitQualified([]string{vlib.Pick(rng, []string{"package", "Resp"})})
			g.p(")")
			if rng.Bool() {
				g.p(";")
			} else {
				g.p("{", "}")
			}
			g.p("}")
		case 6:
			g.p(";")
		case 7, 8:
			if !pkgDone {
				pkgDone = true
				var parts []string
				n := 1 + rng.Intn(4)
				for i := 0; i < n; i++ {
					parts = append(parts, vlib.Pick(rng, []string{"import", "public", "weak", "package", "a", "b_c", "option", "syntax", "x1"}))
				}
				g.pkg = strings.Join(parts, ".")
				g.id("package")
				g.emitQualified(parts)
				g.semis()
			}
		default:
			g.importStmt()
		}
	}
	n := 2 + rng.Intn(9)
	for i := 0; i < n; i++ {
		decoy()
	}
	return g.toks
}

func TestC25(t *testing.T) {
	r := vlib.Start(t, "C25")
	defer r.Finish()
	r.Extra("rule", "texts = corpus *.proto verbatim and re-rendered with generated trivia, random generator files, an import-focused "+
		"generator (package/import statements mixed with option message literals in {} and <> that contain import:/package: fields, "+
		"strings containing `import \"x\";`, keywords as message/field/enum/rpc/package names, import paths spelled with escapes and "+
		"adjacent-literal concatenation, public/weak, repeated semicolons), byte mutants that still parse; evaluation = one text "+
		"accepted by parser.Parse + parser.ResultFromAST(validate) scanned with fastscan.Scan and compared; non-trivial = has a "+
		"package or at least one import")
	r.Extra("assumptions", []string{
		"'the full parser accepts' = parser.Parse and parser.ResultFromAST(validate=true) report no error",
		"the full parser's answer is the FileDescriptorProto: package, dependency (order), public_dependency, weak_dependency; it is cross-checked against the AST's PackageNode/ImportNodes",
	})
	base := textCases(r, "C25", r.N(600, 30000), r.N(800, 40000), r.N(600, 30000))
	nFocus := r.N(5000, 150000)
	for i := 0; i < nFocus; i++ {
		id := fmt.Sprintf("focus/%d", i)
		base = append(base, textCase{id, func() []byte {
			rng := r.Rng("C25/" + id)
			return renderTokens(rng, genImportFocus(rng), randomGapStyle(rng))
		}})
	}
	r.Par(len(base), func(i int) {
		c := base[i]
		if !r.Want(c.id) {
			return
		}
		text := c.make()
		src := strings.SplitN(c.id, "/", 2)[0]
		o := parseCollect("c25.proto", text, true)
		if o.panicVal != nil || o.err != nil || o.file == nil {
			r.Class("rejected." + src)
			return
		}
		var res parser.Result
		var rerr error
		var errs []reporter.ErrorWithPos
		var warns int
		pv, _ := vlib.Try(func() { res, rerr = parser.ResultFromAST(o.file, true, collectingHandler(true, &errs, &warns)) })
		if pv != nil || rerr != nil || res == nil {
			r.Class("rejected-by-result." + src)
			return
		}
		fd := res.FileDescriptorProto()
		var want []imp25
		for _, d := range fd.GetDependency() {
			want = append(want, imp25{Path: d})
		}
		for _, k := range fd.GetPublicDependency() {
			want[k].Public = true
		}
		for _, k := range fd.GetWeakDependency() {
			want[k].Weak = true
		}
		wantPkg := fd.GetPackage()
		// cross-check the oracle against the AST
		var astImps []imp25
		astPkg := ""
		for _, d := range o.file.Decls {
			switch d := d.(type) {
			case *ast.ImportNode:
				astImps = append(astImps, imp25{Path: d.Name.AsString(), Public: d.Public != nil, Weak: d.Weak != nil})
			case *ast.PackageNode:
				astPkg = string(d.Name.AsIdentifier())
			}
		}
		if astPkg != wantPkg || fmt.Sprint(astImps) != fmt.Sprint(want) {
			r.Inconclusive("oracle disagreement between the AST and the FileDescriptorProto of the full parser (case " + c.id + ")")
			return
		}

		var got fastscan.Result
		var serr error
		pv, stack := vlib.Try(func() { got, serr = fastscan.Scan("c25.proto", bytes.NewReader(text)) })
		key := ""
		if wantPkg != "" || len(want) > 0 {
			key = string(text)
		}
		r.Eval(key)
		r.Class("accepted." + src)
		if len(want) > 0 {
			r.Class("with-imports")
		}
		if key != "" {
			r.Sample(src, map[string]any{"id": c.id, "text": clip(string(text), 300), "package": wantPkg, "imports": want})
		}
		w := map[string]any{"id": c.id, "text": string(text), "parser_package": wantPkg, "parser_imports": want}
		if pv != nil {
			w["panic"] = fmt.Sprint(pv)
			r.Violation("fastscan.panic", "panic at "+vlib.PanicSite(stack), c.id, w)
			return
		}
		var gotImps []imp25
		anyOption := false
		for _, im := range got.Imports {
			gotImps = append(gotImps, imp25{Path: im.Path, Public: im.IsPublic, Weak: im.IsWeak})
			anyOption = anyOption || im.IsOption
		}
		w["fastscan_package"] = got.PackageName
		w["fastscan_imports"] = gotImps
		if serr != nil {
			w["error"] = serr.Error()
			msg := serr.Error()
			if se, ok := serr.(fastscan.SyntaxError); ok && len(se) > 0 {
				msg = se[0].Unwrap().Error()
			}
			r.Violation("fastscan.error-on-accepted", "error: "+stableMsg(msg), c.id, w)
			return
		}
		if got.PackageName != wantPkg {
			how := "different package"
			if got.PackageName == "" {
				how = "package missed"
			} else if wantPkg == "" {
				how = "package invented"
			}
			r.Violation("fastscan.package-mismatch", how, c.id, w)
			return
		}
		if len(gotImps) != len(want) {
			how := "imports missed"
			if len(gotImps) > len(want) {
				how = "imports invented"
			}
			r.Violation("fastscan.import-count-mismatch", how, c.id, w)
			return
		}
		for k := range want {
			if gotImps[k].Path != want[k].Path {
				sameSet := strings.Join(sortedPaths(gotImps), "\x00") == strings.Join(sortedPaths(want), "\x00")
				how := "path differs"
				if sameSet {
					how = "order differs"
				}
				r.Violation("fastscan.import-path-mismatch", how, c.id, w)
				return
			}
			if gotImps[k].Public != want[k].Public {
				r.Violation("fastscan.import-flag-mismatch", "public flag differs", c.id, w)
				return
			}
			if gotImps[k].Weak != want[k].Weak {
				r.Violation("fastscan.import-flag-mismatch", "weak flag differs", c.id, w)
				return
			}
		}
		if anyOption {
			r.Class("import-option-seen")
		}
	})
}

func sortedPaths(xs []imp25) []string {
	var out []string
	for _, x := range xs {
		out = append(out, x.Path)
	}
	for i := 1; i < len(out); i++ {
		for j := i; j > 0 && out[j] < out[j-1]; j-- {
			out[j], out[j-1] = out[j-1], out[j]
		}
	}
	return out
}

// stableMsg strips quoted specifics from an error message.
func stableMsg(m string) string {
	if i := strings.IndexAny(m, "'\""); i >= 0 {
		m = m[:i]
	}
	if len(m) > 80 {
		m = m[:80]
	}
	return strings.TrimSpace(m)
}
