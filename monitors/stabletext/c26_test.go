package stabletext

import (
	"bytes"
	"fmt"
	"strings"
	"testing"

	"google.golang.org/protobuf/reflect/protodesc"
	"google.golang.org/protobuf/reflect/protoregistry"

	"github.com/bufbuild/protocompile/internal/verifmon/vlib"
)

// C26 — bytes default values survive escaping.
//
// A proto2 file with `optional bytes fN = N [default = <literal>]` fields is
// compiled; for every field the bytes b the literal denotes must come back
// from (1) Default().Bytes() of protocompile's own descriptor, (2)
// Default().Bytes() of protodesc.NewFile(result.FileDescriptorProto()), and
// (3) the reference C-unescape of the default_value text.

var alpha26 = []byte{0x00, 0x07, '\n', '"', '\'', '\\', '0', '7', 'x', 0x7f, 0x80, 0xff}

type bytesCase struct {
	id    string
	b     []byte
	spell string
}

func runBytesBatch(r *vlib.Run, batchID string, cases []bytesCase, evalKeys bool) (checked int) {
	var sb strings.Builder
	sb.WriteString("syntax = \"proto2\";\nmessage M {\n")
	for i, c := range cases {
		fmt.Fprintf(&sb, "  optional bytes f%d = %d [default = %s];\n", i+1, i+1, c.spell)
	}
	sb.WriteString("}\n")
	src := sb.String()
	o := compileSource("c26.proto", src)
	if !o.accepted() {
		if len(cases) == 1 {
			r.Inconclusive(fmt.Sprintf("bytes default literal not accepted by the compiler (decided by C14, not here): %s: %s", cases[0].spell, o.firstError()))
			return 0
		}
		// find the culprit(s) one by one
		for _, c := range cases {
			checked += runBytesBatch(r, batchID, []bytesCase{c}, evalKeys)
		}
		return checked
	}
	fdp := o.res.FileDescriptorProto()
	md := o.res.Messages().Get(0)
	rt, rtErr := protodesc.NewFile(fdp, new(protoregistry.Files))
	if rtErr != nil {
		r.Violation("bytes-default.protodesc-rejects", "protodesc.NewFile rejects the compiled descriptor", batchID, map[string]any{"source": src, "error": rtErr.Error()})
		return 0
	}
	rmd := rt.Messages().Get(0)
	for i, c := range cases {
		if r.Replaying() && !r.Want(c.id) {
			continue
		}
		checked++
		if evalKeys {
			r.Eval(string(c.b) + "\x00" + c.spell)
		}
		w := func(extra map[string]any) map[string]any {
			m := map[string]any{"id": c.id, "bytes_hex": fmt.Sprintf("%x", c.b), "literal": c.spell,
				"default_value": fdp.GetMessageType()[0].GetField()[i].GetDefaultValue(),
				"source":        fmt.Sprintf("syntax = \"proto2\";\nmessage M {\n  optional bytes f1 = 1 [default = %s];\n}\n", c.spell)}
			for k, v := range extra {
				m[k] = v
			}
			return m
		}
		fd := md.Fields().Get(i)
		if !fd.HasDefault() {
			r.Violation("bytes-default.missing", "no default on protocompile's descriptor", c.id, w(nil))
			continue
		}
		if got := fd.Default().Bytes(); !bytes.Equal(got, c.b) {
			r.Violation("bytes-default.protocompile-descriptor", "Default().Bytes() differs: "+diffClass(c.b, got), c.id, w(map[string]any{"got_hex": fmt.Sprintf("%x", got)}))
			continue
		}
		if got := rmd.Fields().Get(i).Default().Bytes(); !bytes.Equal(got, c.b) {
			r.Violation("bytes-default.go-runtime", "protodesc Default().Bytes() differs: "+diffClass(c.b, got), c.id, w(map[string]any{"got_hex": fmt.Sprintf("%x", got)}))
			continue
		}
		dv := fdp.GetMessageType()[0].GetField()[i].GetDefaultValue()
		got, err := cUnescapeStrict(dv)
		if err != nil {
			r.Violation("bytes-default.escaped-text", "default_value is not well-formed C-escaped text: "+err.Error(), c.id, w(nil))
			continue
		}
		if !bytes.Equal(got, c.b) {
			r.Violation("bytes-default.escaped-text", "default_value C-unescapes to other bytes: "+diffClass(c.b, got), c.id, w(map[string]any{"got_hex": fmt.Sprintf("%x", got)}))
		}
	}
	return checked
}

// diffClass names the first byte that did not survive: a stable input class.
func diffClass(want, got []byte) string {
	i := 0
	for i < len(want) && i < len(got) && want[i] == got[i] {
		i++
	}
	if i >= len(want) {
		return "extra bytes at the end"
	}
	c := want[i]
	cls := ""
	switch {
	case c < 0x20:
		cls = "control byte"
	case c == '"' || c == '\'':
		cls = "quote"
	case c == '\\':
		cls = "backslash"
	case c == 0x7f:
		cls = "DEL"
	case c >= 0x80:
		cls = "high byte"
	case c >= '0' && c <= '9':
		cls = "digit"
	default:
		cls = "printable byte"
	}
	if i+1 < len(want) && want[i+1] >= '0' && want[i+1] <= '9' && (c < 0x20 || c >= 0x7f) {
		cls += " followed by a digit"
	}
	if i >= len(got) {
		return "output ends before a " + cls
	}
	return "first wrong byte is a " + cls
}

func TestC26(t *testing.T) {
	r := vlib.Start(t, "C26")
	defer r.Finish()
	maxLen := r.N(3, 5)
	nSpell := r.N(3, 2)
	r.Extra("rule", fmt.Sprintf("exhaustive: every byte string of length <= %d over {00 07 0a \" ' \\ 0 7 x 7f 80 ff}, each written with %d "+
		"randomly chosen escape spellings (raw / simple escape / 1-3 digit octal / \\x with 1-2 digits / \\u / \\U / adjacent-literal "+
		"concatenation); random: byte strings over all 256 values up to 64 bytes. Fields are compiled 100 per file; evaluation = one "+
		"(byte string, spelling); non-trivial = non-empty byte string", maxLen, nSpell))
	r.Extra("assumptions", []string{
		"the literal spellings stay inside the decided escape domain of C14, so the bytes a literal denotes are known by construction",
		"reference C-unescape: simple escapes, 1-3 octal digits <= 377, \\x + 1-2 hex digits; anything else in default_value is malformed",
	})
	r.Extra("exhaustive", true)

	pow := []int{1}
	for i := 1; i <= maxLen; i++ {
		pow = append(pow, pow[i-1]*len(alpha26))
	}
	total := 0
	for L := 0; L <= maxLen; L++ {
		total += pow[L]
	}
	decode := func(idx int) []byte {
		L := 0
		for idx >= pow[L] {
			idx -= pow[L]
			L++
		}
		b := make([]byte, L)
		for k := 0; k < L; k++ {
			b[k] = alpha26[idx%len(alpha26)]
			idx /= len(alpha26)
		}
		return b
	}
	const per = 100
	nExh := total * nSpell
	nBatches := (nExh + per - 1) / per
	r.Par(nBatches, func(bi int) {
		bid := fmt.Sprintf("exh/b%d", bi)
		if !r.Want(bid) {
			return
		}
		rng := r.Rng("C26/" + bid)
		var cs []bytesCase
		nontrivial := 0
		for k := bi * per; k < (bi+1)*per && k < nExh; k++ {
			b := decode(k / nSpell)
			mode := []int{0, 1, 2}[(k%nSpell)%3]
			cs = append(cs, bytesCase{id: fmt.Sprintf("%s/%d", bid, k), b: b, spell: spellBytes(rng, b, mode, false)})
			if len(b) > 0 {
				nontrivial++
			}
		}
		n := runBytesBatch(r, bid, cs, false)
		if n < nontrivial {
			nontrivial = n
		}
		r.EvalN(int64(n), int64(nontrivial))
		r.ClassN("exhaustive", int64(n))
		if bi == nBatches/2 && len(cs) > 0 {
			r.Sample("exhaustive", map[string]any{"bytes_hex": fmt.Sprintf("%x", cs[0].b), "literal": cs[0].spell})
		}
	})

	nRand := r.N(3000, 60000)
	nRB := (nRand + per - 1) / per
	r.Par(nRB, func(bi int) {
		bid := fmt.Sprintf("rand/b%d", bi)
		if !r.Want(bid) {
			return
		}
		rng := r.Rng("C26/" + bid)
		var cs []bytesCase
		for k := 0; k < per; k++ {
			n := rng.Intn(65)
			if rng.Chance(0.3) {
				n = rng.Intn(6)
			}
			b := make([]byte, n)
			for i := range b {
				switch rng.Intn(4) {
				case 0:
					b[i] = alpha26[rng.Intn(len(alpha26))]
				case 1:
					b[i] = byte('0' + rng.Intn(10))
				default:
					b[i] = byte(rng.Intn(256))
				}
			}
			if rng.Chance(0.1) {
				b = append(b, []byte("é€😀")...)
			}
			cs = append(cs, bytesCase{id: fmt.Sprintf("%s/%d", bid, k), b: b, spell: spellBytes(rng, b, rng.Intn(3), rng.Chance(0.3))})
		}
		n := runBytesBatch(r, bid, cs, true)
		r.ClassN("random", int64(n))
		if bi == 0 {
			r.Sample("random", map[string]any{"bytes_hex": fmt.Sprintf("%x", cs[0].b), "literal": cs[0].spell})
		}
	})
}
