package explex

// C30 — the printer's round-trip mode reproduces the source.
//
// For a text the experimental parser accepts without Error/ICE diagnostics:
//   (file clause)  printer.PrintFile(Options{}, file) == text, byte for byte;
//   (decl clause)  concat(printer.Print(Options{}, decl_i)) is the text minus a
//                  suffix that consists of trivia only (the file's trailing
//                  trivia): text == concat + suffix, suffix after the last
//                  significant token.
// A violation's sig is a classification of the difference computed by
// diffClasses (e.g. "final-newline-appended"); the verdict is byte equality.

import (
	"fmt"
	"strings"
	"testing"

	"github.com/bufbuild/protocompile/experimental/ast/printer"
	"github.com/bufbuild/protocompile/experimental/seq"
	"github.com/bufbuild/protocompile/internal/verifmon/vlib"
)

type layoutCase struct {
	ID     string
	Family string
	// Base is the name of the corpus file the text derives from ("" for
	// self-contained texts); C31 uses it to resolve the file's imports.
	Base func() string
	Gen  func() (text string, ok bool)
}

func noBase() string { return "" }

// layoutCases builds the input list shared by C30 and C31: corpus files,
// hand-written layout stress files, generated schemas, and re-laid-out
// variants of all three. nGen/nRelayout are the tier-dependent counts.
func layoutCases(r *vlib.Run, prefix string, cs []namedSource, nGen, nRelayout int) []layoutCase {
	var out []layoutCase
	for _, c := range cs {
		c := c
		out = append(out, layoutCase{prefix + "/corpus/" + c.Name, "corpus", func() string { return c.Name }, func() (string, bool) { return c.Text, true }})
	}
	for _, h := range handLayouts {
		h := h
		out = append(out, layoutCase{prefix + "/hand/" + h.Name, "hand", noBase, func() (string, bool) { return h.Text, true }})
	}
	for i := 0; i < nGen; i++ {
		id := fmt.Sprintf("%s/gen/%d", prefix, i)
		out = append(out, layoutCase{id, "generated", noBase, func() (string, bool) { return genSchema(r.Rng(id)), true }})
	}
	for i := 0; i < nRelayout; i++ {
		id := fmt.Sprintf("%s/relayout/%d", prefix, i)
		pick := func() (rng *vlib.RNG, base, baseName string, ok bool) {
			rng = r.Rng(id)
			switch k := rng.Intn(10); {
			case k < 4:
				base = genSchema(rng)
			case k < 6:
				base = handLayouts[rng.Intn(len(handLayouts))].Text
			default:
				c := cs[rng.Intn(len(cs))]
				base, baseName = c.Text, c.Name
				if len(base) > 20000 {
					return rng, "", "", false
				}
			}
			return rng, base, baseName, true
		}
		out = append(out, layoutCase{id, "relayout", func() string { _, _, bn, _ := pick(); return bn }, func() (string, bool) {
			rng, base, _, ok := pick()
			if !ok {
				return "", false
			}
			return relayout(rng, base, randomStyle(rng))
		}})
	}
	for _, src := range extraSources {
		for _, s := range src.Gen(r.Rng(prefix+"/extra/"+src.Name), nGen) {
			s := s
			out = append(out, layoutCase{prefix + "/extra/" + src.Name + "/" + s.Name, "extra", noBase, func() (string, bool) { return s.Text, true }})
		}
	}
	return out
}

func TestC30(t *testing.T) {
	r := vlib.Start(t, "C30")
	defer r.Finish()
	r.Extra("rule", "inputs: every corpus .proto, hand-written layout stress files, generated self-contained schemas (proto2/proto3/editions, options with nested message literals), and re-laid-out variants (comments of both styles and odd whitespace injected at random token gaps, whitespace stripped where tokens may touch, joined lines, CRLF, tabs). Only texts the experimental parser accepts without Error/ICE diagnostics are in the domain. Each evaluation = PrintFile(Options{}) compared byte-for-byte with the source, and concat(Print(decl)) compared with the source minus its trailing trivia. distinct_nontrivial counts distinct in-domain texts with at least one declaration.")
	r.Extra("assumptions", []string{
		"the file's trailing trivia = the text after the last non-trivia token, taken from the experimental lexer's token stream",
		"the difference classifier (used only for the violation signature) relies on the experimental lexer's token view of both texts",
	})
	cs, err := corpus()
	if err != nil {
		r.Inconclusive("corpus: " + err.Error())
		return
	}
	cases := layoutCases(r, "c30", cs, r.N(400, 3000), r.N(2500, 20000))
	r.Par(len(cases), func(i int) {
		c := cases[i]
		if !r.Want(c.ID) {
			return
		}
		text, ok := c.Gen()
		if !ok {
			r.Class("skipped:generator-declined")
			return
		}
		o := parseText("c30/"+c.Family+".proto", text)
		if o.Panic != nil || o.NErr > 0 || o.NICE > 0 {
			r.Eval("")
			r.Class("out-of-domain:" + c.Family)
			return
		}
		view, vok := viewOfOutcome(o, text)
		if !vok {
			r.Eval("")
			r.Class("out-of-domain:lexer-does-not-tile")
			return
		}
		ndecl := o.File.Decls().Len()
		if ndecl > 0 {
			r.Eval(text)
			r.Sample("in-domain text ("+c.Family+")", map[string]any{"case": c.ID, "text": witnessText(text)})
		} else {
			r.Eval("")
		}
		r.Class("in-domain:" + c.Family)
		wit := func(extra map[string]any) map[string]any {
			m := map[string]any{"family": c.Family, "text": witnessText(text)}
			for k, v := range extra {
				m[k] = v
			}
			return m
		}

		// ---- file clause
		var whole string
		var perr error
		if pv, st := vlib.Try(func() { whole, perr = printer.PrintFile(printer.Options{}, o.File) }); pv != nil {
			r.Violation("roundtrip.panic", "PrintFile panics at "+vlib.PanicSite(st)+": "+normMsg(fmt.Sprint(pv)), c.ID, wit(map[string]any{"panic": fmt.Sprint(pv), "stack": clip(st, 3000)}))
			return
		}
		if perr != nil {
			r.Violation("roundtrip.error", "PrintFile returns an error: "+normMsg(perr.Error()), c.ID, wit(map[string]any{"error": perr.Error()}))
			return
		}
		fileClasses := map[string]bool{}
		if whole != text {
			r.Class("file-clause:differs")
			for _, d := range diffClasses(text, whole, false, false) {
				fileClasses[d.Class] = true
				r.Violation("roundtrip.file."+classCategory(d.Class), c30Sig(text, d), c.ID, wit(map[string]any{"detail": d.Detail, "first_difference": firstDiffContext(text, whole), "printed": witnessText(whole)}))
			}
		} else {
			r.Class("file-clause:exact")
		}

		// ---- decl clause
		var sb strings.Builder
		if pv, st := vlib.Try(func() {
			for d := range seq.Values(o.File.Decls()) {
				sb.WriteString(printer.Print(printer.Options{}, d))
			}
		}); pv != nil {
			r.Violation("roundtrip.panic", "Print(decl) panics at "+vlib.PanicSite(st)+": "+normMsg(fmt.Sprint(pv)), c.ID, wit(map[string]any{"panic": fmt.Sprint(pv), "stack": clip(st, 3000)}))
			return
		}
		concat := sb.String()
		if strings.HasPrefix(text, concat) && len(concat) >= view.LastSigEnd {
			r.Class("decl-clause:holds")
			return
		}
		r.Class("decl-clause:differs")
		// Compare against the text without its trailing trivia, and report only
		// what the file clause has not already reported for this input.
		extra := 0
		for _, d := range diffClassesIgnoringTrail(text, concat) {
			if fileClasses[d.Class] {
				continue
			}
			extra++
			r.Violation("roundtrip.decls."+classCategory(d.Class), c30Sig(text, d), c.ID, wit(map[string]any{"detail": d.Detail, "first_difference": firstDiffContext(text, concat), "concat": witnessText(concat)}))
		}
		if extra == 0 {
			r.Class("decl-clause:differs-only-as-the-file-clause-does")
			if len(fileClasses) == 0 {
				// The file clause is exact, the decl clause is not, and the
				// token-level comparison found nothing: the difference is in
				// how much trailing trivia the last Print emitted.
				r.Violation("roundtrip.decls.other", "concatenation is not the text minus trailing trivia (unclassified)", c.ID,
					wit(map[string]any{"first_difference": firstDiffContext(text, concat), "concat": witnessText(concat), "last_significant_token_end": view.LastSigEnd}))
			}
		}
	})
}

// c30Sig is the signature of a difference site. Whitespace is re-created by the printer (known finding), but on
// inputs without any comment the unchanged printer keeps every blank line between declarations (not inside option
// values and compact options): a comment-free input that loses vertical
// whitespace is marked, so that it is not taken for the recorded regeneration of horizontal whitespace.
func c30Sig(text string, d diffClass) string {
	if classCategory(d.Class) != "whitespace" || strings.Contains(text, "//") || strings.Contains(text, "/*") {
		return d.Class
	}
	a, _ := d.Detail["source_whitespace"].(string)
	b, _ := d.Detail["printed_whitespace"].(string)
	ctx, _ := d.Detail["context"].(string)
	nbr, _ := d.Detail["neighbours"].(string)
	between := strings.HasPrefix(nbr, "`{` |") || strings.HasPrefix(nbr, "`;` |") || strings.HasPrefix(nbr, "`}` |") || strings.HasSuffix(nbr, "| `}`")
	if na, nb := strings.Count(a, "\n"), strings.Count(b, "\n"); na >= 2 && nb < na && ctx == "declarations" && between {
		return d.Class + " [comment-free input: blank line lost between declarations]"
	}
	return d.Class
}
