package explex

// Text-level machinery shared by C30 and C31: a token/trivia view of a source
// text (through the experimental lexer), a layout mutator that injects
// comments and whitespace at token gaps, a small generator of valid schema
// texts, and the difference classifier that turns "these two texts differ"
// into a stable class.

import (
	"fmt"
	"strings"
	"sync"

	"github.com/bufbuild/protocompile/experimental/token"
	"github.com/bufbuild/protocompile/internal/verifmon/vlib"
)

// gapItem is one element of the trivia between two significant tokens.
type gapItem struct {
	Comment bool
	Text    string
}

// sigTok is a significant (non-trivia) token with the trivia that precedes it.
type sigTok struct {
	Text       string
	Kind       token.Kind
	Start, End int
	Lead       []gapItem
}

// tokView is a text split into significant tokens and gaps.
type tokView struct {
	Toks  []sigTok
	Trail []gapItem // trivia after the last significant token
	// LastSigEnd is the end offset of the last significant token (0 if none).
	LastSigEnd int
	Unrecog    int
}

func gapText(items []gapItem) string {
	var sb strings.Builder
	for _, it := range items {
		sb.WriteString(it.Text)
	}
	return sb.String()
}

// viewOf lexes text with the experimental lexer (through parser.Parse) and
// groups the natural tokens. ok is false when the lexer panicked or did not
// tile the text (then no view can be trusted).
func viewOf(text string) (v tokView, ok bool) {
	o := parseText("layout/view.proto", text)
	if o.Panic != nil || o.File == nil {
		return v, false
	}
	return viewOfOutcome(o, text)
}

func viewOfOutcome(o *parseOutcome, text string) (v tokView, ok bool) {
	var lead []gapItem
	prev := 0
	for tok := range o.File.Stream().All() {
		if tok.IsSynthetic() {
			continue
		}
		sp := tok.LeafSpan()
		if sp.Start != prev || sp.End < sp.Start || sp.End > len(text) {
			return v, false
		}
		prev = sp.End
		if sp.End == sp.Start {
			continue
		}
		t := text[sp.Start:sp.End]
		switch tok.Kind() {
		case token.Space:
			if n := len(lead); n > 0 && !lead[n-1].Comment {
				lead[n-1].Text += t
			} else {
				lead = append(lead, gapItem{false, t})
			}
		case token.Comment:
			lead = append(lead, gapItem{true, t})
		default:
			if tok.Kind() == token.Unrecognized {
				v.Unrecog++
			}
			v.Toks = append(v.Toks, sigTok{Text: t, Kind: tok.Kind(), Start: sp.Start, End: sp.End, Lead: lead})
			v.LastSigEnd = sp.End
			lead = nil
		}
	}
	if prev != len(text) {
		return v, false
	}
	v.Trail = lead
	return v, true
}

// ---------------------------------------------------------------------------
// layout mutator

var (
	glueMu    sync.Mutex
	glueCache = map[[2]string]bool{}
)

// canGlue reports whether tokens a and b may be written without anything
// between them and still lex as exactly a followed by b.
func canGlue(a, b string) bool {
	if len(a) > 24 || len(b) > 24 {
		// long tokens: decide on their boundary characters only
		a, b = a[len(a)-min(len(a), 4):], b[:min(len(b), 4)]
		if strings.ContainsAny(a, "\"'") || strings.ContainsAny(b, "\"'") {
			return false
		}
	}
	k := [2]string{a, b}
	glueMu.Lock()
	v, ok := glueCache[k]
	glueMu.Unlock()
	if ok {
		return v
	}
	res := false
	if va, oka := viewOf(a); oka && len(va.Toks) == 1 && va.Toks[0].Text == a {
		if vb, okb := viewOf(b); okb && len(vb.Toks) == 1 && vb.Toks[0].Text == b {
			if vv, okv := viewOf(a + b); okv && len(vv.Toks) == 2 && vv.Toks[0].Text == a && vv.Toks[1].Text == b && len(vv.Toks[1].Lead) == 0 && len(vv.Trail) == 0 {
				res = true
			}
		}
	}
	glueMu.Lock()
	glueCache[k] = res
	glueMu.Unlock()
	return res
}

type layoutStyle struct {
	PGap        float64 // probability of touching a gap
	Comments    bool
	LineComment bool
	Strip       bool // may remove whitespace entirely where legal
	LongLines   bool // join lines (replace newlines by spaces where no line comment precedes)
	CRLF        bool
	Tabs        bool
}

func randomStyle(rng *vlib.RNG) layoutStyle {
	return layoutStyle{
		PGap:        []float64{0.03, 0.1, 0.3, 0.7, 1}[rng.Intn(5)],
		Comments:    rng.Chance(0.7),
		LineComment: rng.Chance(0.7),
		Strip:       rng.Chance(0.3),
		LongLines:   rng.Chance(0.15),
		CRLF:        rng.Chance(0.05),
		Tabs:        rng.Chance(0.3),
	}
}

// relayout rewrites the trivia of a text at random token gaps. The significant
// token sequence is unchanged, so the result denotes the same schema as long as
// the lexer's view of the input was right (callers re-check that the result
// still parses / compiles before using it).
func relayout(rng *vlib.RNG, text string, st layoutStyle) (string, bool) {
	v, ok := viewOf(text)
	if !ok || len(v.Toks) == 0 {
		return "", false
	}
	cid := 0
	ws := func() string {
		opts := []string{" ", "  ", "\n", "\n\n", "\n  ", "\n\n\n    ", "   ", " \n"}
		if st.Tabs {
			opts = append(opts, "\t", "\n\t", " \t ")
		}
		if st.CRLF {
			opts = append(opts, "\r\n", "\r\n\r\n")
		}
		return opts[rng.Intn(len(opts))]
	}
	comment := func() string {
		cid++
		if st.LineComment && rng.Chance(0.5) {
			return fmt.Sprintf("// c%d\n", cid)
		}
		switch rng.Intn(6) {
		case 0:
			return fmt.Sprintf("/* c%d\n   more */", cid)
		case 1:
			return fmt.Sprintf("/** c%d\n * more\n */", cid)
		case 2:
			return fmt.Sprintf("/*c%d*/", cid)
		default:
			return fmt.Sprintf("/* c%d */", cid)
		}
	}
	mkGap := func(prev, next string, old []gapItem) string {
		if !rng.Chance(st.PGap) {
			s := gapText(old)
			if st.LongLines && !strings.Contains(s, "//") {
				s = strings.ReplaceAll(s, "\n", " ")
			}
			return s
		}
		var sb strings.Builder
		mode := rng.Intn(10)
		switch {
		case mode == 0 && st.Strip && prev != "" && next != "" && canGlue(prev, next):
			return ""
		case mode <= 4 || !st.Comments:
			sb.WriteString(ws())
		default:
			n := rng.Range(1, 3)
			for i := 0; i < n; i++ {
				if rng.Chance(0.8) {
					sb.WriteString(ws())
				}
				sb.WriteString(comment())
			}
			if rng.Chance(0.8) {
				sb.WriteString(ws())
			}
		}
		s := sb.String()
		// The gap must still separate prev and next: if it is empty or ends in a
		// block comment glued to next, that is fine for the lexer (a comment is a
		// separator), but an empty gap needs canGlue.
		if s == "" && prev != "" && next != "" && !canGlue(prev, next) {
			s = " "
		}
		return s
	}
	var out strings.Builder
	prev := ""
	for _, t := range v.Toks {
		out.WriteString(mkGap(prev, t.Text, t.Lead))
		out.WriteString(t.Text)
		prev = t.Text
	}
	out.WriteString(mkGap(prev, "", v.Trail))
	res := out.String()
	// Sanity: same significant tokens.
	v2, ok2 := viewOf(res)
	if !ok2 || len(v2.Toks) != len(v.Toks) {
		return "", false
	}
	for i := range v.Toks {
		if v.Toks[i].Text != v2.Toks[i].Text {
			return "", false
		}
	}
	return res, true
}

// ---------------------------------------------------------------------------
// schema text generator (valid, self-contained files)

type schemaGen struct {
	rng    *vlib.RNG
	sb     strings.Builder
	syntax string // proto2, proto3, 2023
	nmsg   int
	nenum  int
	opts   bool
}

func (g *schemaGen) label() string {
	switch g.syntax {
	case "proto2":
		return []string{"optional ", "optional ", "repeated ", "required "}[g.rng.Intn(4)]
	case "proto3":
		return []string{"", "", "optional ", "repeated "}[g.rng.Intn(4)]
	default:
		return []string{"", "", "repeated "}[g.rng.Intn(3)]
	}
}

var scalarTypes = []string{"int32", "int64", "uint32", "uint64", "sint32", "sint64", "fixed32", "fixed64", "sfixed32", "sfixed64", "float", "double", "bool", "string", "bytes"}

func (g *schemaGen) fieldOptions(typ, label string) string {
	rng := g.rng
	var o []string
	if rng.Chance(0.15) {
		o = append(o, "deprecated = true")
	}
	if rng.Chance(0.1) {
		o = append(o, fmt.Sprintf("json_name = \"j%d\"", rng.Intn(1000)))
	}
	if g.syntax == "proto2" && label == "optional " && rng.Chance(0.25) {
		switch typ {
		case "string":
			o = append(o, `default = "he\"llo\n" ' wor' "ld"`)
		case "bytes":
			o = append(o, `default = "\001\xff"`)
		case "bool":
			o = append(o, "default = true")
		case "float", "double":
			o = append(o, "default = "+[]string{"1.5", "-inf", "nan", "1e10", ".5", "-0.0"}[rng.Intn(6)])
		case "int32", "int64", "sint32", "sint64", "sfixed32", "sfixed64":
			o = append(o, "default = "+[]string{"-1", "0x7f", "017", "- 5", "0"}[rng.Intn(5)])
		case "uint32", "uint64", "fixed32", "fixed64":
			o = append(o, "default = "+[]string{"1", "0xFF", "017"}[rng.Intn(3)])
		}
	}
	if g.opts && rng.Chance(0.3) {
		switch rng.Intn(6) {
		case 5:
			// a value written as adjacent string literals, alone or among other entries
			if rng.Bool() {
				o = append(o, "(gen.frep) = 3")
			}
			o = append(o, `(gen.fstr) = "first half, " 'second half'`+[]string{"", ` "third"`}[rng.Intn(2)])
			if rng.Bool() {
				o = append(o, "(gen.fopt).a = 2")
			}
		case 0:
			o = append(o, "(gen.fopt) = "+g.msgLiteral(2))
		case 1:
			o = append(o, "(gen.fopt).a = 1", "(gen.fopt).s = \"x\"")
		case 2:
			o = append(o, "(gen.frep) = 1", "(gen.frep) = 2")
		case 3:
			o = append(o, "(gen.fopt) = {}")
		default:
			o = append(o, "(gen.fstr) = \""+strings.Repeat("long ", rng.Range(1, 40))+"\"")
		}
	}
	if len(o) == 0 {
		return ""
	}
	return " [" + strings.Join(o, ", ") + "]"
}

// msgLiteral renders a message literal for the option message gen.Opt.
func (g *schemaGen) msgLiteral(depth int) string { return g.msgLiteralN(depth, true) }

func (g *schemaGen) msgLiteralN(depth int, top bool) string {
	rng := g.rng
	open, close := "{", "}"
	if !top && rng.Chance(0.2) {
		open, close = "<", ">" // angle brackets are only legal for nested values
	}
	sep := []string{" ", ", ", "; ", "\n  "}[rng.Intn(4)]
	var fs []string
	used := map[string]bool{}
	once := func(name string) bool {
		if used[name] {
			return false
		}
		used[name] = true
		return true
	}
	n := rng.Intn(6)
	for i := 0; i < n; i++ {
		switch rng.Intn(8) {
		case 0:
			if once("a") {
				fs = append(fs, fmt.Sprintf("a: %d", rng.Intn(100)-50))
			}
		case 1:
			if once("s") {
				fs = append(fs, `s: "v" 'w'`)
			}
		case 2:
			fs = append(fs, "r: [1, 2, 3]")
		case 3:
			fs = append(fs, "r: 7")
		case 4:
			if depth > 0 && once("sub") {
				colon := ""
				if rng.Bool() {
					colon = ":"
				}
				fs = append(fs, "sub"+colon+" "+g.msgLiteralN(depth-1, false))
			}
		case 5:
			if depth > 0 {
				fs = append(fs, "subs: ["+g.msgLiteralN(depth-1, false)+", "+g.msgLiteralN(depth-1, false)+"]")
			}
		case 6:
			if once("e") {
				fs = append(fs, "e: "+[]string{"OA", "OB"}[rng.Intn(2)])
			}
		default:
			if once("f") {
				fs = append(fs, "f: "+[]string{"1.5", "inf", "-nan", "1e3"}[rng.Intn(4)])
			}
		}
	}
	if len(fs) == 0 {
		return open + close
	}
	return open + " " + strings.Join(fs, sep) + " " + close
}

func (g *schemaGen) message(name string, depth int, indent string) {
	rng := g.rng
	sb := &g.sb
	fmt.Fprintf(sb, "%smessage %s {", indent, name)
	n := rng.Intn(6)
	if n == 0 && rng.Bool() {
		sb.WriteString("}\n")
		return
	}
	sb.WriteString("\n")
	in := indent + "  "
	tag := 1
	if g.opts && rng.Chance(0.2) {
		fmt.Fprintf(sb, "%soption (gen.mopt) = %s;\n", in, g.msgLiteral(2))
	}
	if rng.Chance(0.1) {
		fmt.Fprintf(sb, "%soption deprecated = true;\n", in)
	}
	var nestedEnums, nestedMsgs []string
	for i := 0; i < n; i++ {
		switch k := rng.Intn(14); {
		case k == 0 && depth > 0:
			nm := fmt.Sprintf("N%d", i)
			g.message(nm, depth-1, in)
			nestedMsgs = append(nestedMsgs, nm)
		case k == 1:
			nm := fmt.Sprintf("E%d", i)
			g.enum(nm, in)
			nestedEnums = append(nestedEnums, nm)
		case k == 2:
			fmt.Fprintf(sb, "%soneof o%d {\n", in, i)
			for j := 0; j < rng.Range(1, 3); j++ {
				t := scalarTypes[rng.Intn(len(scalarTypes))]
				fmt.Fprintf(sb, "%s  %s of%d_%d = %d%s;\n", in, t, i, j, tag, g.fieldOptions(t, ""))
				tag++
			}
			fmt.Fprintf(sb, "%s}\n", in)
		case k == 3:
			kt := []string{"string", "int32", "int64", "bool", "uint32", "sfixed64"}[rng.Intn(6)]
			vt := scalarTypes[rng.Intn(len(scalarTypes))]
			if len(nestedMsgs) > 0 && rng.Bool() {
				vt = nestedMsgs[rng.Intn(len(nestedMsgs))]
			}
			fmt.Fprintf(sb, "%smap<%s, %s> m%d = %d;\n", in, kt, vt, i, tag)
			tag++
		case k == 4 && g.syntax == "proto2":
			fmt.Fprintf(sb, "%soptional group G%d = %d {\n%s  optional int32 gx = 1;\n%s}\n", in, i, tag, in, in)
			tag++
		case k == 5:
			a := tag + 100 + i*10
			fmt.Fprintf(sb, "%sreserved %d, %d to %d;\n", in, a, a+2, a+5)
			if rng.Bool() && g.syntax != "2023" {
				fmt.Fprintf(sb, "%sreserved \"res%d\", 'res%d_b';\n", in, i, i)
			}
		case k == 6 && g.syntax != "proto3":
			a := 1000 + i*100
			if g.opts && rng.Bool() {
				fmt.Fprintf(sb, "%sextensions %d to %d, %d [(gen.xopt) = \"x\"];\n", in, a, a+10, a+20)
			} else {
				fmt.Fprintf(sb, "%sextensions %d to %d;\n", in, a, a+10)
			}
		case k == 7 && len(nestedEnums) > 0:
			e := nestedEnums[rng.Intn(len(nestedEnums))]
			l := g.label()
			if l == "required " {
				l = "optional "
			}
			fmt.Fprintf(sb, "%s%s%s fe%d = %d;\n", in, l, e, i, tag)
			tag++
		case k == 8 && len(nestedMsgs) > 0:
			m := nestedMsgs[rng.Intn(len(nestedMsgs))]
			l := g.label()
			fmt.Fprintf(sb, "%s%s%s fm%d = %d;\n", in, l, m, i, tag)
			tag++
		case k == 9:
			sb.WriteString(in + ";\n")
		default:
			t := scalarTypes[rng.Intn(len(scalarTypes))]
			l := g.label()
			fmt.Fprintf(sb, "%s%s%s f%d = %d%s;\n", in, l, t, i, tag, g.fieldOptions(t, l))
			tag++
		}
	}
	fmt.Fprintf(sb, "%s}\n", indent)
}

func (g *schemaGen) enum(name, indent string) {
	rng := g.rng
	sb := &g.sb
	fmt.Fprintf(sb, "%senum %s {\n", indent, name)
	in := indent + "  "
	alias := rng.Chance(0.2)
	if alias {
		fmt.Fprintf(sb, "%soption allow_alias = true;\n", in)
	}
	fmt.Fprintf(sb, "%s%s_ZERO = 0;\n", in, strings.ToUpper(name))
	n := rng.Intn(4)
	for i := 1; i <= n; i++ {
		o := ""
		if rng.Chance(0.2) {
			o = " [deprecated = true]"
		} else if g.opts && rng.Chance(0.2) {
			o = " [(gen.vopt) = " + g.msgLiteral(1) + "]"
		}
		v := i
		if rng.Chance(0.2) && g.syntax == "proto2" {
			v = -i
		}
		fmt.Fprintf(sb, "%s%s_V%d = %d%s;\n", in, strings.ToUpper(name), i, v, o)
	}
	if alias {
		fmt.Fprintf(sb, "%s%s_ALIAS = 0;\n", in, strings.ToUpper(name))
	}
	if rng.Chance(0.2) {
		fmt.Fprintf(sb, "%sreserved 100 to 110, 200 to max;\n", in)
	}
	fmt.Fprintf(sb, "%s}\n", indent)
}

// genSchema generates one valid, self-contained schema text.
func genSchema(rng *vlib.RNG) string {
	g := &schemaGen{rng: rng}
	g.syntax = []string{"proto2", "proto3", "proto3", "2023"}[rng.Intn(4)]
	g.opts = rng.Chance(0.6)
	sb := &g.sb
	if rng.Chance(0.3) {
		sb.WriteString("// File header comment.\n//\n// Second paragraph.\n\n")
	}
	if g.syntax == "2023" {
		sb.WriteString("edition = \"2023\";\n")
	} else {
		fmt.Fprintf(sb, "syntax = \"%s\";\n", g.syntax)
	}
	sb.WriteString("\npackage gen;\n\n")
	// imports in non-sorted order; descriptor.proto is needed for options.
	imps := []string{}
	if g.opts {
		imps = append(imps, "google/protobuf/descriptor.proto")
	}
	for _, i := range []string{"google/protobuf/any.proto", "google/protobuf/timestamp.proto", "google/protobuf/duration.proto", "google/protobuf/empty.proto"} {
		if rng.Chance(0.4) {
			imps = append(imps, i)
		}
	}
	vlib.Shuffle(rng, imps)
	used := map[string]string{"google/protobuf/any.proto": "google.protobuf.Any", "google/protobuf/timestamp.proto": "google.protobuf.Timestamp",
		"google/protobuf/duration.proto": "google.protobuf.Duration", "google/protobuf/empty.proto": "google.protobuf.Empty"}
	var wk []string
	for _, i := range imps {
		mod := ""
		if i != "google/protobuf/descriptor.proto" && rng.Chance(0.15) {
			mod = "public "
		}
		fmt.Fprintf(sb, "import %s\"%s\";\n", mod, i)
		if t, ok := used[i]; ok {
			wk = append(wk, t)
		}
	}
	sb.WriteString("\n")
	// file options, in an order the formatter will want to change
	fo := []string{}
	if rng.Chance(0.5) {
		fo = append(fo, "option java_package = \"com.example.gen\";")
	}
	if rng.Chance(0.3) {
		fo = append(fo, "option go_package = \"example.com/gen;genpb\";")
	}
	if rng.Chance(0.3) {
		fo = append(fo, "option cc_enable_arenas = true;")
	}
	if rng.Chance(0.2) && g.syntax != "2023" {
		fo = append(fo, "option java_multiple_files = true;")
	}
	if g.opts {
		if rng.Chance(0.5) {
			fo = append(fo, "option (gen.zrep) = 3;", "option (gen.zrep) = 1;", "option (gen.zrep) = 2;")
		}
		if rng.Chance(0.5) {
			fo = append(fo, "option (gen.fileopt) = "+g.msgLiteral(3)+";")
		} else if rng.Chance(0.5) {
			fo = append(fo, "option (gen.fileopt).s = \"b\";", "option (gen.fileopt).a = 1;", "option (gen.fileopt).r = 2;", "option (gen.fileopt).r = 1;", "option (gen.fileopt).sub.a = 5;")
		}
		if rng.Chance(0.3) {
			fo = append(fo, "option (gen.arep) = \"z\";", "option (gen.arep) = \"a\";")
		}
	}
	if g.syntax == "2023" && rng.Chance(0.4) {
		fo = append(fo, "option features.field_presence = IMPLICIT;")
	}
	vlib.Shuffle(rng, fo)
	// keep same-name repeated statements in their generated relative order: the
	// shuffle may reorder them, which is fine (the original IS whatever we emit).
	for _, o := range fo {
		sb.WriteString(o + "\n")
	}
	if len(fo) > 0 {
		sb.WriteString("\n")
	}
	nm := rng.Range(1, 4)
	for i := 0; i < nm; i++ {
		if rng.Chance(0.3) {
			fmt.Fprintf(sb, "// Leading comment of M%d.\n", i)
		}
		g.message(fmt.Sprintf("M%d", i), 2, "")
		if rng.Chance(0.7) {
			sb.WriteString("\n")
		}
	}
	if len(wk) > 0 {
		sb.WriteString("message UsesWkt {\n")
		for i, t := range wk {
			l := ""
			if g.syntax == "proto2" {
				l = "optional "
			}
			fmt.Fprintf(sb, "  %s%s w%d = %d;\n", l, t, i, i+1)
		}
		sb.WriteString("}\n")
	}
	if rng.Chance(0.5) {
		g.enum("TopEnum", "")
	}
	if rng.Chance(0.4) {
		sb.WriteString("service Svc {\n")
		if g.opts && rng.Chance(0.3) {
			sb.WriteString("  option (gen.sopt) = { a: 1 };\n")
		}
		k := rng.Range(0, 3)
		for i := 0; i < k; i++ {
			a, b := "", ""
			if rng.Chance(0.3) {
				a = "stream "
			}
			if rng.Chance(0.3) {
				b = "stream "
			}
			if rng.Bool() {
				fmt.Fprintf(sb, "  rpc Call%d(%sM0) returns (%sM0);\n", i, a, b)
			} else if rng.Bool() {
				fmt.Fprintf(sb, "  rpc Call%d(%sM0) returns (%s.gen.M0) {}\n", i, a, b)
			} else {
				fmt.Fprintf(sb, "  rpc Call%d(%sM0) returns (%sM0) {\n    option deprecated = true;\n    option idempotency_level = IDEMPOTENT;\n  }\n", i, a, b)
			}
		}
		sb.WriteString("}\n")
	}
	if g.opts {
		// the option schema itself
		l := "optional "
		if g.syntax == "proto3" || g.syntax == "2023" {
			l = ""
		}
		rl := "repeated "
		sb.WriteString("\nenum OptEnum {\n  OA = 0;\n  OB = 1;\n}\n")
		fmt.Fprintf(sb, "message Opt {\n  %sint32 a = 1;\n  %sstring s = 2;\n  %sint32 r = 3;\n  %sOpt sub = 4;\n  %sOpt subs = 5;\n  %sOptEnum e = 6;\n  %sdouble f = 7;\n}\n", l, l, rl, l, rl, l, l)
		x := "optional "
		if g.syntax == "proto3" {
			x = "optional "
		} else if g.syntax == "2023" {
			x = ""
		}
		fmt.Fprintf(sb, "extend google.protobuf.FileOptions {\n  %sOpt fileopt = 50001;\n  repeated int32 zrep = 50002;\n  repeated string arep = 50003;\n}\n", x)
		fmt.Fprintf(sb, "extend google.protobuf.FieldOptions {\n  %sOpt fopt = 50001;\n  repeated int32 frep = 50002;\n  %sstring fstr = 50003;\n}\n", x, x)
		fmt.Fprintf(sb, "extend google.protobuf.MessageOptions { %sOpt mopt = 50001; }\n", x)
		fmt.Fprintf(sb, "extend google.protobuf.EnumValueOptions { %sOpt vopt = 50001; }\n", x)
		fmt.Fprintf(sb, "extend google.protobuf.ServiceOptions { %sOpt sopt = 50001; }\n", x)
		fmt.Fprintf(sb, "extend google.protobuf.ExtensionRangeOptions { %sstring xopt = 50001; }\n", x)
	}
	if rng.Chance(0.2) {
		sb.WriteString("\n// Trailing file comment.\n")
	}
	s := sb.String()
	if rng.Chance(0.1) {
		s = strings.TrimRight(s, "\n")
	}
	return s
}

// handLayouts are hand-written layout stress files (tight trailing comments,
// comments inside paths and compact options, long lines, empty bodies, nested
// literals, repeated options whose order matters).
var handLayouts = []namedSource{
	{"tight-trailing-comments", `syntax = "proto2"; // after syntax
package hand.a; // after package
import "google/protobuf/descriptor.proto"; // after import
option java_package = "x"; // after option
message M { // after open
  optional int32 a = 1; // after field
  optional int32 b = 2 [deprecated = true]; // after options
  optional int32 c = 3 [ // inside compact options
    deprecated = true // after value
  ]; // after close
  optional M // after type
    d = 4;
  optional // after label
    int32 e = 5;
  optional int32 f // after name
    = 6;
  optional int32 g = // after equals
    7;
  optional int32 h = 8 // before semicolon
  ;
  enum E { // after enum open
    A = 0; // after value
    B = 1 // before semi
    ;
  } // after enum close
  oneof o { // after oneof open
    int32 x = 10; // in oneof
  } // after oneof close
  extensions 100 to 200; // after extensions
  reserved 300, // after comma
    301; // after reserved
} // after message close
extend M { // after extend open
  optional int32 ext = 100; // after ext field
} // after extend close
service S { // after service open
  rpc R(M) returns (M); // after rpc
  rpc Q(M) // after input
    returns (M) { // after rpc open
    option deprecated = true; // after rpc option
  } // after rpc close
} // after service close
// at EOF`},
	{"comments-in-paths", `syntax = "proto3";
package /* a */ hand /* b */ . /* c */ b /* d */ ;
import /* i */ "google/protobuf/descriptor.proto" /* j */ ;
extend google . protobuf /* x */ . FieldOptions { Opt /* t */ o = 50001; }
message Opt { int32 a = 1; string s = 2; repeated int32 r = 3; Opt sub = 4; }
message M {
  hand . b . /* in type */ Opt f = 1 [ /* lead */ ( hand . b . o ) /* mid */ . a /* pre-eq */ = /* post-eq */ 1 /* trail */ ];
  . hand . b . Opt g = 2 [(o).s = "x" /* before comma */ , /* after comma */ (o).r = 1, (o).r = 2];
  int32 h = 3 [(o) = { /* lit lead */ a: 1 /* after a */ s: "x" /* after s */ sub { /* in sub */ a: 2 } /* lit trail */ }];
  int32 i = 4 [json_name = /* c */ "I"];
}`},
	{"long-lines", `syntax = "proto3";
package hand.c;
import "google/protobuf/descriptor.proto";
extend google.protobuf.FieldOptions { string note = 50001; repeated string notes = 50002; Lit lit = 50003; }
message Lit { int32 a = 1; repeated Lit subs = 2; string s = 3; repeated int32 r = 4; }
message VeryLongMessageNameThatGoesOnAndOnAndOnAndOnAndOnAndOnAndOnAndOnAndOnAndOnAndOnAndOnAndOnAndOnAndOnAndOn { int32 a_field_with_a_rather_long_name_to_push_the_line_over_the_limit = 1 [(note) = "a string that is long enough to push this line well over one hundred columns, which is the default maximum width", (notes) = "one", (notes) = "two", deprecated = true, json_name = "aFieldWithARatherLongNameToPushTheLineOverTheLimit"]; int32 b = 2 [(lit) = { a: 1 subs: [{ a: 2 subs: [{ a: 3 s: "deep" r: [1, 2, 3, 4, 5, 6, 7, 8, 9, 10, 11, 12, 13, 14, 15, 16, 17, 18, 19, 20, 21, 22, 23, 24, 25, 26, 27, 28, 29, 30] }] }, { a: 4 }] s: "x" }]; }
service VeryLongServiceName { rpc AVeryLongMethodNameThatAlsoPushesTheLine(VeryLongMessageNameThatGoesOnAndOnAndOnAndOnAndOnAndOnAndOnAndOnAndOnAndOnAndOnAndOnAndOnAndOnAndOnAndOn) returns (stream VeryLongMessageNameThatGoesOnAndOnAndOnAndOnAndOnAndOnAndOnAndOnAndOnAndOnAndOnAndOnAndOnAndOnAndOnAndOn) { option deprecated = true; } }
`},
	{"empty-bodies", `syntax = "proto2";
package hand.d;
message A {}
message B {
}
message C { }
message D { /* only a comment */ }
message E {
  // only a line comment
}
message F {;}
enum G { G0 = 0; }
service H {}
service I { rpc R(A) returns (B) {} rpc S(A) returns (B) { } rpc T(A) returns (B) {
} }
message J { extensions 1 to 10; }
extend J { optional int32 jx = 1; }
message K { oneof o { int32 a = 1; } }
`},
	{"nested-literals", `syntax = "proto3";
package hand.e;
import "google/protobuf/descriptor.proto";
import "google/protobuf/any.proto";
message Lit { int32 a = 1; repeated Lit subs = 2; string s = 3; repeated int32 r = 4; Lit sub = 5; google.protobuf.Any any = 6; map<string, int32> m = 7; }
extend google.protobuf.FileOptions { Lit flit = 50001; repeated Lit flits = 50002; }
extend google.protobuf.MessageOptions { Lit mlit = 50001; }
option (flit) = {
  a: 1,
  subs: [ { a: 2; subs { a: 3 } subs: { a: 4 } }, { } ],
  s: "con" "cat"
     'enated',
  r: [ ],
  r: [ 1 ],
  r: 2
  sub < a: 5 sub: < a: 6 > >
  any { [type.googleapis.com/hand.e.Lit] { a: 7 } }
  m { key: "k" value: 1 }
  m: [ { key: "l", value: 2 } ]
};
option (flits) = { a: 2 };
option (flits) = { a: 1 };
option (flits) = { a: 3 subs: [] };
message M {
  option (mlit) = { a: -1 r: [ -1, - 2 ] s: "x" };
  option (mlit).subs = { a: 9 };
  option (mlit).subs = { a: 8 };
}
`},
	{"option-order", `syntax = "proto2";
package hand.f;
import "google/protobuf/timestamp.proto";
import public "google/protobuf/duration.proto";
import "google/protobuf/descriptor.proto";
import weak "google/protobuf/any.proto";
message UsesAll { optional google.protobuf.Timestamp t = 1; optional google.protobuf.Duration d = 2; }
option (rep) = "b";
option java_package = "z";
option (rep) = "a";
option (m).y = 2;
option cc_enable_arenas = true;
option (m).x = 1;
option (rep) = "c";
option (m).rs = 3;
option (m).rs = 1;
option (m).rs = 2;
message O { optional int32 x = 1; optional int32 y = 2; repeated int32 rs = 3; }
extend google.protobuf.FileOptions { repeated string rep = 50001; optional O m = 50002; }
`},
	{"blank-lines-and-eof", "syntax = \"proto3\";\n\n\n\npackage hand.g;\n\n\nmessage A {\n\n\n  int32 a = 1;\n\n\n\n  int32 b = 2;\n\n}\n\n\n\nmessage B {}\n\n\n"},
	{"no-final-newline", "syntax = \"proto3\";\npackage hand.h;\nmessage A { int32 a = 1; }"},
	{"crlf", "syntax = \"proto3\";\r\npackage hand.i;\r\n\r\n// comment\r\nmessage A {\r\n  int32 a = 1; // trailing\r\n}\r\n"},
	{"tabs-and-odd-space", "syntax\t=\t\"proto3\"\t;\npackage\thand.j ;\nmessage  A\t{\n\tint32\ta\t=\t1\t;\n\t\tint32 b=2;int32 c=3 ; }\n"},
	{"block-comment-shapes", `syntax = "proto3";
package hand.k;
/* one-line block */
/*
 * starred
 * block
 */
/**
   doc block without stars
     indented more
*/
message A {
  /* leading block */ int32 a = 1; /* trailing block */
  int32 b = 2; /* trailing
                  multi-line block */
  /* before close */
}
/* x */ /* y */ message B {} /* z */
`},
	{"groups-and-defaults", `syntax = "proto2";
package hand.l;
message A {
  optional group G = 1 { optional int32 x = 1; }
  repeated group H = 2 [deprecated = true] {
    optional string s = 1 [default = "a\"b" 'c'];
    optional bytes b = 2 [default = "\000\xFF\377"];
    optional double d = 3 [default = -inf];
    optional float f = 4 [default = 1e-5];
    optional sint32 i = 5 [default = -0x10];
    optional E e = 6 [default = E1];
  }
  enum E { E0 = 0; E1 = 1; EN = -1; }
  extensions 100 to max;
  reserved 50 to 60, 70;
  reserved "foo", "bar";
}
`},
}
