package explex

import (
	"fmt"
	"os"
	"strings"
	"testing"

	"github.com/bufbuild/protocompile/experimental/ast/printer"
	"github.com/bufbuild/protocompile/experimental/seq"
)

func TestProbe(t *testing.T) {
	b, err := os.ReadFile(os.Getenv("P_FILE"))
	if err != nil {
		t.Skip()
	}
	for _, text := range strings.Split(string(b), "\n-----\n") {
		o := parseText("x.proto", text)
		fmt.Printf("IN   %q\n  ok=%v ice=%d err=%d warn=%d panic=%v\n", text, o.OK, o.NICE, o.NErr, o.NWarn, o.Panic)
		for i := range o.Report.Diagnostics {
			d := &o.Report.Diagnostics[i]
			fmt.Printf("    diag L%d %q\n", d.Level(), d.Message())
		}
		if o.Panic != nil {
			continue
		}
		n := 0
		for tok := range o.File.Stream().All() {
			if !tok.IsSynthetic() {
				n++
			}
		}
		fmt.Printf("  tokens=%d\n", n)
		got, _ := printer.PrintFile(printer.Options{}, o.File)
		fmt.Printf("  RT   %q same=%v classes=%v\n", got, got == text, classNames(diffClasses(text, got, false, false)))
		var sb strings.Builder
		for d := range seq.Values(o.File.Decls()) {
			sb.WriteString(printer.Print(printer.Options{}, d))
		}
		fmt.Printf("  CONCAT %q\n", sb.String())
		for _, p := range []struct {
			n string
			f printer.Formatting
		}{{"default", printer.Default()}, {"legacy", printer.Legacy()}} {
			f1, _ := printer.PrintFile(printer.Options{Format: true, Formatting: p.f}, o.File)
			o2 := parseText("x.proto", f1)
			f2 := ""
			if o2.Panic == nil {
				f2, _ = printer.PrintFile(printer.Options{Format: true, Formatting: p.f}, o2.File)
			}
			_, cerr := compileStable(map[string]string{"x.proto": f1}, "x.proto")
			fmt.Printf("  FMT %s %q idem=%v compile_err=%v\n", p.n, f1, f1 == f2, cerr)
			if f1 != f2 {
				fmt.Printf("  FMT2 %s %q\n", p.n, f2)
			}
		}
	}
}
