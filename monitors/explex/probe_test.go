package explex

import (
	"fmt"
	"os"
	"strings"
	"testing"
	"time"

	"github.com/bufbuild/protocompile/experimental/ast/printer"
	"github.com/bufbuild/protocompile/experimental/seq"
)

func TestProbe(t *testing.T) {
	cs, err := corpus()
	if err != nil {
		t.Fatal(err)
	}
	t0 := time.Now()
	var bytes int
	nok, nerrfree, rtbad, concatbad := 0, 0, 0, 0
	for _, c := range cs {
		o := parseText(c.Name, c.Text)
		bytes += len(c.Text)
		if o.Panic != nil {
			fmt.Println("PANIC", c.Name, o.Panic)
			continue
		}
		if o.NICE > 0 {
			fmt.Println("ICE", c.Name)
		}
		if o.OK {
			nok++
		}
		if o.NErr == 0 && o.NICE == 0 {
			nerrfree++
			if !o.OK {
				if os.Getenv("P_OK") != "" {
					fmt.Println("OK=false without errors:", c.Name, o.NWarn, o.NRemark)
				}
			}
			got, err := printer.PrintFile(printer.Options{}, o.File)
			if err != nil {
				fmt.Println("PrintFile err", c.Name, err)
			}
			if got != c.Text {
				rtbad++
				if os.Getenv("P_RT") != "" {
					i := 0
					for i < len(got) && i < len(c.Text) && got[i] == c.Text[i] {
						i++
					}
					lo := max(0, i-30)
					fmt.Printf("RT %s at %d: want %q got %q\n", c.Name, i, c.Text[lo:min(len(c.Text), i+30)], got[lo:min(len(got), i+30)])
				}
			}
			var sb strings.Builder
			for d := range seq.Values(o.File.Decls()) {
				sb.WriteString(printer.Print(printer.Options{}, d))
			}
			cc := sb.String()
			if !strings.HasPrefix(c.Text, cc) {
				concatbad++
				if os.Getenv("P_CC") != "" {
					i := 0
					for i < len(cc) && i < len(c.Text) && cc[i] == c.Text[i] {
						i++
					}
					lo := max(0, i-30)
					fmt.Printf("CC %s at %d: want %q got %q\n", c.Name, i, c.Text[lo:min(len(c.Text), i+30)], cc[lo:min(len(cc), i+30)])
				}
			} else if os.Getenv("P_CS") != "" {
				fmt.Printf("CS %s suffix %q\n", c.Name, c.Text[len(cc):])
			}
		}
	}
	fmt.Println("files", len(cs), "bytes", bytes, "ok", nok, "errfree", nerrfree, "rtbad", rtbad, "concatbad", concatbad, "elapsed", time.Since(t0))
}
