package explex

// C28 — the experimental parser is total.
//
// For any byte string: parser.Parse returns (no panic escapes, no fatal
// error), no diagnostic of level ICE is produced, `ok` is true exactly when
// no diagnostic of level Error (or ICE) was produced, and every snippet span
// of every diagnostic lies inside the parsed file (0 <= start <= end <=
// len(text), and the span's file is the parsed file).

import (
	"bufio"
	"bytes"
	"encoding/json"
	"fmt"
	"os"
	"os/exec"
	"path/filepath"
	"regexp"
	"runtime/debug"
	"sort"
	"strings"
	"sync"
	"syscall"
	"testing"

	"github.com/bufbuild/protocompile/experimental/report"
	"github.com/bufbuild/protocompile/internal/verifmon/vlib"
)

const c28Path = "hostile/c28.proto"

type hostileCase struct {
	ID     string
	Family string
	Text   string
}

// hostileChunk is a coarse group of cases, generated lazily.
type hostileChunk struct {
	ID  string
	Gen func() []hostileCase
}

func levelName(l report.Level) string {
	switch l {
	case report.ICE:
		return "ICE"
	case report.Error:
		return "Error"
	case report.Warning:
		return "Warning"
	case report.Remark:
		return "Remark"
	}
	return fmt.Sprintf("Level(%d)", int(l))
}

// c28Verdicts evaluates the C28 oracle on one input and reports violations
// through emit (kind, sig, witness).
func c28Verdicts(path, text string, emit func(kind, sig string, witness map[string]any)) (o *parseOutcome) {
	o = parseText(path, text)
	w := func(extra map[string]any) map[string]any {
		m := map[string]any{"path": path, "text": witnessText(text), "len": len(text)}
		for k, v := range extra {
			m[k] = v
		}
		return m
	}
	if o.Panic != nil {
		emit("parse.panic", "panic escapes parser.Parse at "+vlib.PanicSite(o.Stack)+": "+normMsg(fmt.Sprint(o.Panic)),
			w(map[string]any{"panic": fmt.Sprint(o.Panic), "stack": clip(o.Stack, 4000)}))
		return o
	}
	// ICE diagnostics.
	for i := range o.Report.Diagnostics {
		d := &o.Report.Diagnostics[i]
		if d.Level() == report.ICE {
			note := ""
			if n := d.Notes(); len(n) > 0 {
				note = n[0]
			}
			emit("parse.ice", "ICE diagnostic: "+normMsg(note)+" at "+iceSite(d),
				w(map[string]any{"message": d.Message(), "notes": d.Notes(), "debug": clip(strings.Join(d.Debug(), "\n"), 4000)}))
		}
	}
	// ok <=> no diagnostic of level Error or ICE.
	want := o.NErr == 0 && o.NICE == 0
	if o.OK != want {
		var present []string
		if o.NICE > 0 {
			present = append(present, "ICE")
		}
		if o.NErr > 0 {
			present = append(present, "Error")
		}
		if o.NWarn > 0 {
			present = append(present, "Warning")
		}
		if o.NRemark > 0 {
			present = append(present, "Remark")
		}
		var msgs []string
		for i := range o.Report.Diagnostics {
			msgs = append(msgs, levelName(o.Report.Diagnostics[i].Level())+": "+o.Report.Diagnostics[i].Message())
			if len(msgs) >= 8 {
				break
			}
		}
		emit("parse.ok-mismatch", fmt.Sprintf("ok=%v; diagnostic levels present={%s}", o.OK, strings.Join(present, "+")),
			w(map[string]any{"ok": o.OK, "errors": o.NErr, "ices": o.NICE, "warnings": o.NWarn, "remarks": o.NRemark, "diagnostics": msgs}))
	}
	// Spans: every snippet of every diagnostic.
	n := len(text)
	for i := range o.Report.Diagnostics {
		d := &o.Report.Diagnostics[i]
		sn, err := snippetsOf(d)
		if err != nil {
			emit("inconclusive", err.Error(), nil)
			return o
		}
		for si, s := range sn {
			bad := ""
			switch {
			case s.Span.File != o.Src:
				bad = "snippet in a different file"
			case s.Span.Start < 0:
				bad = "start < 0"
			case s.Span.Start > s.Span.End:
				bad = "start > end"
			case s.Span.End > n:
				bad = "end > len(text)"
			}
			if bad == "" {
				for _, e := range s.Edits {
					if e.Start < 0 || e.Start > e.End || s.Span.Start+e.End > n {
						bad = "suggested edit outside the file"
					}
				}
			}
			if bad != "" {
				emit("parse.span", bad+": "+levelName(d.Level())+" "+normMsg(d.Message()),
					w(map[string]any{"message": d.Message(), "snippet_index": si, "start": s.Span.Start, "end": s.Span.End, "snippet_path": s.Span.Path(), "primary": s.Primary, "edits": s.Edits}))
			}
		}
	}
	return o
}

// hostileChunks builds the chunked case list of the byte-level hostile
// families. prefix separates the case ids (and therefore the random streams)
// of the monitors that share it; div scales the random families down.
func hostileChunks(r *vlib.Run, prefix string, cs []namedSource, div int) []hostileChunk {
	var chunks []hostileChunk
	add := func(id string, gen func() []hostileCase) {
		chunks = append(chunks, hostileChunk{ID: id, Gen: gen})
	}
	pickOther := func(rng *vlib.RNG) string { return cs[rng.Intn(len(cs))].Text }

	// 1. corpus files as they are.
	for lo := 0; lo < len(cs); lo += 25 {
		lo := lo
		add(fmt.Sprintf(prefix+"/corpus/%d", lo), func() []hostileCase {
			var out []hostileCase
			for i := lo; i < len(cs) && i < lo+25; i++ {
				out = append(out, hostileCase{fmt.Sprintf(prefix+"/corpus/%d/%s", lo, cs[i].Name), "corpus", cs[i].Text})
			}
			return out
		})
	}

	// 2. truncations at every byte offset.
	{
		rng := r.Rng(prefix + "/trunc-select")
		var small, large []int
		limit := r.N(3000, 12000)
		for i, c := range cs {
			if len(c.Text) <= limit {
				small = append(small, i)
			} else {
				large = append(large, i)
			}
		}
		if r.Quick() {
			vlib.Shuffle(rng, small)
			if len(small) > 120/div {
				small = small[:120/div]
			}
			sort.Ints(small)
		} else if div > 1 {
			vlib.Shuffle(rng, small)
			small = small[:len(small)/div]
			sort.Ints(small)
		}
		for _, fi := range small {
			c := cs[fi]
			for lo := 0; lo <= len(c.Text); lo += 400 {
				lo := lo
				add(fmt.Sprintf(prefix+"/trunc/%s/%d", c.Name, lo), func() []hostileCase {
					var out []hostileCase
					for k := lo; k <= len(c.Text) && k < lo+400; k++ {
						out = append(out, hostileCase{fmt.Sprintf(prefix+"/trunc/%s/%d/%d", c.Name, lo, k), "truncation", c.Text[:k]})
					}
					return out
				})
			}
		}
		nOff := r.N(150, 1500)
		if r.Quick() && len(large) > 12 {
			vlib.Shuffle(rng, large)
			large = large[:12]
			sort.Ints(large)
		}
		for _, fi := range large {
			c := cs[fi]
			add(fmt.Sprintf(prefix+"/trunc-sampled/%s", c.Name), func() []hostileCase {
				rg := r.Rng(prefix + "/trunc-sampled/" + c.Name)
				var out []hostileCase
				for k := 0; k < nOff; k++ {
					off := rg.Intn(len(c.Text) + 1)
					out = append(out, hostileCase{fmt.Sprintf(prefix+"/trunc-sampled/%s/%d", c.Name, k), "truncation", c.Text[:off]})
				}
				return out
			})
		}
	}

	// generic random families
	type fam struct {
		name   string
		n      int
		per    int
		gen    func(rng *vlib.RNG) string
		family string
	}
	fams := []fam{
		{"mutant", r.N(80000, 600000), 200, func(rng *vlib.RNG) string {
			base := cs[rng.Intn(len(cs))].Text
			if len(base) > 6000 {
				a := rng.Intn(len(base) - 3000)
				base = base[a : a+rng.Range(200, 3000)]
			}
			k := 1
			if rng.Chance(0.5) {
				k = rng.Range(2, 12)
			}
			return mutate(rng, base, k, pickOther(rng))
		}, "mutant"},
		{"random", r.N(30000, 200000), 300, func(rng *vlib.RNG) string {
			n := rng.Intn(12)
			if rng.Chance(0.6) {
				n = rng.Intn(300)
			}
			return randBytes(rng, n, rng.Intn(4))
		}, "random-bytes"},
		{"soup", r.N(30000, 200000), 300, func(rng *vlib.RNG) string {
			return tokenSoup(rng, rng.Range(1, 60))
		}, "token-soup"},
		{"kwsoup", r.N(20000, 150000), 200, func(rng *vlib.RNG) string {
			return keywordSoup(rng, rng.Range(1, 12))
		}, "keyword-soup"},
		{"cel", r.N(20000, 150000), 200, func(rng *vlib.RNG) string {
			s := celSoup(rng)
			if rng.Chance(0.2) {
				s = mutate(rng, s, rng.Range(1, 3), "")
			}
			return s
		}, "cel-soup"},
		{"tailjunk", r.N(6000, 60000), 200, func(rng *vlib.RNG) string {
			// a fragment that ends right after a token, then characters the lexer
			// does not recognise, at the very end of the input
			var base string
			switch rng.Intn(4) {
			case 0:
				base = cs[rng.Intn(len(cs))].Text
				if len(base) > 400 {
					base = base[:rng.Range(1, 400)]
				}
			case 1:
				base = keywordSoup(rng, rng.Range(1, 3))
			case 2:
				base = tokenSoup(rng, rng.Range(1, 8))
			default:
				base = []string{"a", "Z", "message M {}", "x = 1", "\"s\"", "1", "(", "{", "]", "a.b", "// c\n", "/* c */", " "}[rng.Intn(13)]
			}
			if rng.Bool() {
				base = strings.TrimRight(base, " \n\t")
			}
			junk := []string{"\\", "^", "\u00bf", "\x00", "`", "&", "|", "~", "#", "$", "@", "\u200b", "\u00a0x"[0:2], "\x7f", "%", "!"}
			n := rng.Range(1, 3)
			for i := 0; i < n; i++ {
				base += junk[rng.Intn(len(junk))]
			}
			return base
		}, "trailing-junk"},
		{"warn", r.N(4000, 30000), 200, func(rng *vlib.RNG) string {
			s, _ := warningOnly(rng)
			return s
		}, "warning-only"},
		{"encoding", r.N(10000, 80000), 200, func(rng *vlib.RNG) string {
			base := cs[rng.Intn(len(cs))].Text
			if len(base) > 1500 {
				base = base[:rng.Range(1, 1500)]
			}
			switch rng.Intn(8) {
			case 0:
				return "\xef\xbb\xbf" + base
			case 1:
				return "\xfe\xff" + base
			case 2:
				return "\xff\xfe" + base
			case 3: // UTF-16-ish
				var sb strings.Builder
				for i := 0; i < len(base) && i < 200; i++ {
					sb.WriteByte(base[i])
					sb.WriteByte(0)
				}
				return sb.String()
			case 4: // a few invalid bytes (< 20 %)
				b := []byte(base)
				for k := rng.Range(1, 3); k > 0 && len(b) > 0; k-- {
					b[rng.Intn(len(b))] = byte(0x80 + rng.Intn(0x80))
				}
				return string(b)
			case 5: // many invalid bytes (> 20 %)
				b := []byte(base)
				for i := range b {
					if rng.Chance(0.4) {
						b[i] = byte(0x80 + rng.Intn(0x80))
					}
				}
				return string(b)
			case 6: // NULs
				b := []byte(base)
				for k := rng.Range(1, 4); k > 0 && len(b) > 0; k-- {
					b[rng.Intn(len(b))] = 0
				}
				return string(b)
			default: // non-ASCII identifiers and odd whitespace
				repl := []string{"é", "日本", "\u0301", " ", " ", "\u200e", "\ufeff", "\u0085", "\r", "\f", "\v"}
				b := base
				for k := rng.Range(1, 4); k > 0 && len(b) > 0; k-- {
					p := rng.Intn(len(b))
					b = b[:p] + repl[rng.Intn(len(repl))] + b[p:]
				}
				return b
			}
		}, "encoding"},
	}
	for _, f := range fams {
		f := f
		f.n = max(f.per, f.n/div)
		for lo := 0; lo < f.n; lo += f.per {
			lo := lo
			id := fmt.Sprintf(prefix+"/%s/%d", f.name, lo)
			add(id, func() []hostileCase {
				var out []hostileCase
				for k := lo; k < f.n && k < lo+f.per; k++ {
					cid := fmt.Sprintf("%s/%d", id, k)
					out = append(out, hostileCase{cid, f.family, f.gen(r.Rng(cid))})
				}
				return out
			})
		}
	}

	// shallow nesting shapes (deep ones run isolated, see c28Deep).
	add(prefix+"/nest-shallow/0", func() []hostileCase {
		var out []hostileCase
		for _, s := range deepShapes {
			for _, d := range []int{0, 1, 2, 3, 5, 17, 31, 32, 33, 64, 101, 300, 1000} {
				for _, closed := range []bool{true, false} {
					out = append(out, hostileCase{fmt.Sprintf(prefix+"/nest-shallow/0/%s/%d/%v", s.Name, d, closed), "nesting", s.build(d, closed)})
				}
			}
		}
		return out
	})

	// pluggable extra sources (e.g. the shared schema generator).
	for _, src := range extraSources {
		src := src
		add(prefix+"/extra/"+src.Name, func() []hostileCase {
			var out []hostileCase
			for _, s := range src.Gen(r.Rng(prefix+"/extra/"+src.Name), r.N(200, 2000)) {
				out = append(out, hostileCase{prefix + "/extra/" + src.Name + "/" + s.Name, "extra", s.Text})
			}
			return out
		})
	}
	return chunks
}

// ---------------------------------------------------------------------------
// Deep nesting runs in a grandchild process: a Go stack exhaustion is a fatal
// error that cannot be recovered, and it must be attributed to one input
// instead of losing the whole batch.

type deepCase struct {
	ID     string `json:"id"`
	Shape  int    `json:"shape"`
	Depth  int    `json:"depth"`
	Closed bool   `json:"closed"`
	// Literal, when set, is the input itself (resource-attack inputs) and
	// Shape/Depth/Closed are unused.
	Literal string `json:"literal,omitempty"`
}

func (c deepCase) text() string {
	if c.Literal != "" {
		return c.Literal
	}
	return deepShapes[c.Shape].build(c.Depth, c.Closed)
}

func (c deepCase) describe() map[string]any {
	if c.Literal != "" {
		return map[string]any{"literal": c.Literal}
	}
	return map[string]any{"shape": deepShapes[c.Shape].Name, "depth": c.Depth, "closed": c.Closed}
}

// isoMemLimit is the address-space limit of the isolated grandchild. It turns
// "a 12-byte input makes the lexer compute 10^999999999" into a deterministic
// event (fatal error: out of memory) instead of minutes of CPU; no input of the
// isolated list legitimately needs a fraction of it.
const isoMemLimit = 1280 << 20 // the Go runtime of this binary needs ~1 GiB of address space by itself

// reHugeExponent matches numeric literals whose exponent has 7 or more digits.
// The lexer materialises such numbers as big integers (10^exponent), which
// takes minutes and gigabytes from 10^8 upward. Inputs containing one are not
// run in-process by the random families (class "deferred:huge-exponent"); the
// behaviour is decided on the dedicated literal inputs of the isolated list.
var reHugeExponent = regexp.MustCompile(`[0-9.][eEpP][+-]?[0-9]{7,}`)

type isoViolation struct {
	Kind    string         `json:"kind"`
	Sig     string         `json:"sig"`
	Witness map[string]any `json:"witness"`
}

const isoEnv = "VERIF_C28_ISOLATED"

// c28IsolatedMain is the body of the grandchild: run the listed cases one by
// one, framing each with BEGIN/END lines on stdout.
func c28IsolatedMain(listFile string) {
	// The Go default (1 GiB on 64-bit) made explicit: exhausting it on an input
	// of a few hundred kilobytes is what a user of the library would see too.
	debug.SetMaxStack(1 << 30)
	if os.Getenv(isoEnv+"_LIMIT") != "" {
		lim := syscall.Rlimit{Cur: isoMemLimit, Max: isoMemLimit}
		if err := syscall.Setrlimit(syscall.RLIMIT_AS, &lim); err != nil {
			fmt.Println("C28ISO ERROR setrlimit:", err)
			os.Exit(3)
		}
	}
	b, err := os.ReadFile(listFile)
	if err != nil {
		fmt.Println("C28ISO ERROR", err)
		os.Exit(3)
	}
	var cases []deepCase
	if err := json.Unmarshal(b, &cases); err != nil {
		fmt.Println("C28ISO ERROR", err)
		os.Exit(3)
	}
	out := bufio.NewWriter(os.Stdout)
	for i, c := range cases {
		fmt.Fprintf(out, "C28ISO BEGIN %d\n", i)
		out.Flush()
		text := c.text()
		o := c28Verdicts(c28Path, text, func(kind, sig string, w map[string]any) {
			if w == nil {
				w = map[string]any{}
			}
			desc := c.describe()
			desc["prefix"] = clip(text, 300)
			w["text"] = desc
			vb, _ := json.Marshal(isoViolation{kind, sig, w})
			fmt.Fprintf(out, "C28ISO VIOL %s\n", vb)
		})
		fmt.Fprintf(out, "C28ISO END %d diags=%d\n", i, len(o.Report.Diagnostics))
		out.Flush()
	}
	fmt.Fprintln(out, "C28ISO DONE")
	out.Flush()
}

var fatalLine = func(stderr string) string {
	for _, l := range strings.Split(stderr, "\n") {
		if strings.HasPrefix(l, "fatal error:") || strings.HasPrefix(l, "panic:") || strings.HasPrefix(l, "runtime: goroutine stack exceeds") {
			return strings.TrimSpace(l)
		}
	}
	return "process died"
}

func c28Deep(r *vlib.Run) {
	depths := []int{3000, 10000}
	if !r.Quick() {
		depths = append(depths, 30000, 100000)
	}
	var all []deepCase
	for si, s := range deepShapes {
		for _, d := range depths {
			for _, closed := range []bool{true, false} {
				if !closed && s.Close == "" {
					continue
				}
				all = append(all, deepCase{ID: fmt.Sprintf("c28/deep/%s/%d/%v", s.Name, d, closed), Shape: si, Depth: d, Closed: closed})
			}
		}
	}
	// Resource attacks: tiny inputs with astronomically large exponents. (Observed
	// but not listed because they take minutes without dying: 1e99999999 finishes
	// after ~50 s, 1e-999999999 runs for more than 90 s; 0x1p999999999 needs 125 MB
	// and finishes in seconds without the limit.)
	for i, lit := range []string{"1e999999999", "x = 1e2147483647;", "1.5E+999999999", ".1e999999999", "1e9999999"} {
		all = append(all, deepCase{ID: fmt.Sprintf("c28/huge-exponent/%d", i), Literal: lit})
	}
	var shapes, literals []deepCase
	for i, c := range all {
		if r.Mine(i) && r.Want(c.ID) {
			if c.Literal != "" {
				literals = append(literals, c)
			} else {
				shapes = append(shapes, c)
			}
		}
	}
	c28Isolated(r, shapes, false)
	c28Isolated(r, literals, true)
}

// c28Isolated runs cases in grandchild processes; limited = with the address
// space limit isoMemLimit.
func c28Isolated(r *vlib.Run, mine []deepCase, limited bool) {
	if len(mine) == 0 {
		return
	}
	exe, err := os.Executable()
	if err != nil {
		r.Inconclusive("deep nesting: cannot find own executable: " + err.Error())
		return
	}
	isoDir := filepath.Join(r.OutDir, fmt.Sprintf("c28iso.%d.%v", r.Batch, limited))
	_ = os.MkdirAll(isoDir, 0o755)
	defer os.RemoveAll(isoDir)
	for len(mine) > 0 {
		list := filepath.Join(isoDir, "list.json")
		b, _ := json.Marshal(mine)
		if err := os.WriteFile(list, b, 0o644); err != nil {
			r.Inconclusive("deep nesting: " + err.Error())
			return
		}
		cmd := exec.Command(exe, "-test.run", "^TestC28$", "-test.count=1", "-test.timeout=0")
		cmd.Env = append(os.Environ(), isoEnv+"="+list, "GOTRACEBACK=single")
		if limited {
			cmd.Env = append(cmd.Env, isoEnv+"_LIMIT=1")
		}
		var stdout, stderr bytes.Buffer
		cmd.Stdout, cmd.Stderr = &stdout, &stderr
		runErr := cmd.Run()
		begun, ended, done := -1, -1, false
		for _, l := range strings.Split(stdout.String(), "\n") {
			switch {
			case strings.HasPrefix(l, "C28ISO BEGIN "):
				fmt.Sscanf(l, "C28ISO BEGIN %d", &begun)
			case strings.HasPrefix(l, "C28ISO END "):
				fmt.Sscanf(l, "C28ISO END %d", &ended)
				c := mine[ended]
				r.Eval(c.ID)
				r.Class("family:isolated")
			case strings.HasPrefix(l, "C28ISO VIOL "):
				var v isoViolation
				if json.Unmarshal([]byte(strings.TrimPrefix(l, "C28ISO VIOL ")), &v) == nil && begun >= 0 && begun < len(mine) {
					if v.Kind == "inconclusive" {
						r.Inconclusive(v.Sig)
						continue
					}
					r.Violation(v.Kind, v.Sig, mine[begun].ID, v.Witness)
				}
			case strings.HasPrefix(l, "C28ISO DONE"):
				done = true
			case strings.HasPrefix(l, "C28ISO ERROR"):
				r.Inconclusive("deep nesting child: " + l)
				return
			}
		}
		if done {
			return
		}
		if begun < 0 || begun >= len(mine) || begun == ended {
			r.Inconclusive(fmt.Sprintf("deep nesting child ended unexpectedly (%v): %s", runErr, clip(stderr.String(), 1500)))
			return
		}
		// The case `begun` killed the process.
		c := mine[begun]
		es := stderr.String()
		r.Eval(c.ID)
		r.Class("family:isolated")
		class := "huge exponent literal"
		if c.Literal == "" {
			class = "deep shape " + deepShapes[c.Shape].Name
		}
		r.Violation("parse.fatal", fatalLine(es)+" at "+vlib.PanicSite(es)+" ["+class+"]", c.ID,
			map[string]any{"input": c.describe(), "input_len": len(c.text()), "address_space_limit": isoMemLimit, "stderr_head": clip(es, 3000)})
		mine = mine[begun+1:]
	}
}

func TestC28(t *testing.T) {
	if lf := os.Getenv(isoEnv); lf != "" {
		c28IsolatedMain(lf)
		return
	}
	r := vlib.Start(t, "C28")
	defer r.Finish()
	r.Extra("rule", "inputs: corpus files; every-byte-offset truncations; byte/token mutants of corpus files; random bytes; token soup over the lexer's full keyword/punctuation vocabulary plus boundary literals; keyword-led statement soup; CEL-like expression soup; warning-only programs; encoding attacks (BOMs, UTF-16, invalid UTF-8, NULs); trailing unrecognised characters; nesting shapes to depth 10 000 (quick) / 100 000 (thorough), the deep ones in an isolated grandchild process; numeric literals with 9-digit exponents in an isolated grandchild with a 1.25 GiB address-space limit (inputs of the random families that contain an exponent of 7+ digits are deferred to those, class deferred:huge-exponent). Each evaluation = one parser.Parse call with a fresh report checked for escaping panic, ICE diagnostics, ok == (no Error/ICE diagnostic), and every snippet span (all snippets, not only the primary one) inside the parsed file object. distinct_nontrivial counts distinct non-empty input texts.")
	r.Extra("assumptions", []string{
		"every snippet of a diagnostic is read by reflection from the unexported field report.Diagnostic.snippets (pure read); if that layout changes the run is inconclusive",
		"a Go fatal error in the isolated grandchild is attributed to the case whose BEGIN line was the last one printed",
		"an out-of-memory death under the 1.25 GiB address-space limit counts as 'did not finish' only for the listed 9-digit-exponent literals, which were also observed to exhaust 2 GiB and 3 GiB limits after minutes of CPU",
	})
	cs, err := corpus()
	if err != nil {
		r.Inconclusive("corpus: " + err.Error())
		return
	}
	chunks := hostileChunks(r, "c28", cs, 1)

	var mu sync.Mutex
	inflight := map[string]bool{}
	note := func() {
		ids := make([]string, 0, len(inflight))
		for k := range inflight {
			ids = append(ids, k)
		}
		sort.Strings(ids)
		r.Begin(strings.Join(ids, ","), map[string]any{"inflight_chunks": ids, "hint": "replay each chunk id with --replay on a file {case_id, seed, tier}"})
	}
	r.Par(len(chunks), func(i int) {
		ch := chunks[i]
		if !r.Want(ch.ID) {
			return
		}
		mu.Lock()
		inflight[ch.ID] = true
		note()
		mu.Unlock()
		for _, c := range ch.Gen() {
			if !r.Want(c.ID) {
				continue
			}
			if reHugeExponent.MatchString(c.Text) {
				r.Class("deferred:huge-exponent")
				continue
			}
			o := c28Verdicts(c28Path, c.Text, func(kind, sig string, w map[string]any) {
				if kind == "inconclusive" {
					r.Inconclusive(sig)
					return
				}
				w["family"] = c.Family
				r.Violation(kind, sig, c.ID, w)
			})
			r.Eval(c.Text)
			r.Class("family:" + c.Family)
			switch {
			case o.Panic != nil:
				r.Class("outcome:panic")
			case o.NICE > 0:
				r.Class("outcome:ice")
			case o.NErr > 0:
				r.Class("outcome:errors")
			case o.NWarn+o.NRemark > 0:
				r.Class("outcome:warnings-only")
				r.Sample("warnings-only", map[string]any{"text": clip(c.Text, 400), "ok": o.OK})
			default:
				r.Class("outcome:clean")
			}
			if preludeRejects(c.Text) {
				r.Class("input:prelude-rejected")
			}
		}
		mu.Lock()
		delete(inflight, ch.ID)
		mu.Unlock()
	})
	c28Deep(r)
}
