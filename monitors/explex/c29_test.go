package explex

// C29 — the experimental lexer's tokens tile the input.
//
// Reached through the real configuration (parser.Parse(...).Stream()). For
// every input that passes the lexer's documented prelude rejection (valid
// UTF-8, no UTF-16 signature; decided here independently of the lexer):
//   - the natural tokens are contiguous from offset 0 to len(text)
//     (LeafSpan.Start == previous End, last End == len(text)),
//   - concatenating their text reproduces the input,
//   - every bracket token ( ) [ ] { } of kind Keyword is either fused with a
//     partner of the matching kind (pairs properly nested), or an Error
//     diagnostic points at it.
// For prelude-rejected inputs only: no panic, no ICE, and either no tokens
// plus an error diagnostic, or a full tiling.

import (
	"fmt"
	"sort"
	"strings"
	"sync"
	"testing"

	"github.com/bufbuild/protocompile/experimental/report"
	"github.com/bufbuild/protocompile/experimental/token"
	"github.com/bufbuild/protocompile/internal/verifmon/vlib"
)

const c29Path = "hostile/c29.proto"

var bracketPartner = map[string]string{"(": ")", "[": "]", "{": "}", ")": "(", "]": "[", "}": "{"}

func isOpenBracket(s string) bool { return s == "(" || s == "[" || s == "{" }

type c29Result struct {
	Tokens   int
	Brackets int
	Unfused  int
	Prelude  bool
	Errors   int
}

// c29Verdicts evaluates the C29 oracle on one input.
func c29Verdicts(text string, emit func(kind, sig string, witness map[string]any)) (res c29Result) {
	o := parseText(c29Path, text)
	res.Prelude = preludeRejects(text)
	res.Errors = o.NErr
	w := func(extra map[string]any) map[string]any {
		m := map[string]any{"text": witnessText(text), "len": len(text), "prelude_rejected": res.Prelude}
		for k, v := range extra {
			m[k] = v
		}
		return m
	}
	if o.Panic != nil {
		emit("lexer.panic", "panic escapes parser.Parse at "+vlib.PanicSite(o.Stack)+": "+normMsg(fmt.Sprint(o.Panic)),
			w(map[string]any{"panic": fmt.Sprint(o.Panic), "stack": clip(o.Stack, 4000)}))
		return res
	}
	// An ICE raised inside the lexer aborts lexing; report it as such (the
	// resulting hole in the tiling is the same event). ICEs raised by the
	// parser proper belong to C28.
	for i := range o.Report.Diagnostics {
		d := &o.Report.Diagnostics[i]
		if d.Level() != report.ICE {
			continue
		}
		inLexer := false
		for _, l := range d.Debug() {
			if strings.Contains(l, "/experimental/internal/lexer.loop(") {
				inLexer = true
			}
		}
		if inLexer {
			note := ""
			if n := d.Notes(); len(n) > 0 {
				note = n[0]
			}
			emit("lexer.ice", "ICE inside the lexer: "+normMsg(note)+" at "+iceSite(d),
				w(map[string]any{"notes": d.Notes(), "debug": clip(strings.Join(d.Debug(), "\n"), 3000)}))
			return res
		}
	}
	if o.File == nil || o.File.Stream() == nil {
		emit("lexer.no-stream", "Parse returned no token stream", w(nil))
		return res
	}
	stream := o.File.Stream()

	// Tiling.
	prevEnd := 0
	var concat strings.Builder
	var nat []token.Token
	tilingBad := ""
	for tok := range stream.All() {
		if tok.IsSynthetic() {
			continue
		}
		nat = append(nat, tok)
		sp := tok.LeafSpan()
		if tilingBad == "" {
			switch {
			case sp.File != o.Src:
				tilingBad = "token span in a different file"
			case sp.Start != prevEnd:
				tilingBad = "token start != previous token end"
			case sp.End < sp.Start:
				tilingBad = "token end < start"
			case sp.End > len(text):
				tilingBad = "token end > len(text)"
			}
			if tilingBad != "" {
				emit("lexer.tiling", tilingBad, w(map[string]any{"token_index": len(nat) - 1, "start": sp.Start, "end": sp.End, "prev_end": prevEnd, "kind": tok.Kind().String()}))
			}
		}
		prevEnd = sp.End
		concat.WriteString(tok.Text())
	}
	res.Tokens = len(nat)
	if res.Prelude && len(nat) == 0 {
		if o.NErr == 0 {
			emit("lexer.prelude", "prelude-rejected input yields no tokens and no error diagnostic", w(nil))
		}
		return res
	}
	if tilingBad == "" {
		if prevEnd != len(text) {
			tail := text[prevEnd:]
			kind := "input tail not covered by any token: tail starts with " + runeClass(tail)
			if tailIsUnrecognizedOnly(tail) {
				kind = "trailing unrecognized characters at the end of the input get no token"
			}
			emit("lexer.tiling", kind, w(map[string]any{"last_end": prevEnd, "tail": witnessText(clip(tail, 200)), "tokens": len(nat), "errors": o.NErr}))
		} else if concat.String() != text {
			emit("lexer.tiling", "concatenated token text differs from the input", w(map[string]any{"concat": witnessText(concat.String())}))
		}
	}

	// Brackets. Error coverage: bytes covered by a snippet of an Error diagnostic.
	var cover []int32 // prefix sums, built lazily
	buildCover := func() bool {
		diff := make([]int32, len(text)+2)
		for i := range o.Report.Diagnostics {
			d := &o.Report.Diagnostics[i]
			if d.Level() != report.Error {
				continue
			}
			sn, err := snippetsOf(d)
			if err != nil {
				emit("inconclusive", err.Error(), nil)
				return false
			}
			for _, s := range sn {
				a, b := s.Span.Start, s.Span.End
				if s.Span.File != o.Src || a < 0 || b > len(text) || a >= b {
					continue
				}
				diff[a]++
				diff[b]--
			}
		}
		cover = make([]int32, len(text)+2)
		var run, acc int32
		for i := 0; i <= len(text); i++ {
			run += diff[i]
			cover[i] = acc // number of covered bytes in [0,i)
			if run > 0 {
				acc++
			}
		}
		cover[len(text)+1] = acc
		return true
	}
	var stack []token.Token // expected closers
	for _, tok := range nat {
		leaf := tok.IsLeaf()
		if !leaf {
			s, e := tok.StartEnd()
			if s == tok {
				stack = append(stack, e)
			} else if e == tok {
				if len(stack) == 0 || stack[len(stack)-1] != tok {
					emit("lexer.bracket", "fused token pairs are not properly nested", w(map[string]any{"close_offset": tok.LeafSpan().Start, "close_text": tok.Text()}))
					return res
				}
				stack = stack[:len(stack)-1]
			}
		}
		if tok.Kind() != token.Keyword {
			continue
		}
		txt := tok.Text()
		partner, isBr := bracketPartner[txt]
		if !isBr {
			continue
		}
		res.Brackets++
		sp := tok.LeafSpan()
		if !leaf {
			s, e := tok.StartEnd()
			other := e
			if e == tok {
				other = s
			}
			ot := other.Text()
			switch {
			case other.IsZero() || other.IsSynthetic():
				emit("lexer.bracket", "bracket `"+txt+"` fused with a zero/synthetic token", w(map[string]any{"offset": sp.Start}))
			case ot == partner && other.Kind() == token.Keyword:
				// matched
				if isOpenBracket(txt) != (s == tok) {
					emit("lexer.bracket", "bracket `"+txt+"` fused on the wrong side of its partner", w(map[string]any{"offset": sp.Start}))
				}
			case isOpenBracket(txt) && s == tok && ot == "" && other.Kind() == token.Unrecognized:
				// unclosed opener fused with an empty end-of-input token: must be diagnosed.
				if cover == nil && !buildCover() {
					return res
				}
				if cover[sp.End]-cover[sp.Start] == 0 {
					emit("lexer.bracket", "unclosed `"+txt+"` (fused with an empty token) without an Error diagnostic pointing at it", w(map[string]any{"offset": sp.Start}))
				}
			default:
				emit("lexer.bracket", "bracket `"+txt+"` fused with `"+clip(ot, 12)+"` ("+other.Kind().String()+")", w(map[string]any{"offset": sp.Start, "partner_offset": other.LeafSpan().Start}))
			}
			continue
		}
		res.Unfused++
		if cover == nil && !buildCover() {
			return res
		}
		if cover[sp.End]-cover[sp.Start] == 0 {
			emit("lexer.bracket", "unfused `"+txt+"` without an Error diagnostic pointing at it", w(map[string]any{"offset": sp.Start, "errors": o.NErr}))
		}
	}
	if len(stack) != 0 {
		emit("lexer.bracket", "fused opener whose closer never appears in the stream", w(map[string]any{"open": len(stack)}))
	}
	return res
}

// tailIsUnrecognizedOnly classifies an uncovered tail (for the violation
// signature only): true when every rune of it, lexed on its own, yields no
// token at all, i.e. the tail consists of characters the lexer does not
// recognise.
func tailIsUnrecognizedOnly(tail string) bool {
	if len(tail) > 256 {
		return false
	}
	for _, rn := range tail {
		// Lexed after `;;;` (so that neither a leading BOM nor the prelude's
		// look at the first two bytes is in play): the rune is unrecognised
		// when the three `;` stay the only tokens.
		o := parseText(c29Path, ";;;"+string(rn))
		if o.Panic != nil || o.File == nil {
			return false
		}
		n := 0
		for tok := range o.File.Stream().All() {
			if !tok.IsSynthetic() {
				n++
			}
		}
		if n != 3 {
			return false
		}
	}
	return true
}

func runeClass(s string) string {
	for _, rn := range s {
		switch {
		case rn == '"' || rn == '\'':
			return "a quote"
		case rn == ' ' || rn == '\t' || rn == '\n' || rn == '\r':
			return "whitespace"
		case rn >= '0' && rn <= '9':
			return "a digit"
		case rn == '_' || rn >= 'a' && rn <= 'z' || rn >= 'A' && rn <= 'Z':
			return "a letter"
		case rn < 0x80:
			return "ASCII punctuation/control"
		default:
			return "a non-ASCII rune"
		}
	}
	return "nothing"
}

// c29Alphabet is the token-boundary alphabet of the exhaustive part.
var c29Alphabet = []string{"(", ")", "[", "]", "{", "}", "\"", "'", "\\", "/", "*", "\n", " ", "a", "0", ".", "x", "e", "é", "\x00"}

func nthString(alpha []string, length, idx int) string {
	var sb strings.Builder
	parts := make([]string, length)
	for k := length - 1; k >= 0; k-- {
		parts[k] = alpha[idx%len(alpha)]
		idx /= len(alpha)
	}
	for _, p := range parts {
		sb.WriteString(p)
	}
	return sb.String()
}

func ipow(b, e int) int {
	n := 1
	for ; e > 0; e-- {
		n *= b
	}
	return n
}

func bracketSoup(rng *vlib.RNG) string {
	n := rng.Range(1, 40)
	items := []string{"(", ")", "[", "]", "{", "}", "(", ")", "[", "]", "{", "}", "a", " ", "\n", "\"(\"", "'}'", "/*]*/", "//)\n", ";", "<", ">", "{}", "[]", "()", "*/", "/*"}
	var sb strings.Builder
	// half of the time start from a balanced string and perturb it
	if rng.Bool() {
		var open []string
		for i := 0; i < n; i++ {
			if len(open) > 0 && rng.Chance(0.45) {
				sb.WriteString(bracketPartner[open[len(open)-1]])
				open = open[:len(open)-1]
			} else {
				o := []string{"(", "[", "{"}[rng.Intn(3)]
				open = append(open, o)
				sb.WriteString(o)
			}
			if rng.Chance(0.15) {
				sb.WriteString(items[12+rng.Intn(len(items)-12)])
			}
		}
		for i := len(open) - 1; i >= 0; i-- {
			if rng.Chance(0.9) {
				sb.WriteString(bracketPartner[open[i]])
			}
		}
		return mutate(rng, sb.String(), rng.Intn(3), "")
	}
	for i := 0; i < n; i++ {
		sb.WriteString(items[rng.Intn(len(items))])
	}
	return sb.String()
}

func TestC29(t *testing.T) {
	r := vlib.Start(t, "C29")
	defer r.Finish()
	maxLen := r.N(4, 5)
	maxBr := r.N(6, 8)
	r.Extra("rule", fmt.Sprintf("exhaustive: every string of length<=%d over the 20-symbol token-boundary alphabet %q and every bracket string of length<=%d over ()[]{}; random: the hostile families of C28 (corpus, truncations, mutants, random bytes, token/keyword/CEL soup, encoding attacks, nesting shapes) plus bracket soup. Each evaluation = one parser.Parse(...).Stream() checked for contiguity from 0 to len(text), concatenation == input, and every bracket token fused with the matching partner (properly nested) or pointed at by an Error diagnostic. Inputs containing a numeric literal with an exponent of 7+ digits are not run (the lexer materialises 10^exponent; that resource problem is decided by C28). Prelude-rejected inputs (invalid UTF-8 / UTF-16 signature, decided by the harness) only need: no panic, no ICE, and no tokens + an error or a full tiling. distinct_nontrivial counts distinct non-empty inputs.", maxLen, c29Alphabet, maxBr))
	r.Extra("assumptions", []string{
		"token.Stream.All, Token.LeafSpan/Text/Kind/IsLeaf/StartEnd are read-only accessors that report the stream's real state",
		"'reported as an error' = some Error-level diagnostic has a snippet overlapping the bracket token (snippets read by reflection from report.Diagnostic.snippets)",
	})
	cs, err := corpus()
	if err != nil {
		r.Inconclusive("corpus: " + err.Error())
		return
	}
	emitFor := func(id, family string) func(kind, sig string, w map[string]any) {
		return func(kind, sig string, w map[string]any) {
			if kind == "inconclusive" {
				r.Inconclusive(sig)
				return
			}
			w["family"] = family
			r.Violation(kind, sig, id, w)
		}
	}
	var mu sync.Mutex
	inflight := map[string]bool{}
	begin := func(id string) {
		mu.Lock()
		inflight[id] = true
		ids := make([]string, 0, len(inflight))
		for k := range inflight {
			ids = append(ids, k)
		}
		sort.Strings(ids)
		r.Begin(strings.Join(ids, ","), map[string]any{"inflight_chunks": ids})
		mu.Unlock()
	}
	end := func(id string) {
		mu.Lock()
		delete(inflight, id)
		mu.Unlock()
	}

	// ---------- exhaustive small strings ----------
	type space struct {
		name  string
		alpha []string
		max   int
	}
	spaces := []space{{"alpha20", c29Alphabet, maxLen}, {"brackets", []string{"(", ")", "[", "]", "{", "}"}, maxBr}}
	const block = 4000
	for _, sp := range spaces {
		for l := 0; l <= sp.max; l++ {
			total := ipow(len(sp.alpha), l)
			nblocks := (total + block - 1) / block
			r.Par(nblocks, func(b int) {
				cid := fmt.Sprintf("c29/exh/%s/%d/%d", sp.name, l, b)
				if !r.Want(cid) {
					return
				}
				begin(cid)
				defer end(cid)
				var cnt, nt, brackets, unfused, prelude int64
				for idx := b * block; idx < total && idx < (b+1)*block; idx++ {
					id := fmt.Sprintf("%s/%d", cid, idx)
					if !r.Want(id) {
						continue
					}
					text := nthString(sp.alpha, l, idx)
					res := c29Verdicts(text, emitFor(id, "exhaustive-"+sp.name))
					cnt++
					if text != "" {
						nt++
					}
					brackets += int64(res.Brackets)
					unfused += int64(res.Unfused)
					if res.Prelude {
						prelude++
					}
				}
				r.EvalN(cnt, nt)
				r.ClassN("family:exhaustive-"+sp.name, cnt)
				r.ClassN("bracket-tokens", brackets)
				r.ClassN("bracket-tokens-unfused", unfused)
				r.ClassN("input:prelude-rejected", prelude)
			})
		}
	}
	r.Extra("exhaustive_part", fmt.Sprintf("all %d-symbol strings of length<=%d and all bracket strings of length<=%d were enumerated completely; the random families are sampled", len(c29Alphabet), maxLen, maxBr))

	// ---------- hostile families ----------
	chunks := hostileChunks(r, "c29", cs, 2)
	nBS := r.N(30000, 300000)
	for lo := 0; lo < nBS; lo += 500 {
		lo := lo
		id := fmt.Sprintf("c29/bracket-soup/%d", lo)
		chunks = append(chunks, hostileChunk{ID: id, Gen: func() []hostileCase {
			var out []hostileCase
			for k := lo; k < nBS && k < lo+500; k++ {
				cid := fmt.Sprintf("%s/%d", id, k)
				out = append(out, hostileCase{cid, "bracket-soup", bracketSoup(r.Rng(cid))})
			}
			return out
		}})
	}
	chunks = append(chunks, hostileChunk{ID: "c29/bracket-deep/0", Gen: func() []hostileCase {
		var out []hostileCase
		for _, d := range []int{1000, 10000} {
			for name, s := range map[string]string{
				"open-paren": strings.Repeat("(", d), "close-brace": strings.Repeat("}", d), "balanced": strings.Repeat("[", d) + strings.Repeat("]", d),
				"irreducible": strings.Repeat("{[}]", d/4), "mismatch": strings.Repeat("(", d) + strings.Repeat("]", d), "alternating": strings.Repeat("}{", d/2),
			} {
				out = append(out, hostileCase{fmt.Sprintf("c29/bracket-deep/0/%s/%d", name, d), "bracket-deep", s})
			}
		}
		sort.Slice(out, func(i, j int) bool { return out[i].ID < out[j].ID })
		return out
	}})
	r.Par(len(chunks), func(i int) {
		ch := chunks[i]
		if !r.Want(ch.ID) {
			return
		}
		begin(ch.ID)
		defer end(ch.ID)
		for _, c := range ch.Gen() {
			if !r.Want(c.ID) {
				continue
			}
			if reHugeExponent.MatchString(c.Text) {
				// see reHugeExponent: decided by C28's isolated inputs, not here
				r.Class("deferred:huge-exponent")
				continue
			}
			res := c29Verdicts(c.Text, emitFor(c.ID, c.Family))
			r.Eval(c.Text)
			r.Class("family:" + c.Family)
			r.ClassN("bracket-tokens", int64(res.Brackets))
			r.ClassN("bracket-tokens-unfused", int64(res.Unfused))
			if res.Prelude {
				r.Class("input:prelude-rejected")
			}
			if res.Unfused > 0 {
				r.Sample("unfused-bracket", clip(c.Text, 200))
			}
		}
	})
}
