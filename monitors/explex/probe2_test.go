package explex

import (
	"fmt"
	"os"
	"strings"
	"testing"

	"github.com/bufbuild/protocompile/experimental/ast/printer"
	"github.com/bufbuild/protocompile/experimental/seq"
)

func TestProbe2(t *testing.T) {
	b, err := os.ReadFile(os.Getenv("P_FILE"))
	if err != nil {
		t.Fatal(err)
	}
	for _, text := range strings.Split(string(b), "\n-----\n") {
		o := parseText("x.proto", text)
		fmt.Printf("IN   %q\n  ok=%v ice=%d err=%d warn=%d remark=%d panic=%v\n", text, o.OK, o.NICE, o.NErr, o.NWarn, o.NRemark, o.Panic)
		for i := range o.Report.Diagnostics {
			d := &o.Report.Diagnostics[i]
			fmt.Printf("    diag L%d %q primary=%v\n", d.Level(), d.Message(), d.Primary())
		}
		if o.Panic != nil {
			continue
		}
		got, _ := printer.PrintFile(printer.Options{}, o.File)
		fmt.Printf("  RT   %q same=%v\n", got, got == text)
		var sb strings.Builder
		for d := range seq.Values(o.File.Decls()) {
			s := printer.Print(printer.Options{}, d)
			fmt.Printf("    decl %q\n", s)
			sb.WriteString(s)
		}
		for _, p := range []struct {
			n string
			f printer.Formatting
		}{{"default", printer.Default()}, {"legacy", printer.Legacy()}} {
			f1, _ := printer.PrintFile(printer.Options{Format: true, Formatting: p.f}, o.File)
			o2 := parseText("x.proto", f1)
			f2 := ""
			if o2.Panic == nil {
				f2, _ = printer.PrintFile(printer.Options{Format: true, Formatting: p.f}, o2.File)
			}
			fmt.Printf("  FMT %s %q idem=%v\n", p.n, f1, f1 == f2)
			if f1 != f2 {
				fmt.Printf("  FMT2 %s %q\n", p.n, f2)
			}
		}
	}
}
