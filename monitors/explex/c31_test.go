package explex

// C31 — formatting preserves meaning and is idempotent.
//
// For any file the STABLE compiler (protocompile.Compiler) accepts, and for
// each preset P in {Default, Legacy}:
//   (meaning)     f1 = PrintFile(Format, P) compiles with the stable compiler
//                 to the same FileDescriptorProto as the original — source
//                 code info cleared, the dependency list and the public/weak
//                 lists compared as keyed sets (the formatter documents that
//                 it sorts imports), option values decoded against the
//                 original's schema on both sides; nothing else is relaxed;
//   (idempotence) PrintFile(Format, P) of parse(f1) == f1.

import (
	"bytes"
	"context"
	"fmt"
	"path"
	"regexp"
	"sort"
	"strings"
	"sync"
	"testing"

	"google.golang.org/protobuf/proto"
	"google.golang.org/protobuf/reflect/protoreflect"
	"google.golang.org/protobuf/reflect/protoregistry"
	"google.golang.org/protobuf/types/descriptorpb"
	"google.golang.org/protobuf/types/dynamicpb"

	"github.com/bufbuild/protocompile"
	"github.com/bufbuild/protocompile/experimental/ast/printer"
	"github.com/bufbuild/protocompile/internal/verifmon/vlib"
	"github.com/bufbuild/protocompile/linker"
)

// ---------------------------------------------------------------------------
// import resolution for corpus files

var (
	resMapOnce sync.Once
	resMaps    map[string]map[string]string // root tag -> import path -> text
)

// corpusResolverMaps builds, per corpus root, a map from import path to text.
// A file is reachable under its path relative to each plausible import base of
// its root; files of different roots are never mixed (a test override of
// google/protobuf/descriptor.proto in one tree must not shadow the standard
// one in another).
func corpusResolverMaps(cs []namedSource) map[string]map[string]string {
	resMapOnce.Do(func() {
		resMaps = map[string]map[string]string{}
		bases := map[string][]string{
			"repo": {"internal/testdata/"},
			"pbgo": {"", "src/"},
		}
		for _, c := range cs {
			tag, rel, _ := strings.Cut(c.Name, ":")
			m := resMaps[tag]
			if m == nil {
				m = map[string]string{}
				resMaps[tag] = m
			}
			for _, b := range bases[tag] {
				if strings.HasPrefix(rel, b) {
					k := strings.TrimPrefix(rel, b)
					if _, dup := m[k]; !dup {
						m[k] = c.Text
					}
				}
			}
		}
	})
	return resMaps
}

// sourcesFor returns the accessor map and the name under which the main text
// is compiled. base is the corpus name the text derives from ("" = none).
func sourcesFor(cs []namedSource, base, text, selfName string) (map[string]string, string) {
	if base == "" {
		return map[string]string{selfName: text}, selfName
	}
	tag, rel, _ := strings.Cut(base, ":")
	root := corpusResolverMaps(cs)[tag]
	m := make(map[string]string, len(root)+16)
	for k, v := range root {
		m[k] = v
	}
	// files of the same directory are also importable by their bare names
	dir := path.Dir(rel)
	for _, c := range cs {
		t, r, _ := strings.Cut(c.Name, ":")
		if t == tag && path.Dir(r) == dir {
			if _, dup := m[path.Base(r)]; !dup {
				m[path.Base(r)] = c.Text
			}
		}
	}
	main := rel
	switch {
	case tag == "repo" && strings.HasPrefix(rel, "internal/testdata/"):
		main = strings.TrimPrefix(rel, "internal/testdata/")
	case tag == "pbgo" && strings.HasPrefix(rel, "src/"):
		main = strings.TrimPrefix(rel, "src/")
	case tag == "repo":
		main = path.Base(rel)
	}
	m[main] = text
	return m, main
}

// ---------------------------------------------------------------------------
// stable compiler

type compiled struct {
	FD    *descriptorpb.FileDescriptorProto
	Types *protoregistry.Types
}

var (
	rePosPrefix = regexp.MustCompile(`^[^:\s]+:\d+:\d+: `)
	reExtName   = regexp.MustCompile(`\[[A-Za-z0-9_.]+\](\.[A-Za-z0-9_]+)*`)
)

func compileStable(srcs map[string]string, name string) (c *compiled, err error) {
	pv, st := vlib.Try(func() {
		comp := protocompile.Compiler{
			Resolver:       protocompile.WithStandardImports(&protocompile.SourceResolver{Accessor: protocompile.SourceAccessorFromMap(srcs)}),
			MaxParallelism: 1,
		}
		var files linker.Files
		files, err = comp.Compile(context.Background(), name)
		if err != nil {
			return
		}
		if len(files) != 1 {
			err = fmt.Errorf("expected one result, got %d", len(files))
			return
		}
		res, ok := files[0].(linker.Result)
		if !ok {
			err = fmt.Errorf("result is not a linker.Result (file resolved to a descriptor, not source)")
			return
		}
		c = &compiled{FD: proto.Clone(res.FileDescriptorProto()).(*descriptorpb.FileDescriptorProto), Types: &protoregistry.Types{}}
		seen := map[string]bool{}
		var walk func(fd protoreflect.FileDescriptor)
		var walkMsgs func(ms protoreflect.MessageDescriptors)
		regExts := func(xs protoreflect.ExtensionDescriptors) {
			for i := 0; i < xs.Len(); i++ {
				_ = c.Types.RegisterExtension(dynamicpb.NewExtensionType(xs.Get(i)))
			}
		}
		walkMsgs = func(ms protoreflect.MessageDescriptors) {
			for i := 0; i < ms.Len(); i++ {
				regExts(ms.Get(i).Extensions())
				walkMsgs(ms.Get(i).Messages())
			}
		}
		walk = func(fd protoreflect.FileDescriptor) {
			if seen[fd.Path()] {
				return
			}
			seen[fd.Path()] = true
			regExts(fd.Extensions())
			walkMsgs(fd.Messages())
			imps := fd.Imports()
			for i := 0; i < imps.Len(); i++ {
				if d := imps.Get(i).FileDescriptor; d != nil {
					walk(d)
				}
			}
		}
		walk(files[0])
	})
	if pv != nil {
		return nil, fmt.Errorf("stable compiler panicked: %v\n%s", pv, clip(st, 2000))
	}
	return c, err
}

type canonFD struct {
	FD           *descriptorpb.FileDescriptorProto
	Public, Weak []string
}

// canonicalize clears source info, turns the dependency lists into keyed
// sets, and re-decodes the descriptor against types so that option values
// are compared as values, not as unknown-field bytes.
func canonicalize(fd *descriptorpb.FileDescriptorProto, types *protoregistry.Types) (canonFD, error) {
	c := proto.Clone(fd).(*descriptorpb.FileDescriptorProto)
	c.SourceCodeInfo = nil
	var out canonFD
	name := func(i int32) string {
		if int(i) < len(c.Dependency) {
			return c.Dependency[i]
		}
		return fmt.Sprintf("<bad index %d>", i)
	}
	for _, i := range c.PublicDependency {
		out.Public = append(out.Public, name(i))
	}
	for _, i := range c.WeakDependency {
		out.Weak = append(out.Weak, name(i))
	}
	sort.Strings(out.Public)
	sort.Strings(out.Weak)
	c.PublicDependency, c.WeakDependency = nil, nil
	sort.Strings(c.Dependency)
	sort.Strings(c.OptionDependency)
	b, err := proto.MarshalOptions{Deterministic: true}.Marshal(c)
	if err != nil {
		return out, err
	}
	out.FD = &descriptorpb.FileDescriptorProto{}
	if err := (proto.UnmarshalOptions{Resolver: types}).Unmarshal(b, out.FD); err != nil {
		return out, err
	}
	return out, nil
}

// firstDiffPath returns the field path (names, no indices) of the first
// difference between two messages, "" if none is found by the walk.
func firstDiffPath(a, b protoreflect.Message, prefix string) string {
	fieldName := func(fd protoreflect.FieldDescriptor) string {
		if fd.IsExtension() {
			return "[" + string(fd.FullName()) + "]"
		}
		return string(fd.Name())
	}
	fields := map[protoreflect.FieldNumber]protoreflect.FieldDescriptor{}
	collect := func(m protoreflect.Message) {
		m.Range(func(fd protoreflect.FieldDescriptor, _ protoreflect.Value) bool {
			fields[fd.Number()] = fd
			return true
		})
	}
	collect(a)
	collect(b)
	nums := make([]int, 0, len(fields))
	for n := range fields {
		nums = append(nums, int(n))
	}
	sort.Ints(nums)
	for _, n := range nums {
		fd := fields[protoreflect.FieldNumber(n)]
		p := prefix + "." + fieldName(fd)
		if prefix == "" {
			p = fieldName(fd)
		}
		if a.Has(fd) != b.Has(fd) {
			return p + " (presence)"
		}
		va, vb := a.Get(fd), b.Get(fd)
		switch {
		case fd.IsList():
			la, lb := va.List(), vb.List()
			if la.Len() != lb.Len() {
				return p + " (length)"
			}
			for i := 0; i < la.Len(); i++ {
				if fd.Message() != nil {
					if d := firstDiffPath(la.Get(i).Message(), lb.Get(i).Message(), p); d != "" {
						return d
					}
				} else if !la.Get(i).Equal(lb.Get(i)) {
					return p + " (element value/order)"
				}
			}
		case fd.IsMap():
			if !va.Equal(vb) {
				return p + " (map)"
			}
		case fd.Message() != nil:
			if d := firstDiffPath(va.Message(), vb.Message(), p); d != "" {
				return d
			}
		default:
			if !va.Equal(vb) {
				return p
			}
		}
	}
	if !bytes.Equal(a.GetUnknown(), b.GetUnknown()) {
		if prefix == "" {
			return "<unknown fields>"
		}
		return prefix + ".<unknown fields>"
	}
	return ""
}

func sameStrings(a, b []string) bool {
	if len(a) != len(b) {
		return false
	}
	for i := range a {
		if a[i] != b[i] {
			return false
		}
	}
	return true
}

func TestC31(t *testing.T) {
	r := vlib.Start(t, "C31")
	defer r.Finish()
	r.Extra("rule", "inputs: every corpus .proto (imports resolved inside its own tree), hand-written layout stress files (tight trailing // comments, comments inside paths and compact options, very long lines, empty bodies, nested message literals, repeated file options whose order matters), generated self-contained schemas, and re-laid-out variants with comments/whitespace injected at random token gaps. Domain: texts the stable compiler accepts and the experimental parser parses without Error/ICE. Each evaluation = one (text, preset) pair: format, recompile with the stable compiler, compare descriptors (source info cleared, dependency lists as keyed sets, options decoded against the original schema), then format the formatted text again and compare bytes. distinct_nontrivial counts distinct in-domain (text, preset) pairs.")
	r.Extra("assumptions", []string{
		"the stable compiler (protocompile.Compiler with WithStandardImports) is the meaning oracle; it is trusted to be deterministic",
		"option values are compared after re-decoding both descriptors with the extension types of the ORIGINAL compile (orders of distinct unknown fields are not meaning)",
		"the difference classifier (used only for violation signatures) relies on the experimental lexer's token view",
	})
	cs, err := corpus()
	if err != nil {
		r.Inconclusive("corpus: " + err.Error())
		return
	}
	presets := []struct {
		Name string
		F    printer.Formatting
	}{{"Default", printer.Default()}, {"Legacy", printer.Legacy()}}

	cases := layoutCases(r, "c31", cs, r.N(300, 3000), r.N(1500, 15000))
	r.Par(len(cases), func(i int) {
		c := cases[i]
		if !r.Want(c.ID) {
			return
		}
		text, ok := c.Gen()
		if !ok {
			r.Class("skipped:generator-declined")
			return
		}
		srcs, main := sourcesFor(cs, c.Base(), text, "c31/"+c.Family+".proto")
		orig, cerr := compileStable(srcs, main)
		if cerr != nil {
			r.Eval("")
			r.Class("out-of-domain:does-not-compile:" + c.Family)
			return
		}
		o := parseText(main, text)
		if o.Panic != nil || o.NErr > 0 || o.NICE > 0 {
			r.Eval("")
			r.Class("undecided:experimental-parser-reports-errors-on-a-compiling-file")
			r.Sample("exp-parser-rejects-compiling-file", map[string]any{"case": c.ID, "first_error": firstErrorMessage(o)})
			return
		}
		co, err := canonicalize(orig.FD, orig.Types)
		if err != nil {
			r.Inconclusive("canonicalize original: " + err.Error())
			return
		}
		r.Class("in-domain:" + c.Family)
		r.Sample("in-domain text ("+c.Family+")", map[string]any{"case": c.ID, "text": witnessText(text)})
		for _, p := range presets {
			r.Eval(p.Name + "\x00" + text)
			wit := func(extra map[string]any) map[string]any {
				m := map[string]any{"family": c.Family, "preset": p.Name, "base": c.Base(), "main": main, "text": witnessText(text)}
				for k, v := range extra {
					m[k] = v
				}
				return m
			}
			opts := printer.Options{Format: true, Formatting: p.F}
			var f1 string
			var perr error
			if pv, st := vlib.Try(func() { f1, perr = printer.PrintFile(opts, o.File) }); pv != nil {
				r.Violation("format.panic", p.Name+": PrintFile panics at "+vlib.PanicSite(st)+": "+normMsg(fmt.Sprint(pv)), c.ID, wit(map[string]any{"panic": fmt.Sprint(pv), "stack": clip(st, 3000)}))
				continue
			}
			if perr != nil {
				r.Violation("format.error", p.Name+": PrintFile returns an error: "+normMsg(perr.Error()), c.ID, wit(map[string]any{"error": perr.Error()}))
				continue
			}
			// ---- meaning
			m2 := make(map[string]string, len(srcs))
			for k, v := range srcs {
				m2[k] = v
			}
			m2[main] = f1
			fm, ferr := compileStable(m2, main)
			tokenClasses := func() []string { return classNames(diffClasses(text, f1, true, false)) }
			if ferr != nil {
				msg := rePosPrefix.ReplaceAllString(strings.SplitN(ferr.Error(), "\n", 2)[0], "")
				tc := tokenClasses()
				sig := p.Name + ": formatted output does not compile: " + normMsg(msg)
				if swallowed(tc) || commentSwallows(text, f1) {
					// One formatter behaviour, many downstream compile errors: name the behaviour.
					sig = p.Name + ": formatted output does not compile: a // comment swallows what follows it on the line"
				}
				r.Violation("format.breaks-compilation", sig, c.ID, wit(map[string]any{"compile_error": ferr.Error(), "formatted": witnessText(f1), "token_level_classes": tc}))
				// Idempotence of an output that is no longer a valid file says nothing new.
				r.Class("idempotence:not-checked-output-does-not-compile:" + p.Name)
				continue
			} else {
				cf, err := canonicalize(fm.FD, orig.Types)
				if err != nil {
					r.Inconclusive("canonicalize formatted: " + err.Error())
				} else {
					diff := ""
					switch {
					case !proto.Equal(co.FD, cf.FD):
						diff = firstDiffPath(co.FD.ProtoReflect(), cf.FD.ProtoReflect(), "")
						if diff == "" {
							diff = "<proto.Equal false, walk found nothing>"
						}
					case !sameStrings(co.Public, cf.Public):
						diff = "public_dependency (as set of names)"
					case !sameStrings(co.Weak, cf.Weak):
						diff = "weak_dependency (as set of names)"
					}
					if diff != "" {
						tc := tokenClasses()
						sig := p.Name + ": descriptor differs at " + reExtName.ReplaceAllString(diff, "[ext]…")
						if swallowed(tc) || commentSwallows(text, f1) {
							sig = p.Name + ": descriptor changes because a // comment swallows what follows it on the line"
						}
						r.Violation("format.changes-descriptor", sig, c.ID, wit(map[string]any{"differs_at": diff, "formatted": witnessText(f1), "token_level_classes": tc}))
					}
				}
			}
			// ---- idempotence
			o2 := parseText(main, f1)
			if o2.Panic != nil {
				r.Violation("format.reparse-panic", p.Name+": parsing the formatted output panics at "+vlib.PanicSite(o2.Stack), c.ID, wit(map[string]any{"formatted": witnessText(f1), "panic": fmt.Sprint(o2.Panic)}))
				continue
			}
			var f2 string
			if pv, st := vlib.Try(func() { f2, perr = printer.PrintFile(opts, o2.File) }); pv != nil {
				r.Violation("format.panic", p.Name+": PrintFile (second pass) panics at "+vlib.PanicSite(st)+": "+normMsg(fmt.Sprint(pv)), c.ID, wit(map[string]any{"formatted": witnessText(f1), "panic": fmt.Sprint(pv), "stack": clip(st, 3000)}))
				continue
			}
			if f2 != f1 {
				r.Class("idempotence:differs:" + p.Name)
				ds := diffClasses(f1, f2, false, false)
				if swallowed(classNames(ds)) || commentSwallows(f1, f2) {
					// Everything else in this diff is a consequence of the swallowing.
					r.Violation("format.not-idempotent."+p.Name+".token", "the second pass lets a // comment swallow what follows it on the line", c.ID,
						wit(map[string]any{"classes": classNames(ds), "first_difference": firstDiffContext(f1, f2), "formatted_once": witnessText(f1), "formatted_twice": witnessText(f2), "reparse_errors": o2.NErr}))
				} else {
					// all recorded idempotence defects of the unchanged tree need a comment in the input; whether the input
					// has one is part of the signature, so that a defect on comment-free input is a different violation
					flavour := " [input without comments]"
					if hasComments(text) {
						flavour = " [input with comments]"
					}
					for _, d := range ds {
						shape := ""
						if nb, ok := d.Detail["neighbours"].(string); ok {
							shape = fmt.Sprintf(" (%s: %v, in %v)", nb, d.Detail["whitespace"], d.Detail["context"])
						}
						r.Violation("format.not-idempotent."+p.Name+"."+classCategory(d.Class), d.Class+shape+flavour, c.ID,
							wit(map[string]any{"detail": d.Detail, "first_difference": firstDiffContext(f1, f2), "formatted_once": witnessText(f1), "formatted_twice": witnessText(f2), "reparse_errors": o2.NErr}))
					}
				}
			} else {
				r.Class("idempotence:holds:" + p.Name)
			}
		}
	})
}

func swallowed(classes []string) bool {
	for _, k := range classes {
		if strings.HasPrefix(k, "token-swallowed-by-comment") {
			return true
		}
	}
	return false
}

func firstErrorMessage(o *parseOutcome) string {
	if o.Panic != nil {
		return fmt.Sprint("panic: ", o.Panic)
	}
	for i := range o.Report.Diagnostics {
		d := &o.Report.Diagnostics[i]
		if d.Level() <= 2 {
			return d.Message()
		}
	}
	return ""
}

// hasComments reports whether the text has a comment token (strings are lexed, so "//" inside a string does not count).
// A text the token view cannot handle counts as having comments (the conservative side: it can only mask).
func hasComments(text string) bool {
	v, ok := viewOf(text)
	if !ok {
		return true
	}
	for _, t := range v.Toks {
		for _, it := range t.Lead {
			if it.Comment {
				return true
			}
		}
	}
	for _, it := range v.Trail {
		if it.Comment {
			return true
		}
	}
	return false
}
