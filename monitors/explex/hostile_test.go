package explex

// Byte-level hostile input generators (DESIGN §2.3 "F"), shared by C28 and C29.
// Every generator is a pure function of its RNG (and the corpus).

import (
	"fmt"
	"strings"
	"sync"

	"github.com/bufbuild/protocompile/experimental/token/keyword"
	"github.com/bufbuild/protocompile/internal/verifmon/vlib"
)

var (
	vocabOnce sync.Once
	vocabAll  []string
	vocabKw   []string
)

// vocab is the token-soup vocabulary: every keyword and punctuation the
// experimental lexer knows (Protobuf and CEL), plus literal and trivia
// fragments chosen to sit on the lexer's decision boundaries.
func vocab() []string {
	vocabOnce.Do(func() {
		for k := range keyword.All() {
			s := k.String()
			if s == "" || k == keyword.Unknown {
				continue
			}
			vocabKw = append(vocabKw, s)
		}
		vocabAll = append(vocabAll, vocabKw...)
		vocabAll = append(vocabAll,
			// identifiers
			"a", "b", "Foo", "foo.bar", ".foo", "foo_bar1", "_", "x9", "é", "ident\u0301", "日本", "\u0301", "\u200b", "google.protobuf.Any",
			// numbers
			"0", "1", "42", "007", "08", "0x", "0xFF", "0Xg", "0b101", "0o17", "1e", "1e+", "1e10", "1.5", ".5", "5.", "1.2.3", "1..2", "1u", "1U", "1uu", "1f",
			"1e1.5", "0x1p3", "1_000", "18446744073709551616", "99999999999999999999999999999", "1e999", "0.0000000000000000000000000001", "1e-999", "-1", "+1", "inf", "-inf", "nan",
			// strings
			`""`, `''`, `"a"`, `'a'`, `"a" "b"`, `"\n"`, `"\x"`, `"\x4"`, `"\xFF"`, `"\X41"`, `"\u12"`, `"ሴ"`, `"\U0010FFFF"`, `"\U00110000"`, `"\ud800"`, `"\777"`, `"\0"`, `"\?"`, `"\q"`,
			`"\`, `"`, `'`, `"abc`, `'abc`, "\"a\nb\"", `"\"`, `r"a"`, `b"a"`, `rb"a"`, `x"a"`, `b'a'`, `r'`, "\"\x00\"", "\"\x7f\"", `"é"`, `"`+"\xff"+`"`,
			// comments
			"//", "// c\n", "//\n", "/**/", "/* c */", "/*", "*/", "/* /* */ */", "/*/", "// c", "//*\n", "/*\n*/",
			// whitespace
			" ", "  ", "\t", "\n", "\r\n", "\r", "\f", "\v", "\u0085", "\u2028", "\u2029", "\u200e", "\u00a0", "\ufeff",
			// brackets
			"(", ")", "[", "]", "{", "}", "<", ">", "()", "[]", "{}", "<>", "{[}]", "([)]", "}{",
			// one representative per Unicode general category and encoded length that a lexer's character classes
			// (unicode.IsDigit / IsLetter / IsSpace ...) may treat specially, alone and glued to ASCII
			"\u0663", "\u0967", "\uff11", "\U0001d7ce", "\u00b2", "\u00bd", "\u2167", "\u3007", // Nd (2,3,3,4 bytes), No, No, Nl, Nl
			"\u0663x", "x\u0663", "1\u0663", "\u06631", "\u0663.5", ".\u0663", "0x\u0663", "\uff11e5", "-\u0967", "\U0001d7ce\U0001d7cf", "1e\u0663", "\u0663\n",
			"\u00aa", "\u02b0", "\u01c5", "\u05d0", "\U00010400", "\U0001f600", // Lo, Lm, Lt, Lo (RTL), Lu (4 bytes), So
			"\u203f", "\uff3f", "\u2040", "a\u203fb", "\uff3fx", // Pc: connector punctuation
			"\u0903", "\u20dd", "\u200d", "\u00ad", "\u2060", "\ue000", "\U000e0001", "\ufffd", "\uffff", // Mc, Me, Cf, Cf, Cf, Co, Cf, replacement, noncharacter
			"\u1680", "\u2003", "\u3000", "\u202f", "\u205f", // Zs of several lengths
			"\u201c", "\u201d", "\u2018", "\uff02", "\u00ab", // quotation marks that are not quotes
			// junk
			"\x00", "\x01", "\x7f", "\\", "`", "@", "#", "$", "~", "\xff", "\xc0\x80", "\xed\xa0\x80", "\xf4\x90\x80\x80", "\xe2\x82", "\xfe\xff", "\xff\xfe",
		)
	})
	return vocabAll
}

var interestingBytes = []byte("\x00\x01\t\n\r \"#$'()*+,-./019:;<=>?@AZ[\\]^_`az{|}~\x7f\x80\xbf\xc0\xc2\xe0\xed\xef\xf0\xf4\xfe\xff")

func randBytes(rng *vlib.RNG, n int, mode int) string {
	b := make([]byte, n)
	for i := range b {
		switch mode {
		case 0: // uniform
			b[i] = byte(rng.Intn(256))
		case 1: // printable ASCII + newline
			if rng.Chance(0.05) {
				b[i] = '\n'
			} else {
				b[i] = byte(32 + rng.Intn(95))
			}
		case 2: // interesting bytes
			b[i] = interestingBytes[rng.Intn(len(interestingBytes))]
		default: // mostly proto punctuation/letters with a few wild bytes
			const set = "abcxyz_019 \n\t;,.:=()[]{}<>\"'/*-+\\"
			if rng.Chance(0.03) {
				b[i] = byte(rng.Intn(256))
			} else {
				b[i] = set[rng.Intn(len(set))]
			}
		}
	}
	return string(b)
}

func tokenSoup(rng *vlib.RNG, n int) string {
	v := vocab()
	var sb strings.Builder
	sep := rng.Intn(4)
	for i := 0; i < n; i++ {
		sb.WriteString(v[rng.Intn(len(v))])
		switch sep {
		case 0:
			sb.WriteByte(' ')
		case 1:
			if rng.Bool() {
				sb.WriteByte(' ')
			}
		case 2:
			if rng.Chance(0.2) {
				sb.WriteByte('\n')
			} else if rng.Chance(0.5) {
				sb.WriteByte(' ')
			}
		}
	}
	return sb.String()
}

// keywordSoup produces statement-shaped soup: keyword-led fragments that get
// deep into the declaration parsers before going wrong.
func keywordSoup(rng *vlib.RNG, n int) string {
	starts := []string{"syntax", "edition", "package", "import", "import public", "import weak", "import option", "option", "message", "enum", "service", "extend",
		"oneof", "group", "optional group", "rpc", "reserved", "extensions", "reserved", "extensions", "enum E { reserved", "message M { reserved", "message M { extensions", "optional", "repeated", "required", "map<", "stream", "returns", "export", "local", "export message", "local enum"}
	mids := []string{"=", ";", "{", "}", "(", ")", "[", "]", "<", ">", ",", ".", ":", "to", "max", "-", "a", "b.c", "(a.b)", "(a).b", "1", "-1", "0x10", "1.5", `"s"`, `'s'`, "true", "inf",
		"int32", "string", "map<string, int32>", "map<", ".a.B", "stream", "returns", "[default = 1]", "[(a) = {b: 1}]", "{a: 1}", "{a {b: 1}}", "[1, 2]", "<a: 1>", "[a.b/c.D]: {}", "// c\n", "/* c */", "\n"}
	var sb strings.Builder
	for i := 0; i < n; i++ {
		sb.WriteString(starts[rng.Intn(len(starts))])
		k := rng.Intn(9)
		for j := 0; j < k; j++ {
			sb.WriteByte(' ')
			sb.WriteString(mids[rng.Intn(len(mids))])
		}
		if rng.Chance(0.6) {
			sb.WriteString(";")
		}
		sb.WriteString("\n")
	}
	return sb.String()
}

// celExpr generates a CEL-like expression over the lexer's CEL vocabulary.
func celExpr(rng *vlib.RNG, depth int) string {
	if depth <= 0 || rng.Chance(0.25) {
		atoms := []string{"a", "b.c", "x", "1", "2u", "0x1F", "1.5", "1e3", `"s"`, `'t'`, `b"x"`, `r"\d"`, "true", "false", "null", "inf", "nan", "in", "size", "has", "this", ".lead", "[]", "{}", "()"}
		return atoms[rng.Intn(len(atoms))]
	}
	bin := []string{"+", "-", "*", "/", "%", "&&", "||", "==", "!=", "<", "<=", ">", ">=", "in", "&", "|", "^", "<<", ">>", "??", "..", "..=", "=", ":=", "+=", "and", "or", "as"}
	switch rng.Intn(12) {
	case 0, 1, 2:
		return celExpr(rng, depth-1) + " " + bin[rng.Intn(len(bin))] + " " + celExpr(rng, depth-1)
	case 3:
		return celExpr(rng, depth-1) + " ? " + celExpr(rng, depth-1) + " : " + celExpr(rng, depth-1)
	case 4:
		un := []string{"!", "-", "!!", "~", "not ", "--", "+"}
		return un[rng.Intn(len(un))] + celExpr(rng, depth-1)
	case 5:
		return "(" + celExpr(rng, depth-1) + ")"
	case 6:
		return celExpr(rng, depth-1) + "." + []string{"f", "size", "map", "all", "exists"}[rng.Intn(5)] + "(" + celExpr(rng, depth-1) + ", " + celExpr(rng, depth-1) + ")"
	case 7:
		return celExpr(rng, depth-1) + "[" + celExpr(rng, depth-1) + "]"
	case 8:
		return "[" + celExpr(rng, depth-1) + ", " + celExpr(rng, depth-1) + "]"
	case 9:
		return "{" + celExpr(rng, depth-1) + ": " + celExpr(rng, depth-1) + ", " + celExpr(rng, depth-1) + ": " + celExpr(rng, depth-1) + "}"
	case 10:
		return "T{f: " + celExpr(rng, depth-1) + "}"
	default:
		return celExpr(rng, depth-1) + "." + "g"
	}
}

// celSoup places CEL-like expressions where the Protobuf grammar has
// expressions (option values, compact options, defaults, tags, ranges) and
// also at statement level.
func celSoup(rng *vlib.RNG) string {
	var sb strings.Builder
	sb.WriteString("syntax = \"proto3\";\npackage p;\n")
	n := rng.Range(1, 6)
	for i := 0; i < n; i++ {
		e := celExpr(rng, rng.Range(1, 5))
		switch rng.Intn(8) {
		case 0:
			fmt.Fprintf(&sb, "option (o) = %s;\n", e)
		case 1:
			fmt.Fprintf(&sb, "message M%d { int32 f = 1 [(o) = %s, default = %s]; }\n", i, e, celExpr(rng, 2))
		case 2:
			fmt.Fprintf(&sb, "message M%d { int32 f = %s; }\n", i, e)
		case 3:
			fmt.Fprintf(&sb, "message M%d { reserved %s to %s; extensions %s; }\n", i, e, celExpr(rng, 1), celExpr(rng, 2))
		case 4:
			fmt.Fprintf(&sb, "%s;\n", e)
		case 5:
			fmt.Fprintf(&sb, "option o = { a: %s b: [%s] c { d: %s } };\n", e, celExpr(rng, 2), celExpr(rng, 2))
		case 6:
			fmt.Fprintf(&sb, "enum E%d { A = %s; }\n", i, e)
		default:
			fmt.Fprintf(&sb, "%s\n", e)
		}
	}
	return sb.String()
}

// deepShapes are nesting shapes: prefix repeated d times, a core, suffix
// repeated d times (suffix may be dropped to leave everything unclosed).
type deepShape struct {
	Name             string
	Head, Open, Core string
	Close, Tail      string
}

var deepShapes = []deepShape{
	{"message", "syntax=\"proto3\";package p;", "message M{", "int32 a=1;", "}", ""},
	{"group", "syntax=\"proto2\";package p;message M{", "optional group G=1{", "optional int32 a=2;", "}", "}"},
	{"oneof-like", "syntax=\"proto3\";package p;message M{", "oneof o{", "int32 a=1;", "}", "}"},
	{"dict", "syntax=\"proto3\";package p;option (o)=", "{a:", "1", "}", ";"},
	{"dict-nocolon", "syntax=\"proto3\";package p;option (o)=", "{a", "{}", "}", ";"},
	{"angle-dict", "syntax=\"proto3\";package p;option (o)=", "<a:", "1", ">", ";"},
	{"array", "syntax=\"proto3\";package p;option (o)=", "[", "1", "]", ";"},
	{"array-dict", "syntax=\"proto3\";package p;option (o)=", "[{a:", "1", "}]", ";"},
	{"parens", "syntax=\"proto3\";package p;option (o)=", "(", "1", ")", ";"},
	{"compact-options", "syntax=\"proto3\";package p;message M{int32 a=1", "[(o)={a:", "1", "}]", ";}"},
	{"option-path", "syntax=\"proto3\";package p;option ", "(a).", "b", "", "=1;"},
	{"paren-path", "syntax=\"proto3\";package p;option ", "(a.", "b", ")", "=1;"},
	{"map-type", "syntax=\"proto3\";package p;message M{", "map<string,", "int32", ">", " m=1;}"},
	{"generic-type", "syntax=\"proto3\";package p;message M{", "a<", "b", ">", " m=1;}"},
	{"unary-minus", "syntax=\"proto3\";package p;option (o)=", "-", "1", "", ";"},
	{"unary-bang", "syntax=\"proto3\";package p;option (o)=", "!", "a", "", ";"},
	{"ternary", "syntax=\"proto3\";package p;option (o)=", "a?", "b", ":c", ";"},
	{"binary", "syntax=\"proto3\";package p;option (o)=", "a+", "b", "", ";"},
	{"call", "syntax=\"proto3\";package p;option (o)=", "f(", "x", ")", ";"},
	{"index", "syntax=\"proto3\";package p;option (o)=a", "[", "1", "]", ";"},
	{"dots", "syntax=\"proto3\";package p;option (o)=a", ".b", "", "", ";"},
	{"string-concat", "syntax=\"proto3\";package p;option (o)=", "\"a\" ", "\"b\"", "", ";"},
	{"modifiers", "syntax=\"proto3\";package p;message M{", "repeated ", "int32 a=1;", "", "}"},
	{"semis", "syntax=\"proto3\";package p;", ";", "", "", ""},
	{"braces-toplevel", "", "{", "", "}", ""},
	{"brackets-toplevel", "", "[", "", "]", ""},
	{"mixed-brackets", "", "{[(", "", ")]}", ""},
	{"irreducible", "", "{[}", "", "]", ""},
	{"rpc-body", "syntax=\"proto3\";package p;service S{rpc M(A)returns(B)", "{option (o)={a:", "1", "};}", "}"},
	{"extend", "syntax=\"proto2\";package p;", "extend M{", "optional int32 a=1;", "}", ""},
	{"enum-in-message", "syntax=\"proto3\";package p;", "message M{enum E{A=0;}", "", "}", ""},
	{"block-comment-open", "syntax=\"proto3\";package p;", "/*", "x", "", ""},
	{"line-comments", "syntax=\"proto3\";package p;", "//c\n", "", "", ""},
}

func (s deepShape) build(d int, closed bool) string {
	var sb strings.Builder
	sb.Grow(len(s.Head) + d*(len(s.Open)+len(s.Close)) + len(s.Core) + len(s.Tail) + 1)
	sb.WriteString(s.Head)
	for i := 0; i < d; i++ {
		sb.WriteString(s.Open)
	}
	sb.WriteString(s.Core)
	if closed {
		for i := 0; i < d; i++ {
			sb.WriteString(s.Close)
		}
		sb.WriteString(s.Tail)
	}
	return sb.String()
}

// mutate applies k byte-level or token-level edits to a text.
func mutate(rng *vlib.RNG, text string, k int, other string) string {
	b := []byte(text)
	v := vocab()
	for i := 0; i < k; i++ {
		if len(b) == 0 {
			b = append(b, v[rng.Intn(len(v))]...)
			continue
		}
		p := rng.Intn(len(b))
		switch rng.Intn(14) {
		case 0: // bit flip
			b[p] ^= 1 << uint(rng.Intn(8))
		case 1: // random byte
			b[p] = byte(rng.Intn(256))
		case 2: // interesting byte
			b[p] = interestingBytes[rng.Intn(len(interestingBytes))]
		case 3: // delete byte
			b = append(b[:p], b[p+1:]...)
		case 4: // insert byte
			b = append(b[:p], append([]byte{interestingBytes[rng.Intn(len(interestingBytes))]}, b[p:]...)...)
		case 5: // delete a range
			q := min(len(b), p+rng.Range(1, 40))
			b = append(b[:p], b[q:]...)
		case 6: // duplicate a range
			q := min(len(b), p+rng.Range(1, 40))
			seg := append([]byte(nil), b[p:q]...)
			b = append(b[:q], append(seg, b[q:]...)...)
		case 7: // insert a vocabulary item
			w := v[rng.Intn(len(v))]
			b = append(b[:p], append([]byte(w), b[p:]...)...)
		case 8: // splice a piece of another file
			if other != "" {
				a := rng.Intn(len(other))
				q := min(len(other), a+rng.Range(1, 200))
				b = append(b[:p], append([]byte(other[a:q]), b[p:]...)...)
			}
		case 9: // swap two bytes
			q := rng.Intn(len(b))
			b[p], b[q] = b[q], b[p]
		case 10: // replace the next bracket/punctuation with another
			const punct = "(){}[]<>;,=.:\"'/"
			for q := p; q < len(b) && q < p+200; q++ {
				if strings.IndexByte(punct, b[q]) >= 0 {
					b[q] = punct[rng.Intn(len(punct))]
					break
				}
			}
		case 11: // NUL / invalid UTF-8 insertion
			bad := []string{"\x00", "\xff", "\xc0\x80", "\xed\xa0\x80", "\xe2\x82", "\xf4\x90\x80\x80", "\ufeff", "\u2028"}
			w := bad[rng.Intn(len(bad))]
			b = append(b[:p], append([]byte(w), b[p:]...)...)
		case 12: // open an unterminated string/comment
			w := []string{"\"", "'", "/*", "//", "\"\\", "*/"}[rng.Intn(6)]
			b = append(b[:p], append([]byte(w), b[p:]...)...)
		default: // truncate
			if rng.Chance(0.3) {
				b = b[:p]
			}
		}
	}
	return string(b)
}

// warningOnly builds inputs that are syntactically valid and trigger only
// warning-level diagnostics in the experimental parser (or none at all).
func warningOnly(rng *vlib.RNG) (text string, expectWarn bool) {
	var sb strings.Builder
	syn := rng.Intn(4) // 0 none, 1 proto2, 2 proto3, 3 editions
	switch syn {
	case 0:
		expectWarn = true
	case 1:
		if rng.Chance(0.2) {
			sb.WriteString("syntax = \"pro\" \"to2\";\n") // impure string
			expectWarn = true
		} else {
			sb.WriteString("syntax = \"proto2\";\n")
		}
	case 2:
		sb.WriteString("syntax = \"proto3\";\n")
	default:
		sb.WriteString("edition = \"2023\";\n")
	}
	pkgLate := false
	if rng.Chance(0.7) {
		if rng.Chance(0.15) {
			pkgLate = true
		} else {
			sb.WriteString("package w.p;\n")
		}
	} else {
		expectWarn = true
	}
	if rng.Chance(0.3) {
		sb.WriteString("import \"google/protobuf/descriptor.proto\";\n")
	}
	if pkgLate {
		sb.WriteString("package w.p;\n") // after an import: "should be placed at the top"
	}
	proto2 := syn == 0 || syn == 1
	label := ""
	if proto2 {
		label = "optional "
	}
	n := rng.Range(1, 4)
	for i := 0; i < n; i++ {
		fmt.Fprintf(&sb, "message M%d {\n", i)
		k := rng.Range(1, 4)
		for j := 1; j <= k; j++ {
			switch {
			case proto2 && rng.Chance(0.3):
				fmt.Fprintf(&sb, "  required int32 r%d = %d;\n", j, j)
				expectWarn = true
			case proto2 && rng.Chance(0.2):
				fmt.Fprintf(&sb, "  optional group G%d = %d { optional int32 x = 1; }\n", j, j)
				expectWarn = true
			case rng.Chance(0.15):
				fmt.Fprintf(&sb, "  %sstring s%d = %d [(w.p.o) = <a: 1>];\n", label, j, j)
				expectWarn = true
			case rng.Chance(0.1):
				fmt.Fprintf(&sb, "  %sstring s%d = %d [(w.p.o) = []];\n", label, j, j)
				expectWarn = true
			case rng.Chance(0.1):
				fmt.Fprintf(&sb, "  %sstring s%d = %d [json_name = \"a\\x01b\"];\n", label, j, j)
				expectWarn = true
			default:
				fmt.Fprintf(&sb, "  %sint32 f%d = %d;\n", label, j, j)
			}
		}
		sb.WriteString("}\n")
	}
	return sb.String(), expectWarn
}
