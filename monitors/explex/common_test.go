package explex

// Shared helpers of the explex monitors (C28 … C31): corpus loading, the
// pluggable list of input sources, the parse wrapper and the diagnostic
// inspection used by every monitor of the group.

import (
	"fmt"
	"io/fs"
	"os"
	"path/filepath"
	"reflect"
	"regexp"
	"sort"
	"strings"
	"sync"
	"unicode/utf8"
	"unsafe"

	"github.com/bufbuild/protocompile/experimental/ast"
	"github.com/bufbuild/protocompile/experimental/parser"
	"github.com/bufbuild/protocompile/experimental/report"
	"github.com/bufbuild/protocompile/experimental/source"
	"github.com/bufbuild/protocompile/internal/verifmon/vlib"
)

// namedSource is one input text with a stable name (used in case ids).
type namedSource struct {
	Name string
	Text string
}

// inputSource is a pluggable producer of input texts. A shared schema
// generator can be wired in by appending to extraSources from an init()
// function in another file of this package; every monitor of the group
// consumes extraSources next to the corpus and its own generators.
type inputSource struct {
	Name string
	// Gen returns up to n sources; it must be a pure function of rng and n.
	Gen func(rng *vlib.RNG, n int) []namedSource
}

var extraSources []inputSource

// extraInputs draws n inputs from every registered extra source.
func extraInputs(r *vlib.Run, stream string, n int) []namedSource {
	var out []namedSource
	for _, s := range extraSources {
		got := s.Gen(r.Rng(stream+"/extra/"+s.Name), n)
		for i := range got {
			got[i].Name = "extra:" + s.Name + "/" + got[i].Name
		}
		out = append(out, got...)
	}
	return out
}

func repoRoot() string {
	if v := os.Getenv("VERIF_REPO"); v != "" {
		return v
	}
	return "/repo"
}

func modCache() string {
	if v := os.Getenv("GOMODCACHE"); v != "" {
		return v
	}
	return "/root/go/pkg/mod"
}

var (
	corpusOnce sync.Once
	corpusAll  []namedSource
	corpusErr  error
)

// protobufGoDir finds the google.golang.org/protobuf module directory of the
// version required by the repository's go.mod.
func protobufGoDir() string {
	b, err := os.ReadFile(filepath.Join(repoRoot(), "go.mod"))
	ver := "v1.36.11"
	if err == nil {
		if m := regexp.MustCompile(`(?m)^\s*google\.golang\.org/protobuf\s+(v\S+)`).FindSubmatch(b); m != nil {
			ver = string(m[1])
		}
	}
	return filepath.Join(modCache(), "google.golang.org", "protobuf@"+ver)
}

// corpus returns every *.proto file available offline: the repository's
// testdata directories and the protobuf-go module. Sorted by name, so the
// list is a pure function of the trees.
func corpus() ([]namedSource, error) {
	corpusOnce.Do(func() {
		type root struct {
			tag, dir string
			filter   func(rel string) bool
		}
		roots := []root{
			{"repo", filepath.Join(repoRoot(), "internal", "testdata"), nil},
			{"repo", filepath.Join(repoRoot(), "experimental"), func(rel string) bool { return strings.Contains(rel, "testdata") }},
			{"pbgo", protobufGoDir(), nil},
		}
		for _, rt := range roots {
			base := rt.dir
			if rt.tag == "repo" {
				base = repoRoot()
			}
			err := filepath.WalkDir(rt.dir, func(p string, d fs.DirEntry, err error) error {
				if err != nil {
					return nil
				}
				if d.IsDir() || !strings.HasSuffix(p, ".proto") {
					return nil
				}
				rel, _ := filepath.Rel(base, p)
				if rt.filter != nil && !rt.filter(rel) {
					return nil
				}
				b, err := os.ReadFile(p)
				if err != nil {
					return nil
				}
				corpusAll = append(corpusAll, namedSource{Name: rt.tag + ":" + filepath.ToSlash(rel), Text: string(b)})
				return nil
			})
			if err != nil {
				corpusErr = err
			}
		}
		sort.Slice(corpusAll, func(i, j int) bool { return corpusAll[i].Name < corpusAll[j].Name })
		if len(corpusAll) == 0 {
			corpusErr = fmt.Errorf("no corpus files found under %s and %s", repoRoot(), protobufGoDir())
		}
	})
	return corpusAll, corpusErr
}

// ---------------------------------------------------------------------------
// parse wrapper

type snippetInfo struct {
	Span    source.Span
	Primary bool
	Edits   []report.Edit
}

type parseOutcome struct {
	File   *ast.File
	Src    *source.File
	OK     bool
	Report *report.Report
	Panic  any
	Stack  string
	// counts per level
	NICE, NErr, NWarn, NRemark int
}

// parseText runs the experimental parser on text with a fresh report and
// collects everything the monitors look at. A panic escaping parser.Parse is
// recovered and returned.
func parseText(path, text string) *parseOutcome {
	o := &parseOutcome{Report: &report.Report{}}
	o.Src = source.NewFile(path, text)
	o.Panic, o.Stack = vlib.Try(func() {
		o.File, o.OK = parser.Parse(path, o.Src, o.Report)
	})
	if o.Panic != nil {
		return o
	}
	for i := range o.Report.Diagnostics {
		switch o.Report.Diagnostics[i].Level() {
		case report.ICE:
			o.NICE++
		case report.Error:
			o.NErr++
		case report.Warning:
			o.NWarn++
		case report.Remark:
			o.NRemark++
		}
	}
	return o
}

// snippetsOf reads every snippet (not only the primary one) of a diagnostic.
// The public API exposes only Primary(), and Report.ToProto does not carry the
// file's text, so the unexported field `snippets` is read by reflection (a
// pure read). An error means the field layout changed: the caller must treat
// that as inconclusive, never as a pass.
func snippetsOf(d *report.Diagnostic) (out []snippetInfo, err error) {
	defer func() {
		if p := recover(); p != nil {
			err = fmt.Errorf("reflection over report.Diagnostic failed: %v", p)
		}
	}()
	v := reflect.ValueOf(d).Elem()
	f := v.FieldByName("snippets")
	if !f.IsValid() || f.Kind() != reflect.Slice {
		return nil, fmt.Errorf("report.Diagnostic has no slice field `snippets`")
	}
	f = reflect.NewAt(f.Type(), unsafe.Pointer(f.UnsafeAddr())).Elem()
	for i := 0; i < f.Len(); i++ {
		e := f.Index(i)
		var si snippetInfo
		sp := e.FieldByName("Span")
		if !sp.IsValid() {
			return nil, fmt.Errorf("snippet has no field Span")
		}
		si.Span = reflect.NewAt(sp.Type(), unsafe.Pointer(sp.UnsafeAddr())).Elem().Interface().(source.Span)
		if p := e.FieldByName("primary"); p.IsValid() {
			si.Primary = p.Bool()
		}
		if ed := e.FieldByName("edits"); ed.IsValid() {
			si.Edits, _ = reflect.NewAt(ed.Type(), unsafe.Pointer(ed.UnsafeAddr())).Elem().Interface().([]report.Edit)
		}
		out = append(out, si)
	}
	return out, nil
}

// normMsg turns a diagnostic message into a class: quoted fragments, numbers
// and back-quoted source fragments are replaced, so that the class does not
// depend on the concrete input.
var (
	reBacktick = regexp.MustCompile("`[^`]*`")
	reQuoted   = regexp.MustCompile(`"(?:[^"\\]|\\.)*"`)
	reNumber   = regexp.MustCompile(`[0-9]+`)
)

func normMsg(s string) string {
	s = reBacktick.ReplaceAllString(s, "`…`")
	s = reQuoted.ReplaceAllString(s, `"…"`)
	s = reNumber.ReplaceAllString(s, "N")
	if len(s) > 120 {
		s = s[:120]
	}
	return s
}

// iceSite extracts a stable site out of an ICE diagnostic's debug lines (the
// stack trace CatchICE appends): first frame inside the module that is not
// the report package itself.
func iceSite(d *report.Diagnostic) string {
	lines := d.Debug()
	for _, l := range lines {
		l = strings.TrimSpace(l)
		if !strings.HasPrefix(l, "github.com/bufbuild/protocompile/") {
			continue
		}
		if strings.Contains(l, "/experimental/report.") || strings.Contains(l, "/verifmon/") {
			continue
		}
		if i := strings.LastIndex(l, "("); i > 0 {
			l = l[:i]
		}
		l = strings.ReplaceAll(l, "[...]", "")
		return strings.TrimPrefix(l, "github.com/bufbuild/protocompile/")
	}
	return "unknown"
}

// clip shortens a text for witnesses.
func clip(s string, n int) string {
	if len(s) <= n {
		return s
	}
	return s[:n/2] + fmt.Sprintf("…[%d bytes]…", len(s)-n) + s[len(s)-n/2:]
}

// witnessText renders an input for a replay witness: as a Go-quoted string
// when it is short or not valid UTF-8, raw otherwise.
func witnessText(s string) any {
	if len(s) > 6000 {
		return map[string]any{"len": len(s), "quoted_prefix": fmt.Sprintf("%q", s[:3000]), "quoted_suffix": fmt.Sprintf("%q", s[len(s)-1500:])}
	}
	if !utf8.ValidString(s) {
		return map[string]any{"quoted": fmt.Sprintf("%q", s)}
	}
	return s
}

// preludeRejects decides, independently of the lexer, whether a text falls in
// the lexer's documented prelude rejection: a UTF-16 signature (FE FF / FF FE
// prefix, or a NUL among the first two bytes) or any invalid UTF-8.
func preludeRejects(text string) bool {
	if text == "" {
		return false
	}
	if strings.HasPrefix(text, "\xfe\xff") || strings.HasPrefix(text, "\xff\xfe") {
		return true
	}
	if len(text) >= 2 && (text[0] == 0 || text[1] == 0) {
		return true
	}
	return !utf8.ValidString(text)
}
