package explex

// Difference classifier: turns "text A and text B differ" into a list of
// stable classes, one per kind of difference site. Used for the (kind, sig)
// of C30/C31 violations — the verdict itself is always plain byte (or
// descriptor) equality; the classifier only names what was observed.

import (
	"fmt"
	"sort"
	"strings"

	"github.com/bufbuild/protocompile/experimental/token"
)

type diffClass struct {
	Class  string
	Detail map[string]any
}

func tokClass(t sigTok) string {
	switch t.Kind {
	case token.Ident:
		return "word"
	case token.Number:
		return "number"
	case token.String:
		return "string"
	case token.Unrecognized:
		return "unrecognized"
	}
	if len(t.Text) <= 3 {
		return "`" + t.Text + "`"
	}
	return "punct"
}

func wsClass(s string) string {
	n := strings.Count(s, "\n")
	switch {
	case s == "":
		return "none"
	case n == 0:
		return "space"
	case n == 1:
		return "newline"
	default:
		return "blank-line"
	}
}

func commentKind(s string) string {
	if strings.HasPrefix(s, "//") {
		return "line-comment"
	}
	return "block-comment"
}

// stripIndent removes the spaces and tabs that follow each newline.
func stripIndent(s string) string {
	var sb strings.Builder
	afterNL := false
	for i := 0; i < len(s); i++ {
		ch := s[i]
		if afterNL && (ch == ' ' || ch == '\t') {
			continue
		}
		afterNL = ch == '\n'
		sb.WriteByte(ch)
	}
	return sb.String()
}

// splitGap separates a gap into its comments and the whitespace segments
// around them (len(ws) == len(comments)+1).
func splitGap(items []gapItem) (comments []string, ws []string) {
	cur := ""
	for _, it := range items {
		if it.Comment {
			ws = append(ws, cur)
			cur = ""
			comments = append(comments, it.Text)
		} else {
			cur += it.Text
		}
	}
	ws = append(ws, cur)
	return
}

// compareGap classifies the differences between two trivia gaps that sit
// between the same pair of significant tokens.
func compareGap(left, right string, want, got []gapItem, fineClasses bool, add func(class string, detail map[string]any)) {
	wt, gt := gapText(want), gapText(got)
	if wt == gt {
		return
	}
	det := map[string]any{"between": left + " … " + right, "source_gap": wt, "printed_gap": gt}
	wc, wws := splitGap(want)
	gc, gws := splitGap(got)
	if len(wc) != len(gc) {
		if len(gc) < len(wc) {
			add("comment-dropped", det)
		} else {
			add("comment-added", det)
		}
		return
	}
	for i := range wc {
		if wc[i] == gc[i] {
			continue
		}
		a, b := wc[i], gc[i]
		switch {
		case strings.HasPrefix(a, "//") && strings.HasPrefix(b, "/*"):
			add("line-comment-rewritten-as-block-comment", det)
		case strings.HasPrefix(a, "/*") && strings.HasPrefix(b, "//"):
			add("block-comment-rewritten-as-line-comment", det)
		case strings.Join(strings.Fields(a), " ") == strings.Join(strings.Fields(b), " "):
			add("comment-interior-whitespace-changed", det)
		default:
			add("comment-text-changed", det)
		}
		return
	}
	n := len(wc)
	for k := 0; k <= n; k++ {
		a, b := wws[k], gws[k]
		if a == b {
			continue
		}
		l, r := left, right
		if k > 0 {
			l = commentKind(wc[k-1])
		}
		if k < n {
			r = commentKind(wc[k])
		}
		ca, cb := wsClass(a), wsClass(b)
		na, nb := strings.Count(a, "\n"), strings.Count(b, "\n")
		isComment := func(s string) bool { return s == "line-comment" || s == "block-comment" }
		isCloser := func(s string) bool { return s == "`)`" || s == "`]`" || s == "`}`" || s == "`>`" }
		isOpener := func(s string) bool { return s == "`(`" || s == "`[`" || s == "`{`" || s == "`<`" }
		var class string
		switch {
		case r == "EOF" && a == "" && nb >= 1 && strings.Trim(b, "\n") == "":
			class = "final-newline-appended"
		case r == "EOF":
			class = "eof-trailing-whitespace-not-preserved"
		case isComment(r) && !isComment(l) && k == 0 && na == 0 && nb > 0:
			class = "trailing-" + r + "-moved-to-own-line"
		case isComment(r) && na > 0 && nb == 0:
			class = r + "-joined-to-previous-line"
		case na == nb && na > 0 && !isComment(l) && !isComment(r) && stripIndent(a) == stripIndent(b):
			class = "indentation-after-newline-changed"
		case l == "string" && r == "string":
			class = "whitespace-between-adjacent-strings-not-preserved"
		case isComment(l) && isComment(r):
			class = "whitespace-between-comments-not-preserved"
		case isComment(r):
			class = "whitespace-before-comment-not-preserved"
		case isComment(l) && isCloser(r):
			class = "whitespace-between-comment-and-closing-bracket-not-preserved"
		case isComment(l):
			class = "whitespace-after-comment-not-preserved"
		case isCloser(r):
			class = "whitespace-before-closing-bracket-not-preserved"
		case isOpener(l):
			class = "whitespace-after-opening-bracket-not-preserved"
		case l == "`;`" || l == "`}`":
			class = "whitespace-between-declarations-not-preserved"
		case l == "`,`":
			class = "whitespace-after-comma-not-preserved"
		default:
			class = "whitespace-not-preserved (other position)"
		}
		if fineClasses {
			class += " (" + ca + " -> " + cb + ")"
		}
		d2 := map[string]any{"whitespace": ca + " -> " + cb, "neighbours": l + " | " + r, "source_whitespace": a, "printed_whitespace": b}
		for kk, vv := range det {
			d2[kk] = vv
		}
		add(class, d2)
	}
}

// diffClasses aligns the significant tokens of want and got and classifies
// every difference site. tokenLevelOnly suppresses pure whitespace classes
// (used where whitespace changes are expected, i.e. formatting); fine adds the
// whitespace transformation (e.g. "newline -> blank-line") to whitespace classes.
func diffClasses(want, got string, tokenLevelOnly, fine bool) []diffClass {
	if want == got {
		return nil
	}
	return collapseSwallow(diffClassesRaw(want, got, tokenLevelOnly, fine, false), want, got, false)
}

// diffClassesIgnoringTrail is diffClasses without the comparison of the trivia
// after the last significant token (the file's trailing trivia).
func diffClassesIgnoringTrail(want, got string) []diffClass {
	if want == got {
		return nil
	}
	sw := commentSwallows(want, got)
	// Give both texts the same trailing trivia (the longest common prefix of
	// their trails), so that nothing after the last significant token counts.
	if A, ok := viewOf(want); ok {
		if B, ok := viewOf(got); ok {
			ta, tb := want[A.LastSigEnd:], got[B.LastSigEnd:]
			n := 0
			for n < len(ta) && n < len(tb) && ta[n] == tb[n] {
				n++
			}
			want, got = want[:A.LastSigEnd+n], got[:B.LastSigEnd+n]
		}
	}
	return collapseSwallow(diffClassesRaw(want, got, false, false, true), want, got, sw)
}

func diffClassesRaw(want, got string, tokenLevelOnly, fine, ignoreTrail bool) []diffClass {
	var out []diffClass
	seen := map[string]bool{}
	add := func(class string, detail map[string]any) {
		if seen[class] {
			return
		}
		seen[class] = true
		out = append(out, diffClass{class, detail})
	}
	A, okA := viewOf(want)
	B, okB := viewOf(got)
	if !okA || !okB {
		add("unclassified (the lexer does not tile one of the texts)", map[string]any{"want_ok": okA, "got_ok": okB})
		return out
	}
	if cls := reorderClass(A, B); cls != "" {
		add(cls, map[string]any{"note": "same multiset of significant tokens, different order"})
		return out
	}
	gapAdd := add
	if tokenLevelOnly {
		gapAdd = func(class string, detail map[string]any) {
			if strings.HasPrefix(class, "comment-") || strings.Contains(class, "rewritten") {
				add(class, detail)
			}
		}
	}
	i, j := 0, 0
	left := "BOF"
	lost := 0
	for i < len(A.Toks) && j < len(B.Toks) {
		a, b := A.Toks[i], B.Toks[j]
		if a.Text == b.Text {
			ctx := gapContext(A.Toks, i)
			compareGap(left, tokClass(a), a.Lead, b.Lead, fine, func(class string, detail map[string]any) {
				detail["context"] = ctx
				gapAdd(class, detail)
			})
			left = tokClass(a)
			i++
			j++
			lost = 0
			continue
		}
		det := map[string]any{"after": left, "source_token": a.Text, "printed_token": b.Text, "source_offset": a.Start, "printed_offset": b.Start}
		switch {
		case i+2 < len(A.Toks) && (A.Toks[i+1].Text == "," || A.Toks[i+1].Text == ";") && b.Text == a.Text+A.Toks[i+2].Text:
			add("adjacent-tokens-fused (the separator between them was dropped)", det)
			left = tokClass(A.Toks[i+2])
			i += 3
			j++
		case i+1 < len(A.Toks) && b.Text == a.Text+A.Toks[i+1].Text:
			add("adjacent-tokens-fused", det)
			left = tokClass(A.Toks[i+1])
			i += 2
			j++
		case i+1 < len(A.Toks) && A.Toks[i+1].Text == b.Text:
			// a is missing from got. Was it swallowed by a comment?
			sw := false
			for _, it := range b.Lead {
				if it.Comment && strings.Contains(it.Text, a.Text) {
					wantHas := false
					for _, w := range append(append([]gapItem{}, a.Lead...), A.Toks[i+1].Lead...) {
						if w.Comment && w.Text == it.Text {
							wantHas = true
						}
					}
					if !wantHas {
						sw = true
					}
				}
			}
			if sw {
				add("token-swallowed-by-comment: "+tokClass(a), det)
			} else {
				add("token-dropped: "+tokClass(a), det)
			}
			i++
		case j+1 < len(B.Toks) && a.Text == B.Toks[j+1].Text:
			add("token-added: "+tokClass(b), det)
			j++
		case i+1 < len(A.Toks) && j+1 < len(B.Toks) && A.Toks[i+1].Text == B.Toks[j+1].Text:
			add("token-changed: "+tokClass(a)+" -> "+tokClass(b), det)
			left = tokClass(a)
			i++
			j++
		default:
			lost++
			if lost > 3 {
				add("token-sequence-diverges [after "+left+"]", det)
				return out
			}
			// skip the shorter side's token
			if len(A.Toks)-i > len(B.Toks)-j {
				add("token-dropped: "+tokClass(a), det)
				i++
			} else {
				add("token-added: "+tokClass(b), det)
				j++
			}
		}
	}
	for ; i < len(A.Toks); i++ {
		// A token of the source missing at the end: swallowed by a trailing comment?
		sw := false
		for _, it := range B.Trail {
			if it.Comment && strings.Contains(it.Text, A.Toks[i].Text) {
				sw = true
			}
		}
		if sw {
			add("token-swallowed-by-comment: "+tokClass(A.Toks[i]), map[string]any{"source_token": A.Toks[i].Text})
		} else {
			add("token-dropped: "+tokClass(A.Toks[i]), map[string]any{"source_token": A.Toks[i].Text, "at": "end"})
		}
	}
	for ; j < len(B.Toks); j++ {
		add("token-added: "+tokClass(B.Toks[j]), map[string]any{"printed_token": B.Toks[j].Text, "at": "end"})
	}
	if !ignoreTrail && (len(out) == 0 || (i == len(A.Toks) && j == len(B.Toks))) {
		compareGap(left, "EOF", A.Trail, B.Trail, fine, gapAdd)
	}
	if len(out) == 0 {
		if tokenLevelOnly || ignoreTrail {
			return nil
		}
		add("unclassified (texts differ but token views agree)", nil)
	}
	return out
}

// collapseSwallow: when a // comment of got swallowed live text, the other
// token-level and comment-level classes of the same comparison are its
// consequences (the alignment cannot tell "dropped" from "swallowed" for the
// tokens in the middle of a swallowed run). They are folded into one class;
// dropped `,` / `;` separators are kept because the printer also elides
// those on its own.
func collapseSwallow(ds []diffClass, want, got string, force bool) []diffClass {
	ds = foldCommentMoves(ds, want, got)
	sw := force || commentSwallows(want, got)
	for _, d := range ds {
		if strings.HasPrefix(d.Class, "token-swallowed-by-comment") {
			sw = true
		}
	}
	if !sw {
		return ds
	}
	var out []diffClass
	var folded []string
	var first map[string]any
	for _, d := range ds {
		cat := classCategory(d.Class)
		atEnd := d.Detail != nil && d.Detail["at"] == "end"
		keep := cat == "whitespace" || cat == "eof" || (!atEnd && (d.Class == "token-dropped: `,`" || d.Class == "token-dropped: `;`")) || d.Class == "comment-interior-whitespace-changed"
		if keep {
			out = append(out, d)
			continue
		}
		folded = append(folded, d.Class)
		if first == nil {
			first = d.Detail
		}
	}
	return append(out, diffClass{"token-swallowed-by-comment", map[string]any{"folded_classes": folded, "first_detail": first}})
}

// classCategory groups the classes (used as a suffix of the violation kind so
// that no single kind carries dozens of signatures).
func classCategory(class string) string {
	switch {
	case strings.HasPrefix(class, "token-"), strings.HasPrefix(class, "tokens-"), strings.HasPrefix(class, "top-level-statements"), strings.HasPrefix(class, "adjacent-tokens"):
		return "token"
	case strings.HasPrefix(class, "comment-"), strings.Contains(class, "rewritten"), strings.HasPrefix(class, "line-comment-swallows"):
		return "comment"
	case strings.HasPrefix(class, "final-newline"), strings.HasPrefix(class, "eof-"):
		return "eof"
	case strings.HasPrefix(class, "unclassified"):
		return "other"
	}
	return "whitespace"
}

func classNames(ds []diffClass) []string {
	var s []string
	for _, d := range ds {
		s = append(s, d.Class)
	}
	sort.Strings(s)
	return s
}

// firstDiffContext shows the first differing byte with context, for witnesses.
func firstDiffContext(a, b string) map[string]any {
	i := 0
	for i < len(a) && i < len(b) && a[i] == b[i] {
		i++
	}
	lo := max(0, i-60)
	return map[string]any{"offset": i, "want": fmt.Sprintf("%q", a[lo:min(len(a), i+60)]), "got": fmt.Sprintf("%q", b[lo:min(len(b), i+60)])}
}

// statements splits the significant tokens into statements (ended by `;` or a
// closing `}` at bracket depth 0 of the statement) and returns them as strings.
func statements(v tokView) []string {
	var out []string
	var cur []string
	depth := 0
	for _, t := range v.Toks {
		cur = append(cur, t.Text)
		switch t.Text {
		case "{", "[", "(":
			depth++
		case "}", "]", ")":
			depth--
		}
		if depth <= 0 && (t.Text == ";" || t.Text == "}") {
			out = append(out, strings.Join(cur, " "))
			cur = nil
			depth = 0
		}
	}
	if len(cur) > 0 {
		out = append(out, strings.Join(cur, " "))
	}
	return out
}

// reorderClass recognises a pure reordering: the same significant tokens in a
// different order. It names the statements that moved by their leading keyword.
func reorderClass(A, B tokView) string {
	if len(A.Toks) != len(B.Toks) {
		return ""
	}
	same := true
	for i := range A.Toks {
		if A.Toks[i].Text != B.Toks[i].Text {
			same = false
			break
		}
	}
	if same {
		return ""
	}
	count := map[string]int{}
	for _, t := range A.Toks {
		count[t.Text]++
	}
	for _, t := range B.Toks {
		count[t.Text]--
	}
	for _, n := range count {
		if n != 0 {
			return ""
		}
	}
	sa, sb := statements(A), statements(B)
	if len(sa) == len(sb) {
		ca := map[string]int{}
		for _, s := range sa {
			ca[s]++
		}
		for _, s := range sb {
			ca[s]--
		}
		ok := true
		for _, n := range ca {
			if n != 0 {
				ok = false
			}
		}
		if ok {
			kw := "?"
			for i := range sa {
				if sa[i] != sb[i] {
					kw = strings.SplitN(sa[i], " ", 2)[0]
					break
				}
			}
			return "top-level-statements-reordered (first moved statement starts with `" + kw + "`)"
		}
	}
	return "tokens-reordered"
}

// commentSwallows reports whether some // comment of got consists of a // comment
// of want followed by text that lexes to at least one significant token or
// opens a block comment, i.e. the printer put live text on the same line
// behind a line comment.
func commentSwallows(want, got string) bool { return swallowLevel(want, got) == 2 }

// swallowLevel: 0 = no // comment of got grew; 1 = some // comment of got is a
// // comment of want followed only by further comment text (comments merged
// onto one line); 2 = followed by live text (tokens or a block-comment opener).
func swallowLevel(want, got string) int {
	A, okA := viewOf(want)
	B, okB := viewOf(got)
	if !okA || !okB {
		return 0
	}
	orig := map[string]bool{}
	var origList []string
	collect := func(items []gapItem) {
		for _, it := range items {
			if it.Comment && strings.HasPrefix(it.Text, "//") {
				t := strings.TrimRight(it.Text, " \t\r\n")
				if !orig[t] {
					orig[t] = true
					origList = append(origList, t)
				}
			}
		}
	}
	for _, t := range A.Toks {
		collect(t.Lead)
	}
	collect(A.Trail)
	level := 0
	check := func(items []gapItem) {
		for _, it := range items {
			if !it.Comment || !strings.HasPrefix(it.Text, "//") {
				continue
			}
			t := strings.TrimRight(it.Text, " \t\r\n")
			if orig[t] {
				continue
			}
			best := ""
			for _, o := range origList {
				if len(o) > len(best) && len(o) < len(t) && strings.HasPrefix(t, o) {
					best = o
				}
			}
			if best == "" {
				continue
			}
			rest := t[len(best):]
			// A block-comment opener behind a // comment is dead text: the rest of
			// that block comment leaks out as tokens on the following lines.
			if strings.Contains(rest, "/*") {
				level = 2
				return
			}
			if v, ok := viewOf(rest); ok && len(v.Toks) > 0 {
				level = 2
				return
			}
			if strings.TrimSpace(rest) != "" && level < 1 {
				level = 1
			}
		}
	}
	for _, t := range B.Toks {
		check(t.Lead)
		if level == 2 {
			return 2
		}
	}
	check(B.Trail)
	return level
}

// foldCommentMoves replaces the per-gap comment classes (a comment missing
// here, an extra comment there, a different comment at the same place) by what
// happened to the comments globally: "comment-lost" when some comment of want
// occurs nowhere in got, "comment-moved" when all comments survive but sit in
// different gaps, "comment-duplicated-or-invented" when got has comments want
// does not have.
func foldCommentMoves(ds []diffClass, want, got string) []diffClass {
	isLocal := func(c string) bool {
		return c == "comment-dropped" || c == "comment-added" || c == "comment-text-changed" || strings.Contains(c, "rewritten")
	}
	found := false
	for _, d := range ds {
		if isLocal(d.Class) {
			found = true
		}
	}
	if !found {
		return ds
	}
	A, okA := viewOf(want)
	B, okB := viewOf(got)
	if !okA || !okB {
		return ds
	}
	norm := func(s string) string { return strings.Join(strings.Fields(s), " ") }
	count := func(v tokView) map[string]int {
		m := map[string]int{}
		add := func(items []gapItem) {
			for _, it := range items {
				if it.Comment {
					m[norm(it.Text)]++
				}
			}
		}
		for _, t := range v.Toks {
			add(t.Lead)
		}
		add(v.Trail)
		return m
	}
	ca, cb := count(A), count(B)
	lost, extra := "", ""
	for k, n := range ca {
		if cb[k] < n && (lost == "" || k < lost) {
			lost = k
		}
	}
	for k, n := range cb {
		if ca[k] < n && (extra == "" || k < extra) {
			extra = k
		}
	}
	var out []diffClass
	var first map[string]any
	var folded []string
	for _, d := range ds {
		if isLocal(d.Class) {
			folded = append(folded, d.Class)
			if first == nil {
				first = d.Detail
			}
			continue
		}
		out = append(out, d)
	}
	det := map[string]any{"folded_classes": folded, "first_detail": first}
	switch {
	case lost != "" && swallowLevel(want, got) >= 1:
		det["a_lost_comment"] = lost
		out = append(out, diffClass{"line-comment-swallows-the-comment-that-follows-it", det})
	case lost != "":
		det["a_lost_comment"] = lost
		out = append(out, diffClass{"comment-lost", det})
	case extra != "":
		det["an_extra_comment"] = extra
		out = append(out, diffClass{"comment-duplicated-or-invented", det})
	default:
		out = append(out, diffClass{"comment-moved", det})
	}
	return out
}

// gapContext says where the gap before token i lies: "option value" if some enclosing bracket was opened
// right after an `=` or a `:` or is a `[`/`<` literal inside one (message literals, array literals),
// "compact options" if the innermost enclosing bracket is a `[` that is not part of a value, else "declarations".
func gapContext(toks []sigTok, i int) string {
	depth := 0
	innermost := ""
	for k := i - 1; k >= 0; k-- {
		switch toks[k].Text {
		case "}", "]", ")", ">":
			depth++
		case "{", "[", "(", "<":
			if depth > 0 {
				depth--
				continue
			}
			// an enclosing opener
			prev := ""
			if k > 0 {
				prev = toks[k-1].Text
			}
			if prev == "=" || prev == ":" {
				return "option value"
			}
			if innermost == "" {
				innermost = toks[k].Text
			}
		}
	}
	if innermost == "[" {
		return "compact options"
	}
	return "declarations"
}
