package incr

import (
	"context"
	"errors"
	"fmt"
	"os"
	"runtime"
	"runtime/pprof"
	"sync"
	"sync/atomic"
	"testing"
	"time"

	"github.com/bufbuild/protocompile/experimental/incremental"
	"github.com/bufbuild/protocompile/internal/verifhook"
)

type pk struct{ ID int }

type pq struct {
	g      *pgraph
	id     int
}

type pgraph struct {
	deps  map[int][]int
	panic map[int]bool
	mu    sync.Mutex
	log   []string
	gate  map[int]chan struct{}
}

func (q pq) Key() any { return pk{q.id} }
func (q pq) Execute(t *incremental.Task) (int, error) {
	g := q.g
	g.mu.Lock()
	g.log = append(g.log, fmt.Sprintf("exec %d", q.id))
	gate := g.gate[q.id]
	g.mu.Unlock()
	if gate != nil {
		<-gate
	}
	if g.panic[q.id] {
		panic(fmt.Sprintf("boom %d", q.id))
	}
	var qs []incremental.Query[int]
	for _, d := range g.deps[q.id] {
		qs = append(qs, pq{g, d})
	}
	rs, err := incremental.Resolve(t, qs...)
	if err != nil {
		return 0, err
	}
	v := q.id + 1
	for _, r := range rs {
		if r.Fatal != nil {
			return 0, r.Fatal
		}
		v = v*31 + r.Value
	}
	return v, nil
}

func TestProbeLabels(t *testing.T) {
	pprof.Do(context.Background(), pprof.Labels("case", "abc"), func(ctx context.Context) {
		ch := make(chan struct{})
		go func() { <-ch }()
		time.Sleep(10 * time.Millisecond)
		pprof.Lookup("goroutine").WriteTo(os.Stdout, 2)
		buf := make([]byte, 1<<20)
		n := runtime.Stack(buf, true)
		fmt.Printf("---- runtime.Stack\n%s\n", buf[:n])
		close(ch)
	})
}

func TestProbePanicTwoRuns(t *testing.T) {
	g := &pgraph{deps: map[int][]int{0: {2}, 1: {2}}, panic: map[int]bool{2: true}, gate: map[int]chan struct{}{2: make(chan struct{})}}
	e := incremental.New(incremental.WithParallelism(4))
	done := make(chan string, 2)
	for i := 0; i < 2; i++ {
		go func() {
			_, _, err := incremental.Run(context.Background(), e, incremental.Query[int](pq{g, i}))
			done <- fmt.Sprintf("run %d: err=%v", i, err != nil)
		}()
	}
	time.Sleep(200 * time.Millisecond)
	close(g.gate[2])
	for i := 0; i < 2; i++ {
		select {
		case s := <-done:
			fmt.Println(s)
		case <-time.After(2 * time.Second):
			fmt.Println("TIMEOUT: a run did not return")
			buf := make([]byte, 1<<20)
			n := runtime.Stack(buf, true)
			fmt.Printf("%s\n", buf[:n])
			return
		}
	}
}

func TestProbePoison(t *testing.T) {
	g := &pgraph{deps: map[int][]int{0: {1, 2}}, panic: map[int]bool{2: true}}
	e := incremental.New(incremental.WithParallelism(4))
	rs, _, err := incremental.Run(context.Background(), e, incremental.Query[int](pq{g, 0}))
	var ep *incremental.ErrPanic
	fmt.Println("run1", rs, errors.As(err, &ep), e.Keys(), g.log)
	g.panic = map[int]bool{}
	rs, _, err = incremental.Run(context.Background(), e, incremental.Query[int](pq{g, 0}))
	fmt.Println("run2", rs, err, e.Keys(), g.log)
	fmt.Println("permits", e.VerifPermitsFree(4))
}

func TestProbeCycleRace(t *testing.T) {
	verifhook.Set(func(site, _ string) {
		if site == "incr.wait.beforeCheckCycle" || site == "incr.run.beforeExecute" {
			time.Sleep(50 * time.Microsecond)
		}
	})
	defer verifhook.Set(nil)
	for i := 0; i < 300; i++ {
		g := &pgraph{deps: map[int][]int{0: {1}, 1: {0}}}
		e := incremental.New(incremental.WithParallelism(4))
		rs, _, err := incremental.Run(context.Background(), e, incremental.Query[int](pq{g, 0}), incremental.Query[int](pq{g, 1}))
		if err != nil || rs[0].Fatal == nil || rs[1].Fatal == nil {
			fmt.Println("odd", i, rs, err)
		}
	}
}

func TestProbeZombie(t *testing.T) {
	// root 0 -> {1,2}; 1 panics (sync child, runs last); parallelism 1 so async child 2 blocks in acquire.
	g := &pgraph{deps: map[int][]int{0: {1, 2}}, panic: map[int]bool{1: true}}
	e := incremental.New(incremental.WithParallelism(1))
	_, _, err := incremental.Run(context.Background(), e, incremental.Query[int](pq{g, 0}))
	fmt.Println("run1 err!=nil:", err != nil, e.Keys(), g.log)
	time.Sleep(50 * time.Millisecond)
	fmt.Println("permits", e.VerifPermitsFree(1))
	done := make(chan struct{})
	go func() {
		rs, _, err := incremental.Run(context.Background(), e, incremental.Query[int](pq{g, 2}))
		fmt.Println("run2", rs, err)
		close(done)
	}()
	select {
	case <-done:
	case <-time.After(2 * time.Second):
		fmt.Println("TIMEOUT: run2 (sequential, after the panic run returned) did not return", g.log)
	}
}

func TestProbePoison2(t *testing.T) {
	g := &pgraph{deps: map[int][]int{0: {3, 1}, 1: {4, 2}}, panic: map[int]bool{2: true}, gate: map[int]chan struct{}{2: make(chan struct{})}}
	e := incremental.New(incremental.WithParallelism(4))
	go func() { time.Sleep(100 * time.Millisecond); close(g.gate[2]) }()
	_, _, err := incremental.Run(context.Background(), e, incremental.Query[int](pq{g, 0}))
	time.Sleep(50 * time.Millisecond)
	fmt.Println("run1 err!=nil:", err != nil, e.Keys(), g.log)
	g.panic = map[int]bool{}
	g.gate = nil
	rs, _, err := incremental.Run(context.Background(), e, incremental.Query[int](pq{g, 0}))
	fmt.Printf("run2 %.200v err=%v keys=%v log=%v\n", rs, err, e.Keys(), g.log)
}

func TestProbeEvict2(t *testing.T) {
	g := &pgraph{deps: map[int][]int{1: {0}}}
	e := incremental.New(incremental.WithParallelism(4))
	incremental.Run(context.Background(), e, incremental.Query[int](pq{g, 1}))
	fmt.Println("keys after Run(1):", e.Keys())
	var mu sync.Mutex
	arrived := 0
	both := make(chan struct{})
	verifhook.Set(func(site, _ string) {
		if site != "incr.evict.beforeLock" {
			return
		}
		mu.Lock()
		arrived++
		n := arrived
		if n == 2 {
			close(both)
		}
		mu.Unlock()
		<-both
		if n == 2 {
			time.Sleep(100 * time.Millisecond) // the second Evict takes the lock last
		}
	})
	defer verifhook.Set(nil)
	var wg sync.WaitGroup
	for i := 0; i < 2; i++ {
		wg.Add(1)
		go func() { defer wg.Done(); e.Evict(pk{0}) }()
	}
	<-both
	time.Sleep(30 * time.Millisecond) // first Evict done
	incremental.Run(context.Background(), e, incremental.Query[int](pq{g, 1}))
	fmt.Println("keys after Evict(0) + Run(1):", e.Keys())
	wg.Wait()
	fmt.Println("keys after second Evict(0):", e.Keys(), " log:", g.log)
	rs, _, _ := incremental.Run(context.Background(), e, incremental.Query[int](pq{g, 1}))
	fmt.Println("Run(1) again: changed =", rs[0].Changed, "keys:", e.Keys(), " log:", g.log)
}

func TestProbeZeroValue(t *testing.T) {
	n := 0
	var ctr atomic.Uint64
	verifhook.Set(func(site, _ string) {
		if site == "incr.run.follower" || site == "incr.run.beforeCAS" {
			time.Sleep(time.Duration(ctr.Add(1)*7919%400) * time.Microsecond)
		}
	})
	defer verifhook.Set(nil)
	for i := 0; i < 2000 && n < 3; i++ {
		g := &pgraph{deps: map[int][]int{6: {0}}, panic: map[int]bool{0: true}}
		e := incremental.New(incremental.WithParallelism(4))
		ctx, cancel := context.WithTimeout(context.Background(), 20*time.Millisecond)
		var wg sync.WaitGroup
		wg.Add(1)
		go func() {
			defer wg.Done()
			incremental.Run(ctx, e, incremental.Query[int](pq{g, 0}))
		}()
		rs, _, err := incremental.Run(ctx, e, incremental.Query[int](pq{g, 6}))
		wg.Wait()
		cancel()
		if err == nil && rs[0].Fatal == nil {
			n++
			fmt.Printf("iteration %d: Run(6) returned err=nil Fatal=nil value=%d although query 0 panics (its value is (6+1)*31+v0 => v0=%d)\n", i, rs[0].Value, rs[0].Value-7*31)
		}
	}
}
