package incr

// C34 — the incremental executor terminates on cycles and panics.
//
// What the property demands, read against the code (task.go / executor.go):
//
//   - "a run returns": incremental.Run comes back (results, an error, or a
//     panic) — decided by the logical quiescence criterion, never by a clock.
//   - "a query whose dependencies cycle back to it fails with a cycle error
//     naming the cycle": the executor hands the Resolve call that closes the
//     cycle a Result whose Fatal is an *ErrCycle; the harness bodies resolve
//     ALL dependencies in one Resolve and return the first failed
//     dependency's Fatal, so every root that reaches a cycle must come back
//     with Fatal = *ErrCycle naming a closed walk of real edges inside the
//     root's closure, and every root with an acyclic closure must come back
//     with Fatal == nil and the reference value. Run's own error stays nil.
//   - "a panicking query makes the run fail with a panic error": Run returns
//     (nil, nil, err) with errors.As(err, *ErrPanic), Query = the panicking
//     key, Panic = the injected value. It never panics out of Run.
//   - "and is not cached": the key is not in Keys() and a later Run that needs
//     it executes it again.
//   - "the semaphore permits are all released afterwards":
//     VerifPermitsFree(parallelism) at quiescence.
//
// Every expectation below is schedule-independent; the comments say why.

import (
	"context"
	"errors"
	"fmt"
	"sort"
	"strings"
	"sync"
	"sync/atomic"
	"testing"
	"time"

	"github.com/bufbuild/protocompile/experimental/incremental"
	"github.com/bufbuild/protocompile/internal/verifmon/vlib"
)

type c34Key struct{ N int }

type c34Query struct {
	c  *c34Case
	id int
}

func (q c34Query) Key() any { return c34Key{q.id} }

type c34Step struct {
	Runs  [][]int `json:"runs"`  // roots of each Run; several Runs are issued concurrently
	Panic []int   `json:"panic"` // nodes whose body panics during this step
}

type c34Exec struct {
	key, label, step int
	seq              int64
	outcome          string // "ok" | "panic" | "cycle" | "ctx" | "" (still running)
	ret              error
}

type c34Case struct {
	id      string
	g       qgraph
	par     int
	swallow bool // bodies do not propagate dependency errors (S9 probe)
	steps   []c34Step

	cl      []uint32
	rp      []uint32
	ref     []uint64
	refOK   []bool
	exec    *incremental.Executor
	mon     *caseMon
	panicOn atomic.Uint32
	curStep atomic.Int32

	clock    atomic.Int64
	mu       sync.Mutex
	execs    []*c34Exec
	returned map[error]int // error values returned by bodies -> key
	notes    []string      // observations made inside bodies (S9 consequences)
	badWalk  []string      // fresh cycle errors that are not closed walks of real edges
}

func injValue(key int) string { return fmt.Sprintf("injected panic in query %d", key) }

func (c *c34Case) cycleKeys(e *incremental.ErrCycle) ([]int, bool) {
	var ks []int
	for _, q := range e.Cycle {
		if q == nil {
			return nil, false
		}
		k, ok := q.Key().(c34Key)
		if !ok {
			return nil, false
		}
		ks = append(ks, k.N)
	}
	return ks, true
}

// closedWalk reports whether ks is a closed walk of real edges.
func (c *c34Case) closedWalk(ks []int) bool {
	if len(ks) < 2 || ks[0] != ks[len(ks)-1] {
		return false
	}
	for i := 0; i+1 < len(ks); i++ {
		if !c.g.hasEdge(ks[i], ks[i+1]) {
			return false
		}
	}
	return true
}

func (q c34Query) Execute(t *incremental.Task) (uint64, error) {
	c := q.c
	c.mon.reg()
	c.mon.busy.Add(1)
	defer c.mon.busy.Add(-1)
	c.mon.events.Add(1)
	defer c.mon.events.Add(1)
	label, _ := t.Context().Value(runLabelKey{}).(int)
	rec := &c34Exec{key: q.id, label: label, step: int(c.curStep.Load()), seq: c.clock.Add(1)}
	c.mu.Lock()
	c.execs = append(c.execs, rec)
	c.mu.Unlock()
	finish := func(outcome string, err error) {
		c.mu.Lock()
		rec.outcome, rec.ret = outcome, err
		if err != nil {
			c.returned[err] = q.id
		}
		c.mu.Unlock()
	}
	if c.panicOn.Load()&(1<<uint(q.id)) != 0 {
		finish("panic", nil)
		panic(injValue(q.id))
	}
	deps := c.g.Deps[q.id]
	var dv []uint64
	var firstFatal error
	if len(deps) > 0 {
		qs := make([]incremental.Query[uint64], len(deps))
		for i, d := range deps {
			qs[i] = c34Query{c, d}
		}
		c.mon.inRes.Add(1)
		c.mon.busy.Add(-1)
		rs, err := incremental.Resolve(t, qs...)
		c.mon.busy.Add(1)
		c.mon.inRes.Add(-1)
		if err != nil {
			// the Run was cancelled (a panic somewhere): propagate, as the API demands
			finish("ctx", err)
			return 0, err
		}
		for i, r := range rs {
			dv = append(dv, r.Value)
			if r.Fatal == nil {
				continue
			}
			if firstFatal == nil {
				firstFatal = r.Fatal
			}
			var ec *incremental.ErrCycle
			if !errors.As(r.Fatal, &ec) {
				continue
			}
			c.mu.Lock()
			_, propagated := c.returned[r.Fatal]
			c.mu.Unlock()
			if propagated {
				continue
			}
			// an error the executor created for THIS edge (q.id -> deps[i]): it must
			// be the walk deps[i] -> ... -> q.id -> deps[i].
			ks, ok := c.cycleKeys(ec)
			if !ok || !c.closedWalk(ks) {
				c.mu.Lock()
				c.badWalk = append(c.badWalk, fmt.Sprintf("query %d resolving %d got %v", q.id, deps[i], ks))
				c.mu.Unlock()
			} else if ks[0] != deps[i] || ks[len(ks)-2] != q.id {
				c.mu.Lock()
				c.notes = append(c.notes, fmt.Sprintf("foreign-cycle-error: query %d resolving %d got a fresh cycle error naming %v (not ending in %d -> %d)", q.id, deps[i], ks, q.id, deps[i]))
				c.mu.Unlock()
			}
		}
	}
	if firstFatal != nil && !c.swallow {
		var ec *incremental.ErrCycle
		if errors.As(firstFatal, &ec) {
			finish("cycle", firstFatal)
		} else {
			finish("err", firstFatal)
		}
		return 0, firstFatal
	}
	finish("ok", nil)
	return refHash(q.id, dv), nil
}

// ---------- generation ----------

func digraphFromBits(n int, bits uint64) qgraph {
	g := qgraph{N: n, Deps: make([][]int, n)}
	b := 0
	for i := 0; i < n; i++ {
		for j := 0; j < n; j++ {
			if bits&(1<<uint(b)) != 0 {
				g.Deps[i] = append(g.Deps[i], j)
			}
			b++
		}
	}
	return g
}

// allSmallDigraphs: every digraph on 1..3 nodes, self-loops included (2+16+512).
func allSmallDigraphs() []qgraph {
	var out []qgraph
	for n := 1; n <= 3; n++ {
		for bits := uint64(0); bits < 1<<uint(n*n); bits++ {
			out = append(out, digraphFromBits(n, bits))
		}
	}
	return out
}

func randomDigraph(rng *vlib.RNG, n int) qgraph {
	// a random DAG plus a few back edges / self-loops, so that cycles of every
	// length occur but most closures stay small
	g := randomDAG(rng, n)
	back := rng.Range(0, 3)
	for i := 0; i < back; i++ {
		a, b := rng.Intn(n), rng.Intn(n)
		if !g.hasEdge(a, b) {
			g.Deps[a] = append(g.Deps[a], b)
		}
	}
	return g
}

func genC34Steps(rng *vlib.RNG, c *c34Case, forceCycleRoots bool) []c34Step {
	n := c.g.N
	nSteps := []int{1, 1, 2, 2, 3}[rng.Intn(5)]
	var steps []c34Step
	// nodes on a cycle, for the "several roots hit one cycle" shape
	var onCycle []int
	for i := 0; i < n; i++ {
		if c.rp[i]&(1<<uint(i)) != 0 {
			onCycle = append(onCycle, i)
		}
	}
	panicMode := rng.Intn(4) // 0 none, 1 one node, 2 random subset, 3 first step only
	var pset []int
	switch panicMode {
	case 1, 3:
		pset = []int{rng.Intn(n)}
	case 2:
		for i := 0; i < n; i++ {
			if rng.Chance(0.3) {
				pset = append(pset, i)
			}
		}
	}
	for s := 0; s < nSteps; s++ {
		var st c34Step
		nRuns := []int{1, 1, 1, 2, 2, 3}[rng.Intn(6)]
		for k := 0; k < nRuns; k++ {
			var roots []int
			if len(onCycle) > 0 && (forceCycleRoots || rng.Chance(0.5)) {
				// roots on one cycle: pick a cycle node and another node of its SCC
				a := onCycle[rng.Intn(len(onCycle))]
				roots = append(roots, a)
				for _, b := range onCycle {
					if b != a && c.rp[a]&(1<<uint(b)) != 0 && c.rp[b]&(1<<uint(a)) != 0 && rng.Chance(0.7) {
						roots = append(roots, b)
					}
				}
				if rng.Chance(0.3) {
					roots = append(roots, rng.Intn(n))
				}
			} else {
				roots = pickRoots(rng, n, 3)
			}
			vlib.Shuffle(rng, roots)
			st.Runs = append(st.Runs, roots)
		}
		switch {
		case panicMode == 3 && s > 0:
			st.Panic = nil
		case s > 0 && rng.Chance(0.3):
			st.Panic = nil // switches turned off later in the history
		default:
			st.Panic = append([]int(nil), pset...)
		}
		steps = append(steps, st)
	}
	return steps
}

// ---------- execution ----------

type c34RunRes struct {
	roots     []int
	label     int
	results   []incremental.Result[uint64]
	err       error
	panicV    any
	panicSite string
	done      chan struct{}
	cancel    context.CancelFunc
	cancelled bool
}

func (c *c34Case) launch(roots []int, label int, start <-chan struct{}) *c34RunRes {
	res := &c34RunRes{roots: roots, label: label, done: make(chan struct{})}
	ctx, cancel := context.WithCancel(context.WithValue(context.Background(), runLabelKey{}, label))
	res.cancel = cancel
	go func() {
		defer close(res.done)
		c.mon.reg()
		<-start
		c.mon.events.Add(1)
		pv, stack := vlib.Try(func() {
			qs := make([]incremental.Query[uint64], len(roots))
			for i, r := range roots {
				qs[i] = c34Query{c, r}
			}
			res.results, _, res.err = incremental.Run(ctx, c.exec, qs...)
		})
		c.mon.events.Add(1)
		if pv != nil {
			res.panicV, res.panicSite = pv, vlib.PanicSite(stack)
		}
	}()
	return res
}

var c34FocusSites = []string{
	"incr.wait.beforeCheckCycle", "incr.wait.beforeCheckCycle", "incr.run.beforeExecute", "incr.run.beforeExecute",
	"incr.run.afterExecute", "incr.run.beforeCAS", "incr.run.deferred", "incr.wait.parked", "incr.wait.woken",
	"incr.sema.beforeAcquire", "incr.resolve.beforeRelease", "incr.resolve.afterJoin", "incr.run.enter", "incr.run.follower",
}

type c34Stats struct {
	ilv       sync.Map // (case, observed order and outcomes of the whole history)
	shapes    sync.Map // observed order alone
	rerun     atomic.Int64
	rerunDiff atomic.Int64
	s9Samples atomic.Int64
}

func runC34Case(r *vlib.Run, c *c34Case, rng *vlib.RNG, st *c34Stats) (traceHash uint64, completed bool) {
	setPerturbation(rng.Fork("perturb"), c34FocusSites)
	c.exec = incremental.New(incremental.WithParallelism(int64(c.par)))
	c.mon = newCaseMon()
	c.returned = map[error]int{}

	witness := func(extra map[string]any) map[string]any {
		w := map[string]any{"graph": c.g, "graph_text": c.g.String(), "parallelism": c.par, "history": c.steps, "bodies_swallow_dependency_errors": c.swallow}
		c.mu.Lock()
		var ex []string
		for _, e := range c.execs {
			ex = append(ex, fmt.Sprintf("step%d run#%d executes %d -> %s", e.step, e.label, e.key, e.outcome))
		}
		c.mu.Unlock()
		w["executions"] = ex
		for k, v := range extra {
			w[k] = v
		}
		return w
	}
	violated := false
	viol := func(kind, sig string, extra map[string]any) {
		violated = true
		r.Violation(kind, sig, c.id, witness(extra))
		r.Eval(fmt.Sprintf("%s|%d|%v|%v", c.g.String(), c.par, c.steps, c.swallow)) // a refuted history is an evaluated history
		r.Class("histories-refuted")
	}
	mode := "propagate"
	if c.swallow {
		mode = "swallow"
	}

	label := 0
	everPanicked := uint32(0) // keys whose body panicked in an earlier step
	var trace strings.Builder
	hasCycle, hasPanic, multiRoot := false, false, false
	abandoned := false

	for si, step := range c.steps {
		c.curStep.Store(int32(si))
		c.panicOn.Store(maskOf(step.Panic))
		c.mu.Lock()
		execFrom := len(c.execs)
		c.mu.Unlock()
		start := make(chan struct{})
		var runs []*c34RunRes
		for _, roots := range step.Runs {
			label++
			runs = append(runs, c.launch(roots, label, start))
			if len(roots) > 1 {
				multiRoot = true
			}
		}
		if len(runs) > 1 {
			multiRoot = true
		}
		close(start)

		// ---- (T) every Run returns
		for _, rr := range runs {
			res, snap := c.mon.await(rr.done, nil, true)
			if res == waitDone {
				continue
			}
			abandoned = true
			if res == waitUndecided {
				r.Inconclusive("C34: a Run did not return and the quiescence criterion was not met within the limit")
			} else {
				// classify by logical facts of the history, not by timing: at quiescence every
				// query in the closure of the hanging Run's roots has been started, so a key that
				// is neither memoised nor was ever executed is a pending result nobody computes.
				keysNow, _ := parseKeys(c.exec.Keys(), "incr.c34Key")
				need := closureOf(c.cl, maskOf(rr.roots)) &^ keysNow
				c.mu.Lock()
				var startedNow, dropped, panicked uint32
				for i, e := range c.execs {
					if e.outcome == "panic" {
						panicked |= 1 << uint(e.key)
					}
					if e.outcome == "panic" || e.outcome == "ctx" {
						dropped |= 1 << uint(e.key) // executions whose result the executor may have discarded
					}
					if i >= execFrom {
						startedNow |= 1 << uint(e.key)
					}
				}
				c.mu.Unlock()
				started := startedNow
				reachNow := closureOf(c.cl, maskOf(rr.roots))
				ctxt := "no query panicked anywhere in the history"
				switch {
				case need&^startedNow != 0 && panicked != 0:
					ctxt = "it waits for a query that nobody executes (after a panic, a pending result was left behind by a task that did not get to run)"
				case reachNow&dropped != 0:
					ctxt = "it waits for a pending result whose leader, in another Run, panicked or was cancelled by a panic and dropped the result without completing it"
				case panicked != 0:
					ctxt = "a query panicked elsewhere in the history"
				}
				sw := map[string]any{"step": si, "hanging_run_roots": rr.roots, "goroutines_of_the_case": snap.lines,
					"needed_not_memoised": maskList(need), "not_executed_in_this_step": maskList(need &^ started), "panicked": maskList(panicked)}
				if sp := spinsSeen(); len(sp) > 0 {
					sw["loops_that_exceeded_the_step_budget"] = sp
				}
				viol("run.hang", fmt.Sprintf("Run never returns (all its goroutines parked in %s): %s", strings.Join(snap.blockers, "+"), ctxt), sw)
			}
			break
		}
		if abandoned {
			for _, rr := range runs {
				rr.cancelled = true
				rr.cancel()
			}
			for _, rr := range runs {
				select {
				case <-rr.done:
				case <-time.After(quietLimit):
					r.Inconclusive("C34: a hung Run did not return even after its context was cancelled")
				}
			}
		}

		// ---- (Q) quiescence: no body running, all permits free
		// (every Run of the step has returned, so its context is cancelled: a body still inside
		// Resolve is about to come back, and nothing can acquire a permit any more)
		free := func() bool {
			return c.mon.busy.Load() == 0 && c.mon.inRes.Load() == 0 && c.exec.VerifPermitsFree(int64(c.par))
		}
		if res, snap := c.mon.await(nil, free, false); res == waitQuiescent {
			viol("permits.leaked", fmt.Sprintf("semaphore permits are not all free at quiescence (parallelism %d)", c.par),
				map[string]any{"step": si, "goroutines_of_the_case": snap.lines})
			return
		} else if res == waitUndecided {
			r.Inconclusive("C34: permits not free and quiescence undecided")
			return
		}
		if abandoned {
			return
		}

		keysNow, badKeys := parseKeys(c.exec.Keys(), "incr.c34Key")
		c.mu.Lock()
		execs := make([]c34Exec, 0, len(c.execs)-execFrom)
		for _, e := range c.execs[execFrom:] {
			execs = append(execs, *e)
		}
		lastOK := map[int]bool{} // key -> has a body execution that returned normally (ever)
		for _, e := range c.execs {
			if e.outcome == "ok" || e.outcome == "cycle" || e.outcome == "err" || e.outcome == "ctx" {
				lastOK[e.key] = true
			}
		}
		var everOK uint32 // keys that produced a value at some point
		for _, e := range c.execs {
			if e.outcome == "ok" {
				everOK |= 1 << uint(e.key)
			}
		}
		lastRet := map[int]error{}
		for _, e := range c.execs {
			if e.outcome != "panic" && e.outcome != "" {
				lastRet[e.key] = e.ret
			}
		}
		badWalk := append([]string(nil), c.badWalk...)
		notes := append([]string(nil), c.notes...)
		c.notes = nil
		c.mu.Unlock()

		sw := map[string]any{"step": si}
		if len(badWalk) > 0 {
			sw["detail"] = badWalk
			viol("cycle.bad-walk", "a cycle error created by the executor does not name a closed walk of real dependency edges", sw)
			return
		}
		injected := map[int]map[int]bool{} // label -> keys that panicked under it
		var injectedAll uint32
		for _, e := range execs {
			if e.outcome == "panic" {
				if injected[e.label] == nil {
					injected[e.label] = map[int]bool{}
				}
				injected[e.label][e.key] = true
				injectedAll |= 1 << uint(e.key)
				hasPanic = true
			}
		}

		for ri, rr := range runs {
			sw := map[string]any{"step": si, "run": ri, "roots": rr.roots}
			if rr.panicV != nil {
				sw["panic"] = fmt.Sprint(rr.panicV)
				viol("run.panics", fmt.Sprintf("a panic escapes from Run at %s", rr.panicSite), sw)
				return
			}
			reach := closureOf(c.cl, maskOf(rr.roots))
			inj := injected[rr.label]
			if rr.err != nil {
				sw["error"] = firstLine(rr.err.Error())
				var ep *incremental.ErrPanic
				if !errors.As(rr.err, &ep) {
					viol("run.error", fmt.Sprintf("Run fails with an error that is not a panic error (%T)", rr.err), sw)
					return
				}
				k, ok := ep.Query.Key().(c34Key)
				if !ok || !inj[k.N] || ep.Panic != any(injValue(k.N)) {
					sw["err_query"], sw["err_panic"] = fmt.Sprint(ep.Query.Key()), fmt.Sprint(ep.Panic)
					viol("panic.wrong-error", "Run's ErrPanic does not carry a query that panicked in this Run with the value it panicked with", sw)
					return
				}
				continue
			}
			// Schedule-independent: a body that panicked under this Run's label cancelled this
			// Run's context with an ErrPanic before Run's root Resolve returned.
			if len(inj) > 0 {
				viol("panic.not-reported", "a query panicked during this Run but Run returned no error", sw)
				return
			}
			// Schedule-independent only on a fresh executor with a single Run: every reachable
			// query is started (each body resolves all its dependencies in one Resolve, nothing is
			// cached), and Run's root Resolve joins everything it started.
			if si == 0 && len(runs) == 1 && reach&maskOf(step.Panic) != 0 {
				viol("panic.not-reported", "a panicking query is reachable from the roots of the first Run on a fresh executor but Run returned no error", sw)
				return
			}
			if len(rr.results) != len(rr.roots) {
				viol("run.result-count", "Run returned a different number of results than queries", sw)
				return
			}
			if c.swallow {
				// results are schedule-dependent by construction; only termination/permits/keys are
				// checked. Recorded (not judged): a root whose only Execute returned nil but whose
				// memoised result carries an error — the trace S9 leaves behind.
				if everPanicked == 0 && injectedAll == 0 {
					for i, root := range rr.roots {
						n, okRet := 0, false
						for _, e := range execs {
							if e.key == root {
								n++
								okRet = e.outcome == "ok"
							}
						}
						if n == 1 && okRet && rr.results[i].Fatal != nil {
							notes = append(notes, fmt.Sprintf("fatal-without-execute-error: root %d's Execute returned a value and no error, yet its result carries %s", root, firstLine(rr.results[i].Fatal.Error())))
						}
					}
				}
				continue
			}
			for i, root := range rr.roots {
				res := rr.results[i]
				cyclic := !c.refOK[root]
				sw["root"] = root
				var ec *incremental.ErrCycle
				var ep *incremental.ErrPanic
				switch {
				case res.Fatal == nil:
					// Schedule-independent: a body returns nil only if every dependency result it saw
					// had Fatal == nil; along a cycle not every query can have seen its successor's
					// final result, and a pending result is only handed out with a cycle error.
					if bad := c.cl[root] & maskOf(step.Panic) &^ everOK; bad != 0 {
						// Schedule-independent: these queries have never produced a value, and the
						// root's result is a function of theirs.
						sw["panicking_dependencies_without_any_value"], sw["got"] = maskList(bad), res.Value
						viol("panic.zero-value-served", "Run returned err=nil and a value for a root that is or depends on a query that only ever panicked: a caller in another Run saw the panicked query as a zero Result without error", sw)
						return
					}
					if cyclic {
						viol("cycle.missed", "a root whose dependency closure contains a cycle came back without an error", sw)
						return
					}
					if res.Value != c.ref[root] {
						sw["got"], sw["want"] = res.Value, c.ref[root]
						viol("value.wrong", "a root with an acyclic closure came back with a value different from the reference", sw)
						return
					}
				case errors.As(res.Fatal, &ec):
					hasCycle = true
					if !cyclic {
						sw["fatal"] = firstLine(res.Fatal.Error())
						viol("cycle.spurious", "a cycle error on a root whose dependency closure is acyclic", sw)
						return
					}
					ks, ok := c.cycleKeys(ec)
					if !ok || !c.closedWalk(ks) || maskOf(ks)&^c.cl[root] != 0 {
						sw["cycle"] = ks
						viol("cycle.bad-walk", "a root's cycle error does not name a closed walk of real edges inside its closure", sw)
						return
					}
					if lr, ok := lastRet[root]; ok && lr != res.Fatal {
						notes = append(notes, fmt.Sprintf("fatal-differs-from-execute: root %d's Fatal is not the error its Execute returned", root))
					}
				case errors.As(res.Fatal, &ep):
					sw["fatal"] = firstLine(res.Fatal.Error())
					viol("panic.stale-error-served", "Run returned err=nil but a root's Fatal is the ErrPanic of an earlier/other Run: a dependent of a panicked query was memoised with the cancellation cause",
						sw)
					return
				default:
					sw["fatal"] = firstLine(res.Fatal.Error())
					viol("result.fatal-unexpected", fmt.Sprintf("a root's Fatal is neither a cycle error nor nil (%T)", res.Fatal), sw)
					return
				}
			}
		}

		// ---- (K) Keys(): a panicked query is not memoised
		if len(badKeys) > 0 {
			viol("keys.unknown", "Executor.Keys() lists a key no query has", map[string]any{"step": si, "keys": badKeys})
			return
		}
		for _, k := range maskList(keysNow) {
			if !lastOK[k] {
				why := "a key is memoised although none of its executions returned"
				if (everPanicked|injectedAll)&(1<<uint(k)) != 0 {
					why = "a query whose every execution panicked is memoised (present in Keys())"
				}
				viol("panic.cached", why, map[string]any{"step": si, "key": k, "keys": maskList(keysNow)})
				return
			}
		}
		everPanicked |= injectedAll

		for _, n := range notes {
			kind := strings.SplitN(n, ":", 2)[0]
			r.Class("s9-behavioural:" + kind + " (" + mode + ")")
			if st.s9Samples.Add(1) <= 3 {
				r.Sample("s9-behavioural:"+kind, witness(map[string]any{"note": n}))
			}
		}

		// interleaving signature
		sort.Slice(execs, func(i, j int) bool { return execs[i].seq < execs[j].seq })
		for _, e := range execs {
			fmt.Fprintf(&trace, "%d.%d%.1s ", e.key, e.label, e.outcome)
		}
		for _, rr := range runs {
			if rr.err != nil {
				trace.WriteString("E")
			} else {
				for _, res := range rr.results {
					if res.Fatal != nil {
						trace.WriteString("f")
					} else {
						trace.WriteString("v")
					}
				}
			}
		}
		trace.WriteByte('|')
	}
	if violated {
		return
	}
	traceHash = vlib.Hash64(trace.String())
	st.ilv.Store(vlib.Hash64(c.id)^traceHash, true)
	st.shapes.Store(traceHash, true)
	anyCycle := false
	for i := 0; i < c.g.N; i++ {
		if c.rp[i]&(1<<uint(i)) != 0 {
			anyCycle = true
		}
	}
	if anyCycle || hasPanic {
		r.Eval(fmt.Sprintf("%s|%d|%v|%v", c.g.String(), c.par, c.steps, c.swallow))
	} else {
		r.Eval("")
	}
	if hasCycle {
		r.Class("history-with-cycle-error-at-a-root")
	}
	if hasPanic {
		r.Class("history-with-panic")
	}
	if multiRoot {
		r.Class("history-with-concurrent-roots")
	}
	r.Class(fmt.Sprintf("parallelism-%d", c.par))
	r.Class("mode-" + mode)
	if c.id == "dg3/100/0" || c.id == "rnd/0" || c.id == "s9/0" {
		r.Sample("history:"+c.id, witness(map[string]any{"trace": trace.String()}))
	}
	return traceHash, true
}

func firstLine(s string) string {
	if i := strings.IndexByte(s, '\n'); i >= 0 {
		s = s[:i]
	}
	if len(s) > 300 {
		s = s[:300]
	}
	return s
}

func TestC34(t *testing.T) {
	r := vlib.Start(t, "C34")
	defer r.Finish()
	installHook()
	r.Extra("rule", "query digraphs with cycles and self-loops: every digraph on <=3 nodes (530) plus random digraphs on 4-8 nodes (DAG + back edges/self-loops), dependency order shuffled; "+
		"x per-step sets of panicking nodes x histories of 1-3 steps, each step one Run or 2-3 concurrent Runs with 1-4 roots (roots biased onto one cycle) x parallelism {1,2,4} x hook perturbation "+
		"(focus on incr.wait.beforeCheckCycle / incr.run.beforeExecute), race detector on. Bodies resolve all dependencies in one Resolve and return the first failed dependency's error "+
		"(a 'swallow' variant that ignores dependency errors is run for termination/permits only). non-trivial = graph with a cycle or history with a panic; distinct = by (graph, parallelism, history, mode)")
	r.Extra("assumptions", []string{
		"non-termination is decided by logical quiescence: no query body running outside Resolve, every goroutine of the case (attributed exactly through goroutine ids: Run callers, bodies, and goroutines created by them) parked in chan/select/semacquire/sync wait, two goroutine dumps 30 ms apart identical, no harness event in between",
		"the executor has no timers; a goroutine sleeping in the perturbation handler is 'sleep', not parked",
		"a single true VerifPermitsFree(parallelism) after Run returned is conclusive (a cancelled Run cannot acquire again)",
		"schedules are sampled (hook perturbation + repetition), not enumerated",
	})

	small := allSmallDigraphs()
	nSmall := r.N(len(small), len(small)*30)
	nRnd := r.N(900, 36000)
	nS9 := r.N(300, 10000) // two+ concurrent roots on one cycle, the shape S9 needs
	var st c34Stats
	pars := []int{1, 2, 4}
	reps := 1
	if r.Replaying() {
		reps = r.ReplayRep
	}
	r.Par(nSmall+nRnd+nS9, func(i int) {
		var id string
		switch {
		case i < nSmall:
			id = fmt.Sprintf("dg3/%d/%d", i%len(small), i/len(small))
		case i < nSmall+nRnd:
			id = fmt.Sprintf("rnd/%d", i-nSmall)
		default:
			id = fmt.Sprintf("s9/%d", i-nSmall-nRnd)
		}
		if !r.Want(id) {
			return
		}
		for rep := 0; rep < reps; rep++ {
			rng := r.Rng("c34/" + id)
			c := &c34Case{id: id}
			force := false
			switch {
			case i < nSmall:
				c.g = shuffleDeps(rng, small[i%len(small)], 0.02)
			case i < nSmall+nRnd:
				c.g = shuffleDeps(rng, randomDigraph(rng, rng.Range(4, 8)), 0.02)
			default:
				// a cycle of length 2-4 with a few extra nodes hanging off it
				n := rng.Range(2, 6)
				L := rng.Range(2, 4)
				if L > n {
					L = n
				}
				g := qgraph{N: n, Deps: make([][]int, n)}
				for k := 0; k < L; k++ {
					g.Deps[k] = append(g.Deps[k], (k+1)%L)
				}
				for k := L; k < n; k++ {
					a := rng.Intn(n)
					if rng.Bool() {
						g.Deps[k] = append(g.Deps[k], a)
					} else if a != k {
						g.Deps[a] = append(g.Deps[a], k)
					}
				}
				c.g = shuffleDeps(rng, g, 0)
				force = true
			}
			c.par = pars[rng.Intn(len(pars))]
			c.swallow = rng.Chance(0.15)
			c.cl, c.rp = c.g.closure(), c.g.reachPlus()
			c.ref, c.refOK = c.g.refValues()
			c.steps = genC34Steps(rng, c, force)
			if force && rng.Chance(0.7) {
				for k := range c.steps {
					c.steps[k].Panic = nil
				}
			}
			prng := rng.Fork("run")
			if rep > 0 {
				prng = vlib.NewRNG(rng.Uint64() + uint64(rep))
			}
			h1, ok := runC34Case(r, c, prng, &st)
			if ok && rep == 0 && !r.Replaying() && i%8 == 0 {
				c2 := &c34Case{id: id, g: c.g, par: c.par, swallow: c.swallow, steps: c.steps, cl: c.cl, rp: c.rp, ref: c.ref, refOK: c.refOK}
				if h2, ok2 := runC34Case(r, c2, rng.Fork("rerun"), &st); ok2 {
					st.rerun.Add(1)
					if h1 != h2 {
						st.rerunDiff.Add(1)
					}
				}
			}
		}
	})
	nI := 0
	st.ilv.Range(func(_, _ any) bool { nI++; return true })
	r.ClassN("distinct-(history,observed-order)-pairs", int64(nI))
	nI = 0
	st.shapes.Range(func(_, _ any) bool { nI++; return true })
	r.ClassN("distinct-observed-orders-of-a-history", int64(nI))
	r.ClassN("histories-run-twice", st.rerun.Load())
	r.ClassN("histories-run-twice-with-a-different-observed-order", st.rerunDiff.Load())
	if !r.Quick() || nSmall >= len(small) {
		r.Extra("small_digraph_enumeration", fmt.Sprintf("all %d digraphs on <=3 nodes (self-loops included)", len(small)))
	}
	if missing := reportHooks(r, []string{"incr.wait.beforeCheckCycle", "incr.run.beforeExecute", "incr.run.follower", "incr.wait.parked", "incr.run.deferred"}); len(missing) > 0 && !r.Replaying() {
		r.Inconclusive(fmt.Sprintf("C34: hook sites never reached (cycle-wait / follower paths not exercised): %v", missing))
	}
}
