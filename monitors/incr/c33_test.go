package incr

// C33 — the incremental executor memoises and invalidates exactly.
//
// Workload: query DAGs (<= 8 nodes; every labelled DAG on <= 4 nodes is in the
// enumeration) whose node value is H(key, values of deps), so a result
// identifies what was read; histories of 4-12 steps drawn from
// {Run(roots), K concurrent Runs with overlapping roots, Evict(keys),
// Evict(uncached keys), concurrent mix of Runs and Evicts} x parallelism
// {1,2,4,16} x schedule perturbation at the verifhook sites, under -race.
//
// Oracles (all at the client boundary: Run results, Execute call log,
// Executor.Keys()):
//   - value == reference H, no error;
//   - sequential reference model (cache set + reverse-dependency closure):
//     a step executes exactly closure(roots) \ cache, each key once; after
//     Evict(K) exactly the cached reverse closure of K is dropped;
//   - Changed == "executed by a task of this Run", identical for every
//     observer of a key within a Run;
//   - porcupine, partitioned per key: resolve(k) by run R -> (changed,
//     executed) with interval [Run call, Run return] and evict(k); resolve on
//     uncached must execute exactly once and report changed, on cached must
//     not execute and report !changed;
//   - porcupine, whole cache state, for steps that mix concurrent Runs and
//     Evicts: run = cache |= closure, evict(k) = drop reverse closure, final
//     Keys() must be the state of some linearisation;
//   - Keys() equals the model cache / is closed under dependencies.

import (
	"context"
	"fmt"
	"sort"
	"strings"
	"sync"
	"sync/atomic"
	"testing"
	"time"

	"github.com/anishathalye/porcupine"

	"github.com/bufbuild/protocompile/experimental/incremental"
	"github.com/bufbuild/protocompile/internal/verifmon/vlib"
)

type c33Key struct{ N int }

type runLabelKey struct{}

type c33Query struct {
	c  *c33Case
	id int
}

func (q c33Query) Key() any { return c33Key{q.id} }

type c33Op struct {
	Kind  string `json:"kind"` // "run" | "evict"
	Roots []int  `json:"roots,omitempty"`
	Keys  []int  `json:"keys,omitempty"` // node ids; ids >= n are keys that never exist
}

type c33Step struct {
	Ops []c33Op `json:"ops"` // one op = sequential step; several = issued concurrently
}

type execRec struct {
	key, label int
	seq        int64
}

type obsRec struct {
	observer   int // -1 = the Run caller (root result)
	label, key int
	changed    bool
	value      uint64
	fatal      bool
}

type c33Case struct {
	id    string
	g     qgraph
	par   int
	steps []c33Step

	cl   []uint32 // closure incl. self
	up   []uint32 // up[k] = nodes whose closure contains k (incl. k)
	ref  []uint64
	exec *incremental.Executor
	mon  *caseMon

	clock atomic.Int64
	mu    sync.Mutex
	execs []execRec
	obs   []obsRec
	bad   []string // failures noticed inside query bodies
}

func (q c33Query) Execute(t *incremental.Task) (uint64, error) {
	c := q.c
	c.mon.reg()
	c.mon.busy.Add(1)
	defer c.mon.busy.Add(-1)
	c.mon.events.Add(1)
	label, _ := t.Context().Value(runLabelKey{}).(int)
	seq := c.clock.Add(1)
	deps := c.g.Deps[q.id]
	var dv []uint64
	var obs []obsRec
	if len(deps) > 0 {
		qs := make([]incremental.Query[uint64], len(deps))
		for i, d := range deps {
			qs[i] = c33Query{c, d}
		}
		c.mon.inRes.Add(1)
		c.mon.busy.Add(-1)
		rs, err := incremental.Resolve(t, qs...)
		c.mon.busy.Add(1)
		c.mon.inRes.Add(-1)
		if err != nil {
			c.mu.Lock()
			c.bad = append(c.bad, fmt.Sprintf("Resolve in query %d returned error %v", q.id, err))
			c.mu.Unlock()
			return 0, err
		}
		for i, r := range rs {
			dv = append(dv, r.Value)
			obs = append(obs, obsRec{observer: q.id, label: label, key: deps[i], changed: r.Changed, value: r.Value, fatal: r.Fatal != nil})
		}
	}
	v := refHash(q.id, dv)
	c.mu.Lock()
	c.execs = append(c.execs, execRec{q.id, label, seq})
	c.obs = append(c.obs, obs...)
	c.mu.Unlock()
	c.mon.events.Add(1)
	return v, nil
}

// ---------- generation ----------

// allSmallDAGs enumerates every labelled DAG on 1..4 nodes (1+3+25+543).
func allSmallDAGs() []qgraph {
	var out []qgraph
	for n := 1; n <= 4; n++ {
		var pairs [][2]int
		for i := 0; i < n; i++ {
			for j := 0; j < n; j++ {
				if i != j {
					pairs = append(pairs, [2]int{i, j})
				}
			}
		}
		for m := 0; m < 1<<uint(len(pairs)); m++ {
			g := qgraph{N: n, Deps: make([][]int, n)}
			for b, p := range pairs {
				if m&(1<<uint(b)) != 0 {
					g.Deps[p[0]] = append(g.Deps[p[0]], p[1])
				}
			}
			rp := g.reachPlus()
			acyclic := true
			for i := 0; i < n; i++ {
				if rp[i]&(1<<uint(i)) != 0 {
					acyclic = false
				}
			}
			if acyclic {
				out = append(out, g)
			}
		}
	}
	return out
}

func randomDAG(rng *vlib.RNG, n int) qgraph {
	perm := rng.Perm(n) // topological order hidden behind a permutation
	g := qgraph{N: n, Deps: make([][]int, n)}
	p := []float64{0.15, 0.3, 0.5, 0.8}[rng.Intn(4)]
	for a := 0; a < n; a++ {
		for b := a + 1; b < n; b++ {
			if rng.Chance(p) {
				g.Deps[perm[a]] = append(g.Deps[perm[a]], perm[b])
			}
		}
	}
	return g
}

func shuffleDeps(rng *vlib.RNG, g qgraph, dupChance float64) qgraph {
	out := qgraph{N: g.N, Deps: make([][]int, g.N)}
	for i, d := range g.Deps {
		dd := append([]int(nil), d...)
		vlib.Shuffle(rng, dd)
		if len(dd) > 0 && rng.Chance(dupChance) {
			dd = append(dd, dd[rng.Intn(len(dd))]) // the same dependency requested twice in one Resolve
		}
		out.Deps[i] = dd
	}
	return out
}

func pickRoots(rng *vlib.RNG, n, max int) []int {
	k := rng.Range(1, max)
	if k > n {
		k = n
	}
	p := rng.Perm(n)[:k]
	out := append([]int(nil), p...)
	if rng.Chance(0.05) {
		out = append(out, out[0]) // duplicate root
	}
	return out
}

func (c *c33Case) modelEvict(cache uint32, keys []int) uint32 {
	for _, k := range keys {
		if k < c.g.N && cache&(1<<uint(k)) != 0 {
			cache &^= c.up[k]
		}
	}
	return cache
}

func genC33History(rng *vlib.RNG, c *c33Case) []c33Step {
	n := c.g.N
	nSteps := rng.Range(4, 12)
	var steps []c33Step
	cache := uint32(0) // the generator's guess of the cache, to bias choices only
	cachedList := func() []int { return maskList(cache) }
	evictKeys := func(preferCached bool) []int {
		k := rng.Range(1, 3)
		var keys []int
		for i := 0; i < k; i++ {
			cl := cachedList()
			if preferCached && len(cl) > 0 && rng.Chance(0.85) {
				keys = append(keys, cl[rng.Intn(len(cl))])
			} else {
				keys = append(keys, rng.Intn(n))
			}
		}
		return keys
	}
	for s := 0; s < nSteps; s++ {
		w := rng.Intn(100)
		if s == 0 && w >= 60 {
			w = rng.Intn(60)
		}
		var st c33Step
		switch {
		case w < 28: // Run(roots)
			st.Ops = []c33Op{{Kind: "run", Roots: pickRoots(rng, n, 3)}}
		case w < 60: // K concurrent Runs with overlapping roots
			K := []int{2, 4, 8}[rng.Intn(3)]
			pool := pickRoots(rng, n, 3)
			for i := 0; i < K; i++ {
				var roots []int
				for _, p := range pool {
					if rng.Chance(0.7) {
						roots = append(roots, p)
					}
				}
				if len(roots) == 0 || rng.Chance(0.2) {
					roots = append(roots, rng.Intn(n))
				}
				st.Ops = append(st.Ops, c33Op{Kind: "run", Roots: roots})
			}
		case w < 78: // Evict(keys), mostly cached ones
			st.Ops = []c33Op{{Kind: "evict", Keys: evictKeys(true)}}
		case w < 86: // Evict of uncached keys (incl. keys that never exist)
			var keys []int
			for i := 0; i < rng.Range(1, 3); i++ {
				var un []int
				for k := 0; k < n; k++ {
					if cache&(1<<uint(k)) == 0 {
						un = append(un, k)
					}
				}
				if len(un) > 0 && rng.Chance(0.6) {
					keys = append(keys, un[rng.Intn(len(un))])
				} else {
					keys = append(keys, n+rng.Intn(3))
				}
			}
			st.Ops = []c33Op{{Kind: "evict", Keys: keys}}
		default: // concurrent mix of Runs and Evicts
			nr, ne := rng.Range(1, 3), rng.Range(1, 2)
			for i := 0; i < nr; i++ {
				st.Ops = append(st.Ops, c33Op{Kind: "run", Roots: pickRoots(rng, n, 2)})
			}
			for i := 0; i < ne; i++ {
				keys := evictKeys(true)
				if i == 1 && rng.Chance(0.5) {
					keys = append([]int(nil), st.Ops[nr].Keys...) // two concurrent Evicts of the same keys
				}
				st.Ops = append(st.Ops, c33Op{Kind: "evict", Keys: keys})
			}
			vlib.Shuffle(rng, st.Ops)
		}
		for _, op := range st.Ops {
			if op.Kind == "run" {
				cache |= closureOf(c.cl, maskOf(op.Roots))
			} else {
				cache = c.modelEvict(cache, op.Keys)
			}
		}
		steps = append(steps, st)
	}
	return steps
}

// ---------- execution ----------

type c33OpRes struct {
	op        c33Op
	label     int
	call, ret int64
	results   []incremental.Result[uint64]
	err       error
	panicV    any
	panicSite string
	done      chan struct{}
	cancel    context.CancelFunc
}

func (c *c33Case) launch(op c33Op, label int, start <-chan struct{}) *c33OpRes {
	res := &c33OpRes{op: op, label: label, done: make(chan struct{})}
	ctx, cancel := context.WithCancel(context.WithValue(context.Background(), runLabelKey{}, label))
	res.cancel = cancel
	go func() {
		defer close(res.done)
		c.mon.reg()
		<-start
		c.mon.events.Add(1)
		res.call = c.clock.Add(1)
		pv, stack := vlib.Try(func() {
			if op.Kind == "run" {
				qs := make([]incremental.Query[uint64], len(op.Roots))
				for i, r := range op.Roots {
					qs[i] = c33Query{c, r}
				}
				res.results, _, res.err = incremental.Run(ctx, c.exec, qs...)
			} else {
				keys := make([]any, len(op.Keys))
				for i, k := range op.Keys {
					keys[i] = c33Key{k}
				}
				if len(op.Keys) > 0 && op.Keys[0] >= c.g.N+2 {
					keys = append(keys, "a key of another type")
				}
				c.exec.Evict(keys...)
			}
		})
		res.ret = c.clock.Add(1)
		c.mon.events.Add(1)
		if pv != nil {
			res.panicV, res.panicSite = pv, vlib.PanicSite(stack)
		}
	}()
	return res
}

func parseKeys(keys []string, prefix string) (mask uint32, bad []string) {
	for _, k := range keys {
		var n int
		if _, err := fmt.Sscanf(k, prefix+"{N:%d}", &n); err != nil || n < 0 || n >= 32 {
			bad = append(bad, k)
			continue
		}
		mask |= 1 << uint(n)
	}
	return mask, bad
}

// ---------- porcupine models ----------

type pkIn struct {
	Key   int
	Evict bool
	Run   int
}
type pkOut struct {
	Changed, Executed bool
}

var c33PerKeyModel = porcupine.Model{
	Partition: func(h []porcupine.Operation) [][]porcupine.Operation {
		m := map[int][]porcupine.Operation{}
		var order []int
		for _, op := range h {
			k := op.Input.(pkIn).Key
			if _, ok := m[k]; !ok {
				order = append(order, k)
			}
			m[k] = append(m[k], op)
		}
		out := make([][]porcupine.Operation, 0, len(m))
		for _, k := range order {
			out = append(out, m[k])
		}
		return out
	},
	Init: func() any { return false }, // cached?
	Step: func(st, in, out any) (bool, any) {
		cached := st.(bool)
		i := in.(pkIn)
		if i.Evict {
			return true, false
		}
		o := out.(pkOut)
		if cached {
			return !o.Changed && !o.Executed, true
		}
		return o.Changed && o.Executed, true
	},
	Equal: func(a, b any) bool { return a.(bool) == b.(bool) },
	DescribeOperation: func(in, out any) string {
		i := in.(pkIn)
		if i.Evict {
			return fmt.Sprintf("evict(%d)", i.Key)
		}
		return fmt.Sprintf("run#%d resolve(%d) -> %+v", i.Run, i.Key, out)
	},
}

type wsIn struct {
	Kind string // run | evict | keys
	Mask uint32 // run: closure of the roots; keys: observed Keys()
	Key  int
}

func (c *c33Case) wholeStateModel(init uint32) porcupine.Model {
	return porcupine.Model{
		Init: func() any { return init },
		Step: func(st, in, _ any) (bool, any) {
			s := st.(uint32)
			i := in.(wsIn)
			switch i.Kind {
			case "run":
				return true, s | i.Mask
			case "evict":
				if i.Key < c.g.N && s&(1<<uint(i.Key)) != 0 {
					s &^= c.up[i.Key]
				}
				return true, s
			default:
				return s == i.Mask, s
			}
		},
		Equal: func(a, b any) bool { return a.(uint32) == b.(uint32) },
	}
}

// ---------- the case ----------

var c33FocusSites = []string{
	"incr.run.beforeCAS", "incr.run.beforeExecute", "incr.run.afterExecute", "incr.run.deferred",
	"incr.wait.parked", "incr.wait.woken", "incr.resolve.beforeRelease", "incr.resolve.afterJoin",
	"incr.sema.beforeAcquire", "incr.evict.beforeLock", "incr.evict.locked", "incr.Run.enter", "incr.run.enter", "incr.run.follower",
}

type c33Stats struct {
	ilv        sync.Map // (case, observed order of the whole history)
	stepIlv    sync.Map // (graph, concurrent step, observed order of its calls/returns/executions)
	shapes     sync.Map // observed order alone
	rerun      atomic.Int64
	rerunDiff  atomic.Int64
	histories  atomic.Int64
	porcKeyOps atomic.Int64
}

func runC33Case(r *vlib.Run, c *c33Case, rng *vlib.RNG, st *c33Stats) (traceHash uint64, completed bool) {
	setPerturbation(rng.Fork("perturb"), c33FocusSites)
	c.cl = c.g.closure()
	c.up = make([]uint32, c.g.N)
	for k := 0; k < c.g.N; k++ {
		for j := 0; j < c.g.N; j++ {
			if c.cl[j]&(1<<uint(k)) != 0 {
				c.up[k] |= 1 << uint(j)
			}
		}
	}
	c.ref, _ = c.g.refValues()
	c.exec = incremental.New(incremental.WithParallelism(int64(c.par)))
	c.mon = newCaseMon()

	witness := func(extra map[string]any) map[string]any {
		w := map[string]any{"graph": c.g, "graph_text": c.g.String(), "parallelism": c.par, "history": c.steps}
		for k, v := range extra {
			w[k] = v
		}
		return w
	}
	violated := false
	// tainted: the history contains a step in which two Evict calls with overlapping reverse
	// closures ran concurrently. Recorded in the signature so that the consequences of that
	// one shape (seen immediately or in a later, sequential step) are told apart from
	// anything that fails without it.
	tainted := false
	viol := func(kind, sig string, extra map[string]any) {
		violated = true
		if tainted {
			sig += " [history has a step with two concurrent Evicts whose reverse closures overlap]"
		}
		r.Violation(kind, sig, c.id, witness(extra))
		r.Eval(fmt.Sprintf("%s|%d|%v", c.g.String(), c.par, c.steps)) // a refuted history is an evaluated history
		r.Class("histories-refuted")
	}

	cache := uint32(0) // reference model: exactly which keys are memoised
	label := 0
	var hist []porcupine.Operation // per-key history (whole case)
	var trace strings.Builder      // interleaving signature
	effectiveEvict, concurrentStep := false, false
	lastWasEvict := false

	for si, step := range c.steps {
		c.mu.Lock()
		execFrom, obsFrom := len(c.execs), len(c.obs)
		c.mu.Unlock()
		{
			var seen uint32
			for _, op := range step.Ops {
				if op.Kind != "evict" {
					continue
				}
				var m uint32
				for _, k := range op.Keys {
					if k < c.g.N {
						m |= c.up[k]
					}
				}
				if seen&m != 0 {
					tainted = true
				}
				seen |= m
			}
		}
		start := make(chan struct{})
		var ops []*c33OpRes
		for _, op := range step.Ops {
			label++
			ops = append(ops, c.launch(op, label, start))
		}
		close(start)
		hung := false
		for _, o := range ops {
			res, snap := c.mon.await(o.done, nil, true)
			if res == waitDone {
				continue
			}
			hung = true
			for _, o2 := range ops {
				o2.cancel()
			}
			if res == waitQuiescent {
				viol("run.hang", fmt.Sprintf("%s never returns on an acyclic graph without panics: goroutines parked in %s", o.op.Kind, strings.Join(snap.blockers, "+")),
					map[string]any{"step": si, "goroutines": snap.lines})
			} else {
				r.Inconclusive("C33: an operation did not return and the quiescence criterion was not met within the limit")
			}
			break
		}
		if hung {
			for _, o := range ops {
				select {
				case <-o.done:
				case <-time.After(quietLimit):
				}
			}
			return
		}
		keysNow, badKeys := parseKeys(c.exec.Keys(), "incr.c33Key")
		c.mu.Lock()
		execs := append([]execRec(nil), c.execs[execFrom:]...)
		obs := append([]obsRec(nil), c.obs[obsFrom:]...)
		bad := append([]string(nil), c.bad...)
		c.mu.Unlock()
		sw := map[string]any{"step": si, "keys_after": maskList(keysNow), "model_cache_before": maskList(cache)}
		var exl []string
		for _, e := range execs {
			exl = append(exl, fmt.Sprintf("run#%d executes %d @%d", e.label, e.key, e.seq))
		}
		sw["executions_in_step"] = exl
		var opl []string
		for _, o := range ops {
			opl = append(opl, fmt.Sprintf("#%d %s roots=%v keys=%v [%d,%d]", o.label, o.op.Kind, o.op.Roots, o.op.Keys, o.call, o.ret))
		}
		sw["ops_in_step"] = opl

		if len(bad) > 0 {
			viol("run.error", "Resolve returned an error inside a query although nothing was cancelled", map[string]any{"step": si, "detail": bad})
			return
		}
		if len(badKeys) > 0 {
			viol("keys.unknown", "Executor.Keys() lists a key no query has", map[string]any{"step": si, "keys": badKeys})
			return
		}

		// ---- observations of this step, per (run, key)
		nRuns, nEv := 0, 0
		for _, o := range ops {
			if o.panicV != nil {
				viol("run.panic", fmt.Sprintf("%s panicked at %s", o.op.Kind, o.panicSite), map[string]any{"step": si, "panic": fmt.Sprint(o.panicV)})
				return
			}
			if o.op.Kind != "run" {
				nEv++
				continue
			}
			nRuns++
			if o.err != nil {
				viol("run.error", "Run returned an error on an acyclic graph without panics or cancellation", map[string]any{"step": si, "error": o.err.Error()})
				return
			}
			if len(o.results) != len(o.op.Roots) {
				viol("run.result-count", "Run returned a different number of results than queries", sw)
				return
			}
			for i, root := range o.op.Roots {
				rr := o.results[i]
				obs = append(obs, obsRec{observer: -1, label: o.label, key: root, changed: rr.Changed, value: rr.Value, fatal: rr.Fatal != nil})
			}
		}
		type rk struct{ label, key int }
		execCount := map[rk]int{}
		perKeyExec := map[int]int{}
		for _, e := range execs {
			execCount[rk{e.label, e.key}]++
			perKeyExec[e.key]++
		}
		flags := map[rk][2]int{} // count of observers that saw changed=false / true
		for _, ob := range obs {
			if ob.fatal {
				viol("value.fatal", "a result carries a fatal error although no query fails", sw)
				return
			}
			if ob.value != c.ref[ob.key] {
				sw["key"], sw["got"], sw["want"] = ob.key, ob.value, c.ref[ob.key]
				viol("value.wrong", "a resolved value differs from the reference H(key, deps) of a fresh computation", sw)
				return
			}
			f := flags[rk{ob.label, ob.key}]
			if ob.changed {
				f[1]++
			} else {
				f[0]++
			}
			flags[rk{ob.label, ob.key}] = f
		}
		for k, f := range flags {
			if f[0] > 0 && f[1] > 0 {
				sw["run"], sw["key"] = k.label, k.key
				viol("changed.inconsistent", "two observers within one Run saw different Changed flags for one key", sw)
				return
			}
			ex := execCount[k] > 0
			if ex != (f[1] > 0) {
				sw["run"], sw["key"], sw["executed_in_this_run"], sw["changed_seen"] = k.label, k.key, ex, f[1] > 0
				if ex {
					viol("changed.wrong", "a key computed during the current Run is reported with Changed=false", sw)
				} else {
					viol("changed.wrong", "a key served from cache (or computed by another Run) is reported with Changed=true", sw)
				}
				return
			}
		}
		for k := range execCount {
			if _, ok := flags[k]; !ok {
				sw["run"], sw["key"] = k.label, k.key
				viol("exec.unobserved", "a query was executed under a Run in which nobody resolved it", sw)
				return
			}
		}

		// ---- reference model
		mixed := nRuns > 0 && nEv > 0 || nEv > 1
		switch {
		case nEv == 0: // one Run or several concurrent Runs
			var rootsAll uint32
			for _, o := range ops {
				rootsAll |= maskOf(o.op.Roots)
			}
			need := closureOf(c.cl, rootsAll) &^ cache
			var executed uint32
			for k, n := range perKeyExec {
				executed |= 1 << uint(k)
				if n > 1 {
					sw["key"], sw["times"] = k, n
					viol("memo.executed-twice", fmt.Sprintf("a query executed more than once without an intervening eviction (%s)", stepShape(nRuns)), sw)
					return
				}
			}
			if extra := executed &^ need; extra != 0 {
				sw["re_executed"] = maskList(extra)
				if lastWasEvict {
					viol("evict.over-invalidated", "after Evict a key outside the reverse-dependency closure of the evicted keys was recomputed", sw)
				} else {
					viol("memo.recomputed-cached", fmt.Sprintf("a memoised query was executed again without eviction (%s)", stepShape(nRuns)), sw)
				}
				return
			}
			if miss := need &^ executed; miss != 0 {
				sw["not_executed"] = maskList(miss)
				viol("evict.under-invalidated", "a key that was evicted (or never computed) was served without being executed", sw)
				return
			}
			cache |= need
			if nRuns > 1 {
				concurrentStep = true
			}
		case !mixed: // one Evict
			if len(execs) > 0 {
				viol("evict.executes", "Evict executed a query", sw)
				return
			}
			nc := c.modelEvict(cache, ops[0].op.Keys)
			if nc != cache {
				effectiveEvict = true
			}
			cache = nc
		default: // concurrent Runs and Evicts: any linearisation is acceptable
			var h []porcupine.Operation
			var maxT int64
			for _, o := range ops {
				if o.ret > maxT {
					maxT = o.ret
				}
				if o.op.Kind == "run" {
					h = append(h, porcupine.Operation{ClientId: o.label, Input: wsIn{Kind: "run", Mask: closureOf(c.cl, maskOf(o.op.Roots))}, Call: o.call, Return: o.ret})
				} else {
					// a multi-key Evict is only required to be atomic per key
					for _, k := range o.op.Keys {
						h = append(h, porcupine.Operation{ClientId: o.label, Input: wsIn{Kind: "evict", Key: k}, Call: o.call, Return: o.ret})
					}
				}
			}
			h = append(h, porcupine.Operation{ClientId: 0, Input: wsIn{Kind: "keys", Mask: keysNow}, Call: maxT + 1, Return: maxT + 2})
			switch porcupine.CheckOperationsTimeout(c.wholeStateModel(cache), h, 20*time.Second) {
			case porcupine.Illegal:
				closed := true
				for _, k := range maskList(keysNow) {
					if c.cl[k]&^keysNow != 0 {
						closed = false
					}
				}
				sw["model"] = "run: cache |= closure(roots); evict(k): drop k and its cached dependents; the final Keys() must be the cache of some linearisation"
				viol("evict.not-linearizable", fmt.Sprintf("Keys() after a concurrent step of Runs and Evicts is not the cache of any linearisation (closed under dependencies=%v)", closed), sw)
				return
			case porcupine.Unknown:
				r.Inconclusive("C33: porcupine timeout (whole-state model)")
				return
			}
			if keysNow != cache {
				effectiveEvict = true
			}
			cache = keysNow
			concurrentStep = true
		}
		if keysNow != cache {
			sw["model_cache_after"] = maskList(cache)
			viol("keys.mismatch", "Executor.Keys() differs from the reference cache (closure of everything run, minus evicted reverse closures)", sw)
			return
		}
		for _, k := range maskList(keysNow) {
			if c.cl[k]&^keysNow != 0 {
				sw["key"] = k
				viol("keys.not-closed", "a key is memoised while one of its dependencies is not", sw)
				return
			}
		}
		lastWasEvict = nEv > 0 && nRuns == 0

		// ---- per-key history for porcupine
		for _, o := range ops {
			if o.op.Kind == "run" {
				for k, f := range flags {
					if k.label != o.label {
						continue
					}
					hist = append(hist, porcupine.Operation{ClientId: o.label, Input: pkIn{Key: k.key, Run: o.label},
						Output: pkOut{Changed: f[1] > 0, Executed: execCount[k] > 0}, Call: o.call, Return: o.ret})
				}
			} else {
				var aff uint32
				for _, k := range o.op.Keys {
					if k < c.g.N {
						aff |= c.up[k]
					}
				}
				for _, k := range maskList(aff) {
					hist = append(hist, porcupine.Operation{ClientId: o.label, Input: pkIn{Key: k, Evict: true}, Call: o.call, Return: o.ret})
				}
			}
		}
		// interleaving signature: order of op calls/returns and of executions
		type ev struct {
			t int64
			s string
		}
		var evs []ev
		for i, o := range ops {
			evs = append(evs, ev{o.call, fmt.Sprintf("c%d", i)}, ev{o.ret, fmt.Sprintf("r%d", i)})
		}
		for _, e := range execs {
			evs = append(evs, ev{e.seq, fmt.Sprintf("x%d.%d", e.key, e.label-ops[0].label)})
		}
		sort.Slice(evs, func(i, j int) bool { return evs[i].t < evs[j].t })
		var stepTrace strings.Builder
		for _, e := range evs {
			stepTrace.WriteString(e.s)
			stepTrace.WriteByte(' ')
		}
		trace.WriteString(stepTrace.String())
		trace.WriteByte('|')
		if len(ops) > 1 {
			st.stepIlv.Store(vlib.Hash64(fmt.Sprintf("%s|%d|%v|%s", c.g.String(), c.par, step, stepTrace.String())), true)
			st.shapes.Store(vlib.Hash64(stepTrace.String()), true)
		}
	}

	if !c.exec.VerifPermitsFree(int64(c.par)) {
		res, snap := c.mon.await(nil, func() bool { return c.exec.VerifPermitsFree(int64(c.par)) }, false)
		if res == waitQuiescent {
			viol("permits.leaked", "semaphore permits are not all free after every Run returned", map[string]any{"goroutines": snap.lines})
			return
		} else if res == waitUndecided {
			r.Inconclusive("C33: permits not free and quiescence undecided")
			return
		}
	}

	// ---- porcupine, per key, over the whole history
	sort.Slice(hist, func(i, j int) bool { return hist[i].Call < hist[j].Call })
	st.porcKeyOps.Add(int64(len(hist)))
	switch res, _ := porcupine.CheckOperationsVerbose(c33PerKeyModel, hist, 30*time.Second); res {
	case porcupine.Illegal:
		var hs []string
		for _, op := range hist {
			hs = append(hs, fmt.Sprintf("[%d,%d] %s", op.Call, op.Return, c33PerKeyModel.DescribeOperation(op.Input, op.Output)))
		}
		viol("memo.not-linearizable", "per-key history of resolve/evict is not linearizable against {cached}: resolve on uncached executes once and is Changed, on cached neither", map[string]any{"per_key_history": hs})
		return
	case porcupine.Unknown:
		r.Inconclusive("C33: porcupine timeout (per-key model)")
		return
	}
	if violated {
		return
	}
	st.histories.Add(1)
	h := vlib.Hash64(trace.String())
	st.ilv.Store(vlib.Hash64(c.id)^h, true)
	if effectiveEvict && concurrentStep {
		r.Eval(fmt.Sprintf("%s|%d|%v", c.g.String(), c.par, c.steps))
	} else {
		r.Eval("")
	}
	if effectiveEvict {
		r.Class("history-with-effective-eviction")
	}
	if tainted {
		r.Class("history-with-overlapping-concurrent-evicts")
	}
	if concurrentStep {
		r.Class("history-with-concurrent-step")
	}
	r.Class(fmt.Sprintf("parallelism-%d", c.par))
	r.ClassN("steps", int64(len(c.steps)))
	if c.id == "rnd/0" || c.id == "dag4/0" {
		r.Sample("history:"+c.id, witness(map[string]any{"trace": trace.String()}))
	}
	return h, true
}

func stepShape(nRuns int) string {
	if nRuns > 1 {
		return "concurrent Runs"
	}
	return "single Run"
}

func TestC33(t *testing.T) {
	r := vlib.Start(t, "C33")
	defer r.Finish()
	installHook()
	r.Extra("rule", "query DAGs: every labelled DAG on <=4 nodes (572; each used in thorough, sampled in quick) plus random DAGs on 2-8 nodes, dependency order shuffled, "+
		"sometimes a duplicated dependency/root; node value = H(key, dep values); histories of 4-12 steps from {Run, 2/4/8 concurrent Runs with overlapping roots, Evict(cached keys), "+
		"Evict(uncached / non-existent keys), concurrent mix of Runs and Evicts} x parallelism {1,2,4,16} x hook perturbation, race detector on. "+
		"plus sequential histories (3-9 steps) on random DAGs in which Runs are cancelled when their k-th query body starts (or before the call): the later uncancelled Runs must return reference values, flag exactly what they computed, execute nothing that an uncancelled Run memoized and nothing twice, and return at all (quiescence criterion); executions are attributed to the Run whose context the body carries, queries touched by a cancelled Run have unknown cache state. "+
		"plus sequential histories on graphs whose edges depend on an input that changes between evictions (apps resolve config and lib[config]); reference = dependency closure of each query's LAST execution. "+
		"non-trivial = history with >=1 eviction that removed something and >=1 concurrent step; distinct = by (graph, parallelism, history)")
	r.Extra("assumptions", []string{
		"query bodies are deterministic and resolve all dependencies in one Resolve call",
		"the execution log written by the query bodies (key, run label from the context) is the ground truth for 'executed during Run R'",
		"porcupine v1.3.0 linearizability checker; Unknown = inconclusive",
		"schedules are sampled (hook perturbation + repetition), not enumerated",
		"a multi-key Evict is only required to be atomic per key",
	})

	small := allSmallDAGs()
	nSmall := r.N(1500, len(small)*120)
	nRnd := r.N(4500, 90000)
	var st c33Stats
	pars := []int{1, 2, 4, 16}
	reps := 1
	if r.Replaying() {
		reps = r.ReplayRep
	}
	r.Par(nSmall+nRnd, func(i int) {
		var id string
		if i < nSmall {
			id = fmt.Sprintf("dag4/%d", i)
		} else {
			id = fmt.Sprintf("rnd/%d", i-nSmall)
		}
		if !r.Want(id) {
			return
		}
		for rep := 0; rep < reps; rep++ {
			rng := r.Rng("c33/" + id)
			c := &c33Case{id: id}
			if i < nSmall {
				var base qgraph
				if r.Quick() {
					base = small[rng.Intn(len(small))]
				} else {
					base = small[i%len(small)]
				}
				c.g = shuffleDeps(rng, base, 0.03)
			} else {
				c.g = shuffleDeps(rng, randomDAG(rng, rng.Range(2, 8)), 0.03)
			}
			c.par = pars[rng.Intn(len(pars))]
			c.cl = c.g.closure()
			c.up = make([]uint32, c.g.N)
			for k := 0; k < c.g.N; k++ {
				for j := 0; j < c.g.N; j++ {
					if c.cl[j]&(1<<uint(k)) != 0 {
						c.up[k] |= 1 << uint(j)
					}
				}
			}
			c.steps = genC33History(rng, c)
			prng := rng.Fork("run")
			if rep > 0 {
				prng = vlib.NewRNG(rng.Uint64() + uint64(rep))
			}
			h1, ok := runC33Case(r, c, prng, &st)
			// schedule diversity: every 8th history is run a second time on a fresh executor
			// under another perturbation seed, and the observed orders are compared
			if ok && rep == 0 && !r.Replaying() && i%8 == 0 {
				c2 := &c33Case{id: id, g: c.g, par: c.par, steps: c.steps, cl: c.cl, up: c.up}
				if h2, ok2 := runC33Case(r, c2, rng.Fork("rerun"), &st); ok2 {
					st.rerun.Add(1)
					if h1 != h2 {
						st.rerunDiff.Add(1)
					}
				}
			}
		}
	})
	c33Dynamic(r)
	c33Cancel(r)
	nI := 0
	st.ilv.Range(func(_, _ any) bool { nI++; return true })
	r.ClassN("distinct-(history,observed-order)-pairs", int64(nI))
	nI = 0
	st.stepIlv.Range(func(_, _ any) bool { nI++; return true })
	r.ClassN("distinct-(concurrent-step,observed-order)-pairs", int64(nI))
	nI = 0
	st.shapes.Range(func(_, _ any) bool { nI++; return true })
	r.ClassN("distinct-observed-orders-of-a-concurrent-step", int64(nI))
	r.ClassN("histories-run-twice", st.rerun.Load())
	r.ClassN("histories-run-twice-with-a-different-observed-order", st.rerunDiff.Load())
	r.ClassN("histories-completed", st.histories.Load())
	r.ClassN("porcupine-per-key-operations", st.porcKeyOps.Load())
	if !r.Quick() {
		r.Extra("small_dag_enumeration", fmt.Sprintf("all %d labelled DAGs on <=4 nodes, each with 120 histories", len(small)))
	}
	if missing := reportHooks(r, []string{"incr.run.beforeCAS", "incr.run.beforeExecute", "incr.run.follower", "incr.wait.parked", "incr.evict.locked"}); len(missing) > 0 && !r.Replaying() {
		r.Inconclusive(fmt.Sprintf("C33: hook sites never reached (schedule perturbation / follower paths not exercised): %v", missing))
	}
}
