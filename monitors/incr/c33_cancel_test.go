package incr

import (
	"context"
	"fmt"
	"sort"
	"sync"
	"sync/atomic"

	"github.com/bufbuild/protocompile/experimental/incremental"
	"github.com/bufbuild/protocompile/internal/verifmon/vlib"
)

// Cancelled runs in the history (C33): a Run whose context is cancelled while its queries execute is part of "any
// history of runs and evictions". Whatever it returns itself, the runs AFTER it must return the values a fresh
// computation would, must not hang on results the cancelled run abandoned, must not re-execute what an earlier
// uncancelled run memoized (and nothing evicted since), and must flag as changed exactly what they computed.
// A query whose execution overlapped a cancelled run may or may not have been memoized: the reference treats its
// cache state as unknown until a later run settles it (executed => it was not cached; not executed => it was).

type ccKey struct{ N int }

type ccCase struct {
	g    qgraph
	ref  []uint64
	mon  *caseMon
	exec *incremental.Executor

}

// ccRun is the state of one Run call; query bodies find it through the task's context, so a body that a cancelled
// run left behind (Run may return while its bodies still execute) is attributed to the run that started it.
type ccRun struct {
	started  atomic.Int64 // bodies started under this run's context
	cancelAt int64        // cancel this run when its cancelAt-th body starts (0 = never)
	cancel   context.CancelFunc
	mu       sync.Mutex
	execs    []int // bodies completed under this run's context, per node
}

type ccRunKey struct{}

type ccQuery struct {
	c  *ccCase
	id int
}

func (q ccQuery) Key() any { return ccKey{q.id} }

func (q ccQuery) Execute(t *incremental.Task) (uint64, error) {
	c := q.c
	c.mon.reg()
	c.mon.busy.Add(1)
	defer c.mon.busy.Add(-1)
	c.mon.events.Add(1)
	run, _ := t.Context().Value(ccRunKey{}).(*ccRun)
	if run == nil {
		panic("cancel family: query body without its run in the context")
	}
	if n := run.started.Add(1); run.cancelAt > 0 && n == run.cancelAt {
		run.cancel()
	}
	deps := c.g.Deps[q.id]
	var dv []uint64
	if len(deps) > 0 {
		qs := make([]incremental.Query[uint64], len(deps))
		for i, d := range deps {
			qs[i] = ccQuery{c, d}
		}
		c.mon.inRes.Add(1)
		c.mon.busy.Add(-1)
		rs, err := incremental.Resolve(t, qs...)
		c.mon.busy.Add(1)
		c.mon.inRes.Add(-1)
		if err != nil {
			return 0, err
		}
		for _, r := range rs {
			dv = append(dv, r.Value)
		}
	}
	run.mu.Lock()
	run.execs[q.id]++
	run.mu.Unlock()
	c.mon.events.Add(1)
	return refHash(q.id, dv), nil
}

func c33Cancel(r *vlib.Run) {
	installHook()
	n := r.N(1200, 20000)
	var nCancelled, nAfter, nHangs atomic.Int64
	r.Par(n, func(i int) {
		id := fmt.Sprintf("cancel/%d", i)
		if !r.Want(id) {
			return
		}
		rng := r.Rng(id)
		g := shuffleDeps(rng, randomDAG(rng, rng.Range(2, 7)), 0.1)
		ref, _ := g.refValues()
		par := []int{1, 1, 2, 4}[rng.Intn(4)]
		c := &ccCase{g: g, ref: ref, mon: newCaseMon(), exec: incremental.New(incremental.WithParallelism(int64(par)))}
		cl := g.closure()
		setPerturbation(rng, []string{"incr.run.leader", "incr.run.deferred", "incr.sema.beforeAcquire", "incr.wait.parked", "incr.resolve.beforeRelease"})
		// model: per node cached / not cached / unknown
		const (
			no = iota
			yes
			unknown
		)
		state := make([]int, g.N)
		var hist []string
		wit := func() map[string]any {
			return map[string]any{"graph": g.String(), "parallelism": par, "history": append([]string(nil), hist...)}
		}
		steps := rng.Range(3, 9)
		cancelledBefore := false
		for s := 0; s < steps; s++ {
			kind := rng.Intn(6)
			if s == 0 {
				kind = 0 + rng.Intn(2) // start with a run (cancelled or not)
			}
			switch {
			case kind == 5: // evict
				var keys []int
				for k := 0; k < g.N; k++ {
					if rng.Chance(0.3) {
						keys = append(keys, k)
					}
				}
				if len(keys) == 0 {
					keys = []int{rng.Intn(g.N)}
				}
				hist = append(hist, fmt.Sprintf("Evict%v", keys))
				anyKeys := make([]any, len(keys))
				for j, k := range keys {
					anyKeys[j] = ccKey{k}
				}
				c.exec.Evict(anyKeys...)
				for v := 0; v < g.N; v++ {
					for _, k := range keys {
						if cl[v]&(1<<uint(k)) != 0 {
							// evicting a key removes it and its dependants IF they were cached; unknown stays
							// unknown only when not hit, a hit node is certainly not cached afterwards
							state[v] = no
						}
					}
				}
			default:
				roots := pickRoots(rng, g.N, 3)
				cancelled := kind == 0 || kind == 1 && rng.Bool()
				run := &ccRun{execs: make([]int, g.N)}
				ctx, cancel := context.WithCancel(context.WithValue(context.Background(), ccRunKey{}, run))
				run.cancel = cancel
				closure := uint32(0)
				for _, rt := range roots {
					closure |= cl[rt]
				}
				if cancelled {
					// cancel when the k-th body of this run starts; k beyond what will execute = a normal run;
					// k == 0 => cancelled before the call
					run.cancelAt = int64(rng.Intn(len(maskList(closure)) + 2))
					if run.cancelAt == 0 {
						cancel()
						hist = append(hist, fmt.Sprintf("Run%v with a context that is already cancelled", roots))
					} else {
						hist = append(hist, fmt.Sprintf("Run%v cancelled when its body no. %d starts", roots, run.cancelAt))
					}
				} else {
					hist = append(hist, fmt.Sprintf("Run%v", roots))
				}
				before := make([]int, g.N)
				qs := make([]incremental.Query[uint64], len(roots))
				for j, rt := range roots {
					qs[j] = ccQuery{c, rt}
				}
				var res []incremental.Result[uint64]
				var err error
				var pv any
				done := make(chan struct{})
				go func() {
					defer close(done)
					c.mon.reg()
					pv, _ = vlib.Try(func() { res, _, err = incremental.Run(ctx, c.exec, qs...) })
				}()
				wr, snap := c.mon.await(done, nil, true)
				if wr != waitDone {
					cancel()
					if wr == waitQuiescent {
						nHangs.Add(1)
						what := "a Run after a cancelled Run never returns"
						if !cancelledBefore {
							what = "a Run never returns"
						}
						if cancelled && run.cancelAt > 0 && run.started.Load() >= run.cancelAt || cancelled && run.cancelAt == 0 {
							what = "a cancelled Run never returns"
						}
						w := wit()
						w["goroutines"], w["blocked_in"] = snap.lines, snap.blockers
						r.Violation("cancel.hang", what, id, w)
					} else {
						r.Inconclusive("cancel family: neither completion nor quiescence within the limit")
					}
					return // the executor is wedged: abandon the case
				}
				cancel()
				if pv != nil {
					w := wit()
					w["panic"] = fmt.Sprint(pv)
					r.Violation("cancel.panic", "Run panicked in a history with cancelled runs", id, w)
					return
				}
				wasCancelled := cancelled && (run.cancelAt == 0 || run.started.Load() >= run.cancelAt)
				run.mu.Lock()
				after := append([]int(nil), run.execs...)
				run.mu.Unlock()
				r.Eval(fmt.Sprintf("%s/%d", id, s))
				if wasCancelled {
					nCancelled.Add(1)
					cancelledBefore = true
					// bodies that completed may or may not have been memoized; a node that was certainly cached
					// stays cached; re-executing it is a violation even here
					for v := 0; v < g.N; v++ {
						d := after[v] - before[v]
						if d > 0 && state[v] == yes {
							w := wit()
							w["node"] = v
							r.Violation("cancel.recomputed-cached", "a query memoized by an earlier uncancelled run (nothing evicted since) was executed again by a cancelled run", id, w)
							return
						}
						if closure&(1<<uint(v)) != 0 && state[v] != yes {
							state[v] = unknown
						}
					}
					if err == nil && res != nil {
						// a cancelled run that still answers must answer correctly
						for j, rt := range roots {
							if res[j].Fatal == nil && res[j].Value != ref[rt] {
								w := wit()
								w["root"], w["got"], w["want"] = rt, res[j].Value, ref[rt]
								r.Violation("cancel.wrong-value", "a cancelled Run returned a value without error that a fresh computation would not produce", id, w)
								return
							}
						}
					}
					r.Class("cancel: cancelled runs observed")
					continue
				}
				if cancelledBefore {
					nAfter.Add(1)
				}
				if err != nil {
					w := wit()
					w["error"] = err.Error()
					r.Violation("cancel.run-error", "an uncancelled Run on an acyclic graph returned an error", id, w)
					return
				}
				var extra, twice []string
				for v := 0; v < g.N; v++ {
					d := after[v] - before[v]
					if d > 1 {
						twice = append(twice, fmt.Sprint(v))
					}
					if d > 0 && (state[v] == yes || closure&(1<<uint(v)) == 0) {
						extra = append(extra, fmt.Sprint(v))
					}
					if d == 0 && closure&(1<<uint(v)) != 0 && state[v] == no {
						w := wit()
						w["node"] = v
						r.Violation("cancel.stale", "a query that was evicted (or never computed) was not executed by a Run that needs it", id, w)
						return
					}
				}
				sort.Strings(extra)
				if len(twice) > 0 {
					w := wit()
					w["nodes"] = twice
					r.Violation("cancel.executed-twice", "a query was executed more than once within one Run", id, w)
					return
				}
				if len(extra) > 0 {
					w := wit()
					w["nodes"] = extra
					r.Violation("cancel.recomputed-cached", "a query memoized by an earlier uncancelled run (nothing evicted since) was executed again", id, w)
					return
				}
				for j, rt := range roots {
					if res[j].Fatal != nil || res[j].Value != ref[rt] {
						w := wit()
						w["root"], w["got"], w["want"], w["fatal"] = rt, res[j].Value, ref[rt], fmt.Sprint(res[j].Fatal)
						sig := "an uncancelled Run returned a value that a fresh computation would not produce"
						if cancelledBefore {
							sig = "a Run after a cancelled Run returned a value that a fresh computation would not produce"
						}
						r.Violation("cancel.wrong-value", sig, id, w)
						return
					}
					computed := after[rt]-before[rt] > 0
					if res[j].Changed != computed {
						w := wit()
						w["root"], w["changed"], w["computed_in_this_run"] = rt, res[j].Changed, computed
						r.Violation("cancel.changed-flag", "Changed does not say whether the root was computed during this run", id, w)
						return
					}
				}
				for v := 0; v < g.N; v++ {
					if closure&(1<<uint(v)) != 0 {
						state[v] = yes
					}
				}
				r.Class("cancel: uncancelled runs checked")
			}
		}
	})
	r.ClassN("cancel: runs that were actually cancelled", nCancelled.Load())
	r.ClassN("cancel: uncancelled runs checked after a cancelled run on the same executor", nAfter.Load())
	r.ClassN("cancel: hangs", nHangs.Load())
}
