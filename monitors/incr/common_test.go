package incr

// Shared machinery of the incremental-executor monitors (C33, C34):
//
//   - the process-global verifhook handler (schedule perturbation + per-site counters),
//   - the per-case quiescence monitor (logical hang / leak criterion of DESIGN.md §1, §2.4.7),
//   - the query-graph helpers (closures, reference hash).
//
// Nothing in here decides a verdict from a wall-clock value: timers only
// trigger the goroutine-dump comparison.

import (
	"fmt"
	"os"
	"regexp"
	"runtime"
	"sort"
	"strconv"
	"strings"
	"sync"
	"sync/atomic"
	"time"

	"github.com/petermattis/goid"

	"github.com/bufbuild/protocompile/internal/verifhook"
	"github.com/bufbuild/protocompile/internal/verifmon/vlib"
)

// ---------------------------------------------------------------------------
// hook handler
// ---------------------------------------------------------------------------

var hookSiteNames = []string{
	"incr.sema.beforeAcquire", "incr.sema.acquired", "incr.sema.release", "incr.sema.transfer",
	"incr.resolve.beforeRelease", "incr.resolve.afterJoin",
	"incr.run.enter", "incr.run.beforeCAS", "incr.run.follower", "incr.run.leader", "incr.run.deferred",
	"incr.run.beforeExecute", "incr.run.afterExecute",
	"incr.wait.beforeCheckCycle", "incr.wait.parked", "incr.wait.woken",
	"incr.Run.enter", "incr.evict.beforeLock", "incr.evict.locked",
	"(unknown site)",
}

var (
	hookIdx    = map[string]int{}
	hookCount  [32]atomic.Uint64
	hookEvents atomic.Uint64
	pertSeed   atomic.Uint64 // 0 = perturbation off
	pertFocus  atomic.Int32  // index of the per-case focus site, -1 = none
	hookOnce   sync.Once
)

func siteIndex(site string) int {
	if i, ok := hookIdx[site]; ok {
		return i
	}
	return len(hookSiteNames) - 1
}

func installHook() {
	hookOnce.Do(func() {
		for i, s := range hookSiteNames {
			hookIdx[s] = i
		}
		pertFocus.Store(-1)
		verifhook.Set(hookHandler)
	})
}

// hookHandler perturbs the schedule at the library's yield points and counts
// events per site. It never blocks on anything but the clock, and no verdict
// depends on what it does.
func hookHandler(site, key string) {
	if site == "incr.loop" {
		spinStep(key)
		return
	}
	spinProgress()
	i := siteIndex(site)
	n := hookCount[i].Add(1)
	hookEvents.Add(1)
	seed := pertSeed.Load()
	if seed == 0 {
		return
	}
	h := vlib.Mix(seed ^ (uint64(i)+1)*0x9e3779b97f4a7c15 ^ n*0xc2b2ae3d27d4eb4f)
	p := h % 100
	h >>= 8
	if int(pertFocus.Load()) == i {
		switch {
		case p < 45:
			time.Sleep(time.Duration(20+h%1980) * time.Microsecond)
		case p < 75:
			for k := uint64(0); k <= h%8; k++ {
				runtime.Gosched()
			}
		}
		return
	}
	switch {
	case p < 70:
	case p < 90:
		for k := uint64(0); k <= h%8; k++ {
			runtime.Gosched()
		}
	default:
		time.Sleep(time.Duration(1+h%200) * time.Microsecond)
	}
}

// ---------------------------------------------------------------------------
// step budget for the executor's internal loops (livelock criterion)
// ---------------------------------------------------------------------------

// The executor's own loops (cycle search and path reconstruction, diagnostics collection, eviction walk) carry the
// hook site "incr.loop". On graphs of at most a few dozen queries each of them is bounded by a few hundred
// iterations between two other hook sites of the same goroutine. A goroutine that passes loop sites spinBudget times
// without reaching any other hook site is spinning: a logical step bound, not a clock. The goroutine is then parked
// for good, so that the quiescence criterion reports the Run that waits for it as a hang, blocked in that loop.
const spinBudget = 1 << 20

type spinCtr struct{ n uint64 }

var (
	spinCtrs  sync.Map // goroutine id -> *spinCtr
	spinMu    sync.Mutex
	spinSites = map[string]int{}
	spinSteps atomic.Uint64
)

func spinStep(key string) {
	spinSteps.Add(1)
	id := goid.Get()
	v, ok := spinCtrs.Load(id)
	if !ok {
		v, _ = spinCtrs.LoadOrStore(id, &spinCtr{})
	}
	c := v.(*spinCtr)
	c.n++ // only this goroutine touches its counter
	if c.n > spinBudget {
		spinMu.Lock()
		spinSites[key]++
		spinMu.Unlock()
		select {} // park for good: the case is reported through the quiescence criterion
	}
}

func spinProgress() {
	if v, ok := spinCtrs.Load(goid.Get()); ok {
		v.(*spinCtr).n = 0
	}
}

// spinsSeen lists the loop sites at which a goroutine exceeded the step budget.
func spinsSeen() []string {
	spinMu.Lock()
	defer spinMu.Unlock()
	var out []string
	for k, n := range spinSites {
		out = append(out, fmt.Sprintf("%s x%d", k, n))
	}
	sort.Strings(out)
	return out
}

// setPerturbation installs the perturbation parameters of the case that is
// about to run on this worker. Several workers share the handler; the last
// writer wins, which is fine: attribution is not needed for perturbation.
func setPerturbation(rng *vlib.RNG, focusSites []string) {
	seed := rng.Uint64() | 1
	if rng.Chance(0.1) {
		seed = 0 // some cases run unperturbed
	}
	f := int32(-1)
	if len(focusSites) > 0 && rng.Chance(0.8) {
		f = int32(siteIndex(focusSites[rng.Intn(len(focusSites))]))
	}
	pertFocus.Store(f)
	pertSeed.Store(seed)
}

// reportHooks writes the per-site counters to the evidence and returns the
// sites of `required` that were never reached.
func reportHooks(r *vlib.Run, required []string) (missing []string) {
	r.Extra("executor_loop_iterations_counted_against_the_step_budget", spinSteps.Load())
	r.Extra("loops_that_exceeded_the_step_budget", spinsSeen())
	m := map[string]uint64{}
	for i, s := range hookSiteNames {
		if n := hookCount[i].Load(); n > 0 {
			m[s] = n
			r.ClassN("hook:"+s, int64(n))
		}
	}
	r.Extra("hook_sites_reached_in_last_batch", m)
	r.Extra("hooks_compiled_in", verifhook.On())
	for _, s := range required {
		if m[s] == 0 {
			missing = append(missing, s)
		}
	}
	return missing
}

// ---------------------------------------------------------------------------
// quiescence monitor
// ---------------------------------------------------------------------------

const incrPkg = "github.com/bufbuild/protocompile/experimental/incremental."

var (
	quietTrigger = 200 * time.Millisecond
	quietLimit   = 40 * time.Second
)

func init() {
	if v := os.Getenv("VERIF_TIMEOUT_SCALE"); v != "" {
		if f, err := strconv.ParseFloat(v, 64); err == nil && f > 0 {
			quietLimit = time.Duration(float64(quietLimit) * f)
		}
	}
}

// caseMon tracks what the quiescence criterion needs about one case: which
// goroutines belong to it and whether any harness-side query body is running
// outside of a Resolve call.
type caseMon struct {
	mu     sync.Mutex
	goids  map[int64]struct{}
	coord  int64
	busy   atomic.Int64  // query bodies in flight and not inside incremental.Resolve
	inRes  atomic.Int64  // query bodies inside incremental.Resolve
	events atomic.Uint64 // harness-side events (body enter/exit, op call/return)
}

func newCaseMon() *caseMon {
	m := &caseMon{goids: map[int64]struct{}{}}
	m.coord = goid.Get()
	m.goids[m.coord] = struct{}{}
	return m
}

// reg records that the calling goroutine works for this case. Every goroutine
// the executor spawns is created inside Resolve, i.e. by a goroutine that has
// already called reg (a Run caller or a query body), so "id or creator is
// registered" attributes every goroutine of the case exactly.
func (m *caseMon) reg() {
	id := goid.Get()
	m.mu.Lock()
	m.goids[id] = struct{}{}
	m.mu.Unlock()
}

type gInfo struct {
	id, parent int64
	state      string
	funcs      []string
	incr       bool
}

var (
	reGoHeader = regexp.MustCompile(`^goroutine (\d+) (?:gp=\S+ m=\S+ (?:mp=\S+ )?)?\[([^\]]*)\]:`)
	reCreated  = regexp.MustCompile(`^created by (\S+) in goroutine (\d+)`)
)

func dumpGoroutines() []gInfo {
	buf := make([]byte, 1<<20)
	for {
		n := runtime.Stack(buf, true)
		if n < len(buf) {
			buf = buf[:n]
			break
		}
		buf = make([]byte, 2*len(buf))
	}
	var out []gInfo
	for _, block := range strings.Split(string(buf), "\n\n") {
		lines := strings.Split(strings.TrimSpace(block), "\n")
		if len(lines) == 0 {
			continue
		}
		m := reGoHeader.FindStringSubmatch(lines[0])
		if m == nil {
			continue
		}
		g := gInfo{}
		g.id, _ = strconv.ParseInt(m[1], 10, 64)
		g.state = strings.TrimSpace(strings.SplitN(m[2], ",", 2)[0])
		for _, l := range lines[1:] {
			if strings.HasPrefix(l, "\t") || l == "" {
				continue
			}
			if c := reCreated.FindStringSubmatch(l); c != nil {
				g.parent, _ = strconv.ParseInt(c[2], 10, 64)
				continue
			}
			f := l
			if i := strings.LastIndex(f, "("); i > 0 {
				f = f[:i]
			}
			if strings.HasPrefix(f, incrPkg) {
				g.incr = true
			}
			g.funcs = append(g.funcs, f)
		}
		out = append(out, g)
	}
	return out
}

func parkedState(s string) bool {
	switch {
	case s == "select", s == "select (no cases)", s == "semacquire":
		return true
	case strings.HasPrefix(s, "chan receive"), strings.HasPrefix(s, "chan send"):
		return true
	case strings.HasPrefix(s, "sync."):
		return true
	}
	return false
}

func shortFunc(f string) string {
	f = strings.TrimPrefix(f, "github.com/bufbuild/protocompile/")
	f = strings.ReplaceAll(f, "[...]", "")
	for {
		i := strings.LastIndex(f, ".func")
		if i < 0 {
			break
		}
		rest := f[i+5:]
		if strings.Trim(rest, "0123456789.") != "" {
			break
		}
		f = f[:i]
	}
	if i := strings.Index(f, "-range"); i > 0 {
		f = f[:i]
	}
	return f
}

type snapshot struct {
	n         int  // goroutines of the case (coordinator excluded)
	nIncr     int  // ... of which have a frame in the incremental package
	allParked bool // every one of them is parked
	sig       uint64
	lines     []string // human-readable, for witnesses
	blockers  []string // innermost incremental functions the parked goroutines sit in
}

func (m *caseMon) snapshot() snapshot {
	gs := dumpGoroutines()
	m.mu.Lock()
	mine := func(g gInfo) bool {
		if g.id == m.coord {
			return false
		}
		if _, ok := m.goids[g.id]; ok {
			return true
		}
		_, ok := m.goids[g.parent]
		return ok
	}
	var sel []gInfo
	for _, g := range gs {
		if mine(g) {
			sel = append(sel, g)
		}
	}
	m.mu.Unlock()
	sort.Slice(sel, func(i, j int) bool { return sel[i].id < sel[j].id })
	s := snapshot{allParked: true}
	var sb strings.Builder
	bl := map[string]bool{}
	for _, g := range sel {
		s.n++
		inner := ""
		for _, f := range g.funcs {
			if strings.HasPrefix(f, incrPkg) {
				inner = shortFunc(f)
				break
			}
		}
		if g.incr {
			s.nIncr++
		}
		if !parkedState(g.state) {
			s.allParked = false
		}
		fmt.Fprintf(&sb, "%d|%s|%s\n", g.id, g.state, strings.Join(g.funcs, ";"))
		top := ""
		if len(g.funcs) > 0 {
			top = shortFunc(g.funcs[0])
		}
		var fs []string
		for _, f := range g.funcs {
			fs = append(fs, shortFunc(f))
		}
		s.lines = append(s.lines, fmt.Sprintf("g%d [%s] top=%s innermost-incremental=%s stack=%s", g.id, g.state, top, inner, strings.Join(fs, " < ")))
		if inner != "" {
			bl[inner] = true
		}
	}
	s.sig = vlib.Hash64(sb.String())
	// the blocking frames: drop the pure "join" frames when something more specific exists
	var bs []string
	for f := range bl {
		bs = append(bs, f)
	}
	sort.Strings(bs)
	var spec []string
	for _, f := range bs {
		if strings.HasSuffix(f, "incremental.Resolve") || strings.HasSuffix(f, "incremental.Run") {
			continue
		}
		spec = append(spec, f)
	}
	if len(spec) > 0 {
		bs = spec
	}
	s.blockers = bs
	return s
}

type waitRes int

const (
	waitDone      waitRes = iota // the awaited condition became true
	waitQuiescent                // the logical quiescence criterion holds and the condition is still false
	waitUndecided                // neither within the generous limit: inconclusive
)

// await waits until ch is closed (ch != nil) or cond() is true (cond != nil).
// When that does not happen within quietTrigger it starts evaluating the
// quiescence criterion: no query body of the case runs outside Resolve, every
// goroutine of the case is parked (chan/select/semacquire/sync wait), two
// goroutine dumps taken apart are identical and no harness event happened in
// between. needGoroutines demands that the set of goroutines with frames in
// the incremental package is non-empty (hang detection); leak detection
// (permits not free although nothing is left running) does not.
func (m *caseMon) await(ch <-chan struct{}, cond func() bool, needGoroutines bool) (waitRes, snapshot) {
	done := func() bool {
		if ch != nil {
			select {
			case <-ch:
				return true
			default:
			}
			return false
		}
		return cond()
	}
	start := time.Now()
	if ch != nil {
		t := time.NewTimer(quietTrigger)
		select {
		case <-ch:
			t.Stop()
			return waitDone, snapshot{}
		case <-t.C:
		}
	} else {
		for i := 0; ; i++ {
			if cond() {
				return waitDone, snapshot{}
			}
			if time.Since(start) > quietTrigger {
				break
			}
			if i < 200 {
				runtime.Gosched()
			} else {
				time.Sleep(50 * time.Microsecond)
			}
		}
	}
	for time.Since(start) < quietLimit {
		if done() {
			return waitDone, snapshot{}
		}
		if m.busy.Load() != 0 {
			time.Sleep(5 * time.Millisecond)
			continue
		}
		ev0 := m.events.Load()
		s1 := m.snapshot()
		if !s1.allParked || (needGoroutines && s1.nIncr == 0) {
			time.Sleep(10 * time.Millisecond)
			continue
		}
		time.Sleep(30 * time.Millisecond)
		s2 := m.snapshot()
		if s2.allParked && s2.sig == s1.sig && m.events.Load() == ev0 && m.busy.Load() == 0 && !done() {
			return waitQuiescent, s2
		}
	}
	return waitUndecided, m.snapshot()
}

// ---------------------------------------------------------------------------
// graphs
// ---------------------------------------------------------------------------

// qgraph is a query graph: deps[i] is the ordered list of queries that query
// i resolves (in ONE Resolve call). Self-loops and duplicates are allowed.
type qgraph struct {
	N    int     `json:"n"`
	Deps [][]int `json:"deps"`
}

func (g qgraph) String() string {
	var sb strings.Builder
	for i, d := range g.Deps {
		if i > 0 {
			sb.WriteByte(' ')
		}
		fmt.Fprintf(&sb, "%d->%v", i, d)
	}
	return sb.String()
}

func (g qgraph) hasEdge(a, b int) bool {
	if a < 0 || a >= g.N {
		return false
	}
	for _, d := range g.Deps[a] {
		if d == b {
			return true
		}
	}
	return false
}

// reach returns, per node, the bitmask of nodes reachable by >= 1 edge.
func (g qgraph) reachPlus() []uint32 {
	r := make([]uint32, g.N)
	for i := range r {
		for _, d := range g.Deps[i] {
			r[i] |= 1 << uint(d)
		}
	}
	for changed := true; changed; {
		changed = false
		for i := range r {
			nr := r[i]
			for j := 0; j < g.N; j++ {
				if r[i]&(1<<uint(j)) != 0 {
					nr |= r[j]
				}
			}
			if nr != r[i] {
				r[i], changed = nr, true
			}
		}
	}
	return r
}

// closure returns, per node, the node itself plus everything reachable.
func (g qgraph) closure() []uint32 {
	r := g.reachPlus()
	for i := range r {
		r[i] |= 1 << uint(i)
	}
	return r
}

func maskOf(xs []int) uint32 {
	var m uint32
	for _, x := range xs {
		m |= 1 << uint(x)
	}
	return m
}

func maskList(m uint32) []int {
	var out []int
	for i := 0; i < 32; i++ {
		if m&(1<<uint(i)) != 0 {
			out = append(out, i)
		}
	}
	return out
}

func closureOf(cl []uint32, set uint32) uint32 {
	var m uint32
	for i := range cl {
		if set&(1<<uint(i)) != 0 {
			m |= cl[i]
		}
	}
	return m
}

// refHash is the reference value of a query: H(key, values of deps in order).
func refHash(id int, depVals []uint64) uint64 {
	h := vlib.Mix(uint64(id)*0x9e3779b97f4a7c15 + 0x1234567)
	for _, v := range depVals {
		h = vlib.Mix(h ^ v*0xff51afd7ed558ccd)
	}
	if h == 0 {
		h = 1
	}
	return h
}

// refValues computes the reference value of every node whose closure is
// acyclic (ok[i]); the others have no value.
func (g qgraph) refValues() (vals []uint64, ok []bool) {
	vals = make([]uint64, g.N)
	ok = make([]bool, g.N)
	rp := g.reachPlus()
	cl := g.closure()
	acyc := make([]bool, g.N)
	for i := 0; i < g.N; i++ {
		acyc[i] = true
		for j := 0; j < g.N; j++ {
			if cl[i]&(1<<uint(j)) != 0 && rp[j]&(1<<uint(j)) != 0 {
				acyc[i] = false
			}
		}
	}
	var rec func(i int) uint64
	done := make([]bool, g.N)
	rec = func(i int) uint64 {
		if done[i] {
			return vals[i]
		}
		dv := make([]uint64, len(g.Deps[i]))
		for k, d := range g.Deps[i] {
			dv[k] = rec(d)
		}
		vals[i], done[i] = refHash(i, dv), true
		return vals[i]
	}
	for i := 0; i < g.N; i++ {
		if acyc[i] {
			rec(i)
			ok[i] = true
		}
	}
	return vals, ok
}
