package incr

import (
	"context"
	"fmt"
	"sort"
	"sync"

	"github.com/bufbuild/protocompile/experimental/incremental"
	"github.com/bufbuild/protocompile/internal/verifmon/vlib"
)

// Dynamic dependency sets (C33): which queries a query depends on is decided by an input that changes between
// evictions — app_i resolves {config, lib[config value]}. The reference keeps, per query, the dependency set of its
// LAST execution: evicting a key forces recomputation of exactly the cached queries whose last closure contains it.
// Histories are sequential (the concurrent part of C33 runs on fixed graphs).

type dynKey struct {
	Kind string // "config", "lib", "app"
	N    int
}

type dynWorld struct {
	mu     sync.Mutex
	cfg    int // which lib the apps use; changed under EvictWithCleanup(config)
	execs  map[dynKey]int
	lastOf map[dynKey][]dynKey // deps resolved by the last execution
}

type dynQuery struct {
	w *dynWorld
	k dynKey
}

func (q dynQuery) Key() any { return q.k }

func (q dynQuery) Execute(t *incremental.Task) (uint64, error) {
	w := q.w
	var deps []dynKey
	switch q.k.Kind {
	case "config":
		w.mu.Lock()
		v := w.cfg
		w.execs[q.k]++
		w.lastOf[q.k] = nil
		w.mu.Unlock()
		return uint64(v), nil
	case "lib":
		if q.k.N%2 == 1 {
			deps = []dynKey{{"lib", 0}} // odd libs build on lib 0
		}
	case "app":
		rs, err := incremental.Resolve(t, incremental.Query[uint64](dynQuery{w, dynKey{"config", 0}}))
		if err != nil {
			return 0, err
		}
		deps = []dynKey{{"config", 0}, {"lib", int(rs[0].Value)}}
	}
	var sum uint64 = uint64(q.k.N)*31 + uint64(len(q.k.Kind))
	for _, d := range deps {
		if d.Kind == "config" {
			continue // already resolved above
		}
		rs, err := incremental.Resolve(t, incremental.Query[uint64](dynQuery{w, d}))
		if err != nil {
			return 0, err
		}
		sum = sum*1099511628211 + rs[0].Value
	}
	w.mu.Lock()
	w.execs[q.k]++
	w.lastOf[q.k] = deps
	w.mu.Unlock()
	return sum, nil
}

func c33Dynamic(r *vlib.Run) {
	n := r.N(1500, 30000)
	r.Par(n, func(i int) {
		id := fmt.Sprintf("dyn/%d", i)
		if !r.Want(id) {
			return
		}
		rng := r.Rng(id)
		w := &dynWorld{execs: map[dynKey]int{}, lastOf: map[dynKey][]dynKey{}}
		nLibs, nApps := rng.Range(2, 4), rng.Range(1, 3)
		ex := incremental.New(incremental.WithParallelism(int64(rng.Range(1, 4))))
		cached := map[dynKey]bool{}
		// closure of a cached query = deps of its last execution, transitively
		var closure func(k dynKey, seen map[dynKey]bool)
		closure = func(k dynKey, seen map[dynKey]bool) {
			if seen[k] {
				return
			}
			seen[k] = true
			w.mu.Lock()
			ds := append([]dynKey(nil), w.lastOf[k]...)
			w.mu.Unlock()
			for _, d := range ds {
				closure(d, seen)
			}
		}
		evictModel := func(k dynKey) {
			for c := range cached {
				seen := map[dynKey]bool{}
				closure(c, seen)
				if seen[k] {
					delete(cached, c)
				}
			}
		}
		var hist []string
		steps := rng.Range(4, 12)
		for s := 0; s < steps; s++ {
			switch rng.Intn(5) {
			case 0: // change the configuration
				nv := rng.Intn(nLibs)
				hist = append(hist, fmt.Sprintf("EvictWithCleanup(config, cfg=%d)", nv))
				evictModel(dynKey{"config", 0})
				ex.EvictWithCleanup([]any{dynKey{"config", 0}}, func() { w.mu.Lock(); w.cfg = nv; w.mu.Unlock() })
			case 1: // evict a lib
				k := dynKey{"lib", rng.Intn(nLibs)}
				hist = append(hist, fmt.Sprintf("Evict(lib %d)", k.N))
				evictModel(k)
				ex.Evict(k)
			case 2: // evict an app
				k := dynKey{"app", rng.Intn(nApps)}
				hist = append(hist, fmt.Sprintf("Evict(app %d)", k.N))
				evictModel(k)
				ex.Evict(k)
			default: // run some apps
				var roots []incremental.Query[uint64]
				var names []int
				for a := 0; a < nApps; a++ {
					if rng.Bool() || a == 0 {
						roots = append(roots, dynQuery{w, dynKey{"app", a}})
						names = append(names, a)
					}
				}
				hist = append(hist, fmt.Sprintf("Run(apps %v)", names))
				w.mu.Lock()
				before := map[dynKey]int{}
				for k, v := range w.execs {
					before[k] = v
				}
				cfg := w.cfg
				w.mu.Unlock()
				// what must execute: every query in the closure the run will have that is not cached
				need := map[dynKey]bool{}
				var want func(k dynKey)
				want = func(k dynKey) {
					if need[k] || cached[k] {
						return
					}
					need[k] = true
					switch k.Kind {
					case "app":
						want(dynKey{"config", 0})
						want(dynKey{"lib", cfg})
					case "lib":
						if k.N%2 == 1 {
							want(dynKey{"lib", 0})
						}
					}
				}
				for _, a := range names {
					want(dynKey{"app", a})
				}
				res, _, err := incremental.Run(context.Background(), ex, roots...)
				r.Eval(id + fmt.Sprint(s))
				wit := map[string]any{"libs": nLibs, "apps": nApps, "history": hist}
				if err != nil {
					r.Violation("dyn.run-error", "Run on a graph without cycles returned an error", id, wit)
					return
				}
				w.mu.Lock()
				var extra, missing []string
				for k, v := range w.execs {
					d := v - before[k]
					if d > 0 && !need[k] {
						extra = append(extra, fmt.Sprintf("%s %d", k.Kind, k.N))
					}
					if d > 1 {
						extra = append(extra, fmt.Sprintf("%s %d executed %d times", k.Kind, k.N, d))
					}
				}
				for k := range need {
					if w.execs[k]-before[k] == 0 {
						missing = append(missing, fmt.Sprintf("%s %d", k.Kind, k.N))
					}
				}
				w.mu.Unlock()
				sort.Strings(extra)
				sort.Strings(missing)
				if len(extra) > 0 {
					wit["executed_although_cached_and_not_invalidated"] = extra
					r.Violation("dyn.recomputed-too-much", "a query was executed again although nothing in the dependency closure of its last execution was evicted", id, wit)
					return
				}
				if len(missing) > 0 {
					wit["not_executed_although_invalidated"] = missing
					r.Violation("dyn.stale", "a query was not executed although it was evicted or a query of its last dependency closure was", id, wit)
					return
				}
				for ri, a := range names {
					if res[ri].Changed != need[dynKey{"app", a}] {
						wit["app"] = a
						wit["changed"] = res[ri].Changed
						r.Violation("dyn.changed-flag", "Changed does not say whether the root was computed during this run", id, wit)
						return
					}
				}
				for k := range need {
					cached[k] = true
				}
				r.Class("dynamic-dependencies: runs checked")
			}
		}
	})
}
