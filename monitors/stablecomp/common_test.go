package stablecomp

import (
	"sort"
	"strings"
	"sync"

	"google.golang.org/protobuf/proto"
	"google.golang.org/protobuf/reflect/protoregistry"
	"google.golang.org/protobuf/types/descriptorpb"

	"github.com/bufbuild/protocompile/internal/verifmon/gen"
)

// r2World is the protoc-side view of the R2 corpus: descriptors protoc
// produced, runtime descriptors/types built from them (for decoding option
// values on both sides of a comparison), and the sources.
type r2World struct {
	entries []gen.R2Entry
	src     map[string]string
	byName  map[string]*descriptorpb.FileDescriptorProto
	files   *protoregistry.Files
	types   *protoregistry.Types
	refused map[string]error // files the Go runtime refuses to build from protoc's descriptor
}

var (
	r2Once  sync.Once
	r2W     *r2World
	r2WErr  error
	ed2024  = "EDITION_2024"
	_       = ed2024
	noStrip = false
)

func loadR2World() (*r2World, error) {
	r2Once.Do(func() {
		es, src, err := gen.LoadR2()
		if err != nil {
			r2WErr = err
			return
		}
		w := &r2World{entries: es, src: src, byName: map[string]*descriptorpb.FileDescriptorProto{}}
		var fds []*descriptorpb.FileDescriptorProto
		for _, e := range es {
			w.byName[e.Name] = e.Desc
			fds = append(fds, e.Desc)
		}
		w.files, w.refused = gen.BuildFilesLenient(fds)
		w.types = gen.TypesOf(w.files)
		r2W = w
	})
	return r2W, r2WErr
}

// closure returns the sources needed to compile name (transitive imports that
// exist in the corpus).
func (w *r2World) closure(name string) map[string]string {
	out := map[string]string{}
	var add func(n string)
	add = func(n string) {
		if _, ok := out[n]; ok {
			return
		}
		s, ok := w.src[n]
		if !ok {
			return
		}
		out[n] = s
		if d, ok := w.byName[n]; ok {
			for _, dep := range d.Dependency {
				add(dep)
			}
		} else {
			// dependency list from the text (sources without a recorded descriptor)
			for _, line := range strings.Split(s, "\n") {
				line = strings.TrimSpace(line)
				if strings.HasPrefix(line, "import ") {
					if i := strings.Index(line, `"`); i >= 0 {
						if j := strings.Index(line[i+1:], `"`); j >= 0 {
							add(line[i+1 : i+1+j])
						}
					}
				}
			}
		}
	}
	add(name)
	return out
}

// compareWithProtoc compares a compiled descriptor with protoc's, after
// stripping source-retention options (protoc's recorded output is what
// plugins see) and decoding options on both sides against protoc's schema.
func compareWithProtoc(compiled, want *descriptorpb.FileDescriptorProto, types gen.TypeResolver, strip bool) (string, error) {
	var a *descriptorpb.FileDescriptorProto
	var err error
	if strip {
		// reference strip (independent of options.StripSourceRetentionOptionsFromFile, which C22 checks)
		a, err = gen.RefStrip(compiled, types)
	} else {
		a, err = gen.Normalize(compiled, types)
	}
	if err != nil {
		return "", err
	}
	b, err := gen.Normalize(want, types)
	if err != nil {
		return "", err
	}
	if proto.Equal(a, b) {
		return "", nil
	}
	d := gen.Diff(a, b)
	if d == "" {
		d = "proto.Equal false but no structural difference found (unknown-field ordering?)"
	}
	return d, nil
}

func sortedKeys[V any](m map[string]V) []string {
	ks := make([]string, 0, len(m))
	for k := range m {
		ks = append(ks, k)
	}
	sort.Strings(ks)
	return ks
}
