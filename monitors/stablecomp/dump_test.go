package stablecomp

import (
	"fmt"
	"os"
	"testing"

	"google.golang.org/protobuf/encoding/prototext"
)

// TestDump is a development aid: VERIF_DUMP=<r2 name> prints protoc's descriptor as text.
func TestDump(t *testing.T) {
	name := os.Getenv("VERIF_DUMP")
	if name == "" {
		t.Skip()
	}
	w, err := loadR2World()
	if err != nil {
		t.Fatal(err)
	}
	d := w.byName[name]
	if d == nil {
		for n := range w.byName {
			fmt.Println(n)
		}
		return
	}
	fmt.Println(prototext.MarshalOptions{Multiline: true, Resolver: w.types}.Format(d))
	for n, e := range w.refused {
		fmt.Println("REFUSED", n, e)
	}
}
