package stablecomp

import (
	"fmt"
	"os"
	"testing"

	"google.golang.org/protobuf/encoding/prototext"

	"github.com/bufbuild/protocompile/internal/verifmon/gen"
)

// TestDump is a development aid: VERIF_DUMP=<r2 name> prints protoc's descriptor as text.
func TestDump(t *testing.T) {
	name := os.Getenv("VERIF_DUMP")
	if name == "" {
		t.Skip()
	}
	w, err := loadR2World()
	if err != nil {
		t.Fatal(err)
	}
	d := w.byName[name]
	if d == nil {
		for n := range w.byName {
			fmt.Println(n)
		}
		return
	}
	fmt.Println(prototext.MarshalOptions{Multiline: true, Resolver: w.types}.Format(d))
	for n, e := range w.refused {
		fmt.Println("REFUSED", n, e)
	}
}

// TestDumpSCI is a development aid: VERIF_DUMP_SCI=<file in source_info.protoset> prints protoc's locations.
func TestDumpSCI(t *testing.T) {
	name := os.Getenv("VERIF_DUMP_SCI")
	if name == "" {
		t.Skip()
	}
	sets, _, err := gen.LoadR1()
	if err != nil {
		t.Fatal(err)
	}
	for _, s := range sets {
		if s.Name != "source_info.protoset" {
			continue
		}
		for _, f := range s.Files {
			if f.GetName() != name {
				continue
			}
			for _, l := range f.GetSourceCodeInfo().GetLocation() {
				fmt.Println(locString(l))
			}
		}
	}
}
