package stablecomp

import (
	"fmt"
	"io"
	"sort"
	"strings"
	"testing"

	"github.com/bufbuild/protocompile"
	"github.com/bufbuild/protocompile/internal/verifmon/gen"
	"github.com/bufbuild/protocompile/internal/verifmon/vlib"
)

// C01 — accept/reject agrees with protoc (on the decided domain, DESIGN.md §3).

func splitAlts(s, sep string) []string {
	var out []string
	for _, p := range strings.Split(s, sep) {
		out = append(out, strings.TrimSpace(p))
	}
	return out
}

// r3MessagesOK applies the table's own matching rule: "&&" separates the
// expected errors, "||" separates alternatives for one error; if one
// alternative list was expected but all alternatives arrived, that is fine
// (the repository's test says so, because files compile concurrently).
func r3MessagesOK(expected string, got []string) bool {
	exp := splitAlts(expected, "&&")
	g := append([]string(nil), got...)
	if len(exp) == 1 && len(g) > 1 && len(g) == strings.Count(exp[0], "||")+1 {
		exp = splitAlts(exp[0], "||")
		sort.Strings(exp)
		sort.Strings(g)
	}
	if len(exp) != len(g) {
		return false
	}
	for i := range exp {
		ok := false
		for _, alt := range splitAlts(exp[i], "||") {
			if g[i] == alt {
				ok = true
			}
		}
		if !ok {
			return false
		}
	}
	return true
}

func modelConfig(rng *vlib.RNG, i int) gen.Config {
	cfg := gen.Config{MaxFiles: 1 + i%5, CustomOptions: i%3 != 0, Collide: i%4 == 1, Small: i%2 == 0}
	switch i % 7 {
	case 0:
		cfg.Syntaxes = []string{"proto2"}
	case 1:
		cfg.Syntaxes = []string{"proto3"}
	case 2:
		cfg.Syntaxes = []string{"editions"}
	}
	return cfg
}

func TestC01(t *testing.T) {
	r := vlib.Start(t, "C01")
	defer r.Finish()
	r.Extra("rule", "R3: every protoc-verified verdict of TestLinkerValidation (263) and TestBasicValidation (189) replayed through Compiler.Compile (verdict; for rejections also the recorded message set); "+
		"G: generated multi-file models (proto2/proto3/editions 2023, imports incl. public, nesting, every field kind, maps, groups, oneofs, enums, reserved, extensions, services, standard+custom options, features) "+
		"rendered in R spellings each: must be accepted; M: every applicable rule-tagged mutation operator on each model: must be rejected with the operator's rule among the reported errors. "+
		"non-trivial = a case whose sources contain >=1 message; distinct = distinct source set")
	r.Extra("assumptions", []string{
		"R3 verdicts are protoc's (upstream CI cross-checks them against protoc; documented divergences flagged in the table are honoured)",
		"a generated model is a must-accept case because it is built from the language rules and the Go protobuf runtime (protodesc.NewFile) accepts the expected descriptors; no protoc is available in the sandbox",
		"a mutant is a must-reject case because its operator breaks a rule that an R3 case records protoc rejecting (anchor recorded per operator)",
	})

	// ---------- (a) R3 replay ----------
	for _, table := range []string{"linker_validation", "basic_validation"} {
		cases, err := gen.LoadR3(table)
		if err != nil {
			t.Fatal(err)
		}
		r.Par(len(cases), func(i int) {
			c := cases[i]
			id := "r3/" + table + "/" + c.Name
			if !r.Want(id) {
				return
			}
			names := gen.SortedNames(c.Input)
			if len(c.InputOrder) > 0 {
				names = c.InputOrder
			}
			par := 1 + (i%2)*7
			// same accessor as the repository's test (its error text is part of the recorded messages)
			input := c.Input
			res := protocompile.WithStandardImports(&protocompile.SourceResolver{Accessor: func(fn string) (io.ReadCloser, error) {
				s, ok := input[fn]
				if !ok {
					return nil, fmt.Errorf("file not found: %s", fn)
				}
				return io.NopCloser(strings.NewReader(s)), nil
			}})
			out := gen.CompileWith(res, names, gen.Opts{Par: par})
			key := ""
			for _, s := range c.Input {
				if strings.Contains(s, "message") {
					key = id
				}
			}
			r.Eval(key)
			wantAccept := c.ExpectedErr == ""
			w := map[string]any{"case": c.Name, "table": table, "input": c.Input, "expected_err": c.ExpectedErr, "documented_divergence": c.DiffWithProtoc, "got": out.ErrSummary()}
			switch {
			case out.Panic != nil && !strings.Contains(fmt.Sprint(out.Panic), "PanicError"):
				r.Violation("compile.panic", "panic on an R3 case", id, w)
			case c.DiffWithProtoc:
				// a documented divergence: the table records the project's verdict, protoc's is the opposite.
				// The property allows the documented verdict and of course protoc's own, so nothing is decided.
				if out.OK() == wantAccept {
					r.Class("r3:documented-divergence kept")
				} else {
					r.Class("r3:documented-divergence not present (verdict equals protoc's)")
				}
			case out.OK() && !wantAccept:
				r.Violation("c01.accepts-protoc-rejected", "R3 "+table+": "+classifyErr(c.ExpectedErr), id, w)
			case !out.OK() && wantAccept:
				r.Violation("c01.rejects-protoc-accepted", "R3 "+table+": "+classifyErr(out.ErrSummary()), id, w)
			case !wantAccept:
				// the recorded reason must still be what is reported
				okMsg := false
				got := out.Errors
				if len(got) == 0 && out.Err != nil {
					// like the repository's test: an error that was returned but not reported
					got = []string{out.Err.Error()}
				}
				if table == "linker_validation" {
					okMsg = r3MessagesOK(c.ExpectedErr, got)
				} else {
					for _, e := range got {
						if e == c.ExpectedErr {
							okMsg = true
						}
					}
				}
				if !okMsg {
					r.Violation("c01.rejects-for-other-reason", "R3 "+table+": expected "+classifyErr(c.ExpectedErr), id, w)
				}
				r.Class("r3:reject-confirmed")
			default:
				r.Class("r3:accept-confirmed")
			}
			if i == 0 {
				r.Sample("r3-case", map[string]any{"name": c.Name, "input": c.Input, "expected_err": c.ExpectedErr})
			}
		})
	}

	// ---------- (a') extension declarations (rules anchored in R3) ----------
	c01ExtensionDeclarations(r)

	// ---------- (b) generated models, (c) mutants ----------
	nModels := r.N(300, 5000)
	R := r.N(3, 6)
	opHits := map[string]int{}
	var opMu = make(chan struct{}, 1)
	opMu <- struct{}{}
	r.Par(nModels, func(i int) {
		id := fmt.Sprintf("g/%d", i)
		if !r.Want(id) {
			return
		}
		rng := r.Rng(id)
		m, err := gen.GenModel(rng, modelConfig(rng, i))
		if err != nil {
			r.Class("g:model-not-decided (refused by protodesc)")
			return
		}
		for v := 0; v < R; v++ {
			vid := fmt.Sprintf("%s/r%d", id, v)
			if !r.Want(vid) {
				continue
			}
			var stf func(int) *gen.Style
			if v > 0 {
				srng := r.Rng(vid)
				stf = func(k int) *gen.Style { return &gen.Style{Rng: srng.Fork(fmt.Sprint(k))} }
			}
			src, err := m.Sources(stf)
			if err != nil {
				r.Inconclusive("render: " + err.Error())
				continue
			}
			names := m.Names()
			if v%2 == 1 {
				vlib.Shuffle(rng, names)
			}
			out := gen.Compile(src, names, gen.Opts{Par: 1 + (v%2)*7})
			r.Eval(srcKey(src))
			if !out.OK() {
				kind := "c01.rejects-generated-valid"
				if out.Panic != nil {
					kind = "compile.panic"
				}
				r.Violation(kind, "G: "+classifyErr(out.ErrSummary()), vid, map[string]any{"sources": src, "errors": out.ErrSummary(), "tags": m.Tags})
			} else {
				r.Class("g:accepted")
			}
			if i == 1 && v == 1 {
				r.Sample("generated-model", src)
			}
		}
		// mutants
		for oi := range gen.Operators {
			op := &gen.Operators[oi]
			if r.Quick() && (i+oi)%4 != 0 {
				continue
			}
			mid := fmt.Sprintf("%s/m/%s", id, op.Name)
			if !r.Want(mid) {
				continue
			}
			mu, ok, err := gen.Mutate(r.Rng(mid), m, op)
			if err != nil {
				r.Inconclusive("mutate: " + err.Error())
				continue
			}
			if !ok {
				continue
			}
			out := gen.Compile(mu.Sources, mu.Names, gen.Opts{Par: 1 + (oi%2)*3})
			r.Eval(srcKey(mu.Sources))
			w := map[string]any{"operator": op.Name, "anchor": op.Anchor, "sources": mu.Sources, "errors": out.ErrSummary()}
			switch {
			case out.Panic != nil:
				r.Violation("compile.panic", "M "+op.Name, mid, w)
			case out.OK():
				r.Violation("c01.accepts-mutant", "M "+op.Name+": rule not enforced", mid, w)
			default:
				hit := false
				for _, e := range out.Errors {
					if mu.Expect.MatchString(e) {
						hit = true
					}
				}
				if !hit && mu.Expect.MatchString(out.Err.Error()) {
					hit = true
				}
				if !hit {
					r.Violation("c01.mutant-rejected-for-other-reason", "M "+op.Name+": expected rule did not fire", mid, w)
				}
				<-opMu
				opHits[op.Name]++
				opMu <- struct{}{}
				r.Class("m:rejected-by-expected-rule")
			}
		}
	})
	<-opMu
	r.Extra("mutants_per_operator", opHits)
	r.Extra("operators", len(gen.Operators))
}

func srcKey(src map[string]string) string {
	var sb strings.Builder
	for _, n := range gen.SortedNames(src) {
		sb.WriteString(n)
		sb.WriteByte(0)
		sb.WriteString(src[n])
		sb.WriteByte(0)
	}
	if !strings.Contains(sb.String(), "message") {
		return ""
	}
	return sb.String()
}
