package stablecomp

import (
	"bytes"
	"fmt"
	"strings"
	"sync"
	"testing"

	"google.golang.org/protobuf/proto"
	"google.golang.org/protobuf/types/descriptorpb"

	"github.com/bufbuild/protocompile"
	"github.com/bufbuild/protocompile/ast"
	"github.com/bufbuild/protocompile/internal/verifmon/gen"
	"github.com/bufbuild/protocompile/internal/verifmon/vlib"
	"github.com/bufbuild/protocompile/parser"
	"github.com/bufbuild/protocompile/reporter"
)

// C09 — all input forms give the same result and inputs are not mutated.

type supplied struct {
	src   map[string]string
	asts  map[string]*ast.FileNode
	prs   map[string]parser.Result
	proto map[string]*descriptorpb.FileDescriptorProto
	noast map[string]parser.Result // parser.ResultWithoutAST over an unlinked proto
}

func supply(src map[string]string) (*supplied, error) {
	s := &supplied{src: src, asts: map[string]*ast.FileNode{}, prs: map[string]parser.Result{}, proto: map[string]*descriptorpb.FileDescriptorProto{}, noast: map[string]parser.Result{}}
	for n, text := range src {
		h := reporter.NewHandler(nil)
		a, err := parser.Parse(n, strings.NewReader(text), h)
		if err != nil {
			return nil, err
		}
		s.asts[n] = a
		// a second, independent AST for the parse result (a FileNode handed over as AST may be used by the compiler)
		a2, err := parser.Parse(n, strings.NewReader(text), reporter.NewHandler(nil))
		if err != nil {
			return nil, err
		}
		pr, err := parser.ResultFromAST(a2, true, reporter.NewHandler(nil))
		if err != nil {
			return nil, err
		}
		s.prs[n] = pr
		a3, err := parser.Parse(n, strings.NewReader(text), reporter.NewHandler(nil))
		if err != nil {
			return nil, err
		}
		pr3, err := parser.ResultFromAST(a3, true, reporter.NewHandler(nil))
		if err != nil {
			return nil, err
		}
		s.proto[n] = proto.Clone(pr3.FileDescriptorProto()).(*descriptorpb.FileDescriptorProto)
		s.noast[n] = parser.ResultWithoutAST(proto.Clone(pr3.FileDescriptorProto()).(*descriptorpb.FileDescriptorProto))
	}
	return s, nil
}

const (
	formSource = iota
	formAST
	formParseResult
	formProto
	formParseResultNoAST
	nForms
)

var formNames = []string{"source", "ast", "parse-result", "proto", "parse-result-without-ast"}

func (s *supplied) resolver(assign map[string]int) protocompile.Resolver {
	return protocompile.WithStandardImports(protocompile.ResolverFunc(func(name string) (protocompile.SearchResult, error) {
		text, ok := s.src[name]
		if !ok {
			return protocompile.SearchResult{}, fmt.Errorf("file not found: %s", name)
		}
		switch assign[name] {
		case formAST:
			return protocompile.SearchResult{AST: s.asts[name]}, nil
		case formParseResult:
			return protocompile.SearchResult{ParseResult: s.prs[name]}, nil
		case formProto:
			return protocompile.SearchResult{Proto: s.proto[name]}, nil
		case formParseResultNoAST:
			return protocompile.SearchResult{ParseResult: s.noast[name]}, nil
		}
		return protocompile.SearchResult{Source: strings.NewReader(text)}, nil
	}))
}

func (s *supplied) snapshot() map[string][]byte {
	out := map[string][]byte{}
	for n, p := range s.proto {
		out["proto:"+n] = detBytes(p)
	}
	for n, pr := range s.prs {
		out["pr:"+n] = detBytes(pr.FileDescriptorProto())
	}
	for n, pr := range s.noast {
		out["pr-without-ast:"+n] = detBytes(pr.FileDescriptorProto())
	}
	return out
}

func TestC09(t *testing.T) {
	r := vlib.Start(t, "C09")
	defer r.Finish()
	r.Extra("rule", "accepted generated models of 1-4 files; per model A assignments of input form {source, AST, parse result, unlinked proto, parse result without AST} per file (all 5^n when that is at most A, A sampled otherwise; A=8 quick, 40 thorough) "+
		"x source-info modes {none, standard, extra-comments, extra-option-locations}; each assignment also run twice concurrently sharing the supplied objects under the race detector; "+
		"supplied protos / parse results snapshotted (deterministic bytes) before and after. non-trivial = assignment using >=2 distinct forms or a non-source form; distinct = (model, assignment, mode)")
	r.Extra("assumptions", []string{"the all-source compilation is the reference result", "deterministic marshalling detects any modification of a supplied proto"})
	n := r.N(60, 1500)
	A := r.N(8, 40)
	modes := []protocompile.SourceInfoMode{protocompile.SourceInfoNone, protocompile.SourceInfoStandard, protocompile.SourceInfoStandard | protocompile.SourceInfoExtraComments, protocompile.SourceInfoStandard | protocompile.SourceInfoExtraOptionLocations}
	r.Par(n, func(i int) {
		id := fmt.Sprintf("g/%d", i)
		if !r.Want(id) {
			return
		}
		rng := r.Rng(id)
		cfg := modelConfig(rng, i)
		if cfg.MaxFiles > 4 {
			cfg.MaxFiles = 4
		}
		m, err := gen.GenModel(rng, cfg)
		if err != nil {
			r.Class("g:model-not-decided")
			return
		}
		src, err := m.Sources(func(k int) *gen.Style { return &gen.Style{Rng: rng.Fork(fmt.Sprint("st", k))} })
		if err != nil {
			r.Inconclusive("render: " + err.Error())
			return
		}
		names := m.Names()
		ref := map[protocompile.SourceInfoMode]*gen.Outcome{}
		for _, mode := range modes {
			ref[mode] = gen.Compile(src, names, gen.Opts{SourceInfo: mode})
			if !ref[mode].OK() {
				r.Class("skipped:rejected (decided by C01)")
				return
			}
		}
		sup, err := supply(src)
		if err != nil {
			r.Inconclusive("supply: " + err.Error())
			return
		}
		before := sup.snapshot()
		total := 1
		for range names {
			total *= nForms
		}
		for a := 0; a < A && a < total; a++ {
			code := a
			if total > A {
				code = rng.Intn(total)
			}
			assign := map[string]int{}
			forms := map[int]bool{}
			var desc []string
			c := code
			for _, nme := range names {
				assign[nme] = c % nForms
				forms[c%nForms] = true
				desc = append(desc, nme+"="+formNames[c%nForms])
				c /= nForms
			}
			mode := modes[(a+i)%len(modes)]
			aid := fmt.Sprintf("%s/a%d/m%d", id, code, mode)
			if !r.Want(aid) {
				continue
			}
			key := aid
			if len(forms) == 1 && forms[formSource] {
				key = ""
			}
			// two concurrent compilations sharing the supplied objects
			var outs [2]*gen.Outcome
			var wg sync.WaitGroup
			for k := 0; k < 2; k++ {
				wg.Add(1)
				go func(k int) {
					defer wg.Done()
					outs[k] = gen.CompileWith(sup.resolver(assign), names, gen.Opts{SourceInfo: mode, Par: 1 + k*3})
				}(k)
			}
			wg.Wait()
			r.Eval(key)
			w := map[string]any{"sources": src, "assignment": desc, "source_info_mode": int(mode)}
			for k := 0; k < 2; k++ {
				out := outs[k]
				if !out.OK() {
					w["errors"] = out.ErrSummary()
					kind := "c09.form-rejected"
					if out.Panic != nil {
						kind = "compile.panic"
					}
					r.Violation(kind, strings.Join(formsUsed(forms), "+")+": "+classifyErr(out.ErrSummary()), aid, w)
					continue
				}
				got := allProtos(out.Files)
				want := allProtos(ref[mode].Files)
				for _, nme := range names {
					g, wn := got[nme], want[nme]
					if g == nil || wn == nil {
						r.Violation("c09.file-missing", "file missing from results", aid, w)
						continue
					}
					gc, wc := proto.Clone(g).(*descriptorpb.FileDescriptorProto), proto.Clone(wn).(*descriptorpb.FileDescriptorProto)
					gsi, wsi := gc.SourceCodeInfo, wc.SourceCodeInfo
					gc.SourceCodeInfo, wc.SourceCodeInfo = nil, nil
					if !bytes.Equal(detBytes(gc), detBytes(wc)) {
						d := gen.Diff(gc, wc)
						w["diff form!=all-source"] = d
						w["file"] = nme
						r.Violation("c09.form-differs", formNames[assign[nme]]+": "+gen.DiffClass(d), aid, w)
						continue
					}
					// forms that carry an AST must also agree on source info
					if mode != protocompile.SourceInfoNone && assign[nme] != formProto && assign[nme] != formParseResultNoAST {
						if !bytes.Equal(detBytes(gsi), detBytes(wsi)) {
							w["file"] = nme
							r.Violation("c09.source-info-differs", formNames[assign[nme]]+": source info differs from the all-source run", aid, w)
						}
					}
				}
			}
			after := sup.snapshot()
			for k, b := range before {
				if !bytes.Equal(after[k], b) {
					w["object"] = k
					r.Violation("c09.input-mutated", strings.SplitN(k, ":", 2)[0]+" supplied by the resolver was modified", aid, w)
				}
			}
			r.Class("assignment-checked")
			if i == 0 && a == 1 {
				r.Sample("assignment", desc)
			}
		}
	})
}

func formsUsed(forms map[int]bool) []string {
	var out []string
	for k := 0; k < nForms; k++ {
		if forms[k] {
			out = append(out, formNames[k])
		}
	}
	return out
}
