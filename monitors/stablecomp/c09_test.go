package stablecomp

import (
	"bytes"
	"fmt"
	"strings"
	"sync"
	"testing"

	"google.golang.org/protobuf/proto"
	"google.golang.org/protobuf/types/descriptorpb"

	"github.com/bufbuild/protocompile"
	"github.com/bufbuild/protocompile/ast"
	"github.com/bufbuild/protocompile/internal/verifmon/gen"
	"github.com/bufbuild/protocompile/internal/verifmon/vlib"
	"github.com/bufbuild/protocompile/parser"
	"github.com/bufbuild/protocompile/reporter"
)

// C09 — all input forms give the same result and inputs are not mutated.

type supplied struct {
	src   map[string]string
	asts  map[string]*ast.FileNode
	prs   map[string]parser.Result
	proto map[string]*descriptorpb.FileDescriptorProto
	noast map[string]parser.Result // parser.ResultWithoutAST over an unlinked proto
}

func supply(src map[string]string) (*supplied, error) {
	s := &supplied{src: src, asts: map[string]*ast.FileNode{}, prs: map[string]parser.Result{}, proto: map[string]*descriptorpb.FileDescriptorProto{}, noast: map[string]parser.Result{}}
	for n, text := range src {
		h := reporter.NewHandler(nil)
		a, err := parser.Parse(n, strings.NewReader(text), h)
		if err != nil {
			return nil, err
		}
		s.asts[n] = a
		// a second, independent AST for the parse result (a FileNode handed over as AST may be used by the compiler)
		a2, err := parser.Parse(n, strings.NewReader(text), reporter.NewHandler(nil))
		if err != nil {
			return nil, err
		}
		pr, err := parser.ResultFromAST(a2, true, reporter.NewHandler(nil))
		if err != nil {
			return nil, err
		}
		s.prs[n] = pr
		a3, err := parser.Parse(n, strings.NewReader(text), reporter.NewHandler(nil))
		if err != nil {
			return nil, err
		}
		pr3, err := parser.ResultFromAST(a3, true, reporter.NewHandler(nil))
		if err != nil {
			return nil, err
		}
		s.proto[n] = proto.Clone(pr3.FileDescriptorProto()).(*descriptorpb.FileDescriptorProto)
		s.noast[n] = parser.ResultWithoutAST(proto.Clone(pr3.FileDescriptorProto()).(*descriptorpb.FileDescriptorProto))
	}
	return s, nil
}

const (
	formSource = iota
	formAST
	formParseResult
	formProto
	formParseResultNoAST
	formLinkedProto
	nForms
)

var formNames = []string{"source", "ast", "parse-result", "proto", "parse-result-without-ast", "compiled-proto (linked, with its source info)"}

func (s *supplied) resolver(assign map[string]int, linked map[string]*descriptorpb.FileDescriptorProto) protocompile.Resolver {
	return protocompile.WithStandardImports(protocompile.ResolverFunc(func(name string) (protocompile.SearchResult, error) {
		text, ok := s.src[name]
		if !ok {
			return protocompile.SearchResult{}, fmt.Errorf("file not found: %s", name)
		}
		switch assign[name] {
		case formAST:
			return protocompile.SearchResult{AST: s.asts[name]}, nil
		case formParseResult:
			return protocompile.SearchResult{ParseResult: s.prs[name]}, nil
		case formProto:
			return protocompile.SearchResult{Proto: s.proto[name]}, nil
		case formParseResultNoAST:
			return protocompile.SearchResult{ParseResult: s.noast[name]}, nil
		case formLinkedProto:
			return protocompile.SearchResult{Proto: linked[name]}, nil
		}
		return protocompile.SearchResult{Source: strings.NewReader(text)}, nil
	}))
}

func (s *supplied) snapshot() map[string][]byte {
	out := map[string][]byte{}
	for n, p := range s.proto {
		out["proto:"+n] = detBytes(p)
	}
	for n, pr := range s.prs {
		out["pr:"+n] = detBytes(pr.FileDescriptorProto())
	}
	for n, pr := range s.noast {
		out["pr-without-ast:"+n] = detBytes(pr.FileDescriptorProto())
	}
	return out
}

func TestC09(t *testing.T) {
	r := vlib.Start(t, "C09")
	defer r.Finish()
	r.Extra("rule", "accepted generated models of 1-4 files; per model A assignments of input form {source, AST, parse result, unlinked proto, parse result without AST, the compiled proto of the all-source run incl. its source info} per file (all 5^n when that is at most A, A sampled otherwise; A=8 quick, 40 thorough) "+
		"x source-info modes {none, standard, extra-comments, extra-option-locations}; each assignment also run twice concurrently sharing the supplied objects under the race detector; "+
		"supplied protos / parse results snapshotted (deterministic bytes) before and after. non-trivial = assignment using >=2 distinct forms or a non-source form; distinct = (model, assignment, mode)")
	r.Extra("assumptions", []string{"the all-source compilation is the reference result", "deterministic marshalling detects any modification of a supplied proto"})
	n := r.N(60, 1500)
	A := r.N(8, 40)
	modes := []protocompile.SourceInfoMode{protocompile.SourceInfoNone, protocompile.SourceInfoStandard, protocompile.SourceInfoStandard | protocompile.SourceInfoExtraComments, protocompile.SourceInfoStandard | protocompile.SourceInfoExtraOptionLocations}
	r.Par(n, func(i int) {
		id := fmt.Sprintf("g/%d", i)
		if !r.Want(id) {
			return
		}
		rng := r.Rng(id)
		cfg := modelConfig(rng, i)
		if cfg.MaxFiles > 4 {
			cfg.MaxFiles = 4
		}
		m, err := gen.GenModel(rng, cfg)
		if err != nil {
			r.Class("g:model-not-decided")
			return
		}
		src, err := m.Sources(func(k int) *gen.Style { return &gen.Style{Rng: rng.Fork(fmt.Sprint("st", k))} })
		if err != nil {
			r.Inconclusive("render: " + err.Error())
			return
		}
		checkForms(r, id, i, rng, src, m.Names(), modes, A)
	})
	lf := c09LiteralFiles()
	r.Par(len(lf), func(i int) {
		id := fmt.Sprintf("lit/%d", i)
		if !r.Want(id) {
			return
		}
		checkForms(r, id, i, r.Rng(id), lf[i], []string{"lit.proto"}, modes, nForms)
		r.Class("awkward-literal file")
	})
}

// checkForms compiles one source set under A assignments of input forms and compares with the all-source run.
func checkForms(r *vlib.Run, id string, i int, rng *vlib.RNG, src map[string]string, names []string, modes []protocompile.SourceInfoMode, A int) {
	ref := map[protocompile.SourceInfoMode]*gen.Outcome{}
	for _, mode := range modes {
		ref[mode] = gen.Compile(src, names, gen.Opts{SourceInfo: mode})
		if !ref[mode].OK() {
			r.Class("skipped:rejected (decided by C01)")
			return
		}
	}
	sup, err := supply(src)
	if err != nil {
		r.Inconclusive("supply: " + err.Error())
		return
	}
	before := sup.snapshot()
	total := 1
	for range names {
		total *= nForms
	}
	for a := 0; a < A && a < total; a++ {
		code := a
		if total > A {
			code = rng.Intn(total)
		}
		assign := map[string]int{}
		forms := map[int]bool{}
		var desc []string
		c := code
		for _, nme := range names {
			assign[nme] = c % nForms
			forms[c%nForms] = true
			desc = append(desc, nme+"="+formNames[c%nForms])
			c /= nForms
		}
		mode := modes[(a+i)%len(modes)]
		aid := fmt.Sprintf("%s/a%d/m%d", id, code, mode)
		if !r.Want(aid) {
			continue
		}
		key := aid
		if len(forms) == 1 && forms[formSource] {
			key = ""
		}
		// the output of the all-source compilation in the same mode, handed back as input
		linked := map[string]*descriptorpb.FileDescriptorProto{}
		for nme, p := range allProtos(ref[mode].Files) {
			linked[nme] = proto.Clone(p).(*descriptorpb.FileDescriptorProto)
		}
		linkedBefore := map[string][]byte{}
		for nme, p := range linked {
			linkedBefore[nme] = detBytes(p)
		}
		// two concurrent compilations sharing the supplied objects
		var outs [2]*gen.Outcome
		var wg sync.WaitGroup
		for k := 0; k < 2; k++ {
			wg.Add(1)
			go func(k int) {
				defer wg.Done()
				outs[k] = gen.CompileWith(sup.resolver(assign, linked), names, gen.Opts{SourceInfo: mode, Par: 1 + k*3})
			}(k)
		}
		wg.Wait()
		r.Eval(key)
		w := map[string]any{"sources": src, "assignment": desc, "source_info_mode": int(mode)}
		for k := 0; k < 2; k++ {
			out := outs[k]
			if !out.OK() {
				w["errors"] = out.ErrSummary()
				kind := "c09.form-rejected"
				if out.Panic != nil {
					kind = "compile.panic"
				}
				r.Violation(kind, strings.Join(formsUsed(forms), "+")+": "+classifyErr(out.ErrSummary()), aid, w)
				continue
			}
			got := allProtos(out.Files)
			want := allProtos(ref[mode].Files)
			for _, nme := range names {
				g, wn := got[nme], want[nme]
				if g == nil || wn == nil {
					r.Violation("c09.file-missing", "file missing from results", aid, w)
					continue
				}
				gc, wc := proto.Clone(g).(*descriptorpb.FileDescriptorProto), proto.Clone(wn).(*descriptorpb.FileDescriptorProto)
				gsi, wsi := gc.SourceCodeInfo, wc.SourceCodeInfo
				gc.SourceCodeInfo, wc.SourceCodeInfo = nil, nil
				if !bytes.Equal(detBytes(gc), detBytes(wc)) {
					d := gen.Diff(gc, wc)
					w["diff form!=all-source"] = d
					w["file"] = nme
					r.Violation("c09.form-differs", formNames[assign[nme]]+": "+gen.DiffClass(d), aid, w)
					continue
				}
				// the descriptor view of the source locations is the proto's list
				if lr := gen.AllResults(out.Files)[nme]; lr != nil {
					if nv, np := lr.SourceLocations().Len(), len(g.GetSourceCodeInfo().GetLocation()); nv != np {
						w["file"] = nme
						r.Violation("c09.source-locations-view-differs", fmt.Sprintf("%s: SourceLocations() of the result does not show the locations of its own descriptor proto", formNames[assign[nme]]), aid, w)
					}
				}
				// forms that carry an AST (or the compiled source info itself) must also agree on source info
				if mode != protocompile.SourceInfoNone && assign[nme] != formProto && assign[nme] != formParseResultNoAST {
					if !bytes.Equal(detBytes(gsi), detBytes(wsi)) {
						w["file"] = nme
						r.Violation("c09.source-info-differs", formNames[assign[nme]]+": source info differs from the all-source run", aid, w)
					}
				}
			}
		}
		for nme, b := range linkedBefore {
			if !bytes.Equal(detBytes(linked[nme]), b) {
				w["object"] = "compiled-proto:" + nme
				r.Violation("c09.input-mutated", "compiled proto supplied by the resolver was modified", aid, w)
			}
		}
		after := sup.snapshot()
		for k, b := range before {
			if !bytes.Equal(after[k], b) {
				w["object"] = k
				r.Violation("c09.input-mutated", strings.SplitN(k, ":", 2)[0]+" supplied by the resolver was modified", aid, w)
			}
		}
		r.Class("assignment-checked")
		if i == 0 && a == 1 {
			r.Sample("assignment", desc)
		}
	}
}

// c09LiteralFiles are files whose option values and defaults are written as literals that are awkward to convert
// (integers next to float32 rounding midpoints, hex/octal, huge exponents, signs, inf/nan spellings): every input form must
// arrive at the same value as the source form.
func c09LiteralFiles() []map[string]string {
	lits := []string{"1152921573326323713", "1152921573326323712", "16777217", "16777219", "9007199254740993", "18446744073709551615", "0x1000001", "0777", "1e39", "3.4028235e38", "3.4028236e38", "1e-46", "-0", "-16777217", "inf", "-inf", "nan", "1.0000001", "4.0000005"}
	var out []map[string]string
	for _, syn := range []string{"proto2", "editions"} {
		head, opt := "syntax = \"proto2\";\n", "optional "
		if syn == "editions" {
			head, opt = "edition = \"2023\";\n", ""
		}
		for k := 0; k < len(lits); k += 3 {
			var sb strings.Builder
			sb.WriteString(head + "package lit;\nimport \"google/protobuf/descriptor.proto\";\n")
			sb.WriteString("message O { " + opt + "float f = 1; " + opt + "double d = 2; repeated float rf = 3; }\n")
			sb.WriteString("extend google.protobuf.FieldOptions { " + opt + "float of = 50001; " + opt + "double od = 50002; " + opt + "O om = 50003; }\n")
			sb.WriteString("message M {\n")
			for j, l := range lits[k:min(k+3, len(lits))] {
				def := ""
				if l != "nan" && !strings.Contains(l, "inf") || true {
					def = "default = " + l + ", "
				}
				fmt.Fprintf(&sb, "  %sfloat a%d = %d [%s(of) = %s, (od) = %s, (om) = { f: %s d: %s rf: [%s, 1] }];\n", opt, j, 2*j+1, def, l, l, l, l, l)
				fmt.Fprintf(&sb, "  %sdouble b%d = %d [%s(of) = %s];\n", opt, j, 2*j+2, def, l)
			}
			sb.WriteString("}\n")
			out = append(out, map[string]string{"lit.proto": sb.String()})
		}
	}
	return out
}

func formsUsed(forms map[int]bool) []string {
	var out []string
	for k := 0; k < nForms; k++ {
		if forms[k] {
			out = append(out, formNames[k])
		}
	}
	return out
}
