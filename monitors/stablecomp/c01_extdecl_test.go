package stablecomp

import (
	"fmt"
	"strings"

	"github.com/bufbuild/protocompile/internal/verifmon/gen"
	"github.com/bufbuild/protocompile/internal/verifmon/vlib"
)

// Extension declarations family for C01. The rules are the ones of R3's protoc-verified cases
// success_extension_declarations, success_extension_declaration_without_verification,
// failure_extension_matches_no_declaration{,2,3}, failure_extension_number_is_reserved,
// failure_extension_name_does_not_match_declaration, failure_extension_type_does_not_match_declaration{,2},
// failure_extension_label_does_not_match_declaration{,2,3}: an extension whose number lies in an extension
// range that carries declarations (or verification=DECLARATION) must match a declaration of that number;
// extensions in ranges without either are not verified. A generated case has several (often adjacent)
// ranges of both sorts, extensions preferably on the first and last numbers of ranges, and at most one
// extension that breaks one rule.

type edDecl struct {
	reserved bool
	named    bool // reserved with full_name and type
	typ      string
	repeated bool
}

type edRange struct {
	lo, hi   int
	declared bool
	explicit bool // verification = DECLARATION written out
	decls    map[int]*edDecl
}

var edTypes = []string{"int32", "string", "bool", "uint64", "bytes", ".foo.Msg", ".foo.Enum"}

func edFieldType(t string) string { return strings.TrimPrefix(t, ".foo.") }

func genExtDeclCase(rng *vlib.RNG) (src map[string]string, names []string, wantErr string, tags []string) {
	nr := rng.Range(2, 4)
	next := rng.Range(1, 40)
	var ranges []*edRange
	for i := 0; i < nr; i++ {
		if i > 0 && !rng.Chance(0.65) {
			next += rng.Range(1, 5)
		}
		r := &edRange{lo: next, hi: next + rng.Range(0, 5), decls: map[int]*edDecl{}}
		next = r.hi + 1
		r.declared = rng.Bool()
		if r.declared {
			for n := r.lo; n <= r.hi; n++ {
				if !rng.Chance(0.6) {
					continue
				}
				d := &edDecl{}
				if rng.Chance(0.15) {
					d.reserved = true
					d.named = rng.Bool()
				}
				d.typ = edTypes[rng.Intn(len(edTypes))]
				d.repeated = rng.Chance(0.3)
				r.decls[n] = d
			}
			r.explicit = len(r.decls) == 0 || rng.Bool()
		}
		ranges = append(ranges, r)
	}
	// candidate numbers: boundaries first
	var cand []int
	for _, r := range ranges {
		cand = append(cand, r.lo, r.hi)
		if r.hi-r.lo >= 2 {
			cand = append(cand, r.lo+1+rng.Intn(r.hi-r.lo-1))
		}
	}
	vlib.Shuffle(rng, cand)
	seen := map[int]bool{}
	var nums []int
	for _, n := range cand {
		if !seen[n] && len(nums) < 4 {
			seen[n] = true
			nums = append(nums, n)
		}
	}
	rangeOf := func(n int) *edRange {
		for _, r := range ranges {
			if n >= r.lo && n <= r.hi {
				return r
			}
		}
		return nil
	}
	wantBad := rng.Chance(0.6)
	var ext []string
	for _, n := range nums {
		r := rangeOf(n)
		name := fmt.Sprintf("e%d", n)
		typ := edTypes[rng.Intn(len(edTypes))]
		rep := rng.Chance(0.3)
		if r.declared {
			d := r.decls[n]
			switch {
			case d == nil:
				if !wantBad || wantErr != "" {
					continue // leave this number unused
				}
				wantErr = fmt.Sprintf("expected extension with number %d to be declared in type foo.A, but no declaration found", n)
				tags = append(tags, "undeclared-in-declared-range")
			case d.reserved:
				if !wantBad || wantErr != "" {
					continue
				}
				wantErr = fmt.Sprintf("cannot use field number %d for an extension because it is reserved in declaration", n)
				tags = append(tags, "reserved-declaration")
			default:
				typ, rep = d.typ, d.repeated
				if wantBad && wantErr == "" && rng.Chance(0.5) {
					switch rng.Intn(3) {
					case 0:
						name = name + "x"
						wantErr = fmt.Sprintf("expected extension with number %d to be named ", n)
						tags = append(tags, "name-mismatch")
					case 1:
						for typ == d.typ {
							typ = edTypes[rng.Intn(len(edTypes))]
						}
						wantErr = fmt.Sprintf("expected extension with number %d to have type ", n)
						tags = append(tags, "type-mismatch")
					default:
						rep = !rep
						if rep {
							wantErr = fmt.Sprintf("expected extension with number %d to be optional, not repeated", n)
						} else {
							wantErr = fmt.Sprintf("expected extension with number %d to be repeated, not optional", n)
						}
						tags = append(tags, "label-mismatch")
					}
				}
			}
		}
		if n == r.lo {
			tags = append(tags, "on-first-number-of-range")
		}
		label := "optional"
		if rep {
			label = "repeated"
		}
		ext = append(ext, fmt.Sprintf("  %s %s %s = %d;", label, edFieldType(typ), name, n))
	}
	var sb strings.Builder
	sb.WriteString("message A {\n")
	order := rng.Perm(len(ranges))
	for _, k := range order {
		r := ranges[k]
		rs := fmt.Sprint(r.lo)
		if r.hi > r.lo {
			rs = fmt.Sprintf("%d to %d", r.lo, r.hi)
		}
		if !r.declared {
			fmt.Fprintf(&sb, "  extensions %s;\n", rs)
			continue
		}
		var opts []string
		if r.explicit {
			opts = append(opts, "verification = DECLARATION")
		}
		for n := r.lo; n <= r.hi; n++ {
			d := r.decls[n]
			if d == nil {
				continue
			}
			switch {
			case d.reserved && !d.named:
				opts = append(opts, fmt.Sprintf("declaration = { number: %d reserved: true }", n))
			case d.reserved:
				opts = append(opts, fmt.Sprintf("declaration = { number: %d full_name: \".foo.e%d\" type: %q reserved: true }", n, n, d.typ))
			case d.repeated:
				opts = append(opts, fmt.Sprintf("declaration = { number: %d full_name: \".foo.e%d\" type: %q repeated: true }", n, n, d.typ))
			default:
				opts = append(opts, fmt.Sprintf("declaration = { number: %d full_name: \".foo.e%d\" type: %q }", n, n, d.typ))
			}
		}
		fmt.Fprintf(&sb, "  extensions %s [\n    %s\n  ];\n", rs, strings.Join(opts, ",\n    "))
	}
	sb.WriteString("}\n")
	msgA := sb.String()
	rest := "message Msg {}\nenum Enum { ZERO = 0; }\n"
	extend := ""
	if len(ext) > 0 {
		extend = "extend A {\n" + strings.Join(ext, "\n") + "\n}\n"
	}
	if rng.Chance(0.4) {
		// extendee in another file
		tags = append(tags, "extendee-in-other-file")
		src = map[string]string{
			"extendee.proto": "syntax = \"proto2\";\npackage foo;\n" + msgA,
			"test.proto":     "syntax = \"proto2\";\npackage foo;\nimport \"extendee.proto\";\n" + extend + rest,
		}
		return src, []string{"test.proto"}, wantErr, tags
	}
	src = map[string]string{"test.proto": "syntax = \"proto2\";\npackage foo;\n" + msgA + extend + rest}
	return src, []string{"test.proto"}, wantErr, tags
}

func c01ExtensionDeclarations(r *vlib.Run) {
	n := r.N(400, 6000)
	r.Par(n, func(i int) {
		id := fmt.Sprintf("extdecl/%d", i)
		if !r.Want(id) {
			return
		}
		src, names, wantErr, tags := genExtDeclCase(r.Rng(id))
		out := gen.Compile(src, names, gen.Opts{Par: 1})
		r.Eval(srcKey(src))
		w := map[string]any{"sources": src, "expected_error": wantErr, "errors": out.ErrSummary(), "tags": tags}
		for _, t := range tags {
			r.Class("extdecl:" + t)
		}
		switch {
		case out.Panic != nil:
			r.Violation("compile.panic", "extension declarations", id, w)
		case wantErr == "" && !out.OK():
			r.Violation("c01.rejects-protoc-accepted", "extension declarations: "+classifyErr(out.ErrSummary()), id, w)
		case wantErr != "" && out.OK():
			r.Violation("c01.accepts-protoc-rejected", "extension declarations: "+strings.Join(tags, ","), id, w)
		case wantErr != "":
			if !strings.Contains(out.ErrSummary(), wantErr) {
				r.Violation("c01.rejects-for-other-reason", "extension declarations: expected "+classifyErr(wantErr), id, w)
			}
			r.Class("extdecl:rejected-by-expected-rule")
		default:
			r.Class("extdecl:accepted")
		}
		if i == 3 {
			r.Sample("extension-declarations-case", w)
		}
	})
}
