package stablecomp

import (
	"bytes"
	"fmt"
	"math"
	"strings"
	"testing"

	"google.golang.org/protobuf/reflect/protoreflect"
	"google.golang.org/protobuf/types/descriptorpb"

	"github.com/bufbuild/protocompile/internal/verifmon/gen"
	"github.com/bufbuild/protocompile/internal/verifmon/vlib"
)

// C04 — descriptor views agree with the Go protobuf runtime.
//
// Oracle: protodesc.NewFile on the compiled descriptor proto; a parallel walk
// compares every attribute the property lists.

type viewDiff struct {
	attr, path, got, want string
}

type viewCmp struct {
	diffs []viewDiff
	n     int
}

func (c *viewCmp) eq(attr, path string, got, want any) {
	c.n++
	g, w := fmt.Sprint(got), fmt.Sprint(want)
	if g != w && len(c.diffs) < 5 {
		c.diffs = append(c.diffs, viewDiff{attr, path, g, w})
	}
}

func valStr(fd protoreflect.FieldDescriptor, v protoreflect.Value) string {
	if !v.IsValid() {
		return "<invalid>"
	}
	switch fd.Kind() {
	case protoreflect.BytesKind:
		return fmt.Sprintf("%q", v.Bytes())
	case protoreflect.FloatKind, protoreflect.DoubleKind:
		f := v.Float()
		if math.IsNaN(f) {
			return "NaN"
		}
		return fmt.Sprintf("%v/%v", f, math.Signbit(f))
	}
	return fmt.Sprint(v.Interface())
}

func (c *viewCmp) field(p string, a, b protoreflect.FieldDescriptor) {
	c.eq("field.Name", p, a.Name(), b.Name())
	c.eq("field.FullName", p, a.FullName(), b.FullName())
	c.eq("field.Index", p, a.Index(), b.Index())
	c.eq("field.Number", p, a.Number(), b.Number())
	c.eq("field.Kind", p, a.Kind(), b.Kind())
	c.eq("field.Cardinality", p, a.Cardinality(), b.Cardinality())
	c.eq("field.HasPresence", p, a.HasPresence(), b.HasPresence())
	c.eq("field.HasOptionalKeyword", p, a.HasOptionalKeyword(), b.HasOptionalKeyword())
	c.eq("field.IsPacked", p, a.IsPacked(), b.IsPacked())
	c.eq("field.IsList", p, a.IsList(), b.IsList())
	c.eq("field.IsMap", p, a.IsMap(), b.IsMap())
	c.eq("field.IsExtension", p, a.IsExtension(), b.IsExtension())
	c.eq("field.IsWeak", p, a.IsWeak(), b.IsWeak())
	c.eq("field.JSONName", p, a.JSONName(), b.JSONName())
	c.eq("field.HasJSONName", p, a.HasJSONName(), b.HasJSONName())
	c.eq("field.TextName", p, a.TextName(), b.TextName())
	c.eq("field.HasDefault", p, a.HasDefault(), b.HasDefault())
	c.eq("field.Default", p, valStr(a, a.Default()), valStr(b, b.Default()))
	de1, de2 := a.DefaultEnumValue(), b.DefaultEnumValue()
	c.eq("field.DefaultEnumValue", p, de1 == nil, de2 == nil)
	if de1 != nil && de2 != nil {
		c.eq("field.DefaultEnumValue", p, de1.FullName(), de2.FullName())
	}
	o1, o2 := a.ContainingOneof(), b.ContainingOneof()
	c.eq("field.ContainingOneof", p, o1 == nil, o2 == nil)
	if o1 != nil && o2 != nil {
		c.eq("field.ContainingOneof", p, o1.FullName(), o2.FullName())
		c.eq("oneof.IsSynthetic", p, o1.IsSynthetic(), o2.IsSynthetic())
	}
	cm1, cm2 := a.ContainingMessage(), b.ContainingMessage()
	c.eq("field.ContainingMessage", p, cm1 == nil, cm2 == nil)
	if cm1 != nil && cm2 != nil {
		c.eq("field.ContainingMessage", p, cm1.FullName(), cm2.FullName())
	}
	m1, m2 := a.Message(), b.Message()
	c.eq("field.Message", p, m1 == nil, m2 == nil)
	if m1 != nil && m2 != nil {
		c.eq("field.Message", p, m1.FullName(), m2.FullName())
		c.eq("field.Message.IsMapEntry", p, m1.IsMapEntry(), m2.IsMapEntry())
	}
	e1, e2 := a.Enum(), b.Enum()
	c.eq("field.Enum", p, e1 == nil, e2 == nil)
	if e1 != nil && e2 != nil {
		c.eq("field.Enum", p, e1.FullName(), e2.FullName())
		c.eq("field.Enum.IsClosed", p, e1.IsClosed(), e2.IsClosed())
	}
	if a.IsMap() && b.IsMap() {
		c.eq("field.MapKey.Kind", p, a.MapKey().Kind(), b.MapKey().Kind())
		c.eq("field.MapValue.Kind", p, a.MapValue().Kind(), b.MapValue().Kind())
		c.eq("field.MapValue.FullName", p, a.MapValue().FullName(), b.MapValue().FullName())
	}
	c.eq("field.options", p, bytes.Equal(detBytes(a.Options()), detBytes(b.Options())), true)
}

func rangesStr(r interface {
	Len() int
	Get(int) [2]protoreflect.FieldNumber
}) string {
	s := ""
	for i := 0; i < r.Len(); i++ {
		s += fmt.Sprint(r.Get(i))
	}
	return s
}

func (c *viewCmp) enum(p string, a, b protoreflect.EnumDescriptor) {
	c.eq("enum.FullName", p, a.FullName(), b.FullName())
	c.eq("enum.Index", p, a.Index(), b.Index())
	c.eq("enum.IsClosed", p, a.IsClosed(), b.IsClosed())
	c.eq("enum.Values.Len", p, a.Values().Len(), b.Values().Len())
	for i := 0; i < a.Values().Len() && i < b.Values().Len(); i++ {
		v1, v2 := a.Values().Get(i), b.Values().Get(i)
		c.eq("enumvalue.FullName", p, v1.FullName(), v2.FullName())
		c.eq("enumvalue.Number", p, v1.Number(), v2.Number())
		c.eq("enumvalue.Index", p, v1.Index(), v2.Index())
		bn1, bn2 := a.Values().ByNumber(v1.Number()), b.Values().ByNumber(v1.Number())
		c.eq("enum.Values.ByNumber", p, bn1.Name(), bn2.Name())
		c.eq("enum.Values.ByName", p, a.Values().ByName(v1.Name()) != nil, true)
		c.eq("enumvalue.options", p, bytes.Equal(detBytes(v1.Options()), detBytes(v2.Options())), true)
	}
	c.eq("enum.ReservedNames", p, namesStr(a.ReservedNames()), namesStr(b.ReservedNames()))
	er1, er2 := a.ReservedRanges(), b.ReservedRanges()
	c.eq("enum.ReservedRanges.Len", p, er1.Len(), er2.Len())
	for i := 0; i < er1.Len() && i < er2.Len(); i++ {
		c.eq("enum.ReservedRanges", p, er1.Get(i), er2.Get(i))
	}
	c.eq("enum.options", p, bytes.Equal(detBytes(a.Options()), detBytes(b.Options())), true)
}

func namesStr(n protoreflect.Names) string {
	s := ""
	for i := 0; i < n.Len(); i++ {
		s += string(n.Get(i)) + ","
	}
	return s
}

func (c *viewCmp) message(p string, a, b protoreflect.MessageDescriptor) {
	c.eq("message.FullName", p, a.FullName(), b.FullName())
	c.eq("message.Index", p, a.Index(), b.Index())
	c.eq("message.IsMapEntry", p, a.IsMapEntry(), b.IsMapEntry())
	c.eq("message.Syntax", p, a.Syntax(), b.Syntax())
	rn1, rn2 := a.RequiredNumbers(), b.RequiredNumbers()
	c.eq("message.RequiredNumbers.Len", p, rn1.Len(), rn2.Len())
	for i := 0; i < rn1.Len() && i < rn2.Len(); i++ {
		c.eq("message.RequiredNumbers", p, rn1.Get(i), rn2.Get(i))
	}
	c.eq("message.ReservedNames", p, namesStr(a.ReservedNames()), namesStr(b.ReservedNames()))
	c.eq("message.ReservedRanges", p, rangesStr(a.ReservedRanges()), rangesStr(b.ReservedRanges()))
	c.eq("message.ExtensionRanges", p, rangesStr(a.ExtensionRanges()), rangesStr(b.ExtensionRanges()))
	for i := 0; i < a.ExtensionRanges().Len() && i < b.ExtensionRanges().Len(); i++ {
		c.eq("message.ExtensionRangeOptions", p, bytes.Equal(detBytes(a.ExtensionRangeOptions(i)), detBytes(b.ExtensionRangeOptions(i))), true)
	}
	c.eq("message.Fields.Len", p, a.Fields().Len(), b.Fields().Len())
	for i := 0; i < a.Fields().Len() && i < b.Fields().Len(); i++ {
		f1, f2 := a.Fields().Get(i), b.Fields().Get(i)
		fp := p + "." + string(f2.Name())
		c.field(fp, f1, f2)
		// lookups
		c.eq("fields.ByName", fp, a.Fields().ByName(f2.Name()) != nil && a.Fields().ByName(f2.Name()).Number() == f2.Number(), true)
		c.eq("fields.ByNumber", fp, a.Fields().ByNumber(f2.Number()) != nil && a.Fields().ByNumber(f2.Number()).Name() == f2.Name(), true)
		bj := a.Fields().ByJSONName(f2.JSONName())
		c.eq("fields.ByJSONName", fp, bj != nil && bj.Number() == b.Fields().ByJSONName(f2.JSONName()).Number(), true)
		bt := a.Fields().ByTextName(f2.TextName())
		c.eq("fields.ByTextName", fp, bt != nil && bt.Number() == b.Fields().ByTextName(f2.TextName()).Number(), true)
	}
	c.eq("message.Oneofs.Len", p, a.Oneofs().Len(), b.Oneofs().Len())
	for i := 0; i < a.Oneofs().Len() && i < b.Oneofs().Len(); i++ {
		o1, o2 := a.Oneofs().Get(i), b.Oneofs().Get(i)
		c.eq("oneof.FullName", p, o1.FullName(), o2.FullName())
		c.eq("oneof.IsSynthetic", p, o1.IsSynthetic(), o2.IsSynthetic())
		c.eq("oneof.Fields.Len", p, o1.Fields().Len(), o2.Fields().Len())
		for j := 0; j < o1.Fields().Len() && j < o2.Fields().Len(); j++ {
			c.eq("oneof.Fields", p, o1.Fields().Get(j).Number(), o2.Fields().Get(j).Number())
		}
		c.eq("oneof.options", p, bytes.Equal(detBytes(o1.Options()), detBytes(o2.Options())), true)
	}
	c.eq("message.Enums.Len", p, a.Enums().Len(), b.Enums().Len())
	for i := 0; i < a.Enums().Len() && i < b.Enums().Len(); i++ {
		c.enum(p, a.Enums().Get(i), b.Enums().Get(i))
	}
	c.eq("message.Extensions.Len", p, a.Extensions().Len(), b.Extensions().Len())
	for i := 0; i < a.Extensions().Len() && i < b.Extensions().Len(); i++ {
		c.field(p+".ext", a.Extensions().Get(i), b.Extensions().Get(i))
	}
	c.eq("message.Messages.Len", p, a.Messages().Len(), b.Messages().Len())
	for i := 0; i < a.Messages().Len() && i < b.Messages().Len(); i++ {
		c.message(p+"."+string(b.Messages().Get(i).Name()), a.Messages().Get(i), b.Messages().Get(i))
	}
	c.eq("message.options", p, bytes.Equal(detBytes(a.Options()), detBytes(b.Options())), true)
}

func (c *viewCmp) file(a, b protoreflect.FileDescriptor) {
	c.eq("file.Path", "", a.Path(), b.Path())
	c.eq("file.Package", "", a.Package(), b.Package())
	c.eq("file.Syntax", "", a.Syntax(), b.Syntax())
	c.eq("file.Imports.Len", "", a.Imports().Len(), b.Imports().Len())
	for i := 0; i < a.Imports().Len() && i < b.Imports().Len(); i++ {
		c.eq("file.Imports.Path", "", a.Imports().Get(i).Path(), b.Imports().Get(i).Path())
		c.eq("file.Imports.IsPublic", "", a.Imports().Get(i).IsPublic, b.Imports().Get(i).IsPublic)
	}
	c.eq("file.Messages.Len", "", a.Messages().Len(), b.Messages().Len())
	for i := 0; i < a.Messages().Len() && i < b.Messages().Len(); i++ {
		c.message(string(b.Messages().Get(i).FullName()), a.Messages().Get(i), b.Messages().Get(i))
	}
	c.eq("file.Enums.Len", "", a.Enums().Len(), b.Enums().Len())
	for i := 0; i < a.Enums().Len() && i < b.Enums().Len(); i++ {
		c.enum(string(b.Enums().Get(i).FullName()), a.Enums().Get(i), b.Enums().Get(i))
	}
	c.eq("file.Extensions.Len", "", a.Extensions().Len(), b.Extensions().Len())
	for i := 0; i < a.Extensions().Len() && i < b.Extensions().Len(); i++ {
		c.field("ext", a.Extensions().Get(i), b.Extensions().Get(i))
	}
	c.eq("file.Services.Len", "", a.Services().Len(), b.Services().Len())
	for i := 0; i < a.Services().Len() && i < b.Services().Len(); i++ {
		s1, s2 := a.Services().Get(i), b.Services().Get(i)
		c.eq("service.FullName", "", s1.FullName(), s2.FullName())
		c.eq("service.Methods.Len", "", s1.Methods().Len(), s2.Methods().Len())
		for j := 0; j < s1.Methods().Len() && j < s2.Methods().Len(); j++ {
			m1, m2 := s1.Methods().Get(j), s2.Methods().Get(j)
			c.eq("method.FullName", "", m1.FullName(), m2.FullName())
			c.eq("method.Input", "", m1.Input().FullName(), m2.Input().FullName())
			c.eq("method.Output", "", m1.Output().FullName(), m2.Output().FullName())
			c.eq("method.IsStreamingClient", "", m1.IsStreamingClient(), m2.IsStreamingClient())
			c.eq("method.IsStreamingServer", "", m1.IsStreamingServer(), m2.IsStreamingServer())
		}
	}
	c.eq("file.options", "", bytes.Equal(detBytes(a.Options()), detBytes(b.Options())), true)
}

func checkViews(r *vlib.Run, id string, src map[string]string, names []string, expectProtodescOK bool) {
	out := gen.Compile(src, names, gen.Opts{})
	if !out.OK() {
		r.Class("skipped:rejected (decided by C01)")
		return
	}
	res := gen.AllResults(out.Files)
	var fds []*descriptorpb.FileDescriptorProto
	for _, lr := range res {
		fds = append(fds, lr.FileDescriptorProto())
	}
	reg, errs := gen.BuildFilesLenient(fds)
	key := srcKey(src)
	for _, n := range sortedKeys(res) {
		lr := res[n]
		r.Eval(key + n)
		if e, bad := errs[n]; bad {
			if expectProtodescOK {
				r.Violation("c04.runtime-refuses-compiled-file", classifyErr(e.Error()), id, map[string]any{"file": n, "sources": src, "protodesc_error": e.Error()})
			} else {
				r.Class("corpus:runtime-refuses (known class, e.g. missing dependency)")
			}
			continue
		}
		rt, err := reg.FindFileByPath(n)
		if err != nil {
			continue
		}
		c := &viewCmp{}
		pv, st := vlib.Try(func() { c.file(lr, rt) })
		if pv != nil {
			r.Violation("c04.view-panics", "accessor panics at "+vlib.PanicSite(st), id, map[string]any{"file": n, "sources": src, "panic": fmt.Sprint(pv)})
			continue
		}
		r.ClassN("attributes-compared", int64(c.n))
		seen := map[string]bool{}
		for _, d := range c.diffs {
			if seen[d.attr] {
				continue
			}
			seen[d.attr] = true
			r.Violation("c04.view-differs", d.attr, id, map[string]any{"file": n, "element": d.path, "attribute": d.attr, "protocompile": d.got, "go-runtime": d.want, "sources": src})
		}
	}
}

func TestC04(t *testing.T) {
	r := vlib.Start(t, "C04")
	defer r.Finish()
	r.Extra("rule", "accepted generated models (proto2/proto3/editions 2023 with feature overrides at file, message-field, enum level; maps, groups, oneofs, proto3 optional, extensions, defaults of every kind) "+
		"and R2 corpus files: each compiled file is rebuilt with protodesc.NewFile and walked in parallel with the compiler's own descriptor, comparing ~60 attributes per element. "+
		"non-trivial = accepted file; distinct = distinct (source set, file)")
	r.Extra("assumptions", []string{"the Go protobuf runtime (protodesc, v1.36.11, built with -tags protolegacy) is the reference for descriptor attributes"})
	n := r.N(300, 5000)
	r.Par(n, func(i int) {
		id := fmt.Sprintf("g/%d", i)
		if !r.Want(id) {
			return
		}
		rng := r.Rng(id)
		cfg := modelConfig(rng, i)
		if i%2 == 0 {
			cfg.Syntaxes = []string{"editions"}
			if i%4 == 0 {
				cfg.Syntaxes = []string{"editions", "proto2", "proto3"}
			}
		}
		m, err := gen.GenModel(rng, cfg)
		if err != nil {
			r.Class("g:model-not-decided")
			return
		}
		src, err := m.Sources(nil)
		if err != nil {
			r.Inconclusive("render: " + err.Error())
			return
		}
		checkViews(r, id, src, m.Names(), true)
		// near-valid variants: whatever the compiler still accepts must be a file the runtime accepts too, with equal views
		for k := 0; k < 3; k++ {
			op := &gen.Operators[rng.Intn(len(gen.Operators))]
			if mu, ok, err := gen.Mutate(rng, m, op); err == nil && ok {
				checkViews(r, id+"/m/"+op.Name, mu.Sources, mu.Names, true)
			}
		}
		if i == 0 {
			r.Sample("generated-model", src)
		}
	})
	// hand-written near-valid shapes around rules the runtime enforces itself (closed enums under implicit presence,
	// proto3 files using proto2 enums, packed on non-packable fields, ...): accepted or not is C01's business; if
	// accepted, the runtime must accept the result as well
	shapes := c04Shapes()
	r.Par(len(shapes), func(i int) {
		id := fmt.Sprintf("shape/%d", i)
		if !r.Want(id) {
			return
		}
		var names []string
		for n := range shapes[i] {
			if n != "e2.proto" {
				names = append(names, n)
			}
		}
		checkViews(r, id, shapes[i], names, true)
		r.Class("near-valid-shape")
	})
	w, err := loadR2World()
	if err != nil {
		t.Fatal(err)
	}
	r.Par(len(w.entries), func(i int) {
		e := w.entries[i]
		id := "r2/" + e.Name
		if e.Source == "" || !r.Want(id) {
			return
		}
		checkViews(r, id, w.closure(e.Name), []string{e.Name}, false)
	})
}

func c04Shapes() []map[string]string {
	e2 := "syntax = \"proto2\";\npackage e2;\nenum Closed { C_ONE = 1; C_TWO = 2; }\nenum ClosedZero { Z = 0; O = 1; }\n"
	var out []map[string]string
	uses := []string{
		"%s f = 1;", "repeated %s f = 1;", "map<string, %s> f = 1;", "map<int32, %s> f = 1;", "oneof o { %s f = 1; }", "optional %s f = 1;",
	}
	for _, en := range []string{"e2.Closed", "e2.ClosedZero"} {
		for _, u := range uses {
			body := fmt.Sprintf(u, en)
			out = append(out, map[string]string{"e2.proto": e2, "a.proto": "syntax = \"proto3\";\npackage a;\nimport \"e2.proto\";\nmessage M { " + body + " }\n"})
			out = append(out, map[string]string{"e2.proto": e2, "a.proto": "edition = \"2023\";\npackage a;\nimport \"e2.proto\";\noption features.field_presence = IMPLICIT;\nmessage M { " + strings.Replace(body, "optional ", "", 1) + " }\n"})
		}
	}
	for _, u := range uses {
		body := fmt.Sprintf(u, "E")
		for _, enumFeat := range []string{"option features.enum_type = CLOSED;", ""} {
			for _, fileFeat := range []string{"option features.field_presence = IMPLICIT;\n", "option features.enum_type = CLOSED;\n", ""} {
				out = append(out, map[string]string{"a.proto": "edition = \"2023\";\npackage a;\n" + fileFeat + "enum E { " + enumFeat + " E_ZERO = 0; E_ONE = 1; }\nmessage M { " + strings.Replace(body, "optional ", "", 1) + " }\n"})
				out = append(out, map[string]string{"a.proto": "edition = \"2023\";\npackage a;\n" + fileFeat + "enum E { " + enumFeat + " E_ZERO = 0; E_ONE = 1; }\nmessage M { " + strings.Replace(strings.Replace(body, "optional ", "", 1), " = 1;", " = 1 [features.field_presence = IMPLICIT];", 1) + " }\n"})
			}
		}
	}
	return out
}
