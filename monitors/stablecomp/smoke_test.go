package stablecomp

import (
	"fmt"
	"os"
	"strconv"
	"testing"

	"github.com/bufbuild/protocompile/internal/verifmon/gen"
	"github.com/bufbuild/protocompile/internal/verifmon/vlib"
)

// TestGenSmoke is a development aid for the generator: VERIF_SMOKE=<n> models.
func TestGenSmoke(t *testing.T) {
	n, _ := strconv.Atoi(os.Getenv("VERIF_SMOKE"))
	if n == 0 {
		t.Skip()
	}
	custom := os.Getenv("VERIF_SMOKE_OPTS") != ""
	refused, rejected, differ, ok := 0, 0, 0, 0
	classes := map[string]int{}
	shown := 0
	for i := 0; i < n; i++ {
		rng := vlib.NewRNG(uint64(i) + 1000)
		m, err := gen.GenModel(rng, gen.Config{MaxFiles: 4, CustomOptions: custom})
		if err != nil {
			refused++
			classes["refused: "+classifyErr(err.Error())]++
			if shown < 3 {
				shown++
				fmt.Println("REFUSED", i, err)
			}
			continue
		}
		for v := 0; v < 2; v++ {
			var stf func(int) *gen.Style
			if v == 1 {
				stf = func(k int) *gen.Style { return &gen.Style{Rng: rng.Fork(fmt.Sprint("style", k))} }
			}
			src, err := m.Sources(stf)
			if err != nil {
				classes["render: "+classifyErr(err.Error())]++
				if shown < 6 {
					shown++
					fmt.Println("RENDER", i, err)
				}
				continue
			}
			out := gen.Compile(src, m.Names(), gen.Opts{})
			if !out.OK() {
				rejected++
				c := "rejected: " + classifyErr(out.ErrSummary())
				classes[c]++
				if classes[c] <= 1 {
					fmt.Println("REJECTED", i, v, out.ErrSummary())
					for _, nme := range m.Names() {
						fmt.Println("-----", nme)
						fmt.Println(src[nme])
					}
				}
				continue
			}
			res := gen.AllResults(out.Files)
			bad := false
			for _, f := range m.Files {
				r := res[f.GetName()]
				if r == nil {
					continue
				}
				d, err := compareWithProtoc(r.FileDescriptorProto(), f, m.Types, false)
				if err != nil {
					classes["cmp-error: "+err.Error()]++
					continue
				}
				if d != "" {
					bad = true
					c := "differs: " + gen.DiffClass(d)
					classes[c]++
					if classes[c] <= 1 {
						fmt.Println("DIFF", i, v, f.GetName(), d)
						fmt.Println(src[f.GetName()])
					}
				}
			}
			if bad {
				differ++
			} else {
				ok++
			}
		}
	}
	fmt.Println("models", n, "refused", refused, "rejected", rejected, "differ", differ, "ok", ok)
	for k, v := range classes {
		fmt.Println("  ", v, k)
	}
}

func TestGenShow(t *testing.T) {
	s := os.Getenv("VERIF_SHOW")
	if s == "" {
		t.Skip()
	}
	seed, _ := strconv.Atoi(s)
	rng := vlib.NewRNG(uint64(seed))
	m, err := gen.GenModel(rng, gen.Config{MaxFiles: 3, CustomOptions: true, Small: true})
	if err != nil {
		t.Fatal(err)
	}
	src, err := m.Sources(func(k int) *gen.Style { return &gen.Style{Rng: rng.Fork(fmt.Sprint("s", k))} })
	if err != nil {
		t.Fatal(err)
	}
	for _, n := range m.Names() {
		fmt.Println("-----", n)
		fmt.Println(src[n])
	}
	fmt.Println(m.Tags)
}
