package stablecomp

import (
	"fmt"
	"regexp"
	"sort"
	"strconv"
	"strings"
	"testing"

	"google.golang.org/protobuf/proto"
	"google.golang.org/protobuf/types/descriptorpb"

	"github.com/bufbuild/protocompile"
	"github.com/bufbuild/protocompile/internal/verifmon/gen"
	"github.com/bufbuild/protocompile/internal/verifmon/vlib"
)

// C03 — source code info matches protoc.
//
// Oracles (DESIGN.md §3):
//  (a) protoc's own source code info for three files (R1 source_info.protoset), with the two corrections
//      for protobuf issue 10478 that the project's own test applies (copied below);
//  (b) derived cases with a certain answer: n blank lines prepended shift every line by n; every line
//      indented by k spaces shifts every column by k (k a multiple of 8 when the file has interior tabs);
//  (c) by-construction comment attribution: comments with unique ids are inserted only in the placements
//      whose attribution descriptor.proto documents (leading, trailing same line, trailing next line,
//      detached paragraphs); everything else must stay as in the uncommented file with lines shifted.

var c03Fixers = []struct {
	patterns []*regexp.Regexp
	fix      func(all []*descriptorpb.SourceCodeInfo_Location, i int) *descriptorpb.SourceCodeInfo_Location
}{
	{
		// FieldDescriptorProto.default_value — https://github.com/protocolbuffers/protobuf/issues/10478
		patterns: []*regexp.Regexp{
			regexp.MustCompile(`^4,\d+,(?:3,\d+,)*2,\d+,7$`),
			regexp.MustCompile(`^7,\d+,7$`),
			regexp.MustCompile(`^4,\d+,(?:3,\d+,)*7,\d+,7$`),
		},
		fix: func(all []*descriptorpb.SourceCodeInfo_Location, i int) *descriptorpb.SourceCodeInfo_Location {
			all[i].Span[1] -= 10
			return all[i]
		},
	},
	{
		// FieldDescriptorProto.json_name — same issue: the second span is dropped
		patterns: []*regexp.Regexp{regexp.MustCompile(`^4,\d+,(?:3,\d+,)*2,\d+,10$`)},
		fix: func(all []*descriptorpb.SourceCodeInfo_Location, i int) *descriptorpb.SourceCodeInfo_Location {
			if i > 0 && pathStr(all[i].Path) == pathStr(all[i-1].Path) {
				return nil
			}
			return all[i]
		},
	},
}

func pathStr(p []int32) string {
	ss := make([]string, len(p))
	for i, v := range p {
		ss[i] = strconv.Itoa(int(v))
	}
	return strings.Join(ss, ",")
}

func fixupProtoc(info *descriptorpb.SourceCodeInfo) {
	for i := 0; i < len(info.Location); i++ {
		ps := pathStr(info.Location[i].Path)
		for _, fx := range c03Fixers {
			match := false
			for _, p := range fx.patterns {
				if p.MatchString(ps) {
					match = true
				}
			}
			if !match {
				continue
			}
			nl := fx.fix(info.Location, i)
			if nl == nil {
				info.Location = append(info.Location[:i], info.Location[i+1:]...)
				i--
			} else {
				info.Location[i] = nl
			}
			break
		}
	}
}

func locString(l *descriptorpb.SourceCodeInfo_Location) string {
	return fmt.Sprintf("path=[%s] span=%v leading=%q trailing=%q detached=%q", pathStr(l.Path), l.Span, l.GetLeadingComments(), l.GetTrailingComments(), l.LeadingDetachedComments)
}

// diffSCI returns the first difference between two location lists ("" if equal) and a class for the sig.
func diffSCI(got, want *descriptorpb.SourceCodeInfo) (string, string) {
	g, w := got.GetLocation(), want.GetLocation()
	for i := 0; i < len(g) && i < len(w); i++ {
		a, b := g[i], w[i]
		switch {
		case pathStr(a.Path) != pathStr(b.Path):
			return fmt.Sprintf("location #%d: got %s, want %s", i, locString(a), locString(b)), "path/order"
		case fmt.Sprint(a.Span) != fmt.Sprint(b.Span):
			return fmt.Sprintf("location #%d: got %s, want %s", i, locString(a), locString(b)), "span"
		case a.GetLeadingComments() != b.GetLeadingComments() || (a.LeadingComments == nil) != (b.LeadingComments == nil):
			return fmt.Sprintf("location #%d: got %s, want %s", i, locString(a), locString(b)), "leading-comment"
		case a.GetTrailingComments() != b.GetTrailingComments() || (a.TrailingComments == nil) != (b.TrailingComments == nil):
			return fmt.Sprintf("location #%d: got %s, want %s", i, locString(a), locString(b)), "trailing-comment"
		case fmt.Sprintf("%q", a.LeadingDetachedComments) != fmt.Sprintf("%q", b.LeadingDetachedComments):
			return fmt.Sprintf("location #%d: got %s, want %s", i, locString(a), locString(b)), "detached-comments"
		}
	}
	if len(g) != len(w) {
		return fmt.Sprintf("%d locations, want %d", len(g), len(w)), "location-count"
	}
	return "", ""
}

func compileSCI(src map[string]string, name string) (*descriptorpb.SourceCodeInfo, *gen.Outcome) {
	fd, out := compileFD(src, name)
	if fd == nil {
		return nil, out
	}
	return fd.GetSourceCodeInfo(), out
}

func compileFD(src map[string]string, name string) (*descriptorpb.FileDescriptorProto, *gen.Outcome) {
	out := gen.Compile(src, []string{name}, gen.Opts{SourceInfo: protocompile.SourceInfoStandard})
	if !out.OK() {
		return nil, out
	}
	return gen.AllProtos(out.Files)[name], out
}

// spanText returns the source text a location covers.
func spanText(lines []string, sp []int32) (string, bool) {
	var sl, sc, el, ec int
	switch len(sp) {
	case 3:
		sl, sc, el, ec = int(sp[0]), int(sp[1]), int(sp[0]), int(sp[2])
	case 4:
		sl, sc, el, ec = int(sp[0]), int(sp[1]), int(sp[2]), int(sp[3])
	default:
		return "", false
	}
	if sl < 0 || el >= len(lines) || sl > el {
		return "", false
	}
	if sl == el {
		if sc > ec || ec > len(lines[sl]) {
			return "", false
		}
		return lines[sl][sc:ec], true
	}
	if sc > len(lines[sl]) || ec > len(lines[el]) {
		return "", false
	}
	parts := []string{lines[sl][sc:]}
	parts = append(parts, lines[sl+1:el]...)
	parts = append(parts, lines[el][:ec])
	return strings.Join(parts, "\n"), true
}

// checkNameSpans is an oracle that does not depend on the compiler's own uncommented output: the
// location at <path of an element>+[name] must cover exactly the token that spells the element's
// name, and the location at +[number] the token that spells its number (generated sources are
// ASCII without tabs, so columns are byte offsets). It returns "" or the first discrepancy.
func checkNameSpans(fd *descriptorpb.FileDescriptorProto, text string) string {
	lines := strings.Split(text, "\n")
	byPath := map[string][]*descriptorpb.SourceCodeInfo_Location{}
	for _, l := range fd.GetSourceCodeInfo().GetLocation() {
		k := pathStr(l.Path)
		byPath[k] = append(byPath[k], l)
	}
	var bad string
	fail := func(format string, a ...any) {
		if bad == "" {
			bad = fmt.Sprintf(format, a...)
		}
	}
	one := func(path []int32, what string) *descriptorpb.SourceCodeInfo_Location {
		ls := byPath[pathStr(path)]
		if len(ls) == 0 {
			fail("%s: no location with path [%s]", what, pathStr(path))
			return nil
		}
		return ls[0]
	}
	name := func(path []int32, field int32, want, what string, fold bool) {
		l := one(append(append([]int32{}, path...), field), what+" name")
		if l == nil {
			return
		}
		got, ok := spanText(lines, l.Span)
		if !ok {
			fail("%s: name span %v outside the file", what, l.Span)
			return
		}
		if got != want && !(fold && strings.EqualFold(got, want)) {
			fail("%s: location [%s,%d] covers %q, the element is named %q", what, pathStr(path), field, got, want)
		}
	}
	number := func(path []int32, field int32, want int64, what string) {
		l := one(append(append([]int32{}, path...), field), what+" number")
		if l == nil {
			return
		}
		got, ok := spanText(lines, l.Span)
		if !ok {
			fail("%s: number span %v outside the file", what, l.Span)
			return
		}
		v, err := strconv.ParseInt(strings.ReplaceAll(got, " ", ""), 0, 64)
		if err != nil || v != want {
			fail("%s: location [%s,%d] covers %q, the element's number is %d", what, pathStr(path), field, got, want)
		}
	}
	field := func(path []int32, f *descriptorpb.FieldDescriptorProto, what string) {
		if one(path, what) == nil {
			return
		}
		grp := f.GetType() == descriptorpb.FieldDescriptorProto_TYPE_GROUP
		name(path, 1, f.GetName(), what, grp)
		number(path, 3, int64(f.GetNumber()), what)
		// the type_name location covers the reference as written: its last component is the type's simple name
		// (map fields have no such location: their type is the synthesized entry)
		if tn := f.GetTypeName(); tn != "" {
			ls := byPath[pathStr(append(append([]int32{}, path...), 6))]
			if len(ls) == 0 {
				if !strings.HasSuffix(tn, "Entry") {
					fail("%s: no type_name location", what)
				}
			} else if got, ok := spanText(lines, ls[0].Span); !ok {
				fail("%s: type_name span %v outside the file", what, ls[0].Span)
			} else {
				want := tn[strings.LastIndex(tn, ".")+1:]
				g := strings.TrimSpace(got)
				if g[strings.LastIndex(g, ".")+1:] != want && !strings.HasPrefix(g, "map") {
					fail("%s: location [%s,6] covers %q, the field's type is %s", what, pathStr(path), got, tn)
				}
			}
		}
	}
	var enum func(path []int32, e *descriptorpb.EnumDescriptorProto)
	enum = func(path []int32, e *descriptorpb.EnumDescriptorProto) {
		what := "enum " + e.GetName()
		if one(path, what) == nil {
			return
		}
		name(path, 1, e.GetName(), what, false)
		for i, v := range e.Value {
			vp := append(append([]int32{}, path...), 2, int32(i))
			if one(vp, "enum value "+v.GetName()) == nil {
				continue
			}
			name(vp, 1, v.GetName(), "enum value "+v.GetName(), false)
			number(vp, 2, int64(v.GetNumber()), "enum value "+v.GetName())
		}
	}
	var msg func(path []int32, m *descriptorpb.DescriptorProto)
	msg = func(path []int32, m *descriptorpb.DescriptorProto) {
		if m.GetOptions().GetMapEntry() {
			return
		}
		what := "message " + m.GetName()
		if one(path, what) == nil {
			return
		}
		name(path, 1, m.GetName(), what, false)
		for i, f := range m.Field {
			field(append(append([]int32{}, path...), 2, int32(i)), f, "field "+m.GetName()+"."+f.GetName())
		}
		for i, f := range m.Extension {
			field(append(append([]int32{}, path...), 6, int32(i)), f, "extension "+m.GetName()+"."+f.GetName())
		}
		for i, n := range m.NestedType {
			msg(append(append([]int32{}, path...), 3, int32(i)), n)
		}
		for i, e := range m.EnumType {
			enum(append(append([]int32{}, path...), 4, int32(i)), e)
		}
		for i, o := range m.OneofDecl {
			if isSynthetic(m, int32(i)) {
				continue
			}
			op := append(append([]int32{}, path...), 8, int32(i))
			if one(op, "oneof "+o.GetName()) != nil {
				name(op, 1, o.GetName(), "oneof "+o.GetName(), false)
			}
		}
	}
	// imports: [3,i] covers the statement that names dependency i; [10,k] / [11,k] cover the `public` / `weak`
	// keyword of the statement of dependency public_dependency[k] / weak_dependency[k]
	within := func(inner, outer []int32) bool {
		il, ic := inner[0], inner[1]
		ol, oc := outer[0], outer[1]
		oel, oec := outer[0], outer[2]
		if len(outer) == 4 {
			oel, oec = outer[2], outer[3]
		}
		return (il > ol || (il == ol && ic >= oc)) && (il < oel || (il == oel && ic <= oec))
	}
	for i, dep := range fd.Dependency {
		if l := one([]int32{3, int32(i)}, "import "+dep); l != nil {
			if got, ok := spanText(lines, l.Span); !ok || !strings.Contains(got, dep) || !strings.HasPrefix(strings.TrimSpace(got), "import") {
				fail("import %q: location [3,%d] covers %q", dep, i, got)
			}
		}
	}
	modifier := func(field int32, word string, idx []int32) {
		for k, di := range idx {
			l := one([]int32{field, int32(k)}, word+" import")
			if l == nil {
				continue
			}
			if got, ok := spanText(lines, l.Span); !ok || got != word {
				fail("%s import #%d: location [%d,%d] covers %q, not the keyword", word, k, field, k, got)
				continue
			}
			if int(di) >= len(fd.Dependency) {
				fail("%s_dependency[%d] = %d is out of range", word, k, di)
				continue
			}
			stmt := byPath[pathStr([]int32{3, di})]
			if len(stmt) == 0 || !within(l.Span, stmt[0].Span) {
				fail("%s import #%d: location [%d,%d] is not inside the import statement of dependency %d (%s)", word, k, field, k, di, fd.Dependency[di])
			}
		}
		if extra := byPath[pathStr([]int32{field, int32(len(idx))})]; len(extra) > 0 {
			fail("location [%d,%d] exists but the file has only %d %s imports", field, len(idx), len(idx), word)
		}
	}
	modifier(10, "public", fd.PublicDependency)
	modifier(11, "weak", fd.WeakDependency)
	for i, m := range fd.MessageType {
		msg([]int32{4, int32(i)}, m)
	}
	for i, e := range fd.EnumType {
		enum([]int32{5, int32(i)}, e)
	}
	for i, f := range fd.Extension {
		field([]int32{7, int32(i)}, f, "extension "+f.GetName())
	}
	for i, sv := range fd.Service {
		sp := []int32{6, int32(i)}
		if one(sp, "service "+sv.GetName()) == nil {
			continue
		}
		name(sp, 1, sv.GetName(), "service "+sv.GetName(), false)
		for j, m := range sv.Method {
			mp := []int32{6, int32(i), 2, int32(j)}
			if one(mp, "method "+m.GetName()) != nil {
				name(mp, 1, m.GetName(), "method "+m.GetName(), false)
			}
		}
	}
	return bad
}

func isSynthetic(m *descriptorpb.DescriptorProto, idx int32) bool {
	n := 0
	syn := false
	for _, f := range m.Field {
		if f.OneofIndex != nil && f.GetOneofIndex() == idx {
			n++
			syn = f.GetProto3Optional()
		}
	}
	return n == 1 && syn
}

func shiftSCI(info *descriptorpb.SourceCodeInfo, dLine int32, dCol int32) *descriptorpb.SourceCodeInfo {
	c := proto.Clone(info).(*descriptorpb.SourceCodeInfo)
	for _, l := range c.Location {
		switch len(l.Span) {
		case 3:
			l.Span[0] += dLine
			l.Span[1] += dCol
			l.Span[2] += dCol
		case 4:
			l.Span[0] += dLine
			l.Span[1] += dCol
			l.Span[2] += dLine
			l.Span[3] += dCol
		}
	}
	return c
}

func hasInteriorTab(text string) bool {
	for _, line := range strings.Split(text, "\n") {
		trim := strings.TrimLeft(line, " \t")
		if strings.Contains(trim, "\t") {
			return true
		}
		// a tab in the leading whitespace also re-aligns unless the shift is a multiple of 8
		if strings.Contains(line[:len(line)-len(trim)], "\t") {
			return true
		}
	}
	return false
}

func indentAll(text string, k int) string {
	pad := strings.Repeat(" ", k)
	lines := strings.Split(text, "\n")
	for i, l := range lines {
		if l != "" {
			lines[i] = pad + l
		}
	}
	return strings.Join(lines, "\n")
}

func TestC03(t *testing.T) {
	r := vlib.Start(t, "C03")
	defer r.Finish()
	r.Extra("rule", "(a) the three files of protoc's source_info.protoset compiled with SourceInfoStandard and compared location by location (path, span, comments, order) after the project's two issue-10478 corrections; "+
		"(b) the same files with n blank lines prepended (n in {1,2,5,17}) and with every line indented by k columns (k in {1,3,8,16}; multiples of 8 only when a line has tabs), expected = protoc's list shifted; "+
		"(c) generated models rendered canonically, compiled without comments (baseline), then with comments carrying unique ids inserted at randomly chosen single-line declarations in the documented placements "+
		"(leading, trailing on the same line, trailing on the next lines before a blank line / the closing brace / the end of the file, detached paragraphs, block-comment variants), expected = baseline with lines shifted and exactly those comments attached; "+
		"independently of that baseline, the name and number locations of every message, field, enum, value, oneof, extension, service and method must cover exactly the token spelling that name/number. "+
		"non-trivial = file with >=1 comment compared; distinct = distinct source text")
	r.Extra("assumptions", []string{
		"source_info.protoset is protoc's answer for the three recorded files",
		"prepending blank lines / indenting every line changes protoc's spans only by the corresponding shift and leaves comments unchanged (leading whitespace of comment continuation lines is stripped by protoc)",
		"comment placements used in (c) are the ones whose attribution descriptor.proto documents; the uncommented compilation provides which location belongs to which declaration line",
	})

	// ---------- (a) + (b): protoc's recorded source info ----------
	sets, src, err := gen.LoadR1()
	if err != nil {
		r.Inconclusive("R1: " + err.Error())
		return
	}
	srcs := map[string]string{}
	for k, v := range src {
		if !strings.HasPrefix(k, "options/") {
			srcs[k] = v
		}
	}
	for _, set := range sets {
		if set.Name != "source_info.protoset" {
			continue
		}
		for fi, want := range set.Files {
			if !r.Mine(fi) {
				continue
			}
			name := want.GetName()
			text, ok := srcs[name]
			if !ok || want.SourceCodeInfo == nil {
				continue
			}
			exp := proto.Clone(want.SourceCodeInfo).(*descriptorpb.SourceCodeInfo)
			fixupProtoc(exp)
			type variant struct {
				id         string
				text       string
				dLine, dCo int32
			}
			vars := []variant{{"orig", text, 0, 0}}
			for _, n := range []int{1, 2, 5, 17} {
				vars = append(vars, variant{fmt.Sprintf("blank%d", n), strings.Repeat("\n", n) + text, int32(n), 0})
			}
			ks := []int{1, 3, 8, 16}
			if hasInteriorTab(text) {
				ks = []int{8, 16}
			}
			for _, k := range ks {
				vars = append(vars, variant{fmt.Sprintf("indent%d", k), indentAll(text, k), 0, int32(k)})
				vars = append(vars, variant{fmt.Sprintf("blank3+indent%d", k), "\n\n\n" + indentAll(text, k), 3, int32(k)})
			}
			for _, v := range vars {
				id := "r1/" + name + "/" + v.id
				if !r.Want(id) {
					continue
				}
				s2 := map[string]string{}
				for k2, v2 := range srcs {
					s2[k2] = v2
				}
				s2[name] = v.text
				got, out := compileSCI(s2, name)
				r.Eval(id)
				if got == nil {
					r.Violation("c03.rejects-protoc-accepted", "R1 "+v.id+": "+gen.ClassifyErr(out.ErrSummary()), id, map[string]any{"file": name, "variant": v.id, "errors": out.ErrSummary()})
					continue
				}
				d, cls := diffSCI(got, shiftSCI(exp, v.dLine, v.dCo))
				if d != "" {
					kind := "recorded"
					if v.id != "orig" {
						kind = "derived (" + strings.TrimRight(v.id, "0123456789") + ")"
					}
					r.Violation("c03.differs-from-protoc", kind+": "+cls, id, map[string]any{"file": name, "variant": v.id, "difference": d})
				}
				r.Class("r1:" + strings.TrimRight(v.id, "0123456789"))
			}
		}
	}

	// ---------- (c) by-construction comment attribution ----------
	n := r.N(600, 10000)
	r.Par(n, func(i int) {
		id := fmt.Sprintf("g/%d", i)
		if !r.Want(id) {
			return
		}
		rng := r.Rng(id)
		cfg := gen.StdConfig(rng, i)
		cfg.MaxFiles = 1 + i%3
		m, err := gen.GenModel(rng, cfg)
		if err != nil {
			r.Class("g:model-not-decided")
			return
		}
		src, err := m.Sources(nil)
		if err != nil {
			r.Inconclusive("render: " + err.Error())
			return
		}
		for _, f := range m.Files {
			name := f.GetName()
			if name == "opts/options.proto" {
				continue
			}
			frng := rng.Fork(name)
			text := src[name]
			// a third of the files get a last declaration that ends in ';' so that the end-of-file placement exists
			if frng.Chance(0.3) {
				// a few more imports, plain / public / weak in random order (unused imports are only warnings)
				wk := append([]string(nil), gen.WellKnownImports...)
				vlib.Shuffle(frng, wk)
				var add []string
				for _, f := range wk[:frng.Range(1, 4)] {
					if strings.Contains(text, `"`+f+`"`) || f == "google/protobuf/empty.proto" {
						continue
					}
					add = append(add, "import "+[]string{"", "public ", "weak ", "public ", "weak "}[frng.Intn(5)]+`"`+f+`";`)
				}
				ls := strings.Split(text, "\n")
				for li, l := range ls {
					if strings.HasPrefix(l, "syntax") || strings.HasPrefix(l, "edition") {
						ls = append(ls[:li+1], append(add, ls[li+1:]...)...)
						break
					}
				}
				text = strings.Join(ls, "\n")
				r.Class("imports with modifiers injected")
			}
			eofDecl := false
			if frng.Chance(0.33) && !strings.Contains(text, "google/protobuf/empty.proto") {
				text = strings.TrimRight(text, "\n") + "\nimport \"google/protobuf/empty.proto\";\n"
				eofDecl = true
			}
			s1 := map[string]string{}
			for k2, v2 := range src {
				s1[k2] = v2
			}
			s1[name] = text
			baseFD, out := compileFD(s1, name)
			if baseFD == nil {
				_ = out
				r.Class("skipped:rejected (decided by C01)")
				continue
			}
			base := baseFD.GetSourceCodeInfo()
			if d := checkNameSpans(baseFD, text); d != "" {
				r.Eval(text)
				r.Violation("c03.path-does-not-address-element", strings.SplitN(d, ":", 2)[0][:strings.IndexAny(d+" ", " ")], id+"/"+name, map[string]any{"file": name, "source": text, "difference": d})
				continue
			}
			r.Class("name/number tokens checked")
			commented, expect, ncomments := injectDocumentedComments(frng, text, base, eofDecl)
			if ncomments == 0 {
				continue
			}
			s2 := map[string]string{}
			for k2, v2 := range src {
				s2[k2] = v2
			}
			s2[name] = commented
			got, out2 := compileSCI(s2, name)
			r.Eval(commented)
			w := map[string]any{"file": name, "source": commented}
			if got == nil {
				w["errors"] = out2.ErrSummary()
				r.Violation("c03.commented-source-rejected", gen.ClassifyErr(out2.ErrSummary()), id+"/"+name, w)
				continue
			}
			if d, cls := diffSCI(got, expect); d != "" {
				w["difference"] = d
				r.Violation("c03.comment-attribution", "by-construction: "+cls, id+"/"+name, w)
			}
			r.ClassN("comments-placed", int64(ncomments))
			if i == 1 {
				r.Sample("commented-source", trunc(commented, 1200))
			}
		}
	})
}

// injectDocumentedComments inserts comments around randomly chosen single-line declarations and
// returns the new text, the expected source code info, and how many comments were placed.
func injectDocumentedComments(rng *vlib.RNG, text string, base *descriptorpb.SourceCodeInfo, eofDecl bool) (string, *descriptorpb.SourceCodeInfo, int) {
	lines := strings.Split(strings.TrimRight(text, "\n"), "\n")
	// declaration locations by start line: the location that starts at the first non-blank column of a
	// line and whose span is the widest among those starting there (the declaration itself).
	type decl struct {
		loc    int // index into base.Location
		single bool
		block  bool // line ends with "{"
	}
	decls := map[int]decl{}
	for li, loc := range base.Location {
		ps := pathStr(loc.Path)
		top := ps == "12" || ps == "2" || (len(loc.Path) == 2 && loc.Path[0] == 3) // syntax/edition, package, import
		if !top && (len(loc.Path) == 0 || len(loc.Path)%2 != 0 || !commentablePath(loc.Path)) {
			continue // not a declaration that comments are attributed to
		}
		sl := int(loc.Span[0])
		if sl >= len(lines) {
			continue
		}
		line := lines[sl]
		first := len(line) - len(strings.TrimLeft(line, " "))
		if int(loc.Span[1]) != first {
			continue
		}
		trimmed := strings.TrimSpace(line)
		single := len(loc.Span) == 3 && strings.HasSuffix(trimmed, ";")
		block := strings.HasSuffix(trimmed, "{") && len(loc.Span) == 4
		if !single && !block {
			continue
		}
		if prev, ok := decls[sl]; ok {
			// keep the widest
			pl := base.Location[prev.loc]
			// a group declares a field and a message with the same span: protoc's parser hands the
			// comments to the message (ParseMessageBlock consumes the "{"), so the message wins a tie
			if spanWidth(pl.Span) > spanWidth(loc.Span) || (spanWidth(pl.Span) == spanWidth(loc.Span) && !isMessagePath(loc.Path)) {
				continue
			}
		}
		decls[sl] = decl{loc: li, single: single, block: block}
	}
	exp := proto.Clone(base).(*descriptorpb.SourceCodeInfo)
	// choose lines
	type ins struct {
		before   []string // lines inserted before the declaration line
		sameLine string   // appended to the declaration line
		after    []string // lines inserted after the declaration line
	}
	plan := map[int]*ins{}
	ctr := 0
	id := func() string { ctr++; return fmt.Sprintf("c%d", ctr) }
	n := 0
	noFinalNewline := false
	sls := make([]int, 0, len(decls))
	for sl := range decls {
		sls = append(sls, sl)
	}
	sort.Ints(sls)
	for _, sl := range sls {
		d := decls[sl]
		atEOF := eofDecl && sl == len(lines)-1
		if !atEOF && !rng.Chance(0.35) {
			continue
		}
		// do not comment two adjacent lines: a trailing comment of one and a leading comment of the next would interact
		if plan[sl-1] != nil || plan[sl+1] != nil {
			continue
		}
		indent := lines[sl][:len(lines[sl])-len(strings.TrimLeft(lines[sl], " "))]
		p := &ins{}
		loc := exp.Location[d.loc]
		if rng.Chance(0.5) {
			// detached paragraphs (each followed by a blank line)
			k := rng.Range(1, 2)
			for j := 0; j < k; j++ {
				c := id()
				if rng.Chance(0.35) {
					// a free-standing block comment (a "banner")
					p.before = append(p.before, indent+"/* "+c+" */", "")
					loc.LeadingDetachedComments = append(loc.LeadingDetachedComments, " "+c+" ")
					n++
					continue
				}
				p.before = append(p.before, indent+"// "+c)
				if rng.Chance(0.3) {
					c2 := id()
					p.before = append(p.before, indent+"// "+c2)
					loc.LeadingDetachedComments = append(loc.LeadingDetachedComments, " "+c+"\n "+c2+"\n")
				} else {
					loc.LeadingDetachedComments = append(loc.LeadingDetachedComments, " "+c+"\n")
				}
				p.before = append(p.before, "")
				n++
			}
		}
		if rng.Chance(0.6) {
			c := id()
			switch rng.Intn(3) {
			case 0:
				p.before = append(p.before, indent+"// "+c)
				loc.LeadingComments = proto.String(" " + c + "\n")
			case 1:
				c2 := id()
				p.before = append(p.before, indent+"// "+c, indent+"// "+c2)
				loc.LeadingComments = proto.String(" " + c + "\n " + c2 + "\n")
			default:
				p.before = append(p.before, indent+"/* "+c+" */")
				loc.LeadingComments = proto.String(" " + c + " ")
			}
			n++
		}
		if len(p.before) > 0 {
			// a blank line in front keeps the first comment from being the trailing comment of the previous declaration
			p.before = append([]string{""}, p.before...)
		}
		if atEOF || rng.Chance(0.5) {
			c := id()
			nextCloses := sl+1 < len(lines) && strings.TrimSpace(lines[sl+1]) == "}"
			switch {
			case atEOF:
				// the comment on the line after the last declaration, with the end of the file right behind it
				// (where a scope ends there is nothing else the comment could belong to)
				p.after = append(p.after, indent+"// "+c)
				noFinalNewline = rng.Bool()
				if noFinalNewline {
					loc.TrailingComments = proto.String(" " + c) // the comment text ends where the file ends
				} else {
					loc.TrailingComments = proto.String(" " + c + "\n")
				}
			case d.single && nextCloses && rng.Chance(0.5):
				// same at the end of a block: the next token is the closing brace
				p.after = append(p.after, indent+"// "+c)
				loc.TrailingComments = proto.String(" " + c + "\n")
			case d.single && rng.Chance(0.4):
				p.sameLine = " // " + c
				loc.TrailingComments = proto.String(" " + c + "\n")
			case d.single && rng.Chance(0.3):
				p.sameLine = " /* " + c + " */"
				loc.TrailingComments = proto.String(" " + c + " ")
			case d.single:
				p.after = append(p.after, indent+"// "+c, "")
				loc.TrailingComments = proto.String(" " + c + "\n")
			default:
				// block element: a comment after the opening brace on the same line is its trailing comment
				p.sameLine = " // " + c
				loc.TrailingComments = proto.String(" " + c + "\n")
			}
			n++
		}
		if len(p.before) == 0 && p.sameLine == "" && len(p.after) == 0 {
			continue
		}
		plan[sl] = p
	}
	if n == 0 {
		return text, exp, 0
	}
	// build text and the line shift table
	shift := make([]int32, len(lines)+1)
	var out []string
	added := int32(0)
	for i, l := range lines {
		if p := plan[i]; p != nil {
			out = append(out, p.before...)
			added += int32(len(p.before))
			shift[i] = added
			out = append(out, l+p.sameLine)
			out = append(out, p.after...)
			added += int32(len(p.after))
			continue
		}
		shift[i] = added
		out = append(out, l)
	}
	shift[len(lines)] = added
	for _, l := range exp.Location {
		if len(l.Span) == 0 {
			continue
		}
		sl := int(l.Span[0])
		if sl < len(shift) {
			l.Span[0] += shift[sl]
		}
		if len(l.Span) == 4 {
			el := int(l.Span[2])
			if el < len(shift) {
				l.Span[2] += shift[el]
			}
		}
	}
	if noFinalNewline {
		return strings.Join(out, "\n"), exp, n
	}
	return strings.Join(out, "\n") + "\n", exp, n
}

func spanWidth(s []int32) int {
	if len(s) == 3 {
		return int(s[2] - s[1])
	}
	return int(s[2]-s[0])*1000 + int(s[3])
}

func isMessagePath(p []int32) bool {
	if len(p) < 2 {
		return false
	}
	f := p[len(p)-2]
	return (len(p) == 2 && f == 4) || (len(p) > 2 && f == 3)
}

// commentablePath reports whether the path names a declaration to which comments are attributed:
// messages, fields, nested types, enums, enum values, services, methods, oneofs, extensions.
func commentablePath(p []int32) bool {
	// walk the path grammar of FileDescriptorProto
	const (
		file = iota
		msg
		enum
		svc
		leaf
	)
	state := file
	for i := 0; i+1 < len(p); i += 2 {
		f := p[i]
		switch state {
		case file:
			switch f {
			case 4:
				state = msg
			case 5:
				state = enum
			case 6:
				state = svc
			case 7:
				state = leaf
			default:
				return false
			}
		case msg:
			switch f {
			case 3:
				state = msg
			case 4:
				state = enum
			case 2, 6, 8:
				state = leaf
			default:
				return false
			}
		case enum:
			if f != 2 {
				return false
			}
			state = leaf
		case svc:
			if f != 2 {
				return false
			}
			state = leaf
		default:
			return false
		}
	}
	return true
}
