package stablecomp

import (
	"fmt"
	"os"
	"testing"

	"github.com/bufbuild/protocompile/internal/verifmon/gen"
)

// TestProbe is a development aid: VERIF_PROBE=<file with a single proto source> compiles it and prints the outcome.
func TestProbe(t *testing.T) {
	p := os.Getenv("VERIF_PROBE")
	if p == "" {
		t.Skip()
	}
	b, err := os.ReadFile(p)
	if err != nil {
		t.Fatal(err)
	}
	out := gen.Compile(map[string]string{"test.proto": string(b)}, []string{"test.proto"}, gen.Opts{})
	fmt.Println("OK:", out.OK(), "ERR:", out.Err, "ERRORS:", out.Errors, "PANIC:", out.Panic != nil)
}
