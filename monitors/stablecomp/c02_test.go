package stablecomp

import (
	"fmt"
	"strings"
	"testing"

	"google.golang.org/protobuf/types/descriptorpb"

	"github.com/bufbuild/protocompile/internal/verifmon/gen"
	"github.com/bufbuild/protocompile/internal/verifmon/vlib"
)

// C02 — compiled descriptors equal protoc's.
//
// Oracles: (a) R2: protoc's own descriptors embedded in protobuf-go, replayed
// from source; (b) derived cases: protoc's descriptor is rendered back to
// source in many spellings/layouts whose effect on protoc's output is certain
// (none), compiled, and compared with protoc's descriptor; (c) R1 descriptor
// sets of the repository; (d) generated models.

func TestC02(t *testing.T) {
	r := vlib.Start(t, "C02")
	defer r.Finish()
	r.Extra("rule", "R2: every protoc descriptor embedded in protobuf-go v1.36.11 whose source is in the corpus, compiled from its source (1 case each) and from V re-renderings of protoc's own descriptor "+
		"(declaration interleavings, option syntaxes, numeric/string spellings; V=4 quick, 40 thorough); R1: descriptor sets shipped in the repository; G: generated models. "+
		"non-trivial = accepted by the compiler and the descriptor has >=1 message or enum; distinct = distinct source text")
	r.Extra("assumptions", []string{
		"protoc's recorded descriptors (R1/R2) are protoc's answer for the recorded sources",
		"re-rendering a descriptor to source with a different legal spelling does not change protoc's descriptor (DESIGN.md §3.2); the renderer is calibrated by the canonical round trip on the same corpus",
		"R2 descriptors had source-retention options stripped by protoc; the compiled side is stripped with options.StripSourceRetentionOptionsFromFile before comparing",
	})
	w, err := loadR2World()
	if err != nil {
		t.Fatal(err)
	}
	r.Extra("r2_descriptors", len(w.entries))
	r.Extra("r2_refused_by_go_runtime", len(w.refused))

	V := r.N(4, 40)
	r.Par(len(w.entries), func(i int) {
		e := w.entries[i]
		if _, bad := w.refused[e.Name]; bad {
			r.Class("r2-skipped:go-runtime-refuses-protoc-descriptor")
			return
		}
		is2024 := e.Desc.GetEdition() > descriptorpb.Edition_EDITION_2023
		// (a) source replay
		if e.Source != "" && r.Want("r2src/"+e.Name) {
			id := "r2src/" + e.Name
			srcs := w.closure(e.Name)
			out := gen.Compile(srcs, []string{e.Name}, gen.Opts{})
			key := e.Name
			switch {
			case out.Panic != nil:
				r.Violation("compile.panic", "panic compiling a protoc-accepted corpus file", id, map[string]any{"file": e.Name, "panic": fmt.Sprint(out.Panic)})
			case !out.OK():
				if is2024 {
					r.Class("r2src:edition2024-refused-as-documented")
					key = ""
				} else {
					r.Violation("c02.rejects-protoc-accepted", classifyErr(out.ErrSummary()), id, map[string]any{"file": e.Name, "errors": out.ErrSummary()})
				}
			default:
				fd := gen.Protos(out.Files)[e.Name]
				d, err := compareWithProtoc(fd, e.Desc, w.types, true)
				if err != nil {
					r.Inconclusive("compare " + e.Name + ": " + err.Error())
				} else if d != "" {
					r.Violation("c02.descriptor-differs", "source replay: "+gen.DiffClass(d), id, map[string]any{"file": e.Name, "diff compiled!=protoc": d})
				}
				r.Class("r2src:compared")
			}
			if len(e.Desc.MessageType)+len(e.Desc.EnumType) == 0 {
				key = ""
			}
			r.Eval(key)
			if i == 3 {
				r.Sample("r2-source-replay", e.Name)
			}
		}
		if is2024 {
			return
		}
		// (b) re-renderings of protoc's descriptor
		for v := 0; v <= V; v++ {
			id := fmt.Sprintf("r2render/%s/%d", e.Name, v)
			if !r.Want(id) {
				continue
			}
			var st *gen.Style
			if v > 0 {
				st = &gen.Style{Rng: r.Rng(id)}
			}
			text, err := gen.Render(e.Desc, w.types, st)
			if err != nil {
				r.Class("r2render:not-renderable")
				r.Extra("render_error_example", e.Name+": "+err.Error())
				continue
			}
			srcs := w.renderedDeps(e.Name)
			srcs[e.Name] = text
			out := gen.Compile(srcs, []string{e.Name}, gen.Opts{})
			key := text
			if len(e.Desc.MessageType)+len(e.Desc.EnumType) == 0 {
				key = ""
			}
			r.Eval(key)
			switch {
			case out.Panic != nil:
				r.Violation("compile.panic", "panic compiling a re-rendered protoc descriptor", id, map[string]any{"file": e.Name, "source": text, "panic": fmt.Sprint(out.Panic)})
			case !out.OK():
				r.Violation("c02.rejects-rendering", classifyErr(out.ErrSummary()), id, map[string]any{"file": e.Name, "source": text, "errors": out.ErrSummary()})
			default:
				fd := gen.Protos(out.Files)[e.Name]
				d, err := compareWithProtoc(fd, e.Desc, w.types, false)
				if err != nil {
					r.Inconclusive("compare " + e.Name + ": " + err.Error())
				} else if d != "" {
					r.Violation("c02.descriptor-differs", "re-rendering: "+gen.DiffClass(d), id, map[string]any{"file": e.Name, "source": text, "diff compiled!=protoc": d})
				}
				r.Class("r2render:compared")
				if v == 1 && i == 5 {
					r.Sample("r2-rerendered-source", trunc(text, 1500))
				}
			}
		}
	})
	c02R1(r)
	c02Generated(r)
}

// c02R1 replays the descriptor sets shipped in the repository (protoc output
// with --include_imports): every file of a set whose source is in the corpus
// is compiled and compared with the file in the set.
func c02R1(r *vlib.Run) {
	sets, src, err := gen.LoadR1()
	if err != nil {
		r.Inconclusive("R1: " + err.Error())
		return
	}
	for si, set := range sets {
		if !r.Mine(si) {
			continue
		}
		// sources are rooted at internal/testdata; the options/ directory carries an override of
		// descriptor.proto and is its own root (DESIGN.md Appendix A gotchas).
		root := ""
		if strings.HasPrefix(set.Name, "options/") {
			root = "options/"
		}
		srcs := map[string]string{}
		for k, v := range src {
			if root != "" {
				if strings.HasPrefix(k, root) {
					srcs[strings.TrimPrefix(k, root)] = v
				}
			} else if !strings.HasPrefix(k, "options/") {
				srcs[k] = v
			}
		}
		reg, refused := gen.BuildFilesLenient(set.Files)
		types := gen.TypesOf(reg)
		for _, want := range set.Files {
			id := "r1/" + set.Name + "/" + want.GetName()
			if _, ok := srcs[want.GetName()]; !ok || !r.Want(id) {
				continue
			}
			if _, bad := refused[want.GetName()]; bad {
				r.Class("r1-skipped:go-runtime-refuses-protoc-descriptor")
				continue
			}
			out := gen.Compile(srcs, []string{want.GetName()}, gen.Opts{})
			key := id
			if len(want.MessageType)+len(want.EnumType) == 0 {
				key = ""
			}
			r.Eval(key)
			if !out.OK() {
				r.Violation("c02.rejects-protoc-accepted", "R1: "+classifyErr(out.ErrSummary()), id, map[string]any{"set": set.Name, "file": want.GetName(), "errors": out.ErrSummary()})
				continue
			}
			fd := gen.Protos(out.Files)[want.GetName()]
			d, err := compareWithProtoc(fd, want, types, false)
			if err != nil {
				r.Inconclusive("compare " + id + ": " + err.Error())
			} else if d != "" {
				r.Violation("c02.descriptor-differs", "R1 source replay: "+gen.DiffClass(d), id, map[string]any{"set": set.Name, "file": want.GetName(), "diff compiled!=protoc": d})
			}
			r.Class("r1:compared")
		}
	}
}

// renderedDeps returns sources for the transitive dependencies of name:
// original sources where present, canonical renderings of protoc's
// descriptors otherwise.
// c02Generated compiles generated models in several renderings and compares
// every produced file with the model it was rendered from.
func c02Generated(r *vlib.Run) {
	n := r.N(300, 5000)
	R := r.N(3, 8)
	r.Par(n, func(i int) {
		id := fmt.Sprintf("g/%d", i)
		if !r.Want(id) {
			return
		}
		rng := r.Rng(id)
		m, err := gen.GenModel(rng, modelConfig(rng, i))
		if err != nil {
			r.Class("g:model-not-decided (refused by protodesc)")
			return
		}
		for v := 0; v < R; v++ {
			vid := fmt.Sprintf("%s/r%d", id, v)
			if !r.Want(vid) {
				continue
			}
			var stf func(int) *gen.Style
			if v > 0 {
				srng := r.Rng(vid)
				stf = func(k int) *gen.Style { return &gen.Style{Rng: srng.Fork(fmt.Sprint(k))} }
			}
			src, err := m.Sources(stf)
			if err != nil {
				r.Inconclusive("render: " + err.Error())
				continue
			}
			out := gen.Compile(src, m.Names(), gen.Opts{Par: 1 + (v%3)*3})
			r.Eval(srcKey(src))
			if !out.OK() {
				r.Class("g:rejected (decided by C01)")
				continue
			}
			res := gen.AllResults(out.Files)
			for _, f := range m.Files {
				cr := res[f.GetName()]
				if cr == nil {
					r.Violation("c02.file-missing", "G: requested file missing from the results", vid, map[string]any{"file": f.GetName()})
					continue
				}
				d, err := compareWithProtoc(cr.FileDescriptorProto(), f, m.Types, false)
				if err != nil {
					r.Inconclusive("compare: " + err.Error())
					continue
				}
				if d != "" {
					r.Violation("c02.descriptor-differs", "generated model: "+gen.DiffClass(d), vid, map[string]any{"file": f.GetName(), "source": src[f.GetName()], "diff compiled!=model": d})
				}
				r.Class("g:file-compared")
			}
			if i == 2 && v == 1 {
				r.Sample("generated-source", trunc(src[m.Names()[len(m.Names())-1]], 1500))
			}
		}
	})
}

func (w *r2World) renderedDeps(name string) map[string]string {
	out := map[string]string{}
	var add func(n string)
	add = func(n string) {
		if _, ok := out[n]; ok {
			return
		}
		d, ok := w.byName[n]
		if !ok {
			return
		}
		if n != name {
			if s, ok := w.src[n]; ok {
				out[n] = s
			} else if text, err := gen.Render(d, w.types, nil); err == nil {
				out[n] = text
			}
		} else {
			out[n] = ""
		}
		for _, dep := range d.Dependency {
			add(dep)
		}
	}
	add(name)
	delete(out, name)
	return out
}

func trunc(s string, n int) string {
	if len(s) > n {
		return s[:n] + "…"
	}
	return s
}

// classifyErr abstracts an error summary to its message shape: positions,
// quoted names and numbers are removed.
func classifyErr(s string) string {
	if i := strings.Index(s, " && "); i >= 0 {
		s = s[:i]
	}
	// drop "file:line:col: "
	parts := strings.SplitN(s, ": ", 2)
	if len(parts) == 2 && strings.Contains(parts[0], ".proto") {
		s = parts[1]
	}
	var sb strings.Builder
	inq := false
	for _, c := range s {
		switch {
		case c == '"':
			inq = !inq
			if !inq {
				sb.WriteString(`"…"`)
			}
		case inq:
		case c >= '0' && c <= '9':
			if !strings.HasSuffix(sb.String(), "#") {
				sb.WriteByte('#')
			}
		default:
			sb.WriteRune(c)
		}
	}
	return trunc(sb.String(), 160)
}
