package stablecomp

import (
	"bytes"
	"fmt"
	"strings"
	"testing"

	"google.golang.org/protobuf/proto"
	"google.golang.org/protobuf/reflect/protoregistry"
	"google.golang.org/protobuf/types/descriptorpb"

	"github.com/bufbuild/protocompile"
	"github.com/bufbuild/protocompile/internal/verifmon/gen"
	"github.com/bufbuild/protocompile/internal/verifmon/vlib"
	"github.com/bufbuild/protocompile/linker"
	"github.com/bufbuild/protocompile/protoutil"
)

// C10 — re-linking compiled output is a fixpoint.

func detBytes(m proto.Message) []byte {
	b, _ := proto.MarshalOptions{Deterministic: true}.Marshal(m)
	return b
}

// recompile feeds descriptor protos back as SearchResult.Proto (mode "proto")
// or as linked descriptors built by protodesc (mode "desc").
func recompile(protos map[string]*descriptorpb.FileDescriptorProto, names []string, mode string, par int, sim protocompile.SourceInfoMode) *gen.Outcome {
	var reg *protoregistry.Files
	if mode == "desc" {
		var fds []*descriptorpb.FileDescriptorProto
		for _, p := range protos {
			fds = append(fds, p)
		}
		var errs map[string]error
		reg, errs = gen.BuildFilesLenient(fds)
		if len(errs) > 0 {
			return nil
		}
	}
	res := protocompile.WithStandardImports(protocompile.ResolverFunc(func(name string) (protocompile.SearchResult, error) {
		p, ok := protos[name]
		if !ok {
			return protocompile.SearchResult{}, fmt.Errorf("file not found: %s", name)
		}
		if mode == "desc" {
			fd, err := reg.FindFileByPath(name)
			if err != nil {
				return protocompile.SearchResult{}, err
			}
			return protocompile.SearchResult{Desc: fd}, nil
		}
		return protocompile.SearchResult{Proto: p}, nil
	}))
	return gen.CompileWith(res, names, gen.Opts{Par: par, SourceInfo: sim})
}

// allProtos collects the protos of all results reachable from files.
func allProtos(files linker.Files) map[string]*descriptorpb.FileDescriptorProto {
	out := map[string]*descriptorpb.FileDescriptorProto{}
	for n, r := range gen.AllResults(files) {
		out[n] = r.FileDescriptorProto()
	}
	return out
}

func checkFixpoint(r *vlib.Run, id string, src map[string]string, names []string, par int) {
	// every combination of the source-info flags, the same for all generations
	sim := protocompile.SourceInfoMode(vlib.Hash64(id) % 8)
	first := gen.Compile(src, names, gen.Opts{Par: par, SourceInfo: sim})
	if !first.OK() {
		r.Class("skipped:first-compilation-rejected")
		return
	}
	p1 := allProtos(first.Files)
	snap := map[string][]byte{}
	for n, p := range p1 {
		snap[n] = detBytes(p)
	}
	key := srcKey(src)
	for _, mode := range []string{"proto", "desc"} {
		second := recompile(p1, names, mode, par, sim)
		if second == nil {
			r.Class("skipped:protodesc-refuses (" + mode + ")")
			continue
		}
		r.Eval(key + mode)
		w := map[string]any{"sources": src, "mode": mode, "source_info_mode": int(sim)}
		r.Class(fmt.Sprintf("source-info-mode:%d", int(sim)))
		if !second.OK() {
			w["errors"] = second.ErrSummary()
			kind := "c10.second-generation-fails"
			if second.Panic != nil {
				kind = "compile.panic"
			}
			r.Violation(kind, mode+": "+classifyErr(second.ErrSummary()), id, w)
			continue
		}
		for n, b := range snap {
			if !bytes.Equal(detBytes(p1[n]), b) {
				r.Violation("c10.input-mutated", mode+": descriptor proto handed to the second compilation was modified", id, w)
			}
		}
		if mode == "desc" {
			// linked descriptors come back as they are (no linker.Result); compare through protodesc
			for _, f := range second.Files {
				got := protoutil.ProtoFromFileDescriptor(f)
				want := p1[f.Path()]
				if want == nil {
					continue
				}
				a, b := proto.Clone(got).(*descriptorpb.FileDescriptorProto), proto.Clone(want).(*descriptorpb.FileDescriptorProto)
				a.SourceCodeInfo, b.SourceCodeInfo = nil, nil
				// limits of the observation instrument: a linked descriptor that is not a linker.Result has no
				// descriptor proto of its own; protodesc.ToFileDescriptorProto rebuilds one from the
				// protoreflect view and cannot recover `edition` (needs an Edition() method the wrapper
				// does not have) nor proto3_optional of extensions. Both are masked on both sides.
				maskLossy(a)
				maskLossy(b)
				if !bytes.Equal(detBytes(a), detBytes(b)) {
					d := gen.Diff(a, b)
					w["diff second!=first"] = d
					r.Violation("c10.not-a-fixpoint", "desc: "+gen.DiffClass(d), id, w)
				}
			}
			r.Class("desc:compared")
			continue
		}
		p2 := allProtos(second.Files)
		bad := false
		for n, b := range snap {
			q := p2[n]
			if q == nil {
				r.Violation("c10.file-missing", "proto: file missing from second generation", id, w)
				bad = true
				continue
			}
			if !bytes.Equal(detBytes(q), b) {
				d := gen.Diff(q, p1[n])
				w["diff second!=first"] = d
				w["file"] = n
				r.Violation("c10.not-a-fixpoint", "proto: "+gen.DiffClass(d), id, w)
				bad = true
			}
		}
		if !bad {
			// third generation: the fixpoint is reached after one step
			third := recompile(p2, names, "proto", par, sim)
			if third == nil || !third.OK() {
				r.Violation("c10.third-generation-fails", "proto", id, w)
				continue
			}
			p3 := allProtos(third.Files)
			for n, b := range snap {
				if q := p3[n]; q == nil || !bytes.Equal(detBytes(q), b) {
					r.Violation("c10.not-a-fixpoint", "proto: third generation differs", id, w)
				}
			}
			r.Class("proto:fixpoint-confirmed")
		}
	}
}

func TestC10(t *testing.T) {
	r := vlib.Start(t, "C10")
	defer r.Finish()
	r.Extra("rule", "every accepted generated model (canonical + random rendering) and every R2/R1 corpus file with source: first generation compiled from source; its descriptor protos are re-supplied "+
		"as SearchResult.Proto (second and third generation compared byte for byte with deterministic marshalling) and as SearchResult.Desc built by protodesc (compared via protoutil.ProtoFromFileDescriptor). "+
		"non-trivial = accepted set with >=1 message; distinct = distinct (source set, mode)")
	r.Extra("assumptions", []string{"deterministic proto marshalling is a faithful equality on descriptor protos", "protodesc.ToFileDescriptorProto round-trips descriptors it built"})

	n := r.N(250, 4000)
	r.Par(n, func(i int) {
		id := fmt.Sprintf("g/%d", i)
		if !r.Want(id) {
			return
		}
		rng := r.Rng(id)
		m, err := gen.GenModel(rng, modelConfig(rng, i))
		if err != nil {
			r.Class("g:model-not-decided")
			return
		}
		var stf func(int) *gen.Style
		if i%2 == 1 {
			stf = func(k int) *gen.Style { return &gen.Style{Rng: rng.Fork(fmt.Sprint("st", k))} }
		}
		src, err := m.Sources(stf)
		if err != nil {
			r.Inconclusive("render: " + err.Error())
			return
		}
		checkFixpoint(r, id, src, m.Names(), 1+(i%3)*3)
		if i == 0 {
			r.Sample("generated-model-files", m.Names())
		}
	})
	// derived-name shapes: names that coincide only after a derivation the compiler performs (map entry
	// type names, JSON names, group field names). Only sets accepted from source are checked.
	shapes := derivedNameShapes()
	r.Par(len(shapes), func(i int) {
		id := fmt.Sprintf("shape/%d", i)
		if !r.Want(id) {
			return
		}
		checkFixpoint(r, id, map[string]string{"a.proto": shapes[i]}, []string{"a.proto"}, 1)
		r.Class("derived-name-shape")
	})
	w, err := loadR2World()
	if err != nil {
		t.Fatal(err)
	}
	r.Par(len(w.entries), func(i int) {
		e := w.entries[i]
		id := "r2/" + e.Name
		if e.Source == "" || !r.Want(id) {
			return
		}
		checkFixpoint(r, id, w.closure(e.Name), []string{e.Name}, 4)
	})
}

func maskLossy(fd *descriptorpb.FileDescriptorProto) {
	fd.Edition = nil
	for _, x := range fd.Extension {
		x.Proto3Optional = nil
	}
	var rec func(ms []*descriptorpb.DescriptorProto)
	rec = func(ms []*descriptorpb.DescriptorProto) {
		for _, m := range ms {
			for _, x := range m.Extension {
				x.Proto3Optional = nil
			}
			rec(m.NestedType)
		}
	}
	rec(fd.MessageType)
}

// derivedNameShapes enumerates small files in which two members of one message have names that are
// related through a derivation (camel case, map entry name, lower-cased group name), in both orders
// and for every syntax.
func derivedNameShapes() []string {
	names := []string{"foo_bar", "fooBar", "FooBar", "foo_Bar", "foobar", "foo__bar", "_foo_bar", "Foo_bar"}
	kinds := []string{"scalar", "repeated", "map", "message", "group", "oneof-member", "map-json", "scalar-json", "nested-message", "nested-enum"}
	var out []string
	for _, syn := range []string{"proto2", "proto3", "editions"} {
		head := "syntax = \"" + syn + "\";\n"
		opt := "optional "
		switch syn {
		case "proto3":
			opt = ""
		case "editions":
			head = "edition = \"2023\";\n"
			opt = ""
		}
		decl := func(kind, name string, num int) string {
			switch kind {
			case "scalar":
				return fmt.Sprintf("  %sint32 %s = %d;\n", opt, name, num)
			case "repeated":
				return fmt.Sprintf("  repeated int32 %s = %d;\n", name, num)
			case "map":
				return fmt.Sprintf("  map<string, string> %s = %d;\n", name, num)
			case "map-json":
				return fmt.Sprintf("  map<string, int32> %s = %d [json_name = \"j%d\"];\n", name, num, num)
			case "scalar-json":
				return fmt.Sprintf("  %sint32 %s = %d [json_name = \"j%d\"];\n", opt, name, num, num)
			case "message":
				return fmt.Sprintf("  %sOther %s = %d;\n", opt, name, num)
			case "group":
				if syn != "proto2" {
					return ""
				}
				g := strings.ToUpper(name[:1]) + name[1:]
				if g[0] < 'A' || g[0] > 'Z' {
					return ""
				}
				return fmt.Sprintf("  optional group %s = %d { optional int32 x = 1; }\n", g, num)
			case "oneof-member":
				return fmt.Sprintf("  oneof o%d { int32 %s = %d; }\n", num, name, num)
			case "nested-message":
				return fmt.Sprintf("  message %sEntry { %sint32 key = 1; %sint32 value = 2; }\n", strings.ToUpper(name[:1])+name[1:], opt, opt)
			case "nested-enum":
				return fmt.Sprintf("  enum %sEntry { Z%d = 0; }\n", strings.ToUpper(name[:1])+name[1:], num)
			}
			return ""
		}
		for _, k1 := range kinds {
			for _, k2 := range kinds[:8] {
				for _, n1 := range names {
					for _, n2 := range names {
						if n1 == n2 {
							continue
						}
						d1, d2 := decl(k1, n1, 1), decl(k2, n2, 2)
						if d1 == "" || d2 == "" || (!strings.HasPrefix(k1, "map") && !strings.HasPrefix(k2, "map") && k1 != "group" && k2 != "group") {
							continue
						}
						out = append(out, head+"package x;\nmessage Other {}\nmessage M {\n"+d1+d2+"}\n")
					}
				}
			}
		}
	}
	return out
}
