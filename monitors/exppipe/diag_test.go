package exppipe

import (
	"encoding/json"
	"fmt"
	"regexp"

	"github.com/bufbuild/protocompile/experimental/report"
	compilerpb "github.com/bufbuild/protocompile/internal/gen/buf/compiler/v1alpha1"
	"github.com/bufbuild/protocompile/internal/verifmon/vlib"
)

// diagSnap is everything observable about one diagnostic: the public
// accessors, the annotation list as exported by Report.ToProto (the only
// public view of secondary snippets and suggested edits), and — optionally —
// the rendered text.
type diagSnap struct {
	Level       int       `json:"level"`
	Tag         string    `json:"tag,omitempty"`
	Message     string    `json:"message"`
	File        string    `json:"file,omitempty"`
	PrimaryPath string    `json:"primary_path,omitempty"`
	Start       int       `json:"start"`
	End         int       `json:"end"`
	Notes       []string  `json:"notes,omitempty"`
	Help        []string  `json:"help,omitempty"`
	Debug       []string  `json:"debug,omitempty"`
	InFile      string    `json:"in_file,omitempty"`
	Annotations []annSnap `json:"annotations,omitempty"`
	Rendered    string    `json:"rendered,omitempty"`
}

type annSnap struct {
	Path      string   `json:"path"`
	TextHash  string   `json:"text_hash"`
	Start     int      `json:"start"`
	End       int      `json:"end"`
	Message   string   `json:"message,omitempty"`
	Primary   bool     `json:"primary,omitempty"`
	PageBreak bool     `json:"page_break,omitempty"`
	Edits     []string `json:"edits,omitempty"`
}

// Stack traces attached to internal-compiler-error diagnostics contain raw
// addresses and argument words; those are not part of what "the same
// diagnostic" means, so they are masked before any comparison.
var reAddr = regexp.MustCompile(`0x[0-9a-fA-F]+\??|\+0x[0-9a-fA-F]+`)

func maskAddrs(s string) string { return reAddr.ReplaceAllString(s, "0x?") }

// maskAll masks addresses and replaces the goroutine stack dump that
// Report.CatchICE appends to an internal-compiler-error diagnostic (everything
// after the "stack trace:" debug line) by a placeholder: which goroutine ran
// the panicking task, and therefore its frames, is schedule by nature.
func maskAll(ss []string) []string {
	if ss == nil {
		return nil
	}
	out := make([]string, 0, len(ss))
	for _, s := range ss {
		out = append(out, maskAddrs(s))
		if s == "stack trace:" {
			out = append(out, "<stack dump omitted>")
			break
		}
	}
	return out
}

// plainRenderer renders without the debug footer: debug lines are compared
// through the Debug() accessor (with stack dumps masked, see maskAll).
var plainRenderer = report.Renderer{ShowRemarks: true, ShowDebug: false}

func snapDiag(d *report.Diagnostic, render bool) diagSnap {
	s := diagSnap{
		Level:   int(d.Level()),
		Tag:     d.Tag(),
		Message: d.Message(),
		File:    d.File(),
		Notes:   d.Notes(),
		Help:    d.Help(),
		Debug:   maskAll(d.Debug()),
	}
	p := d.Primary()
	s.PrimaryPath, s.Start, s.End = p.Path(), p.Start, p.End
	one := &report.Report{Diagnostics: []report.Diagnostic{*d}}
	if pb, ok := one.ToProto().(*compilerpb.Report); ok && len(pb.GetDiagnostics()) == 1 {
		dp := pb.GetDiagnostics()[0]
		s.InFile = dp.GetInFile()
		for _, a := range dp.GetAnnotations() {
			as := annSnap{Start: int(a.GetStart()), End: int(a.GetEnd()), Message: a.GetMessage(), Primary: a.GetPrimary(), PageBreak: a.GetPageBreak()}
			if int(a.GetFile()) < len(pb.GetFiles()) {
				f := pb.GetFiles()[a.GetFile()]
				as.Path = f.GetPath()
				as.TextHash = fmt.Sprintf("%016x", vlib.Hash64(string(f.GetText())))
			}
			for _, e := range a.GetEdits() {
				as.Edits = append(as.Edits, fmt.Sprintf("%d:%d:%q", e.GetStart(), e.GetEnd(), e.GetReplace()))
			}
			s.Annotations = append(s.Annotations, as)
		}
	}
	if render {
		pv, _ := vlib.Try(func() { s.Rendered, _, _ = plainRenderer.RenderString(one) })
		if pv != nil {
			s.Rendered = fmt.Sprintf("<renderer panicked: %v>", pv)
		}
		s.Rendered = maskAddrs(s.Rendered)
	}
	return s
}

func snapReport(rep *report.Report, render bool) []diagSnap {
	if rep == nil {
		return nil
	}
	out := make([]diagSnap, len(rep.Diagnostics))
	for i := range rep.Diagnostics {
		out[i] = snapDiag(&rep.Diagnostics[i], render)
	}
	return out
}

func (s diagSnap) key() string {
	b, _ := json.Marshal(s)
	return string(b)
}

func snapKeys(ss []diagSnap) []string {
	out := make([]string, len(ss))
	for i, s := range ss {
		out[i] = s.key()
	}
	return out
}

func renderReport(rep *report.Report) string {
	if rep == nil {
		return ""
	}
	var s string
	pv, _ := vlib.Try(func() { s, _, _ = plainRenderer.RenderString(rep) })
	if pv != nil {
		return fmt.Sprintf("<renderer panicked: %v>", pv)
	}
	if len(s) > 6000 {
		s = s[:6000] + "…"
	}
	return s
}
