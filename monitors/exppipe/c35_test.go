package exppipe

import (
	"context"
	"fmt"
	"regexp"
	"sort"
	"strings"
	"sync/atomic"
	"testing"

	"google.golang.org/protobuf/proto"
	"google.golang.org/protobuf/types/descriptorpb"

	"github.com/bufbuild/protocompile/experimental/incremental/queries"
	"github.com/bufbuild/protocompile/internal/verifmon/vlib"
)

// C35 — incremental recompilation equals batch compilation.
//
// A long-lived executor + session + opener (the project's own mutable
// source.Map) is driven through an edit history. After EVERY edit the
// queries.File keys (both ReportError variants) of the touched paths are
// evicted and queries.Link is re-run; the descriptors of every requested file
// and the whole diagnostic list are compared with a brand-new executor +
// session + opener on a copy of the current files.

type c35State struct {
	g       *gWorkspace
	files   map[string]string // current content (deleted files absent)
	deleted map[string]bool
	targets []string
	undo    []func() string // pending repairs
	touch   []string        // explicitly touched paths of the current edit
}

func (s *c35State) fileByPath(p string) *gFile {
	for _, f := range s.g.Files {
		if f.Path == p {
			return f
		}
	}
	return nil
}

// importedFiles lists generated files that some other live file imports.
func (s *c35State) importedFiles() []*gFile {
	var out []*gFile
	for _, f := range s.g.Files {
		for _, o := range s.g.Files {
			if o != f && !s.deleted[o.Path] && s.g.imports(o, f) {
				out = append(out, f)
				break
			}
		}
	}
	return out
}

type c35Edit struct {
	Name  string
	Apply func(s *c35State, r *vlib.RNG) bool
}

var c35Edits = []c35Edit{
	{"add-field-to-imported-message", func(s *c35State, r *vlib.RNG) bool {
		fs := s.importedFiles()
		if len(fs) == 0 {
			return false
		}
		f := vlib.Pick(r, fs)
		if s.deleted[f.Path] || len(f.Msgs) == 0 {
			return false
		}
		m := vlib.Pick(r, f.Msgs)
		addField(f, m, vlib.Pick(r, []string{"int32", "string", "bytes", "double"}), s.g.name("added"), 15000+s.g.uid)
		return true
	}},
	{"change-field-type-in-imported-message", func(s *c35State, r *vlib.RNG) bool {
		fs := s.importedFiles()
		if len(fs) == 0 {
			return false
		}
		f := vlib.Pick(r, fs)
		if s.deleted[f.Path] {
			return false
		}
		for _, m := range f.allMsgs() {
			for _, fl := range m.Fields {
				if fl.Kind == "scalar" && !hasDefault(fl) && len(fl.Opts) == 0 {
					if fl.Type == "int64" {
						fl.Type = "string"
					} else {
						fl.Type = "int64"
					}
					return true
				}
			}
		}
		return false
	}},
	{"change-enum-value-number", func(s *c35State, r *vlib.RNG) bool {
		fs := s.importedFiles()
		if len(fs) == 0 {
			return false
		}
		f := vlib.Pick(r, fs)
		if s.deleted[f.Path] {
			return false
		}
		es := f.allEnums()
		if len(es) == 0 {
			return false
		}
		e := vlib.Pick(r, es)
		e.Vals = append(e.Vals, gEnumVal{Name: strings.ToUpper(s.g.name("ADDED")), Num: 50 + s.g.uid})
		return true
	}},
	{"rename-message-used-by-importers", func(s *c35State, r *vlib.RNG) bool {
		// the importers keep the old name: they must now fail to resolve it
		fs := s.importedFiles()
		if len(fs) == 0 {
			return false
		}
		f := vlib.Pick(r, fs)
		if s.deleted[f.Path] || len(f.Msgs) == 0 {
			return false
		}
		m := vlib.Pick(r, f.Msgs)
		old := m.Name
		m.Name = old + "Renamed"
		s.undo = append(s.undo, func() string { m.Name = old; return "rename-back " + old })
		return true
	}},
	{"break-import-path", func(s *c35State, r *vlib.RNG) bool {
		var c []*gFile
		for _, f := range s.g.Files {
			if len(f.Imports) > 0 && !s.deleted[f.Path] {
				c = append(c, f)
			}
		}
		if len(c) == 0 {
			return false
		}
		f := vlib.Pick(r, c)
		i := r.Intn(len(f.Imports))
		old := f.Imports[i].Path
		f.Imports[i].Path = "missing/" + old
		s.undo = append(s.undo, func() string {
			for k := range f.Imports {
				if f.Imports[k].Path == "missing/"+old {
					f.Imports[k].Path = old
				}
			}
			return "repair-import " + old
		})
		return true
	}},
	{"remove-import-statement", func(s *c35State, r *vlib.RNG) bool {
		var c []*gFile
		for _, f := range s.g.Files {
			if len(f.Imports) > 0 && !s.deleted[f.Path] {
				c = append(c, f)
			}
		}
		if len(c) == 0 {
			return false
		}
		f := vlib.Pick(r, c)
		i := r.Intn(len(f.Imports))
		old := f.Imports[i]
		f.Imports = append(append([]gImport(nil), f.Imports[:i]...), f.Imports[i+1:]...)
		s.undo = append(s.undo, func() string { f.Imports = append(f.Imports, old); return "restore-import " + old.Path })
		return true
	}},
	{"delete-imported-file", func(s *c35State, r *vlib.RNG) bool {
		fs := s.importedFiles()
		var c []*gFile
		for _, f := range fs {
			if !s.deleted[f.Path] {
				c = append(c, f)
			}
		}
		if len(c) == 0 {
			return false
		}
		f := vlib.Pick(r, c)
		s.deleted[f.Path] = true
		s.undo = append(s.undo, func() string { delete(s.deleted, f.Path); return "add-missing-file " + f.Path })
		return true
	}},
	{"add-file-that-was-imported-but-missing", func(s *c35State, r *vlib.RNG) bool {
		ps := sortedKeys(s.deleted)
		if len(ps) == 0 {
			return false
		}
		delete(s.deleted, vlib.Pick(r, ps))
		return true
	}},
	{"touch-without-change", func(s *c35State, r *vlib.RNG) bool {
		ps := sortedKeys(s.files)
		if len(ps) == 0 {
			return false
		}
		s.touch = append(s.touch, vlib.Pick(r, ps))
		return true
	}},
	{"rerun-without-edit", func(s *c35State, r *vlib.RNG) bool { return true }},
	{"introduce-duplicate-symbol-across-files", func(s *c35State, r *vlib.RNG) bool {
		// another live file of the same package re-declares a message
		for _, a := range s.g.Files {
			if s.deleted[a.Path] || len(a.Msgs) == 0 || a == s.g.schemaFile() {
				continue
			}
			for _, b := range s.g.Files {
				if b == a || s.deleted[b.Path] || b.Pkg != a.Pkg || b == s.g.schemaFile() {
					continue
				}
				if strings.Contains(b.Tail, "message "+a.Msgs[0].Name+" ") {
					continue
				}
				add := fmt.Sprintf("message %s {}\n", a.Msgs[0].Name)
				b.Tail += add
				s.undo = append(s.undo, func() string { b.Tail = strings.Replace(b.Tail, add, "", 1); return "remove-duplicate-symbol" })
				return true
			}
		}
		return false
	}},
	{"introduce-syntax-error", func(s *c35State, r *vlib.RNG) bool {
		var c []*gFile
		for _, f := range s.g.Files {
			if !s.deleted[f.Path] && !strings.Contains(f.Tail, "Unclosed") {
				c = append(c, f)
			}
		}
		if len(c) == 0 {
			return false
		}
		f := vlib.Pick(r, c)
		f.Tail += "message Unclosed {\n"
		s.undo = append(s.undo, func() string {
			f.Tail = strings.Replace(f.Tail, "message Unclosed {\n", "", 1)
			return "repair-syntax-error"
		})
		return true
	}},
	{"introduce-duplicate-tag", func(s *c35State, r *vlib.RNG) bool {
		var c []*gFile
		for _, f := range s.g.Files {
			if !s.deleted[f.Path] && len(f.Msgs) > 0 && f != s.g.schemaFile() {
				c = append(c, f)
			}
		}
		if len(c) == 0 {
			return false
		}
		f := vlib.Pick(r, c)
		m := f.Msgs[0]
		n := len(m.Fields)
		addField(f, m, "int32", s.g.name("dupa"), 16001)
		addField(f, m, "int32", s.g.name("dupb"), 16001)
		s.undo = append(s.undo, func() string {
			if len(m.Fields) >= n+2 {
				m.Fields = append(m.Fields[:n], m.Fields[n+2:]...)
			}
			return "remove-duplicate-tag"
		})
		return true
	}},
	{"introduce-import-cycle", func(s *c35State, r *vlib.RNG) bool {
		// 2-4 live files are made to import each other in a ring; every added import statement gets its own
		// repair entry, so that the cycle is later broken at a random member (first, middle or last of the ring)
		var c []*gFile
		for _, f := range s.g.Files {
			if !s.deleted[f.Path] && f != s.g.schemaFile() {
				c = append(c, f)
			}
		}
		if len(c) < 2 {
			return false
		}
		vlib.Shuffle(r, c)
		k := r.Range(2, 4)
		if k > len(c) {
			k = len(c)
		}
		ring := c[:k]
		added := 0
		for i, f := range ring {
			to := ring[(i+1)%k]
			has := false
			for _, im := range f.Imports {
				if im.Path == to.Path {
					has = true
				}
			}
			if has {
				continue
			}
			f, to := f, to
			f.Imports = append(f.Imports, gImport{Path: to.Path})
			added++
			s.undo = append(s.undo, func() string {
				for j := range f.Imports {
					if f.Imports[j].Path == to.Path {
						f.Imports = append(append([]gImport(nil), f.Imports[:j]...), f.Imports[j+1:]...)
						break
					}
				}
				return "remove-ring-import " + f.Path + " -> " + to.Path
			})
		}
		return added > 0
	}},
	{"repair", func(s *c35State, r *vlib.RNG) bool {
		if len(s.undo) == 0 {
			return false
		}
		i := r.Intn(len(s.undo))
		u := s.undo[i]
		s.undo = append(s.undo[:i], s.undo[i+1:]...)
		u()
		return true
	}},
}

// sync re-renders the model and returns the paths whose content or presence
// changed, plus the explicitly touched ones.
func (s *c35State) sync() []string {
	next := map[string]string{}
	for _, f := range s.g.Files {
		if !s.deleted[f.Path] {
			next[f.Path] = f.render()
		}
	}
	touched := map[string]bool{}
	for p, t := range next {
		if old, ok := s.files[p]; !ok || old != t {
			touched[p] = true
		}
	}
	for p := range s.files {
		if _, ok := next[p]; !ok {
			touched[p] = true
		}
	}
	for _, p := range s.touch {
		touched[p] = true
	}
	s.touch = nil
	s.files = next
	return sortedKeys(touched)
}

type c35Obs struct {
	Fatal string
	Panic string
	Snaps []diagSnap
	Descs map[string][]byte // per target; nil entry = no file
}

func c35Observe(out expOut, targets []string) c35Obs {
	o := c35Obs{Panic: out.Panic, Descs: map[string][]byte{}}
	if out.Fatal != nil {
		o.Fatal = out.Fatal.Error()
	}
	o.Snaps = snapReport(out.Report, true)
	for i, t := range targets {
		if i < len(out.Files) && out.Files[i] != nil {
			b, err := expDescriptorBytes(out.Files[i])
			if err != nil {
				b = []byte("ERROR: " + normMsg(err.Error()))
			}
			o.Descs[t] = b
		} else {
			o.Descs[t] = nil
		}
	}
	return o
}

// c35Compare returns "" when incremental == batch, else a classification.
func c35Compare(inc, batch c35Obs, targets []string) (string, map[string]any) {
	if inc.Panic != batch.Panic {
		return "panic outcome differs", map[string]any{"incremental_panic": inc.Panic, "batch_panic": batch.Panic}
	}
	if inc.Fatal != batch.Fatal {
		return "fatal error of the root query differs", map[string]any{"incremental_fatal": inc.Fatal, "batch_fatal": batch.Fatal}
	}
	for _, t := range targets {
		a, b := inc.Descs[t], batch.Descs[t]
		if (a == nil) != (b == nil) {
			return "a requested file has a result on one side only", map[string]any{"target": t, "incremental_has_file": a != nil, "batch_has_file": b != nil}
		}
		if a == nil || string(a) == string(b) {
			continue
		}
		fa, fb := new(descriptorpb.FileDescriptorProto), new(descriptorpb.FileDescriptorProto)
		ea, eb := proto.Unmarshal(a, fa), proto.Unmarshal(b, fb)
		if ea != nil || eb != nil {
			return "descriptor bytes do not parse", map[string]any{"target": t}
		}
		if proto.Equal(fa, fb) {
			continue
		}
		ds := diffFDP(fb, fa, nil) // "stable" slot = batch, "experimental" slot = incremental
		cls := map[string]bool{}
		for _, d := range ds {
			cls[d.Class] = true
		}
		if len(ds) > 8 {
			ds = ds[:8]
		}
		return "descriptor differs: " + strings.Join(sortedKeys(cls), "; "), map[string]any{"target": t, "differences(batch=stable slot, incremental=experimental slot)": ds}
	}
	ka, kb := snapKeys(inc.Snaps), snapKeys(batch.Snaps)
	if strings.Join(ka, "\n") != strings.Join(kb, "\n") {
		if tieTolerantEqual(inc.Snaps, batch.Snaps) {
			// Only the order inside groups of diagnostics that tie on
			// Canonicalize's sort keys differs. Fresh executors themselves produce
			// every such order (C36 decides that defect), so any of them IS what
			// a brand-new executor gives.
			return "tie-order", nil
		}
		what := classifySeqDiff(batch.Snaps, inc.Snaps)
		eg := ""
		seen := map[string]int{}
		for _, k := range kb {
			seen[k]++
		}
		extra, missing := 0, 0
		for i, k := range ka {
			if seen[k] > 0 {
				seen[k]--
			} else {
				if extra == 0 {
					eg = "; e.g. only incremental: " + normMsg(inc.Snaps[i].Message)
				}
				extra++
			}
		}
		for i, k := range kb {
			if seen[k] > 0 {
				seen[k]--
				if missing == 0 {
					eg += "; e.g. only batch: " + normMsg(batch.Snaps[i].Message)
				}
				missing++
			}
		}
		switch {
		case extra > 0 && missing == 0:
			what = "incremental run reports diagnostics the batch run does not"
		case missing > 0 && extra == 0:
			what = "incremental run lacks diagnostics the batch run reports"
		case extra > 0:
			what = "incremental and batch runs report different diagnostic sets"
		}
		seq := func(ss []diagSnap) []string {
			var out []string
			for _, d := range ss {
				out = append(out, fmt.Sprintf("%s:%d-%d L%d %s", d.File, d.Start, d.End, d.Level, truncStr(d.Message, 50)))
			}
			return out
		}
		return "diagnostics differ: " + what + eg, map[string]any{"first_difference(baseline=batch, other=incremental)": firstDiff(batch.Snaps, inc.Snaps),
			"incremental_count": len(ka), "batch_count": len(kb), "batch_sequence": seq(batch.Snaps), "incremental_sequence": seq(inc.Snaps)}
	}
	return "", nil
}

// tieTolerantEqual compares two diagnostic sequences group by group, a group
// being a maximal run of consecutive diagnostics with the same observable
// Canonicalize sort key (path, start, end, tag, message); groups must match as
// multisets.
func tieTolerantEqual(a, b []diagSnap) bool {
	if len(a) != len(b) {
		return false
	}
	for i := 0; i < len(a); {
		j := i
		for j < len(a) && sortKeyOf(a[j]) == sortKeyOf(a[i]) {
			j++
		}
		ga, gb := snapKeys(a[i:j]), snapKeys(b[i:j])
		sort.Strings(ga)
		sort.Strings(gb)
		for k := range ga {
			if ga[k] != gb[k] {
				return false
			}
		}
		i = j
	}
	return true
}

// c35Step applies one edit (already reflected in files) to the long-lived
// environment, evicts the touched paths, re-runs and compares with a fresh
// environment. It returns false when a violation was reported.
func c35Step(r *vlib.Run, id string, env *expEnv, par int, files map[string]string, targets, touched []string, name string, step int, history []map[string]any, deleted []string) bool {
	ctx := context.Background()
	if step > 0 {
		for _, p := range touched {
			if t, ok := files[p]; ok {
				env.Map.Add(p, t)
			} else {
				delete(env.Map.Get(), p)
			}
		}
		keys := make([]any, 0, 2*len(touched)+2)
		if step%2 == 1 {
			// a watcher also reports files this executor never compiled; Evict documents that keys that are not
			// cached are ignored, wherever they stand in the list
			keys = append(keys, queries.File{Opener: env.Opener, Path: "never/compiled.proto", ReportError: false})
		}
		for _, p := range touched {
			keys = append(keys, queries.File{Opener: env.Opener, Path: p, ReportError: false},
				queries.File{Opener: env.Opener, Path: p, ReportError: true})
		}
		env.Exec.Evict(keys...)
	}
	if env.cancelAt > 0 {
		// a compilation that is superseded half-way (an editor cancels it with a cause when the k-th file is opened);
		// whatever it left behind must not show in the next, complete, compilation
		cctx, cancel := context.WithCancelCause(ctx)
		var n atomic.Int32
		k := int32(env.cancelAt)
		f := func(string) {
			if n.Add(1) == k {
				cancel(fmt.Errorf("compilation superseded by a newer edit"))
			}
		}
		env.hook.onOpen.Store(&f)
		_ = env.runLink(cctx, targets)
		env.hook.onOpen.Store(nil)
		cancel(nil)
		r.Class("cancelled compilation attempt before the step")
	}
	inc := c35Observe(env.runLink(ctx, targets), targets)
	batch := c35Observe(newExpEnv(files, par).runLink(ctx, targets), targets)
	what, detail := c35Compare(inc, batch, targets)
	if what == "tie-order" {
		r.Class("order-among-sort-key-ties-differs (not decided here; see C36)")
		what = ""
	}
	if what != "" {
		// Is the incremental result one a brand-new executor can give? Batch
		// runs are not deterministic on this tree (C36); a mismatch counts
		// only if no fresh run at the same parallelism reproduces it.
		for k := 0; k < 200 && what != ""; k++ {
			again := c35Observe(newExpEnv(files, par).runLink(ctx, targets), targets)
			if w2, _ := c35Compare(inc, again, targets); w2 == "" || w2 == "tie-order" {
				r.Class("mismatch-reproduced-by-another-fresh-run (batch nondeterminism; see C36)")
				what = ""
			}
		}
	}
	key := ""
	if len(touched) > 0 {
		w := &workspace{Files: files, Targets: targets}
		key = fmt.Sprintf("%s\x00%d\x00%s", w.contentKey(), step, name)
	}
	r.Eval(key)
	r.Class("edit:" + name)
	if what == "" {
		return true
	}
	fc := map[string]string{}
	for p, t := range files {
		fc[p] = t
	}
	wit := map[string]any{"history": history, "failing_step": step, "edit": name, "touched": touched,
		"files_after_edit": fc, "targets": targets, "deleted": deleted, "parallelism": par, "fresh_runs_tried": 201, "cancelled_attempt_at_open": env.cancelAt}
	for k, v := range detail {
		wit[k] = v
	}
	if cyc := importCycleIn(files); cyc != "" {
		// which member of an import cycle reports it, and which import edge the descriptors drop, depends on the
		// order of evaluation; a long-lived executor with memoized members starts elsewhere than a fresh one. The
		// history goes on: once the cycle is repaired the two must agree again.
		wit["import_cycle"] = cyc
		r.Violation("incremental.differs-from-batch", "while the workspace has an import cycle: "+strings.SplitN(what, ":", 2)[0], id, wit)
		return true
	}
	r.Violation("incremental.differs-from-batch", "after "+editKind(name)+": "+what, id, wit)
	return false
}

var c35ImportRe = regexp.MustCompile(`(?m)^import\s+(?:public\s+|weak\s+)?"([^"]+)"\s*;`)

// importCycleIn returns a cycle among the present files ("" if none), e.g. "a.proto -> b.proto -> a.proto".
func importCycleIn(files map[string]string) string {
	adj := map[string][]string{}
	for p, t := range files {
		for _, m := range c35ImportRe.FindAllStringSubmatch(t, -1) {
			if _, ok := files[m[1]]; ok {
				adj[p] = append(adj[p], m[1])
			}
		}
		sort.Strings(adj[p])
	}
	state := map[string]int{}
	var stack []string
	var found string
	var dfs func(p string)
	dfs = func(p string) {
		if found != "" {
			return
		}
		state[p] = 1
		stack = append(stack, p)
		for _, q := range adj[p] {
			switch state[q] {
			case 0:
				dfs(q)
			case 1:
				for i, x := range stack {
					if x == q && found == "" {
						found = strings.Join(append(append([]string{}, stack[i:]...), q), " -> ")
					}
				}
			}
		}
		stack = stack[:len(stack)-1]
		state[p] = 2
	}
	for _, p := range sortedKeys(files) {
		if state[p] == 0 {
			dfs(p)
		}
	}
	return found
}

// Handwritten histories: each step is the complete file set.
type c35FixedHistory struct {
	Name    string
	Targets []string
	Steps   []map[string]string
}

const (
	c35Hdr = "syntax = \"proto3\";\npackage pkgduplicates;\n"
)

var c35Fixed = []c35FixedHistory{
	{
		// A name first seen in a LATER step is interned after the names of
		// earlier steps in the long-lived session, whereas a fresh session
		// interns in declaration order.
		Name:    "new-duplicate-declared-before-an-older-nested-duplicate",
		Targets: []string{"a.proto", "b.proto"},
		Steps: []map[string]string{
			{"a.proto": c35Hdr + "message BravoMessage {}\n", "b.proto": c35Hdr + "message BravoMessage { message NestedMessage {} }\n"},
			{"a.proto": c35Hdr + "message AlphaMessage {}\nmessage BravoMessage {}\n", "b.proto": c35Hdr + "message AlphaMessage {}\nmessage BravoMessage { message NestedMessage {} }\n"},
		},
	},
	{
		Name:    "type-change-seen-by-importer-then-reverted",
		Targets: []string{"use.proto", "def.proto"},
		Steps: []map[string]string{
			{"def.proto": "syntax = \"proto3\";\npackage fixedhist;\nmessage Payload { int32 a = 1; }\n", "use.proto": "syntax = \"proto3\";\npackage fixedhist;\nimport \"def.proto\";\nmessage User { Payload p = 1; }\n"},
			{"def.proto": "syntax = \"proto3\";\npackage fixedhist;\nenum Payload { PAYLOAD_ZERO = 0; }\n", "use.proto": "syntax = \"proto3\";\npackage fixedhist;\nimport \"def.proto\";\nmessage User { Payload p = 1; }\n"},
			{"use.proto": "syntax = \"proto3\";\npackage fixedhist;\nimport \"def.proto\";\nmessage User { Payload p = 1; }\n"},
			{"def.proto": "syntax = \"proto3\";\npackage fixedhist;\nmessage Payload { int32 a = 1; }\n", "use.proto": "syntax = \"proto3\";\npackage fixedhist;\nimport \"def.proto\";\nmessage User { Payload p = 1; }\n"},
		},
	},
}

func runC35Fixed(r *vlib.Run, h c35FixedHistory) {
	id := "fixed/" + h.Name
	for _, par := range []int{1, 4} {
		env := newExpEnv(h.Steps[0], par)
		var history []map[string]any
		prev := h.Steps[0]
		for step, files := range h.Steps {
			touched := map[string]bool{}
			if step > 0 {
				for p, t := range files {
					if o, ok := prev[p]; !ok || o != t {
						touched[p] = true
					}
				}
				for p := range prev {
					if _, ok := files[p]; !ok {
						touched[p] = true
					}
				}
			}
			name := "fixed-step"
			if step == 0 {
				name = "initial-compile"
			}
			history = append(history, map[string]any{"step": step, "edit": name, "touched": sortedKeys(touched), "files": files})
			if !c35Step(r, id, env, par, files, h.Targets, sortedKeys(touched), name, step, history, nil) {
				return
			}
			prev = files
		}
	}
}

func TestC35(t *testing.T) {
	r := vlib.Start(t, "C35")
	defer r.Finish()
	r.Extra("rule", "generated workspaces of 3–8 files in a mutable source.Map; histories of 3–10 edits drawn from {add field / change field type / add enum value in an imported file, rename a message importers use, break / remove / repair an import, close a ring of 2-4 imports and later break it at a random member, delete an imported file, add a file that was imported but missing, touch without change, re-run without edit, introduce / remove a cross-file duplicate symbol, introduce / repair a syntax error or duplicate tag}. "+
		"After every edit: evict queries.File{Opener,Path,ReportError:false|true} for the touched paths, re-run queries.Link on the long-lived executor+session, compare descriptors (fdp.DescriptorProtoBytes per requested file) and diagnostics (level, tag, message, file, primary span, notes, help, debug, every annotation, rendered text) with a fresh executor+session+opener on the same files. one evaluation = one compared step; distinct = distinct (file contents, step); non-trivial = the step touched at least one path and the batch result has a descriptor or a diagnostic")
	r.Extra("assumptions", []string{
		"fresh (batch) runs are NOT deterministic on this tree (C36 decides that): an order difference confined to groups of diagnostics that tie on Canonicalize's observable sort keys is not a mismatch, and any other mismatch is reported only if none of 200 further fresh executors at the same parallelism reproduces the incremental result (counted in classes 'mismatch-reproduced-by-another-fresh-run')",
		"the Workspace object of queries.Link is reused across steps (its key is compared by identity), as a long-lived client would",
	})
	for i, h := range c35Fixed {
		if r.Want("fixed/"+h.Name) && r.Mine(i) {
			runC35Fixed(r, h)
		}
	}
	n := r.N(160, 6000)
	r.Par(n, func(i int) {
		id := fmt.Sprintf("hist/%d", i)
		if !r.Want(id) {
			return
		}
		rng := r.Rng(id)
		g := genWorkspace(rng.Fork("ws"), rng.Range(3, 8))
		st := &c35State{g: g, files: map[string]string{}, deleted: map[string]bool{}}
		for _, f := range g.Files {
			st.targets = append(st.targets, f.Path)
		}
		// some histories start with an imported file missing
		if imp := st.importedFiles(); len(imp) > 0 && rng.Chance(0.3) {
			st.deleted[vlib.Pick(rng, imp).Path] = true
		}
		st.sync()
		par := vlib.Pick(rng, []int{0, 1, 2, 8})
		env := newExpEnv(st.files, par)
		var history []map[string]any
		steps := rng.Range(3, 10)
		for step := 0; step <= steps; step++ {
			var touched []string
			name := "initial-compile"
			if step > 0 {
				applied := false
				for try := 0; try < 12 && !applied; try++ {
					e := c35Edits[rng.Intn(len(c35Edits))]
					if e.Apply(st, rng) {
						applied, name = true, e.Name
					}
				}
				if !applied {
					name = "rerun-without-edit"
				} else if rng.Chance(0.3) {
					// two edits in one step (e.g. a new file and a change to its importer): one eviction call with several keys
					for try := 0; try < 6; try++ {
						e := c35Edits[rng.Intn(len(c35Edits))]
						if e.Name != name && e.Apply(st, rng) {
							name = name + " + " + e.Name
							break
						}
					}
				}
				touched = st.sync()
			}
			cancelAt := 0
			if step > 0 && rng.Chance(0.2) {
				cancelAt = rng.Range(1, 6)
			}
			env.cancelAt = cancelAt
			history = append(history, map[string]any{"step": step, "edit": name, "touched": touched})
			if !c35Step(r, id, env, par, st.files, st.targets, touched, name, step, history, sortedKeys(st.deleted)) {
				return // the long-lived state is off; later steps would repeat the finding
			}
		}
		if i == 0 {
			r.Sample("history", history)
		}
	})
}

// editKind groups edit names into the classes the signature speaks about.
func editKind(name string) string {
	switch name {
	case "initial-compile":
		return "the initial compile (no edit yet)"
	case "rerun-without-edit":
		return "a re-run without any edit or eviction"
	case "touch-without-change":
		return "a touch without change"
	}
	return "an edit with eviction of the touched files"
}

var _ = sort.Strings
