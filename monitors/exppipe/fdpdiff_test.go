package exppipe

import (
	"bytes"
	"fmt"
	"math"
	"sort"
	"strconv"
	"strings"

	"google.golang.org/protobuf/encoding/protowire"
	"google.golang.org/protobuf/proto"
	"google.golang.org/protobuf/reflect/protoreflect"
	"google.golang.org/protobuf/types/descriptorpb"

	"github.com/bufbuild/protocompile/linker"
)

// normalizeFDP clears source code info and re-decodes the descriptor against
// the schema visible to the stable compiler's result for the same file, so
// that an extension value is a *known* field on both sides no matter how the
// producer stored it. Nothing else is changed: a value that cannot be decoded
// against the schema (wrong wire type, unknown number) stays in the unknown
// fields and is compared byte-wise (after canonical ordering by field number).
func normalizeFDP(fd *descriptorpb.FileDescriptorProto, res linker.Resolver) (*descriptorpb.FileDescriptorProto, error) {
	c := proto.Clone(fd).(*descriptorpb.FileDescriptorProto)
	c.SourceCodeInfo = nil
	b, err := proto.MarshalOptions{Deterministic: true, AllowPartial: true}.Marshal(c)
	if err != nil {
		return nil, err
	}
	out := new(descriptorpb.FileDescriptorProto)
	if err := (proto.UnmarshalOptions{Resolver: res, AllowPartial: true}).Unmarshal(b, out); err != nil {
		return nil, err
	}
	return out, nil
}

// fdpDiff is one difference between two descriptor protos.
type fdpDiff struct {
	Class string `json:"class"` // stable classification (no names, no indices)
	Path  string `json:"path"`  // concrete path with indices and names
	How   string `json:"how"`   // only-stable | only-exp | value | len | unknown-bytes
	A     string `json:"stable"`
	B     string `json:"experimental"`
}

type differ struct {
	res   linker.Resolver
	diffs []fdpDiff
}

func pathElemClass(fd protoreflect.FieldDescriptor) string {
	if fd.IsExtension() {
		return "(ext)"
	}
	if strings.HasPrefix(string(fd.ContainingMessage().FullName()), "google.protobuf.") {
		return string(fd.Name())
	}
	return "<custom-field>"
}

func pathElem(fd protoreflect.FieldDescriptor) string {
	if fd.IsExtension() {
		return "(" + string(fd.FullName()) + ")"
	}
	return string(fd.Name())
}

func kindOf(fd protoreflect.FieldDescriptor) string {
	k := fd.Kind().String()
	if fd.IsMap() {
		return "map"
	}
	if fd.IsList() {
		return "repeated " + k
	}
	return k
}

func valString(v protoreflect.Value, fd protoreflect.FieldDescriptor) string {
	if !v.IsValid() {
		return "<unset>"
	}
	switch x := v.Interface().(type) {
	case protoreflect.Message:
		b, _ := proto.MarshalOptions{Deterministic: true, AllowPartial: true}.Marshal(x.Interface())
		return fmt.Sprintf("%s{%x}", x.Descriptor().FullName(), b)
	case protoreflect.List:
		var parts []string
		for i := 0; i < x.Len(); i++ {
			parts = append(parts, valString(x.Get(i), fd))
		}
		return "[" + strings.Join(parts, ", ") + "]"
	case protoreflect.Map:
		var parts []string
		x.Range(func(k protoreflect.MapKey, v protoreflect.Value) bool {
			parts = append(parts, k.String()+":"+valString(v, fd.MapValue()))
			return true
		})
		sort.Strings(parts)
		return "{" + strings.Join(parts, ", ") + "}"
	case []byte:
		return fmt.Sprintf("%q", x)
	case string:
		return strconv.Quote(x)
	case protoreflect.EnumNumber:
		if fd != nil && fd.Enum() != nil {
			if ev := fd.Enum().Values().ByNumber(x); ev != nil {
				return string(ev.Name())
			}
		}
		return strconv.Itoa(int(x))
	case float32:
		return strconv.FormatFloat(float64(x), 'g', -1, 32)
	case float64:
		return strconv.FormatFloat(x, 'g', -1, 64)
	}
	s := fmt.Sprint(v.Interface())
	if len(s) > 300 {
		s = s[:300] + "…"
	}
	return s
}

func trunc(s string) string {
	if len(s) > 400 {
		return s[:400] + "…"
	}
	return s
}

func (d *differ) add(class, path, how, a, b string) {
	d.diffs = append(d.diffs, fdpDiff{Class: class, Path: path, How: how, A: trunc(a), B: trunc(b)})
}

func scalarEqual(fd protoreflect.FieldDescriptor, a, b protoreflect.Value) bool {
	switch fd.Kind() {
	case protoreflect.FloatKind:
		// like proto.Equal: every NaN equals every NaN; otherwise bit-exact (distinguishes -0 from +0)
		if math.IsNaN(a.Float()) && math.IsNaN(b.Float()) {
			return true
		}
		return math.Float32bits(float32(a.Float())) == math.Float32bits(float32(b.Float()))
	case protoreflect.DoubleKind:
		if math.IsNaN(a.Float()) && math.IsNaN(b.Float()) {
			return true
		}
		return math.Float64bits(a.Float()) == math.Float64bits(b.Float())
	case protoreflect.BytesKind:
		return bytes.Equal(a.Bytes(), b.Bytes())
	default:
		return a.Interface() == b.Interface()
	}
}

// canonUnknown sorts the unknown-field records by field number (stable
// within one number), so that only content — not emission order across
// different numbers — is compared.
func canonUnknown(b []byte) string {
	type rec struct {
		num protowire.Number
		raw []byte
	}
	var recs []rec
	for len(b) > 0 {
		num, typ, n := protowire.ConsumeTag(b)
		if n < 0 {
			return fmt.Sprintf("malformed:%x", b)
		}
		m := protowire.ConsumeFieldValue(num, typ, b[n:])
		if m < 0 {
			return fmt.Sprintf("malformed:%x", b)
		}
		recs = append(recs, rec{num, b[:n+m]})
		b = b[n+m:]
	}
	sort.SliceStable(recs, func(i, j int) bool { return recs[i].num < recs[j].num })
	var sb strings.Builder
	for _, r := range recs {
		fmt.Fprintf(&sb, "%x ", r.raw)
	}
	return sb.String()
}

func (d *differ) message(cls, path string, a, b protoreflect.Message) {
	// the classification names the innermost descriptor.proto message, not
	// the route to it (nesting depth, message vs. file scope are irrelevant)
	if n := string(a.Descriptor().FullName()); strings.HasPrefix(n, "google.protobuf.") && a.Descriptor().FullName() == b.Descriptor().FullName() {
		cls = strings.TrimPrefix(n, "google.protobuf.")
	}
	// union of populated fields (extension fields are enumerated by Range)
	type ent struct {
		fd   protoreflect.FieldDescriptor
		a, b protoreflect.Value
	}
	ents := map[string]*ent{}
	var order []string
	key := func(fd protoreflect.FieldDescriptor) string {
		return fmt.Sprintf("%09d/%s", fd.Number(), fd.FullName())
	}
	a.Range(func(fd protoreflect.FieldDescriptor, v protoreflect.Value) bool {
		k := key(fd)
		ents[k] = &ent{fd: fd, a: v}
		order = append(order, k)
		return true
	})
	b.Range(func(fd protoreflect.FieldDescriptor, v protoreflect.Value) bool {
		k := key(fd)
		if e, ok := ents[k]; ok {
			e.b = v
		} else {
			ents[k] = &ent{fd: fd, b: v}
			order = append(order, k)
		}
		return true
	})
	sort.Strings(order)
	for _, k := range order {
		e := ents[k]
		fd := e.fd
		c := cls + "." + pathElemClass(fd)
		if pathElemClass(fd) == "<custom-field>" && strings.HasSuffix(cls, ".<custom-field>") {
			c = cls // collapse nesting inside custom option messages
		}
		p := path + "." + pathElem(fd)
		if !e.a.IsValid() || !e.b.IsValid() {
			how := "only-stable"
			if !e.a.IsValid() {
				how = "only-exp"
			}
			d.add(d.leafClass(c, fd, how, a, b, e.a, e.b), p, how, valString(e.a, fd), valString(e.b, fd))
			continue
		}
		switch {
		case fd.IsMap():
			ma, mb := e.a.Map(), e.b.Map()
			keys := map[string]protoreflect.MapKey{}
			ma.Range(func(k protoreflect.MapKey, _ protoreflect.Value) bool { keys[k.String()] = k; return true })
			mb.Range(func(k protoreflect.MapKey, _ protoreflect.Value) bool { keys[k.String()] = k; return true })
			for _, ks := range sortedKeys(keys) {
				mk := keys[ks]
				va, vb := ma.Get(mk), mb.Get(mk)
				pp := p + "[" + ks + "]"
				if !va.IsValid() || !vb.IsValid() {
					how := "only-stable"
					if !va.IsValid() {
						how = "only-exp"
					}
					d.add(c+"[key] "+how, pp, how, valString(va, fd.MapValue()), valString(vb, fd.MapValue()))
					continue
				}
				d.value(c+"[key]", pp, fd.MapValue(), a, b, va, vb)
			}
		case fd.IsList():
			la, lb := e.a.List(), e.b.List()
			if la.Len() != lb.Len() {
				d.add(fmt.Sprintf("%s len [%s]", c, kindOf(fd)), p, "len", valString(e.a, fd), valString(e.b, fd))
				continue
			}
			for i := 0; i < la.Len(); i++ {
				d.value(c+"[]", fmt.Sprintf("%s[%d]", p, i), fd, a, b, la.Get(i), lb.Get(i))
			}
		default:
			d.value(c, p, fd, a, b, e.a, e.b)
		}
	}
	ua, ub := canonUnknown(a.GetUnknown()), canonUnknown(b.GetUnknown())
	if ua != ub {
		d.add(cls+".<unknown-fields> differ", path+".<unknown-fields>", "unknown-bytes", ua, ub)
	}
}

func (d *differ) value(cls, path string, fd protoreflect.FieldDescriptor, pa, pb protoreflect.Message, a, b protoreflect.Value) {
	if fd.Kind() == protoreflect.MessageKind || fd.Kind() == protoreflect.GroupKind {
		d.message(cls, path, a.Message(), b.Message())
		return
	}
	if !scalarEqual(fd, a, b) {
		d.add(d.leafClass(cls, fd, "value", pa, pb, a, b), path, "value", valString(a, fd), valString(b, fd))
	}
}

// leafClass builds the classification of a leaf difference. For
// FieldDescriptorProto.default_value it looks at the declared type of the
// field and at the two texts to say HOW they differ.
func (d *differ) leafClass(cls string, fd protoreflect.FieldDescriptor, how string, pa, pb protoreflect.Message, a, b protoreflect.Value) string {
	base := fmt.Sprintf("%s %s [%s]", cls, how, kindOf(fd))
	if how == "value" && (fd.Kind() == protoreflect.DoubleKind || fd.Kind() == protoreflect.FloatKind) && !fd.IsList() {
		x, y := a.Float(), b.Float()
		switch {
		case math.Nextafter(x, y) == y && fd.Kind() == protoreflect.DoubleKind:
			base += " adjacent values (1 ulp apart)"
		case fd.Kind() == protoreflect.FloatKind && math.Nextafter32(float32(x), float32(y)) == float32(y):
			base += " adjacent values (1 ulp apart)"
		case x == y:
			base += " differ in the sign of zero"
		}
	}
	if fd.FullName() != "google.protobuf.FieldDescriptorProto.default_value" || how != "value" {
		return base
	}
	fa, ok1 := pa.Interface().(*descriptorpb.FieldDescriptorProto)
	fb, ok2 := pb.Interface().(*descriptorpb.FieldDescriptorProto)
	if !ok1 || !ok2 || fa.GetType() != fb.GetType() {
		return base + " field type differs too"
	}
	sa, sb := a.String(), b.String()
	t := fa.GetType()
	detail := "different value"
	switch t {
	case descriptorpb.FieldDescriptorProto_TYPE_FLOAT:
		x, e1 := strconv.ParseFloat(sa, 64)
		y, e2 := strconv.ParseFloat(sb, 64)
		if e1 == nil && e2 == nil && math.Float32bits(float32(x)) == math.Float32bits(float32(y)) {
			detail = "texts denote the same float32"
			if x != y {
				detail += " but different float64"
			}
		}
	case descriptorpb.FieldDescriptorProto_TYPE_DOUBLE:
		x, e1 := strconv.ParseFloat(sa, 64)
		y, e2 := strconv.ParseFloat(sb, 64)
		if e1 == nil && e2 == nil && math.Float64bits(x) == math.Float64bits(y) {
			detail = "texts denote the same float64"
		} else if e1 == nil && e2 == nil && (math.Nextafter(x, y) == y) {
			detail = "texts denote adjacent float64 values (1 ulp apart)"
		}
	case descriptorpb.FieldDescriptorProto_TYPE_ENUM:
		detail = "enum value names"
		if fa.GetTypeName() == fb.GetTypeName() && d.res != nil {
			if dd, err := d.res.FindDescriptorByName(protoreflect.FullName(strings.TrimPrefix(fa.GetTypeName(), "."))); err == nil {
				if ed, ok := dd.(protoreflect.EnumDescriptor); ok {
					va, vb := ed.Values().ByName(protoreflect.Name(sa)), ed.Values().ByName(protoreflect.Name(sb))
					switch {
					case va != nil && vb != nil && va.Number() == vb.Number():
						detail = "two names of the same number (aliased enum)"
					case va != nil && vb != nil:
						detail = "names of different numbers"
					default:
						detail = "a name that is not a value of the enum"
					}
				}
			}
		}
	case descriptorpb.FieldDescriptorProto_TYPE_BYTES, descriptorpb.FieldDescriptorProto_TYPE_STRING:
		detail = "different text"
	}
	return fmt.Sprintf("%s of %s: %s", base, t, detail)
}

// diffFDP compares two normalised descriptors.
func diffFDP(stable, exp *descriptorpb.FileDescriptorProto, res linker.Resolver) []fdpDiff {
	d := &differ{res: res}
	d.message("FileDescriptorProto", "file", stable.ProtoReflect(), exp.ProtoReflect())
	return d.diffs
}
