package exppipe

import "github.com/bufbuild/protocompile/internal/verifmon/vlib"

func c27Generated(r *vlib.Run) {}
