package exppipe

import (
	"fmt"
	"sort"
	"strings"

	"github.com/bufbuild/protocompile/internal/verifmon/vlib"
)

// ---------------------------------------------------------------------------
// A small schema generator: builds a MODEL of a multi-file workspace and
// renders it to source. All simple names are unique across the workspace (so
// every spelling of a reference is unambiguous and the programs are valid by
// construction); packages deliberately share prefixes.
// ---------------------------------------------------------------------------

type gEnumVal struct {
	Name string
	Num  int
	Opts []string
}

type gEnum struct {
	Name     string
	Full     string
	Vals     []gEnumVal
	Alias    bool
	Reserved []string // raw "reserved …;" statements
	Opts     []string // raw option statements (without "option" and ";")
	Closed   bool     // semantic: closed enum (proto2 / editions CLOSED)
	file     *gFile
}

type gField struct {
	Label string // "", optional, required, repeated
	Type  string // as spelled
	Kind  string // scalar | message | enum | map | group
	Name  string
	Num   int
	Opts  []string // raw field options e.g. `default = 5`
	Group *gMsg    // for Kind == group
	Ref   string   // full name of the referenced type (message/enum)
}

type gOneof struct {
	Name   string
	Fields []*gField
	Opts   []string
}

type gMsg struct {
	Name     string
	Full     string
	Fields   []*gField
	Oneofs   []*gOneof
	Nested   []*gMsg
	Enums    []*gEnum
	Exts     []*gExtend
	ExtRange [][2]int // extension ranges
	Reserved []string // raw statements
	Opts     []string
	file     *gFile
}

type gExtend struct {
	Extendee     string // as spelled
	ExtendeeFull string
	Fields       []*gField
}

type gMethod struct {
	Name              string
	In, Out           string
	InStream, OutStrm bool
	Opts              []string
}

type gSvc struct {
	Name    string
	Methods []gMethod
	Opts    []string
}

type gImport struct {
	Path     string
	Modifier string // "", public, weak
}

type gFile struct {
	Path        string
	Syntax      string // proto2 | proto3 | editions
	Pkg         string
	Imports     []gImport
	Opts        []string
	Msgs        []*gMsg
	Enums       []*gEnum
	Exts        []*gExtend
	Svcs        []*gSvc
	closedEnums bool // enums of this file are closed unless overridden
	// raw text appended at the end (used by mutators)
	Tail string
	// raw text that replaces the whole file (used by mutators)
	Raw *string
}

type gWorkspace struct {
	Files []*gFile
	// option schema file index (-1 when none)
	OptFile int
	uid     int
	rng     *vlib.RNG
}

func (g *gWorkspace) name(prefix string) string {
	g.uid++
	return fmt.Sprintf("%s%d", prefix, g.uid)
}

// ---------------------------------------------------------------------------
// Rendering
// ---------------------------------------------------------------------------

type pr struct {
	b   strings.Builder
	ind int
}

func (p *pr) line(format string, args ...any) {
	p.b.WriteString(strings.Repeat("  ", p.ind))
	fmt.Fprintf(&p.b, format, args...)
	p.b.WriteByte('\n')
}

func (f *gFile) render() string {
	if f.Raw != nil {
		return *f.Raw
	}
	p := &pr{}
	switch f.Syntax {
	case "editions":
		p.line(`edition = "2023";`)
	case "":
	default:
		p.line(`syntax = "%s";`, f.Syntax)
	}
	if f.Pkg != "" {
		p.line("package %s;", f.Pkg)
	}
	for _, im := range f.Imports {
		if im.Modifier != "" {
			p.line(`import %s "%s";`, im.Modifier, im.Path)
		} else {
			p.line(`import "%s";`, im.Path)
		}
	}
	for _, o := range f.Opts {
		p.line("option %s;", o)
	}
	for _, e := range f.Enums {
		e.render(p)
	}
	for _, m := range f.Msgs {
		m.render(p, "message")
	}
	for _, x := range f.Exts {
		x.render(p)
	}
	for _, s := range f.Svcs {
		p.line("service %s {", s.Name)
		p.ind++
		for _, o := range s.Opts {
			p.line("option %s;", o)
		}
		for _, m := range s.Methods {
			in, out := m.In, m.Out
			if m.InStream {
				in = "stream " + in
			}
			if m.OutStrm {
				out = "stream " + out
			}
			if len(m.Opts) == 0 {
				p.line("rpc %s(%s) returns (%s);", m.Name, in, out)
			} else {
				p.line("rpc %s(%s) returns (%s) {", m.Name, in, out)
				p.ind++
				for _, o := range m.Opts {
					p.line("option %s;", o)
				}
				p.ind--
				p.line("}")
			}
		}
		p.ind--
		p.line("}")
	}
	p.b.WriteString(f.Tail)
	return p.b.String()
}

func (e *gEnum) render(p *pr) {
	p.line("enum %s {", e.Name)
	p.ind++
	if e.Alias {
		p.line("option allow_alias = true;")
	}
	for _, o := range e.Opts {
		p.line("option %s;", o)
	}
	for _, v := range e.Vals {
		if len(v.Opts) > 0 {
			p.line("%s = %d [%s];", v.Name, v.Num, strings.Join(v.Opts, ", "))
		} else {
			p.line("%s = %d;", v.Name, v.Num)
		}
	}
	for _, r := range e.Reserved {
		p.line("%s", r)
	}
	p.ind--
	p.line("}")
}

func (f *gField) render(p *pr) {
	lab := f.Label
	if lab != "" {
		lab += " "
	}
	opts := ""
	if len(f.Opts) > 0 {
		opts = " [" + strings.Join(f.Opts, ", ") + "]"
	}
	if f.Kind == "group" {
		p.line("%sgroup %s = %d%s {", lab, f.Group.Name, f.Num, opts)
		p.ind++
		f.Group.body(p)
		p.ind--
		p.line("}")
		return
	}
	p.line("%s%s %s = %d%s;", lab, f.Type, f.Name, f.Num, opts)
}

func (m *gMsg) body(p *pr) {
	for _, o := range m.Opts {
		p.line("option %s;", o)
	}
	for _, e := range m.Enums {
		e.render(p)
	}
	for _, n := range m.Nested {
		n.render(p, "message")
	}
	for _, f := range m.Fields {
		f.render(p)
	}
	for _, o := range m.Oneofs {
		p.line("oneof %s {", o.Name)
		p.ind++
		for _, op := range o.Opts {
			p.line("option %s;", op)
		}
		for _, f := range o.Fields {
			f.render(p)
		}
		p.ind--
		p.line("}")
	}
	for _, r := range m.ExtRange {
		if r[1] == r[0] {
			p.line("extensions %d;", r[0])
		} else if r[1] >= 536870911 {
			p.line("extensions %d to max;", r[0])
		} else {
			p.line("extensions %d to %d;", r[0], r[1])
		}
	}
	for _, r := range m.Reserved {
		p.line("%s", r)
	}
	for _, x := range m.Exts {
		x.render(p)
	}
}

func (m *gMsg) render(p *pr, kw string) {
	p.line("%s %s {", kw, m.Name)
	p.ind++
	m.body(p)
	p.ind--
	p.line("}")
}

func (x *gExtend) render(p *pr) {
	p.line("extend %s {", x.Extendee)
	p.ind++
	for _, f := range x.Fields {
		f.render(p)
	}
	p.ind--
	p.line("}")
}

func (g *gWorkspace) workspace(name string) *workspace {
	w := &workspace{Name: name, Files: map[string]string{}}
	for _, f := range g.Files {
		w.Files[f.Path] = f.render()
		w.Targets = append(w.Targets, f.Path)
	}
	return w
}

// ---------------------------------------------------------------------------
// Generation
// ---------------------------------------------------------------------------

var gPackages = []string{"pa", "pa.pb", "pa.pb.pc", "px", "px.py", "pa.pq", ""}

var scalarTypes = []string{"int32", "int64", "uint32", "uint64", "sint32", "sint64", "fixed32", "fixed64",
	"sfixed32", "sfixed64", "float", "double", "bool", "string", "bytes"}

// typeInfo describes a type a file may reference.
type typeInfo struct {
	Full   string
	IsEnum bool
	Enum   *gEnum
	Msg    *gMsg
	file   *gFile
	HasExt bool // message with an extension range
}

// visibleFiles computes own ∪ direct imports ∪ public closure of those.
func (g *gWorkspace) visibleFiles(f *gFile) []*gFile {
	byPath := map[string]*gFile{}
	for _, x := range g.Files {
		byPath[x.Path] = x
	}
	seen := map[string]bool{f.Path: true}
	out := []*gFile{f}
	var pub func(x *gFile)
	pub = func(x *gFile) {
		for _, im := range x.Imports {
			if im.Modifier == "public" {
				if t := byPath[im.Path]; t != nil && !seen[t.Path] {
					seen[t.Path] = true
					out = append(out, t)
					pub(t)
				}
			}
		}
	}
	for _, im := range f.Imports {
		if t := byPath[im.Path]; t != nil && !seen[t.Path] {
			seen[t.Path] = true
			out = append(out, t)
		}
		if t := byPath[im.Path]; t != nil {
			pub(t)
		}
	}
	return out
}

func collectTypes(f *gFile) []typeInfo {
	var out []typeInfo
	var walk func(m *gMsg)
	walk = func(m *gMsg) {
		out = append(out, typeInfo{Full: m.Full, Msg: m, file: f, HasExt: len(m.ExtRange) > 0})
		for _, e := range m.Enums {
			out = append(out, typeInfo{Full: e.Full, IsEnum: true, Enum: e, file: f})
		}
		for _, n := range m.Nested {
			walk(n)
		}
		for _, fl := range m.Fields {
			if fl.Kind == "group" {
				walk(fl.Group)
			}
		}
	}
	for _, e := range f.Enums {
		out = append(out, typeInfo{Full: e.Full, IsEnum: true, Enum: e, file: f})
	}
	for _, m := range f.Msgs {
		walk(m)
	}
	return out
}

// spell renders a reference to a full name from within a scope (the full
// name of the enclosing message, or the package). With workspace-unique
// simple names every suffix that starts at a component boundary *after the
// common package prefix* resolves to the intended element under protoc's
// scoping rules.
func (g *gWorkspace) spell(full, scopePkg string) string {
	switch g.rng.Intn(4) {
	case 0:
		return "." + full
	case 1:
		return full
	}
	// relative: drop the longest common leading package components
	fp := strings.Split(full, ".")
	var sp []string
	if scopePkg != "" {
		sp = strings.Split(scopePkg, ".")
	}
	i := 0
	for i < len(fp)-1 && i < len(sp) && fp[i] == sp[i] {
		i++
	}
	return strings.Join(fp[i:], ".")
}

func join(pkg, name string) string {
	if pkg == "" {
		return name
	}
	return pkg + "." + name
}

func (g *gWorkspace) genEnum(f *gFile, scope string, closed bool) *gEnum {
	r := g.rng
	e := &gEnum{Name: g.name("E"), file: f, Closed: closed}
	e.Full = join(scope, e.Name)
	n := r.Range(1, 5)
	start := 0
	if closed && r.Chance(0.3) {
		start = r.Range(-3, 3)
	}
	for i := 0; i < n; i++ {
		v := gEnumVal{Name: strings.ToUpper(e.Name) + fmt.Sprintf("_V%d", i), Num: start + i}
		if r.Chance(0.1) {
			v.Opts = append(v.Opts, "deprecated = true")
		}
		e.Vals = append(e.Vals, v)
	}
	if n >= 2 && r.Chance(0.35) {
		// aliases: extra names for existing numbers, before or after
		e.Alias = true
		k := r.Range(1, 2)
		for i := 0; i < k; i++ {
			src := e.Vals[r.Intn(n)]
			al := gEnumVal{Name: strings.ToUpper(e.Name) + fmt.Sprintf("_ALIAS%d", i), Num: src.Num}
			if r.Bool() && (closed || src.Num == e.Vals[0].Num) {
				// put the alias FIRST (an open enum keeps 0 first because the
				// alias then carries the first value's number)
				e.Vals = append([]gEnumVal{al}, e.Vals...)
			} else {
				e.Vals = append(e.Vals, al)
			}
		}
	}
	if r.Chance(0.2) {
		e.Reserved = append(e.Reserved, fmt.Sprintf("reserved %d to %d;", 100, 100+r.Intn(5)))
	}
	if r.Chance(0.15) {
		if f.Syntax == "editions" {
			e.Reserved = append(e.Reserved, fmt.Sprintf(`reserved %s;`, "R_"+g.name("N")))
		} else {
			e.Reserved = append(e.Reserved, fmt.Sprintf(`reserved "%s";`, "R_"+g.name("N")))
		}
	}
	if r.Chance(0.1) {
		e.Opts = append(e.Opts, "deprecated = true")
	}
	if f.Syntax == "editions" && e.Vals[0].Num == 0 && r.Chance(0.15) {
		if r.Bool() {
			e.Opts = append(e.Opts, "features.enum_type = CLOSED")
			e.Closed = true
		} else {
			e.Opts = append(e.Opts, "features.enum_type = OPEN")
			e.Closed = false
		}
	}
	return e
}

func intDefault(r *vlib.RNG, t string) string {
	switch t {
	case "int32", "sint32", "sfixed32":
		return vlib.Pick(r, []string{"0", "1", "-1", "2147483647", "-2147483648", "0x7f", "017", "42"})
	case "int64", "sint64", "sfixed64":
		return vlib.Pick(r, []string{"0", "-1", "9223372036854775807", "-9223372036854775808", "0xFFFF", "123456789012"})
	case "uint32", "fixed32":
		return vlib.Pick(r, []string{"0", "1", "4294967295", "0xffffffff", "07"})
	default:
		return vlib.Pick(r, []string{"0", "1", "18446744073709551615", "0xdeadbeef"})
	}
}

func floatDefault(r *vlib.RNG) string {
	return vlib.Pick(r, []string{"0", "1", "-1", "1.5", "-2.25", "3.14", "0.1", "1e10", "1e-5", "6.022e23", "inf", "-inf", "nan",
		"1.", ".5", "1e+3", "100", "-0.0", "16777217", "3.4028235e38", "1e39", "2.5e-45", "123456789"})
}

func strDefault(r *vlib.RNG) string {
	return vlib.Pick(r, []string{`""`, `"abc"`, `'single'`, `"tab\there"`, `"q\"uote"`, `"\x41\102\n"`, `"unié"`, `"a" "b"`, `"nul\0byte"`, `"\\"`, `"sp ace"`, `"\377\376"`,
		// escapes directly followed by a character that could continue them
		`"\0015"`, `"\1012"`, `"\778"`, `"\x41F"`, `"\x4g"`, `"\u00e9a"`, `"\U0001F6000"`, `"\7\07\007\0007"`, `"\xfff"`})
}

// scalarField fills type/options of a scalar field.
func (g *gWorkspace) scalarOpts(f *gFile, fl *gField, allowDefault, isExt, inOneof bool) {
	r := g.rng
	t := fl.Type
	if allowDefault && fl.Label != "repeated" && r.Chance(0.5) {
		switch t {
		case "float", "double":
			fl.Opts = append(fl.Opts, "default = "+floatDefault(r))
		case "bool":
			fl.Opts = append(fl.Opts, "default = "+vlib.Pick(r, []string{"true", "false"}))
		case "string":
			d := strDefault(r)
			if d == `"\377\376"` {
				d = `"ok"` // invalid UTF-8 is a bytes-only default
			}
			fl.Opts = append(fl.Opts, "default = "+d)
		case "bytes":
			fl.Opts = append(fl.Opts, "default = "+strDefault(r))
		default:
			fl.Opts = append(fl.Opts, "default = "+intDefault(r, t))
		}
	}
	if fl.Label == "repeated" && t != "string" && t != "bytes" && r.Chance(0.3) {
		if f.Syntax == "editions" {
			fl.Opts = append(fl.Opts, "features.repeated_field_encoding = "+vlib.Pick(r, []string{"PACKED", "EXPANDED"}))
		} else {
			fl.Opts = append(fl.Opts, "packed = "+vlib.Pick(r, []string{"true", "false"}))
		}
	}
	if r.Chance(0.1) {
		fl.Opts = append(fl.Opts, "deprecated = true")
	}
	if !isExt && r.Chance(0.1) {
		fl.Opts = append(fl.Opts, fmt.Sprintf(`json_name = "%s"`, "j"+g.name("n")))
	}
	if f.Syntax == "editions" && !isExt && !inOneof && fl.Label == "" && r.Chance(0.2) {
		p := vlib.Pick(r, []string{"EXPLICIT", "IMPLICIT", "LEGACY_REQUIRED"})
		if p == "IMPLICIT" {
			var keep []string
			for _, o := range fl.Opts {
				if !strings.HasPrefix(o, "default = ") {
					keep = append(keep, o)
				}
			}
			fl.Opts = keep
		}
		fl.Opts = append(fl.Opts, "features.field_presence = "+p)
	}
	if (t == "int64" || t == "uint64" || t == "fixed64" || t == "sfixed64" || t == "sint64") && r.Chance(0.15) {
		fl.Opts = append(fl.Opts, "jstype = "+vlib.Pick(r, []string{"JS_STRING", "JS_NUMBER", "JS_NORMAL"}))
	}
	if t == "string" && r.Chance(0.1) {
		fl.Opts = append(fl.Opts, "ctype = "+vlib.Pick(r, []string{"CORD", "STRING_PIECE", "STRING"}))
	}
	if t == "string" && f.Syntax == "editions" && r.Chance(0.15) {
		fl.Opts = append(fl.Opts, "features.utf8_validation = "+vlib.Pick(r, []string{"NONE", "VERIFY"}))
	}
}

func (g *gWorkspace) label(f *gFile, allowRequired bool) string {
	r := g.rng
	switch f.Syntax {
	case "proto2":
		if allowRequired && r.Chance(0.1) {
			return "required"
		}
		if r.Chance(0.3) {
			return "repeated"
		}
		return "optional"
	case "proto3":
		switch r.Intn(4) {
		case 0:
			return "repeated"
		case 1:
			return "optional"
		}
		return ""
	default: // editions
		if r.Chance(0.3) {
			return "repeated"
		}
		return ""
	}
}

// genField makes one field of a message; vis is the set of visible types.
func (g *gWorkspace) genField(f *gFile, m *gMsg, num int, vis []typeInfo, inOneof bool) *gField {
	r := g.rng
	fl := &gField{Name: g.name("f"), Num: num}
	if !inOneof {
		fl.Label = g.label(f, true)
	}
	allowDefault := f.Syntax != "proto3"
	roll := r.Intn(10)
	switch {
	case roll < 5 || len(vis) == 0:
		fl.Kind = "scalar"
		fl.Type = vlib.Pick(r, scalarTypes)
		g.scalarOpts(f, fl, allowDefault, false, inOneof)
	case roll < 9:
		t := vlib.Pick(r, vis)
		fl.Ref = t.Full
		fl.Type = g.spell(t.Full, f.Pkg)
		if t.IsEnum {
			fl.Kind = "enum"
			// proto3 (open-enum syntax) may not reference a closed enum
			if f.Syntax == "proto3" && t.Enum.Closed {
				fl.Kind = "scalar"
				fl.Type = "int32"
				fl.Ref = ""
				break
			}
			if allowDefault && fl.Label != "repeated" && r.Chance(0.6) {
				fl.Opts = append(fl.Opts, "default = "+vlib.Pick(r, t.Enum.Vals).Name)
			}
		} else {
			fl.Kind = "message"
			if fl.Label == "required" {
				fl.Label = "optional"
			}
			if f.Syntax == "editions" && r.Chance(0.2) {
				fl.Opts = append(fl.Opts, "features.message_encoding = "+vlib.Pick(r, []string{"DELIMITED", "LENGTH_PREFIXED"}))
			}
			if r.Chance(0.1) && len(fl.Opts) == 0 {
				fl.Opts = append(fl.Opts, "lazy = true")
			}
		}
	default:
		if inOneof {
			fl.Kind = "scalar"
			fl.Type = "string"
			break
		}
		fl.Kind = "map"
		fl.Label = ""
		key := vlib.Pick(r, []string{"int32", "int64", "uint32", "uint64", "sint32", "sint64", "fixed32", "fixed64", "sfixed32", "sfixed64", "bool", "string"})
		val := vlib.Pick(r, scalarTypes)
		if len(vis) > 0 && r.Bool() {
			t := vlib.Pick(r, vis)
			if !(t.IsEnum && (f.Syntax == "proto3" && t.Enum.Closed || t.Enum.Vals[0].Num != 0)) {
				val = g.spell(t.Full, f.Pkg)
				fl.Ref = t.Full
			}
		}
		fl.Type = fmt.Sprintf("map<%s, %s>", key, val)
	}
	return fl
}

func (g *gWorkspace) genMsg(f *gFile, scope string, depth int, vis []typeInfo) *gMsg {
	r := g.rng
	m := &gMsg{Name: g.name("M"), file: f}
	m.Full = join(scope, m.Name)
	// nested declarations first so that fields can refer to them
	local := append([]typeInfo(nil), vis...)
	if depth < 2 && r.Chance(0.4) {
		k := r.Range(1, 2)
		for i := 0; i < k; i++ {
			n := g.genMsg(f, m.Full, depth+1, local)
			m.Nested = append(m.Nested, n)
			local = append(local, typeInfo{Full: n.Full, Msg: n, file: f})
		}
	}
	if r.Chance(0.35) {
		e := g.genEnum(f, m.Full, f.closedEnums)
		m.Enums = append(m.Enums, e)
		local = append(local, typeInfo{Full: e.Full, IsEnum: true, Enum: e, file: f})
	}
	// self reference allowed
	local = append(local, typeInfo{Full: m.Full, Msg: m, file: f})
	num := 1
	nf := r.Range(0, 6)
	for i := 0; i < nf; i++ {
		m.Fields = append(m.Fields, g.genField(f, m, num, local, false))
		num += r.Range(1, 3)
		if num >= 19000 && num <= 19999 {
			num = 20000
		}
	}
	if f.Syntax == "proto2" && r.Chance(0.15) {
		grp := &gMsg{Name: g.name("G"), file: f}
		grp.Full = join(m.Full, grp.Name)
		grp.Fields = append(grp.Fields, &gField{Label: "optional", Type: "int32", Kind: "scalar", Name: g.name("f"), Num: 1})
		m.Fields = append(m.Fields, &gField{Label: vlib.Pick(r, []string{"optional", "repeated"}), Kind: "group", Name: strings.ToLower(grp.Name), Num: num, Group: grp})
		num++
	}
	if r.Chance(0.3) {
		o := &gOneof{Name: g.name("o")}
		k := r.Range(1, 3)
		for i := 0; i < k; i++ {
			o.Fields = append(o.Fields, g.genField(f, m, num, local, true))
			num++
		}
		m.Oneofs = append(m.Oneofs, o)
	}
	if f.Syntax != "proto3" && r.Chance(0.3) {
		lo := num + 100
		m.ExtRange = append(m.ExtRange, [2]int{lo, lo + r.Range(0, 50)})
		if r.Chance(0.3) {
			m.ExtRange = append(m.ExtRange, [2]int{lo + 1000, 536870911})
		}
	}
	if r.Chance(0.25) {
		lo := num + 50
		m.Reserved = append(m.Reserved, fmt.Sprintf("reserved %d, %d to %d;", lo, lo+2, lo+5))
	}
	if r.Chance(0.15) {
		if f.Syntax == "editions" {
			m.Reserved = append(m.Reserved, fmt.Sprintf("reserved %s;", "r"+g.name("n")))
		} else {
			m.Reserved = append(m.Reserved, fmt.Sprintf(`reserved "%s";`, "r"+g.name("n")))
		}
	}
	if r.Chance(0.1) {
		m.Opts = append(m.Opts, "deprecated = true")
	}
	if f.Syntax == "editions" && r.Chance(0.2) {
		m.Opts = append(m.Opts, "features.json_format = "+vlib.Pick(r, []string{"ALLOW", "LEGACY_BEST_EFFORT"}))
	}
	return m
}

// stripForImplicit removes what implicit presence forbids from the DIRECT
// fields of a message (features inherit lexically into nested messages too).
func (m *gMsg) stripForImplicit() {
	var strip func(x *gMsg)
	strip = func(x *gMsg) {
		fix := func(fl *gField) {
			var keep []string
			for _, o := range fl.Opts {
				if !strings.HasPrefix(o, "default = ") {
					keep = append(keep, o)
				}
			}
			fl.Opts = keep
			if fl.Kind == "enum" {
				// closed enums are not allowed in implicit-presence fields
				fl.Kind, fl.Type, fl.Ref = "scalar", "int32", ""
			}
		}
		for _, fl := range x.Fields {
			fix(fl)
		}
		for _, n := range x.Nested {
			strip(n)
		}
	}
	strip(m)
}

// optSchema describes the custom options of the options file.
type optSchema struct {
	pkg                                        string
	msgFull, enumFull                          string
	fileI32, fileStr, fileMsg, fileRep, fileEn string
	msgI32, msgMsg                             string
	fieldStr, fieldF                           string
	enumB, evI64, svcStr, mtdMsg, oneofI32     string
	msgFields                                  []string // names of fields of the option message
}

// genOptionsFile builds a file that extends the descriptor options.
func (g *gWorkspace) genOptionsFile(path string) (*gFile, *optSchema) {
	f := &gFile{Path: path, Syntax: "proto2", Pkg: vlib.Pick(g.rng, []string{"po", "pa.po", "px.opt"})}
	f.Imports = []gImport{{Path: "google/protobuf/descriptor.proto"}}
	s := &optSchema{pkg: f.Pkg}
	// option message + enum
	oe := &gEnum{Name: g.name("OE"), file: f, Closed: true}
	oe.Full = join(f.Pkg, oe.Name)
	oe.Vals = []gEnumVal{{Name: "OE_A", Num: 0}, {Name: "OE_B", Num: 1}, {Name: "OE_C", Num: 5}}
	f.Enums = append(f.Enums, oe)
	s.enumFull = oe.Full
	om := &gMsg{Name: g.name("OM"), file: f}
	om.Full = join(f.Pkg, om.Name)
	sub := &gMsg{Name: g.name("OS"), file: f}
	sub.Full = join(om.Full, sub.Name)
	sub.Fields = []*gField{{Label: "optional", Type: "int32", Kind: "scalar", Name: "c", Num: 1}, {Label: "repeated", Type: "string", Kind: "scalar", Name: "names", Num: 2}}
	om.Nested = []*gMsg{sub}
	om.Fields = []*gField{
		{Label: "optional", Type: "int32", Kind: "scalar", Name: "a", Num: 1},
		{Label: "optional", Type: "string", Kind: "scalar", Name: "b", Num: 2},
		{Label: "optional", Type: sub.Name, Kind: "message", Name: "sub", Num: 3},
		{Label: "repeated", Type: "int64", Kind: "scalar", Name: "r", Num: 4},
		{Label: "optional", Type: oe.Name, Kind: "enum", Name: "e", Num: 5},
		{Label: "optional", Type: "double", Kind: "scalar", Name: "d", Num: 6},
		{Label: "optional", Type: "bytes", Kind: "scalar", Name: "y", Num: 7},
		{Label: "repeated", Type: sub.Name, Kind: "message", Name: "subs", Num: 8},
		{Type: "map<string, int32>", Kind: "map", Name: "m", Num: 9},
		{Label: "optional", Type: "uint64", Kind: "scalar", Name: "u", Num: 10},
		{Label: "optional", Type: "sint32", Kind: "scalar", Name: "s", Num: 11},
		{Label: "optional", Type: "bool", Kind: "scalar", Name: "t", Num: 12},
		{Label: "optional", Type: "float", Kind: "scalar", Name: "fl", Num: 13},
		{Label: "optional", Type: "fixed32", Kind: "scalar", Name: "fx", Num: 14},
	}
	om.ExtRange = [][2]int{{100, 200}}
	f.Msgs = append(f.Msgs, om)
	s.msgFull = om.Full
	base := 50000 + g.rng.Intn(1000)*20
	ext := func(extendee string, fields ...*gField) {
		f.Exts = append(f.Exts, &gExtend{Extendee: "google.protobuf." + extendee, ExtendeeFull: "google.protobuf." + extendee, Fields: fields})
	}
	nm := func(p string) string { return g.name(p) }
	mk := func(label, typ, kind, name string, off int) *gField {
		return &gField{Label: label, Type: typ, Kind: kind, Name: name, Num: base + off}
	}
	n1, n2, n3, n4, n5 := nm("opt_i"), nm("opt_s"), nm("opt_m"), nm("opt_r"), nm("opt_e")
	ext("FileOptions", mk("optional", "int32", "scalar", n1, 0), mk("optional", "string", "scalar", n2, 1),
		mk("optional", om.Name, "message", n3, 2), mk("repeated", "int32", "scalar", n4, 3), mk("optional", oe.Name, "enum", n5, 4))
	s.fileI32, s.fileStr, s.fileMsg, s.fileRep, s.fileEn = join(f.Pkg, n1), join(f.Pkg, n2), join(f.Pkg, n3), join(f.Pkg, n4), join(f.Pkg, n5)
	n6, n7 := nm("opt_i"), nm("opt_m")
	ext("MessageOptions", mk("optional", "int32", "scalar", n6, 0), mk("optional", om.Name, "message", n7, 1))
	s.msgI32, s.msgMsg = join(f.Pkg, n6), join(f.Pkg, n7)
	n8, n9 := nm("opt_s"), nm("opt_f")
	ext("FieldOptions", mk("optional", "string", "scalar", n8, 0), mk("optional", "float", "scalar", n9, 1))
	s.fieldStr, s.fieldF = join(f.Pkg, n8), join(f.Pkg, n9)
	n10 := nm("opt_b")
	ext("EnumOptions", mk("optional", "bool", "scalar", n10, 0))
	s.enumB = join(f.Pkg, n10)
	n11 := nm("opt_l")
	ext("EnumValueOptions", mk("optional", "int64", "scalar", n11, 0))
	s.evI64 = join(f.Pkg, n11)
	n12 := nm("opt_s")
	ext("ServiceOptions", mk("optional", "string", "scalar", n12, 0))
	s.svcStr = join(f.Pkg, n12)
	n13 := nm("opt_m")
	ext("MethodOptions", mk("optional", om.Name, "message", n13, 0))
	s.mtdMsg = join(f.Pkg, n13)
	n14 := nm("opt_i")
	ext("OneofOptions", mk("optional", "int32", "scalar", n14, 0))
	s.oneofI32 = join(f.Pkg, n14)
	return f, s
}

func (g *gWorkspace) msgLiteral(s *optSchema) string {
	r := g.rng
	var parts []string
	sep := vlib.Pick(r, []string{" ", ", ", "; "})
	if r.Bool() {
		parts = append(parts, fmt.Sprintf("a: %d", r.Range(-5, 500)))
	}
	if r.Bool() {
		parts = append(parts, "b: "+vlib.Pick(r, []string{`"x"`, `'y'`, `"a" "b"`, `"\t"`}))
	}
	if r.Bool() {
		parts = append(parts, vlib.Pick(r, []string{"sub { c: 2 }", "sub: { c: 3 names: \"n\" }", "sub < c: 4 >", `sub { names: ["p", "q"] }`}))
	}
	if r.Bool() {
		parts = append(parts, vlib.Pick(r, []string{"r: [1, 2, 3]", "r: 1" + sep + "r: 2", "r: []", "r: -7"}))
	}
	if r.Bool() {
		parts = append(parts, "e: "+vlib.Pick(r, []string{"OE_A", "OE_B", "OE_C"}))
	}
	if r.Bool() {
		parts = append(parts, "d: "+vlib.Pick(r, []string{"1.5", "inf", "-inf", "nan", "1e3", "3", "-0.25"}))
	}
	if r.Chance(0.3) {
		parts = append(parts, `y: "\001\002"`)
	}
	if r.Chance(0.3) {
		parts = append(parts, "subs { c: 1 }"+sep+"subs { c: 2 }")
	}
	if r.Chance(0.3) {
		parts = append(parts, `m { key: "k" value: 1 }`+sep+`m { key: "j" value: 2 }`)
	}
	if r.Chance(0.2) {
		parts = append(parts, "u: 18446744073709551615")
	}
	if r.Chance(0.2) {
		parts = append(parts, "s: -3")
	}
	if r.Chance(0.2) {
		parts = append(parts, "t: true")
	}
	if r.Chance(0.2) {
		parts = append(parts, "fl: "+vlib.Pick(r, []string{"0.5", "3.14", "1e10"}))
	}
	if r.Chance(0.2) {
		parts = append(parts, "fx: 7")
	}
	if len(parts) == 0 {
		return "{}"
	}
	vlib.Shuffle(r, parts)
	return "{ " + strings.Join(parts, sep) + " }"
}

// decorate sprinkles custom options over a file that imports the option schema.
func (g *gWorkspace) decorate(f *gFile, s *optSchema) {
	r := g.rng
	ref := func(full string) string {
		if r.Bool() {
			return "(." + full + ")"
		}
		return "(" + full + ")"
	}
	if r.Chance(0.6) {
		f.Opts = append(f.Opts, fmt.Sprintf("%s = %d", ref(s.fileI32), r.Range(-100, 100)))
	}
	if r.Chance(0.5) {
		f.Opts = append(f.Opts, fmt.Sprintf(`%s = "v%d"`, ref(s.fileStr), r.Intn(100)))
	}
	if r.Chance(0.6) {
		switch r.Intn(3) {
		case 0:
			f.Opts = append(f.Opts, fmt.Sprintf("%s = %s", ref(s.fileMsg), g.msgLiteral(s)))
		case 1:
			f.Opts = append(f.Opts, fmt.Sprintf("%s.a = %d", ref(s.fileMsg), r.Intn(50)), fmt.Sprintf(`%s.b = "z"`, ref(s.fileMsg)))
		default:
			f.Opts = append(f.Opts, fmt.Sprintf("%s.sub.c = %d", ref(s.fileMsg), r.Intn(50)), fmt.Sprintf(`%s.r = 4`, ref(s.fileMsg)), fmt.Sprintf(`%s.r = 5`, ref(s.fileMsg)))
		}
	}
	if r.Chance(0.5) {
		f.Opts = append(f.Opts, fmt.Sprintf("%s = 3", ref(s.fileRep)), fmt.Sprintf("%s = 1", ref(s.fileRep)))
	}
	if r.Chance(0.4) {
		f.Opts = append(f.Opts, fmt.Sprintf("%s = %s", ref(s.fileEn), vlib.Pick(r, []string{"OE_A", "OE_B", "OE_C"})))
	}
	var walk func(m *gMsg)
	walk = func(m *gMsg) {
		if r.Chance(0.4) {
			m.Opts = append(m.Opts, fmt.Sprintf("%s = %d", ref(s.msgI32), r.Intn(1000)))
		}
		if r.Chance(0.3) {
			m.Opts = append(m.Opts, fmt.Sprintf("%s = %s", ref(s.msgMsg), g.msgLiteral(s)))
		}
		for _, fl := range m.Fields {
			if fl.Kind == "group" {
				continue
			}
			if r.Chance(0.25) {
				fl.Opts = append(fl.Opts, fmt.Sprintf(`%s = "fo%d"`, ref(s.fieldStr), r.Intn(100)))
			}
			if r.Chance(0.15) {
				fl.Opts = append(fl.Opts, fmt.Sprintf(`%s = %s`, ref(s.fieldF), vlib.Pick(r, []string{"1.5", "0.1", "inf", "-3", "1e-3"})))
			}
		}
		for _, o := range m.Oneofs {
			if r.Chance(0.3) {
				o.Opts = append(o.Opts, fmt.Sprintf("%s = %d", ref(s.oneofI32), r.Intn(9)))
			}
		}
		for _, e := range m.Enums {
			g.decorateEnum(e, s, ref)
		}
		for _, n := range m.Nested {
			walk(n)
		}
	}
	for _, m := range f.Msgs {
		walk(m)
	}
	for _, e := range f.Enums {
		g.decorateEnum(e, s, ref)
	}
	for _, sv := range f.Svcs {
		if r.Chance(0.5) {
			sv.Opts = append(sv.Opts, fmt.Sprintf(`%s = "svc"`, ref(s.svcStr)))
		}
		for i := range sv.Methods {
			if r.Chance(0.4) {
				sv.Methods[i].Opts = append(sv.Methods[i].Opts, fmt.Sprintf("%s = %s", ref(s.mtdMsg), g.msgLiteral(s)))
			}
		}
	}
}

func (g *gWorkspace) decorateEnum(e *gEnum, s *optSchema, ref func(string) string) {
	r := g.rng
	if r.Chance(0.3) {
		e.Opts = append(e.Opts, fmt.Sprintf("%s = true", ref(s.enumB)))
	}
	for i := range e.Vals {
		if r.Chance(0.15) {
			e.Vals[i].Opts = append(e.Vals[i].Opts, fmt.Sprintf("%s = %d", ref(s.evI64), r.Range(-9, 9)))
		}
	}
}

// genWorkspace builds a workspace of n files (plus, maybe, an option schema).
func genWorkspace(rng *vlib.RNG, n int) *gWorkspace {
	g := &gWorkspace{rng: rng, OptFile: -1}
	r := rng
	var schema *optSchema
	if r.Chance(0.5) {
		of, s := g.genOptionsFile("opts/schema.proto")
		g.Files = append(g.Files, of)
		g.OptFile = 0
		schema = s
	}
	for i := 0; i < n; i++ {
		f := &gFile{Path: fmt.Sprintf("d%d/f%d.proto", i%2, i), Syntax: vlib.Pick(r, []string{"proto2", "proto2", "proto3", "proto3", "editions"})}
		f.Pkg = vlib.Pick(r, gPackages)
		// imports: a subset of earlier non-schema files
		var prior []*gFile
		for _, p := range g.Files {
			if schema != nil && p == g.Files[g.OptFile] {
				continue
			}
			prior = append(prior, p)
		}
		for _, p := range prior {
			if r.Chance(0.45) {
				mod := ""
				if r.Chance(0.35) {
					mod = "public"
				}
				f.Imports = append(f.Imports, gImport{Path: p.Path, Modifier: mod})
			}
		}
		useOpts := schema != nil && r.Chance(0.7)
		if useOpts {
			f.Imports = append(f.Imports, gImport{Path: "opts/schema.proto"})
		}
		if r.Chance(0.15) {
			f.Imports = append(f.Imports, gImport{Path: "google/protobuf/timestamp.proto"})
		}
		// visible types from other files
		var vis []typeInfo
		wktTimestamp := false
		for _, im := range f.Imports {
			if im.Path == "google/protobuf/timestamp.proto" {
				wktTimestamp = true
			}
		}
		g.Files = append(g.Files, f)
		for _, v := range g.visibleFiles(f) {
			if v == f || (schema != nil && v == g.Files[g.OptFile]) {
				continue
			}
			vis = append(vis, collectTypes(v)...)
		}
		// drop group-synthesised messages of other files? they are legal targets; keep.
		if f.Syntax == "editions" && r.Chance(0.4) {
			f.Opts = append(f.Opts, "features.field_presence = "+vlib.Pick(r, []string{"EXPLICIT", "EXPLICIT", "IMPLICIT"}))
		}
		if f.Syntax == "editions" && r.Chance(0.3) {
			f.Opts = append(f.Opts, "features.enum_type = "+vlib.Pick(r, []string{"OPEN", "CLOSED"}))
		}
		if f.Syntax == "editions" && r.Chance(0.2) {
			f.Opts = append(f.Opts, "features.json_format = "+vlib.Pick(r, []string{"ALLOW", "LEGACY_BEST_EFFORT"}))
		}
		fileImplicit := false
		fileClosed := f.Syntax == "proto2"
		for _, o := range f.Opts {
			if o == "features.field_presence = IMPLICIT" {
				fileImplicit = true
			}
			if o == "features.enum_type = CLOSED" {
				fileClosed = true
			}
		}
		if r.Chance(0.3) {
			f.Opts = append(f.Opts, fmt.Sprintf(`java_package = "com.example.f%d"`, i))
		}
		if r.Chance(0.2) {
			f.Opts = append(f.Opts, "optimize_for = "+vlib.Pick(r, []string{"SPEED", "CODE_SIZE", "LITE_RUNTIME"}))
		}
		if r.Chance(0.2) {
			f.Opts = append(f.Opts, "cc_enable_arenas = true")
		}
		if r.Chance(0.1) {
			f.Opts = append(f.Opts, "deprecated = true")
		}
		// file-level LITE_RUNTIME files may not be imported by non-lite files: avoid the rule
		for k, o := range f.Opts {
			if o == "optimize_for = LITE_RUNTIME" {
				f.Opts[k] = "optimize_for = CODE_SIZE"
			}
		}
		f.closedEnums = fileClosed
		local := append([]typeInfo(nil), vis...)
		ne := r.Range(0, 2)
		for k := 0; k < ne; k++ {
			e := g.genEnum(f, f.Pkg, fileClosed)
			f.Enums = append(f.Enums, e)
			local = append(local, typeInfo{Full: e.Full, IsEnum: true, Enum: e, file: f})
		}
		nm := r.Range(1, 4)
		for k := 0; k < nm; k++ {
			m := g.genMsg(f, f.Pkg, 0, local)
			f.Msgs = append(f.Msgs, m)
			local = append(local, collectTypesMsg(m, f)...)
		}
		if wktTimestamp {
			tm := &gMsg{Name: g.name("Ts"), file: f}
			tm.Full = join(f.Pkg, tm.Name)
			tm.Fields = append(tm.Fields, &gField{Label: map[string]string{"proto2": "optional"}[f.Syntax], Type: "google.protobuf.Timestamp", Kind: "message", Name: g.name("f"), Num: 1})
			f.Msgs = append(f.Msgs, tm)
			local = append(local, typeInfo{Full: tm.Full, Msg: tm, file: f})
		}
		if fileImplicit {
			for _, m := range f.Msgs {
				m.stripForImplicit()
			}
		}
		// editions: closed enums cannot be used by implicit-presence fields; handled by stripForImplicit.
		// extensions of messages with extension ranges (own or visible)
		if f.Syntax != "proto3" {
			var targets []typeInfo
			for _, t := range local {
				if !t.IsEnum && t.Msg != nil && len(t.Msg.ExtRange) > 0 {
					targets = append(targets, t)
				}
			}
			if len(targets) > 0 && r.Chance(0.6) {
				t := vlib.Pick(r, targets)
				x := &gExtend{Extendee: g.spell(t.Full, f.Pkg), ExtendeeFull: t.Full}
				rg := t.Msg.ExtRange[0]
				k := 1 + r.Intn(2)
				for j := 0; j < k && rg[0]+j <= rg[1]; j++ {
					num := rg[0] + j + extSalt(g, t.Full)
					if num > rg[1] {
						break
					}
					fl := &gField{Label: vlib.Pick(r, []string{"optional", "repeated"}), Kind: "scalar", Type: vlib.Pick(r, scalarTypes), Name: g.name("x"), Num: num}
					if f.Syntax == "editions" {
						if fl.Label == "optional" {
							fl.Label = ""
						}
					}
					g.scalarOpts(f, fl, true, true, false)
					x.Fields = append(x.Fields, fl)
				}
				if len(x.Fields) > 0 {
					if r.Bool() || len(f.Msgs) == 0 {
						f.Exts = append(f.Exts, x)
					} else {
						// nested extend: spelled from inside a message, keep absolute
						x.Extendee = "." + t.Full
						f.Msgs[len(f.Msgs)-1].Exts = append(f.Msgs[len(f.Msgs)-1].Exts, x)
					}
				}
			}
		}
		// services
		if r.Chance(0.35) {
			var ms []typeInfo
			for _, t := range local {
				if !t.IsEnum {
					ms = append(ms, t)
				}
			}
			if len(ms) > 0 {
				sv := &gSvc{Name: g.name("S")}
				k := r.Range(1, 3)
				for j := 0; j < k; j++ {
					md := gMethod{Name: g.name("Rpc"), In: g.spell(vlib.Pick(r, ms).Full, f.Pkg), Out: g.spell(vlib.Pick(r, ms).Full, f.Pkg), InStream: r.Chance(0.25), OutStrm: r.Chance(0.25)}
					if r.Chance(0.2) {
						md.Opts = append(md.Opts, "idempotency_level = "+vlib.Pick(r, []string{"IDEMPOTENT", "NO_SIDE_EFFECTS"}))
					}
					if r.Chance(0.15) {
						md.Opts = append(md.Opts, "deprecated = true")
					}
					sv.Methods = append(sv.Methods, md)
				}
				f.Svcs = append(f.Svcs, sv)
			}
		}
		if useOpts {
			g.decorate(f, schema)
		}
	}
	return g
}

// extSalt spreads extension numbers of different extenders of the same
// extendee so that two files never claim the same number.
func extSalt(g *gWorkspace, extendee string) int {
	n := 0
	for _, f := range g.Files {
		count := func(xs []*gExtend) {
			for _, x := range xs {
				if x.ExtendeeFull == extendee {
					n += len(x.Fields)
				}
			}
		}
		count(f.Exts)
		var walk func(m *gMsg)
		walk = func(m *gMsg) {
			count(m.Exts)
			for _, c := range m.Nested {
				walk(c)
			}
		}
		for _, m := range f.Msgs {
			walk(m)
		}
	}
	return n
}

func collectTypesMsg(m *gMsg, f *gFile) []typeInfo {
	tmp := &gFile{Msgs: []*gMsg{m}}
	out := collectTypes(tmp)
	for i := range out {
		out[i].file = f
	}
	return out
}

// allMsgs lists every message of a file (nested and group-synthesised included).
func (f *gFile) allMsgs() []*gMsg {
	var out []*gMsg
	var walk func(m *gMsg)
	walk = func(m *gMsg) {
		out = append(out, m)
		for _, n := range m.Nested {
			walk(n)
		}
	}
	for _, m := range f.Msgs {
		walk(m)
	}
	return out
}

func (f *gFile) allEnums() []*gEnum {
	out := append([]*gEnum(nil), f.Enums...)
	for _, m := range f.allMsgs() {
		out = append(out, m.Enums...)
	}
	return out
}

func sortedFilePaths(g *gWorkspace) []string {
	var ps []string
	for _, f := range g.Files {
		ps = append(ps, f.Path)
	}
	sort.Strings(ps)
	return ps
}
