package exppipe

import (
	"context"
	"fmt"
	"sync"

	"github.com/bufbuild/protocompile/internal/verifmon/vlib"
)

// handcrafted workspaces: shapes worth having in every run regardless of seed.
var c27Fixed = []workspace{
	{
		// public-import diamond: S2 must be visible in c.proto through
		// a.proto => s.proto => s2.proto although b.proto (listed first in
		// a.proto) reaches s.proto through a plain import.
		Name: "public-import-diamond",
		Files: map[string]string{
			"s2.proto": "syntax = \"proto2\";\npackage d.s2;\nmessage S2 {}\n",
			"s.proto":  "syntax = \"proto2\";\npackage d.s;\nimport public \"s2.proto\";\nmessage S {}\n",
			"b.proto":  "syntax = \"proto2\";\npackage d;\nimport \"s.proto\";\nmessage B { optional d.s.S s = 1; }\n",
			"a.proto":  "syntax = \"proto2\";\npackage d;\nimport public \"b.proto\";\nimport public \"s.proto\";\nmessage A {}\n",
			"c.proto":  "syntax = \"proto2\";\npackage d;\nimport \"a.proto\";\nmessage C { optional B b = 1; optional s2.S2 x = 2; }\n",
		},
		Targets: []string{"c.proto"},
	},
	{
		Name: "public-import-chain",
		Files: map[string]string{
			"z.proto": "syntax = \"proto3\";\npackage ch;\nmessage Z {}\n",
			"y.proto": "syntax = \"proto3\";\npackage ch;\nimport public \"z.proto\";\n",
			"x.proto": "syntax = \"proto3\";\npackage ch;\nimport public \"y.proto\";\n",
			"w.proto": "syntax = \"proto3\";\npackage ch;\nimport \"x.proto\";\nmessage W { Z z = 1; }\n",
		},
		Targets: []string{"w.proto"},
	},
	{
		Name: "float-default-exact-and-inexact",
		Files: map[string]string{
			"f.proto": "syntax = \"proto2\";\nmessage F {\n optional float a = 1 [default = 1.5];\n optional float b = 2 [default = 3.14];\n optional double c = 3 [default = 3.14];\n optional float d = 4 [default = 1e39];\n optional float e = 5 [default = -inf];\n optional float f = 6 [default = nan];\n}\n",
		},
		Targets: []string{"f.proto"},
	},
	{
		Name: "enum-default-alias",
		Files: map[string]string{
			"e.proto": "syntax = \"proto2\";\nenum E { option allow_alias = true; A = 0; B = 1; B2 = 1; A2 = 0; }\nmessage M {\n optional E x = 1 [default = B2];\n optional E y = 2 [default = A2];\n optional E z = 3 [default = B];\n}\n",
		},
		Targets: []string{"e.proto"},
	},
}

type ruleStat struct {
	N, BothReject, BothAccept, Disagree, NotApplicable int
}

func c27Generated(r *vlib.Run) {
	for i := range c27Fixed {
		w := &c27Fixed[i]
		id := "fixed/" + w.Name
		if !r.Want(id) {
			continue
		}
		if !r.Mine(i) {
			continue
		}
		oc := c27Compare(r, id, "", w)
		r.Eval(w.contentKey())
		r.Class("fixed:" + verdictClass(oc))
	}

	nValid := r.N(400, 20000)
	r.Par(nValid, func(i int) {
		id := fmt.Sprintf("gen/%d", i)
		if !r.Want(id) {
			return
		}
		rng := r.Rng(id)
		g := genWorkspace(rng, rng.Range(2, 6))
		w := g.workspace(id)
		oc := c27Compare(r, id, "", w)
		r.Eval(w.contentKey())
		r.Class("generated:" + verdictClass(oc))
		if !oc.stableAccepts && !oc.expAccepts {
			r.Class("generated both-reject because: " + normMsg(oc.stableErr))
		}
		if i == 0 {
			r.Sample("generated-workspace", w.Files)
		}
	})

	var mu sync.Mutex
	stats := map[string]*ruleStat{}
	stat := func(rule string) *ruleStat {
		s := stats[rule]
		if s == nil {
			s = &ruleStat{}
			stats[rule] = s
		}
		return s
	}
	nMut := r.N(3, 100) * len(mutators)
	r.Par(nMut, func(i int) {
		id := fmt.Sprintf("mut/%d", i)
		if !r.Want(id) {
			return
		}
		m := mutators[i%len(mutators)]
		// the base is one of the valid-pass workspaces; find one the mutator applies to
		var g *gWorkspace
		applied := false
		for try := 0; try < 8 && !applied; try++ {
			base := fmt.Sprintf("gen/%d", (i/len(mutators)*131+try*17+i)%nValid)
			rng := r.Rng(base)
			g = genWorkspace(rng, rng.Range(2, 6))
			// only mutate bases both compilers accept
			bw := g.workspace(base)
			ctx := context.Background()
			if st := stableCompile(ctx, bw, 0); st.Err != nil {
				continue
			}
			if ex := newExpEnv(bw.Files, 0).runLink(ctx, bw.Targets); ex.rejected() {
				continue
			}
			applied = m.Apply(g, r.Rng(id))
		}
		mu.Lock()
		s := stat(m.Rule)
		s.N++
		mu.Unlock()
		if !applied {
			mu.Lock()
			s.NotApplicable++
			mu.Unlock()
			r.Class("mutant:not-applicable")
			return
		}
		w := g.workspace(id)
		oc := c27Compare(r, id, m.Rule, w)
		r.Eval(w.contentKey())
		mu.Lock()
		switch {
		case oc.stableAccepts != oc.expAccepts:
			s.Disagree++
		case oc.stableAccepts:
			s.BothAccept++
		default:
			s.BothReject++
		}
		mu.Unlock()
		r.Class("mutant:" + verdictClass(oc))
		if i < len(mutators) && i%16 == 0 {
			r.Sample("mutant:"+m.Rule, w.closure())
		}
	})
	r.Extra("mutant_rules", stats)
}
