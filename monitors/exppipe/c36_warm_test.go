package exppipe

import (
	"context"
	"fmt"
	"sort"
	"strings"
	"sync"
	"sync/atomic"

	"github.com/bufbuild/protocompile/internal/verifmon/vlib"
)

// (c) run determinism on a long-lived executor: a run's diagnostics must not
// depend on what the executor computed before (sequential history) or is
// computing at the same moment for another Run (concurrent history). The
// reference for a target list is a fresh executor + fresh session at
// parallelism 1.

func observeIR(env *expEnv, targets []string) runObs {
	out := env.runIR(context.Background(), targets)
	o := runObs{Panic: out.Panic}
	if out.Fatal != nil {
		o.Fatal = out.Fatal.Error()
	}
	o.Snaps = snapReport(out.Report, false)
	o.Rendered = renderReportFull(out.Report)
	return o
}

func diffObs(base, o runObs) string {
	switch {
	case o.Panic != base.Panic || o.Fatal != base.Fatal:
		return "fatal/panic outcome differs"
	case strings.Join(snapKeys(o.Snaps), "\n") != strings.Join(snapKeys(base.Snaps), "\n"):
		what := classifySeqDiff(base.Snaps, o.Snaps) + involving(base.Snaps, o.Snaps)
		if !strings.HasPrefix(what, "same diagnostics") && (hasMessage(base.Snaps, "detected cyclic import") || hasMessage(o.Snaps, "detected cyclic import")) {
			what = "[workspace has an import cycle] " + classifySeqDiff(base.Snaps, o.Snaps)
		}
		return what
	case o.Rendered != base.Rendered:
		return "accessors equal but RENDERED text differs"
	}
	return ""
}

func c36Warm(r *vlib.Run) {
	installPerturbation()
	perturbOn.Store(true)
	n := r.N(24, 300)
	var runs, seqRuns, concRuns atomic.Int64
	r.Par(n, func(i int) {
		id := fmt.Sprintf("warm/%d", i)
		if !r.Want(id) {
			return
		}
		rng := r.Rng(id)
		var w *workspace
		var rules []string
		if i%4 == 3 {
			w, rules = dupSymbolWorkspace(rng)
		} else {
			w, rules = invalidWorkspace(rng)
		}
		// candidate targets: every user file of the workspace
		var all []string
		for p := range w.Files {
			all = append(all, p)
		}
		sort.Strings(all)
		if len(all) < 2 {
			r.Eval("")
			return
		}
		// target lists: singles (up to 4), one pair, the workspace's own targets
		var lists [][]string
		for _, k := range rng.Perm(len(all)) {
			if len(lists) < 4 {
				lists = append(lists, []string{all[k]})
			}
		}
		p := rng.Perm(len(all))
		lists = append(lists, []string{all[p[0]], all[p[1]]})
		if len(w.Targets) > 0 {
			lists = append(lists, append([]string(nil), w.Targets...))
		}
		fresh := make([]runObs, len(lists))
		nDiag := 0
		for k, l := range lists {
			fresh[k] = observeIR(newExpEnv(w.Files, 1), l)
			nDiag += len(fresh[k].Snaps)
		}
		if nDiag == 0 {
			r.Eval("")
			r.Class("warm:no-diagnostics")
			return
		}
		r.Eval("warm\x00" + w.contentKey())
		reported := map[string]bool{}
		report := func(mode, what string, par int, order []int, k int, o runObs) {
			sig := mode + ": " + what
			if reported[sig] {
				return
			}
			reported[sig] = true
			hist := make([][]string, len(order))
			for j, x := range order {
				hist[j] = lists[x]
			}
			r.Violation("run.history-dependent-diagnostics", sig, id, map[string]any{
				"workspace": w.Files, "rules": rules, "parallelism": par, "history_of_target_lists": hist, "differing_targets": lists[k],
				"first_difference": firstDiff(fresh[k].Snaps, o.Snaps),
				"fresh_rendered":   truncStr(fresh[k].Rendered, 4000), "warm_rendered": truncStr(o.Rendered, 4000),
				"fresh_fatal": fresh[k].Fatal, "warm_fatal": o.Fatal, "fresh_panic": fresh[k].Panic, "warm_panic": o.Panic,
			})
		}
		for _, par := range []int{1, 4, 16} {
			// sequential history on one executor + session: every list in a random order, then again
			perturbSeed.Store(rng.Uint64())
			env := newExpEnv(w.Files, par)
			order := rng.Perm(len(lists))
			order = append(order, rng.Perm(len(lists))...)
			for j, k := range order {
				o := observeIR(env, lists[k])
				runs.Add(1)
				seqRuns.Add(1)
				if what := diffObs(fresh[k], o); what != "" {
					report("reused executor, sequential runs", what, par, order[:j+1], k, o)
				}
			}
			// concurrent Runs sharing one fresh executor + session
			perturbSeed.Store(rng.Uint64())
			env = newExpEnv(w.Files, par)
			obs := make([]runObs, len(lists))
			var wg sync.WaitGroup
			for k := range lists {
				wg.Add(1)
				go func(k int) {
					defer wg.Done()
					obs[k] = observeIR(env, lists[k])
				}(k)
			}
			wg.Wait()
			all := make([]int, len(lists))
			for k := range lists {
				all[k] = k
			}
			for k := range lists {
				runs.Add(1)
				concRuns.Add(1)
				if what := diffObs(fresh[k], obs[k]); what != "" {
					report("shared executor, concurrent Runs", what, par, all, k, obs[k])
				}
			}
		}
	})
	r.Extra("warm_runs_compared", runs.Load())
	r.Extra("warm_sequential_runs", seqRuns.Load())
	r.Extra("warm_concurrent_runs", concRuns.Load())
}
