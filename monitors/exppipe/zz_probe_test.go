package exppipe

import (
	"context"
	"fmt"
	"testing"
)

func TestZZProbe(t *testing.T) {
	cases := map[string]string{
		"closed-enum-plain-implicit-field": "edition = \"2023\";\npackage p;\noption features.field_presence = IMPLICIT;\nenum E { option features.enum_type = CLOSED; A = 0; }\nmessage M { E e = 1; }\n",
		"closed-enum-map-value-implicit":   "edition = \"2023\";\npackage p;\noption features.field_presence = IMPLICIT;\nenum E { option features.enum_type = CLOSED; A = 0; }\nmessage M { map<int32, E> m = 1; }\n",
		"implicit-with-default":            "edition = \"2023\";\npackage p;\nmessage M { int32 a = 1 [default = 4, features.field_presence = IMPLICIT]; }\n",
		"enum-default-by-number":           "syntax = \"proto2\";\npackage p;\nenum E { A = 0; }\nmessage M { optional E e = 1 [default = 0]; }\n",
		"required-extension":               "syntax = \"proto2\";\npackage p;\nmessage M { extensions 100 to 200; }\nextend M { required int32 x = 100; }\n",
		"optimize_for-by-number":           "syntax = \"proto2\";\npackage p;\noption optimize_for = 1;\n",
		"ctype-cord-on-extension":          "syntax = \"proto2\";\npackage p;\nmessage M { extensions 100 to 200; }\nextend M { optional string x = 100 [ctype = CORD]; }\n",
		"float-default":                    "syntax = \"proto2\";\npackage p;\nmessage M { optional float f = 1 [default = 3.14]; optional double d = 2 [default = 2.5e-45]; }\n",
		"option-field-of-scalar":           "syntax = \"proto2\";\npackage p;\noption java_package.sub = \"x\";\n",
	}
	for name, src := range cases {
		w := &workspace{Files: map[string]string{"t.proto": src}, Targets: []string{"t.proto"}}
		st := stableCompile(context.Background(), w, 1)
		ex := newExpEnv(w.Files, 1).runLink(context.Background(), w.Targets)
		fmt.Printf("%-36s stable: %v\n%-36s exp rejected=%v first=%q\n", name, st.Err, "", ex.rejected(), ex.firstError())
	}
}
