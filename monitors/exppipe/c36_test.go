package exppipe

import (
	"context"
	"encoding/json"
	"fmt"
	"runtime"
	"sort"
	"strings"
	"sync/atomic"
	"testing"
	"time"

	"google.golang.org/protobuf/proto"

	"github.com/bufbuild/protocompile/experimental/report"
	"github.com/bufbuild/protocompile/experimental/source"
	"github.com/bufbuild/protocompile/internal/verifhook"
	"github.com/bufbuild/protocompile/internal/verifmon/vlib"
)

// C36 — diagnostics are deterministic.
//
// (a) The same invalid workspace compiled by fresh executors at parallelism
//     1/2/4/16, repeatedly, under schedule perturbation at the incr.* hook
//     sites, must give the identical diagnostic sequence (all public
//     accessors, the annotation list exported by ToProto, rendered text).
// (b) Report.Canonicalize must give the same result for every input order
//     of a diagnostic list, and be idempotent.

// ---------------------------------------------------------------------------
// schedule perturbation
// ---------------------------------------------------------------------------

var (
	perturbSeed   atomic.Uint64
	perturbCount  atomic.Uint64
	perturbEvents atomic.Uint64
	perturbOn     atomic.Bool
)

func installPerturbation() {
	verifhook.Set(func(site, key string) {
		if !strings.HasPrefix(site, "incr.") {
			return
		}
		perturbEvents.Add(1)
		if !perturbOn.Load() {
			return
		}
		h := vlib.Mix(perturbSeed.Load() ^ vlib.Hash64(site) ^ perturbCount.Add(1)*0x9e3779b97f4a7c15)
		switch h % 16 {
		case 0, 1, 2:
			for i := uint64(0); i <= (h>>8)%6; i++ {
				runtime.Gosched()
			}
		case 3:
			time.Sleep(time.Duration(1+(h>>8)%150) * time.Microsecond)
		}
	})
}

// ---------------------------------------------------------------------------
// (a) run determinism
// ---------------------------------------------------------------------------

// invalidWorkspace builds a workspace with several rule violations spread over
// its files (so that several tasks report diagnostics).
func invalidWorkspace(rng *vlib.RNG) (*workspace, []string) {
	g := genWorkspace(rng.Fork("ws"), rng.Range(3, 7))
	k := rng.Range(2, 5)
	var rules []string
	for tries := 0; tries < 40 && len(rules) < k; tries++ {
		m := mutators[rng.Intn(len(mutators))]
		if strings.HasPrefix(m.Rule, "syntax.unknown") || strings.HasPrefix(m.Rule, "editions.unknown-edition") || m.Rule == "syntax.missing-semicolon" {
			continue // these replace a whole file's text and would drop earlier mutations
		}
		dup := false
		for _, r := range rules {
			if r == m.Rule {
				dup = true
			}
		}
		if dup {
			continue
		}
		if m.Apply(g, rng.Fork(m.Rule)) {
			rules = append(rules, m.Rule)
		}
	}
	return g.workspace("invalid"), rules
}

// dupSymbolWorkspace: files of one package that do not import each other and
// re-declare each other's messages, some with nested declarations, in
// different declaration orders (cross-file duplicate detection happens in
// queries.Link, after the per-file tasks have run in schedule order).
func dupSymbolWorkspace(rng *vlib.RNG) (*workspace, []string) {
	nf := rng.Range(2, 3)
	nm := rng.Range(2, 4)
	w := &workspace{Name: "dup-symbols", Files: map[string]string{}}
	for f := 0; f < nf; f++ {
		var b strings.Builder
		b.WriteString("syntax = \"proto3\";\npackage dup.p;\n")
		for _, k := range rng.Perm(nm) {
			if rng.Chance(0.25) && f > 0 {
				continue
			}
			if rng.Bool() {
				fmt.Fprintf(&b, "message D%d { message N%d {} }\n", k, k)
			} else {
				fmt.Fprintf(&b, "message D%d {}\n", k)
			}
		}
		p := fmt.Sprintf("dup%d.proto", f)
		w.Files[p] = b.String()
		w.Targets = append(w.Targets, p)
	}
	return w, []string{"symbol.duplicate-across-unrelated-files ×k"}
}

type runObs struct {
	Snaps    []diagSnap
	Rendered string
	Fatal    string
	Panic    string
}

func observeRun(w *workspace, par int) runObs {
	env := newExpEnv(w.Files, par)
	out := env.runLink(context.Background(), w.Targets)
	o := runObs{Panic: out.Panic}
	if out.Fatal != nil {
		o.Fatal = out.Fatal.Error()
	}
	o.Snaps = snapReport(out.Report, false)
	o.Rendered = renderReportFull(out.Report)
	return o
}

func renderReportFull(rep *report.Report) string {
	if rep == nil {
		return ""
	}
	var s string
	pv, _ := vlib.Try(func() { s, _, _ = plainRenderer.RenderString(rep) })
	if pv != nil {
		return fmt.Sprintf("<renderer panicked: %v>", pv)
	}
	return maskAddrs(s)
}

// sortKeyOf is the tuple Canonicalize sorts on, as far as it is observable
// (the stage is not observable; it is taken from the generator's spec in part
// (b) and ignored in part (a)).
func sortKeyOf(s diagSnap) string {
	return fmt.Sprintf("%q/%d/%d/%q/%q", s.PrimaryPath, s.Start, s.End, s.Tag, s.Message)
}

// classifySeqDiff says how two diagnostic sequences differ.
func classifySeqDiff(a, b []diagSnap) string {
	ka, kb := snapKeys(a), snapKeys(b)
	if len(ka) != len(kb) {
		return "the NUMBER of diagnostics differs"
	}
	sa, sb := append([]string(nil), ka...), append([]string(nil), kb...)
	sort.Strings(sa)
	sort.Strings(sb)
	same := true
	for i := range sa {
		if sa[i] != sb[i] {
			same = false
		}
	}
	tie := true
	for i := range ka {
		if ka[i] != kb[i] && sortKeyOf(a[i]) != sortKeyOf(b[i]) {
			tie = false
		}
	}
	switch {
	case same && tie:
		return "same diagnostics, different ORDER among diagnostics that tie on (path, span, tag, message) but differ elsewhere"
	case same:
		return "same diagnostics, different ORDER among diagnostics that do not tie on (path, span, tag, message)"
	case tie:
		return "a DIFFERENT diagnostic at some position, tying with its counterpart on (path, span, tag, message)"
	default:
		return "DIFFERENT diagnostics"
	}
}

// involving names (normalised) the message of the first diagnostic that one
// sequence has and the other lacks, or — for pure reorderings — of the first
// position that differs.
func involving(a, b []diagSnap) string {
	ka, kb := snapKeys(a), snapKeys(b)
	cnt := map[string]int{}
	for _, k := range kb {
		cnt[k]++
	}
	for i, k := range ka {
		if cnt[k] > 0 {
			cnt[k]--
		} else {
			return "; involving: " + normMsg(a[i].Message)
		}
	}
	cnt = map[string]int{}
	for _, k := range ka {
		cnt[k]++
	}
	for i, k := range kb {
		if cnt[k] > 0 {
			cnt[k]--
		} else {
			return "; involving: " + normMsg(b[i].Message)
		}
	}
	for i := range ka {
		if i < len(kb) && ka[i] != kb[i] {
			return "; involving: " + normMsg(a[i].Message)
		}
	}
	return ""
}

func hasMessage(ss []diagSnap, prefix string) bool {
	for _, s := range ss {
		if strings.HasPrefix(s.Message, prefix) {
			return true
		}
	}
	return false
}

func firstDiff(a, b []diagSnap) map[string]any {
	n := len(a)
	if len(b) < n {
		n = len(b)
	}
	for i := 0; i < n; i++ {
		if a[i].key() != b[i].key() {
			return map[string]any{"index": i, "baseline": a[i], "other": b[i]}
		}
	}
	return map[string]any{"len_baseline": len(a), "len_other": len(b)}
}

func c36Runs(r *vlib.Run) {
	installPerturbation()
	perturbOn.Store(true)
	defer verifhook.Set(nil)
	pars := []int{1, 2, 4, 16}
	repeats := r.N(3, 6)
	n := r.N(48, 480)
	var runs atomic.Int64
	r.Par(n, func(i int) {
		id := fmt.Sprintf("run/%d", i)
		if !r.Want(id) {
			return
		}
		rng := r.Rng(id)
		var w *workspace
		var rules []string
		if i%4 == 3 {
			w, rules = dupSymbolWorkspace(rng)
		} else {
			w, rules = invalidWorkspace(rng)
		}
		base := observeRun(w, 1)
		perturbSeed.Store(rng.Uint64())
		if len(base.Snaps) < 2 {
			r.Eval("") // trivial: fewer than two diagnostics cannot be reordered
			r.Class("runs:fewer-than-2-diagnostics")
			return
		}
		r.Eval(w.contentKey())
		r.Class(fmt.Sprintf("runs:diagnostics-%s", bucket(len(base.Snaps))))
		if i == 0 {
			r.Sample("invalid-workspace", map[string]any{"rules": rules, "diagnostics": len(base.Snaps), "rendered": truncStr(base.Rendered, 3000)})
		}
		reps := repeats
		if r.Replaying() {
			reps = r.ReplayRep
		}
		reported := map[string]bool{}
		for rep := 0; rep < reps; rep++ {
			for _, par := range pars {
				perturbSeed.Store(rng.Uint64())
				o := observeRun(w, par)
				runs.Add(1)
				var what string
				switch {
				case o.Panic != base.Panic || o.Fatal != base.Fatal:
					what = "fatal/panic outcome differs"
				case strings.Join(snapKeys(o.Snaps), "\n") != strings.Join(snapKeys(base.Snaps), "\n"):
					what = classifySeqDiff(base.Snaps, o.Snaps) + involving(base.Snaps, o.Snaps)
					if !strings.HasPrefix(what, "same diagnostics") && (hasMessage(base.Snaps, "detected cyclic import") || hasMessage(o.Snaps, "detected cyclic import")) {
						// input class: which member of an import cycle reports the cycle (and
						// what follows from it) is what varies; name the class, not the victim
						what = "[workspace has an import cycle] " + classifySeqDiff(base.Snaps, o.Snaps)
					}
				case o.Rendered != base.Rendered:
					what = "accessors equal but RENDERED text differs"
				default:
					continue
				}
				if reported[what] {
					continue
				}
				reported[what] = true
				r.Violation("run.nondeterministic-diagnostics", what, id, map[string]any{
					"workspace": w.Files, "targets": w.Targets, "rules": rules, "parallelism": par, "repeat": rep,
					"first_difference":  firstDiff(base.Snaps, o.Snaps),
					"baseline_rendered": truncStr(base.Rendered, 4000), "other_rendered": truncStr(o.Rendered, 4000),
					"baseline_fatal": base.Fatal, "other_fatal": o.Fatal, "baseline_panic": base.Panic, "other_panic": o.Panic,
				})
			}
		}
	})
	r.Extra("compiler_runs_compared", runs.Load())
	r.Extra("hook_events_incr", perturbEvents.Load())
	if perturbEvents.Load() == 0 && !r.Replaying() {
		r.Inconclusive("no incr.* verifhook site was reached: schedule perturbation did not act")
	}
}

func bucket(n int) string {
	switch {
	case n < 4:
		return "2-3"
	case n < 8:
		return "4-7"
	case n < 16:
		return "8-15"
	default:
		return "16+"
	}
}

func truncStr(s string, n int) string {
	if len(s) > n {
		return s[:n] + "…"
	}
	return s
}

// ---------------------------------------------------------------------------
// (b) Canonicalize
// ---------------------------------------------------------------------------

type dspec struct {
	Level   int      `json:"level"`
	Stage   int      `json:"stage"`
	Tag     string   `json:"tag"`
	Msg     string   `json:"msg"`
	File    int      `json:"file"` // index into the file pool, -1 = no snippet
	Start   int      `json:"start"`
	End     int      `json:"end"`
	SnipMsg string   `json:"snip_msg"`
	Notes   []string `json:"notes"`
	Help    []string `json:"help"`
	Debug   []string `json:"debug"`
	Sec     int      `json:"secondary_file"` // -1 = none
	SecMsg  string   `json:"secondary_msg"`
	InFile  string   `json:"in_file"`
}

func (s dspec) sortKey(pool []*source.File) string {
	path := ""
	start, end := 0, 0
	if s.File >= 0 {
		path, start, end = pool[s.File].Path(), s.Start, s.End
	}
	return fmt.Sprintf("%q/%d/%d/%d/%q/%q", path, s.Stage, start, end, s.Tag, s.Msg)
}

// build makes the diagnostic through the public report API.
func (s dspec) build(pool []*source.File) report.Diagnostic {
	rep := &report.Report{}
	rep.Options.Stage = s.Stage
	d := rep.Levelf(report.Level(s.Level), "%s", s.Msg)
	var opts []report.DiagnosticOption
	if s.Tag != "" {
		opts = append(opts, report.Tag(s.Tag))
	}
	if s.File >= 0 {
		opts = append(opts, report.Snippetf(pool[s.File].Span(s.Start, s.End), "%s", s.SnipMsg))
		if s.Sec >= 0 {
			opts = append(opts, report.Snippetf(pool[s.Sec].Span(1, 2), "%s", s.SecMsg))
		}
	}
	if s.InFile != "" {
		opts = append(opts, report.InFile(s.InFile))
	}
	for _, n := range s.Notes {
		opts = append(opts, report.Notef("%s", n))
	}
	for _, n := range s.Help {
		opts = append(opts, report.Helpf("%s", n))
	}
	for _, n := range s.Debug {
		opts = append(opts, report.Debugf("%s", n))
	}
	d.Apply(opts...)
	return rep.Diagnostics[0]
}

const canonText = "syntax = \"proto3\";\nmessage Foo { int32 a = 1; }\nmessage Bar {}\n"

// canonObs is what is observable of a canonicalised list.
type canonObs struct {
	proto    []byte // deterministic serialisation of Report.ToProto (every annotation, note, …)
	accessor string // public accessors of every diagnostic, in order
}

func observeCanon(ds []report.Diagnostic, keepDup bool) (canonObs, []report.Diagnostic, string) {
	rep := &report.Report{Diagnostics: append([]report.Diagnostic(nil), ds...)}
	rep.KeepDuplicates = keepDup
	if pv, st := vlib.Try(rep.Canonicalize); pv != nil {
		return canonObs{}, nil, fmt.Sprintf("%v at %s", pv, vlib.PanicSite(st))
	}
	var o canonObs
	var sb strings.Builder
	for i := range rep.Diagnostics {
		d := &rep.Diagnostics[i]
		p := d.Primary()
		fmt.Fprintf(&sb, "%d|%q|%q|%q|%q:%d:%d|%q|%q|%q\n", d.Level(), d.Tag(), d.Message(), d.File(), p.Path(), p.Start, p.End, d.Notes(), d.Help(), d.Debug())
	}
	o.accessor = sb.String()
	o.proto, _ = proto.MarshalOptions{Deterministic: true}.Marshal(rep.ToProto())
	return o, rep.Diagnostics, ""
}

// forEachPerm calls f with every permutation of [0,n) (Heap's algorithm) until f returns false.
func forEachPerm(n int, f func([]int) bool) {
	p := make([]int, n)
	for i := range p {
		p[i] = i
	}
	c := make([]int, n)
	if !f(p) {
		return
	}
	for i := 0; i < n; {
		if c[i] < i {
			if i%2 == 0 {
				p[0], p[i] = p[i], p[0]
			} else {
				p[c[i]], p[i] = p[i], p[c[i]]
			}
			if !f(p) {
				return
			}
			c[i]++
			i = 0
		} else {
			c[i] = 0
			i++
		}
	}
}

type canonCase struct {
	ID         string
	Specs      []dspec
	DupPaths   bool // the pool holds two File objects with one path
	KeepDup    bool
	Exhaustive bool
}

func genSpecs(rng *vlib.RNG, n int, dupPaths bool) []dspec {
	// small pools, so that ties on the sort keys are frequent
	nfiles := 2
	if dupPaths {
		nfiles = 3
	}
	spans := [][2]int{{0, 6}, {0, 6}, {0, 8}, {19, 26}, {27, 30}}
	tags := []string{"", "", "t1", "t1", "t2"}
	msgs := []string{"m1", "m1", "m2"}
	notes := [][]string{nil, nil, {"n1"}, {"n2"}, {"n1", "n2"}}
	levels := []int{int(report.Error), int(report.Error), int(report.Warning), int(report.Remark)}
	specs := make([]dspec, 0, n)
	for len(specs) < n {
		if len(specs) > 0 && rng.Chance(0.2) {
			// an exact duplicate of an earlier one
			specs = append(specs, specs[rng.Intn(len(specs))])
			continue
		}
		if len(specs) > 0 && rng.Chance(0.2) {
			// the same tagged finding reported again by ANOTHER stage (same file, span and tag; other
			// stage, and another message or level so that the two are distinguishable): the two are
			// duplicates for Canonicalize but do not sort next to each other
			s := specs[rng.Intn(len(specs))]
			if s.Tag != "" && s.File >= 0 {
				s.Notes = append([]string(nil), s.Notes...)
				s.Stage = 10 - s.Stage
				if rng.Bool() {
					s.Msg = vlib.Pick(rng, msgs)
				}
				s.Level = levels[rng.Intn(len(levels))]
				s.Help = []string{"reported by another stage"}
				specs = append(specs, s)
				continue
			}
		}
		if len(specs) > 0 && rng.Chance(0.35) {
			// a near-duplicate: ties on every sort key, differs in ONE other attribute
			s := specs[rng.Intn(len(specs))]
			s.Notes = append([]string(nil), s.Notes...)
			switch rng.Intn(7) {
			case 0:
				s.Notes = append(s.Notes, "extra note")
			case 1:
				s.Help = []string{"extra help"}
			case 2:
				s.Level = levels[rng.Intn(len(levels))]
			case 3:
				if s.File >= 0 {
					s.Sec, s.SecMsg = rng.Intn(2), "secondary"
				}
			case 4:
				s.SnipMsg = "other snippet text"
			case 5:
				s.Debug = []string{"dbg"}
			case 6:
				if s.File == 0 && dupPaths {
					s.File = 2 // same path, other File object
				} else {
					s.InFile = "in.proto"
				}
			}
			specs = append(specs, s)
			continue
		}
		s := dspec{Level: vlib.Pick(rng, levels), Stage: vlib.Pick(rng, []int{0, 0, 10}), Tag: vlib.Pick(rng, tags), Msg: vlib.Pick(rng, msgs), File: rng.Intn(nfiles+1) - 1, Sec: -1}
		if s.File >= 0 {
			sp := vlib.Pick(rng, spans)
			s.Start, s.End = sp[0], sp[1]
		} else if rng.Bool() {
			s.InFile = vlib.Pick(rng, []string{"a.proto", "in.proto"})
		}
		s.Notes = vlib.Pick(rng, notes)
		specs = append(specs, s)
	}
	// two specs that are identical except for the (unobservable) stage would
	// make the classification ambiguous: give them the same stage
	for i := range specs {
		for j := 0; j < i; j++ {
			a, b := specs[i], specs[j]
			a.Stage, b.Stage = 0, 0
			ja, _ := json.Marshal(a)
			jb, _ := json.Marshal(b)
			if string(ja) == string(jb) {
				specs[i].Stage = specs[j].Stage
			}
		}
	}
	return specs
}

var canonFixed = []canonCase{
	{ID: "canon/fixed/untagged-tie-differ-in-notes", Exhaustive: true, Specs: []dspec{
		{Level: 2, Msg: "m", File: 0, Start: 0, End: 6, Notes: []string{"n1"}, Sec: -1},
		{Level: 2, Msg: "m", File: 0, Start: 0, End: 6, Notes: []string{"n2"}, Sec: -1},
	}},
	{ID: "canon/fixed/tagged-same-span-differ-in-level", Exhaustive: true, Specs: []dspec{
		{Level: 2, Tag: "t", Msg: "m", File: 0, Start: 0, End: 6, Sec: -1},
		{Level: 3, Tag: "t", Msg: "m", File: 0, Start: 0, End: 6, Sec: -1},
	}},
	{ID: "canon/fixed/no-primary-span-differ-in-help", Exhaustive: true, Specs: []dspec{
		{Level: 2, Msg: "m", File: -1, InFile: "a.proto", Help: []string{"h1"}, Sec: -1},
		{Level: 2, Msg: "m", File: -1, InFile: "a.proto", Help: []string{"h2"}, Sec: -1},
		{Level: 2, Msg: "k", File: 1, Start: 0, End: 6, Sec: -1},
	}},
	{ID: "canon/fixed/exact-duplicates-only", Exhaustive: true, Specs: []dspec{
		{Level: 2, Tag: "t", Msg: "m", File: 0, Start: 0, End: 6, Sec: -1},
		{Level: 2, Tag: "t", Msg: "m", File: 0, Start: 0, End: 6, Sec: -1},
		{Level: 3, Msg: "w", File: 1, Start: 0, End: 8, Sec: -1},
		{Level: 3, Msg: "w", File: 1, Start: 0, End: 8, Sec: -1},
	}},
	{ID: "canon/fixed/one-path-two-file-objects", Exhaustive: true, DupPaths: true, Specs: []dspec{
		{Level: 2, Tag: "t", Msg: "m", File: 0, Start: 0, End: 6, Sec: -1},
		{Level: 2, Tag: "t", Msg: "m", File: 2, Start: 0, End: 6, Sec: -1},
		{Level: 2, Tag: "t", Msg: "m", File: 0, Start: 0, End: 6, Sec: -1},
	}},
}

func runCanonCase(r *vlib.Run, c canonCase) {
	pool := []*source.File{source.NewFile("a.proto", canonText), source.NewFile("b.proto", canonText), source.NewFile("a.proto", canonText)}
	n := len(c.Specs)
	diags := make([]report.Diagnostic, n)
	for i, s := range c.Specs {
		diags[i] = s.build(pool)
	}
	base, baseDiags, pan := observeCanon(diags, c.KeepDup)
	wit := func(extra map[string]any) map[string]any {
		m := map[string]any{"specs": c.Specs, "keep_duplicates": c.KeepDup, "file_pool": []string{"0: a.proto", "1: b.proto", "2: a.proto (a second File object)"},
			"how_built": "report.Report{Options.Stage}.Levelf(level, msg).Apply(Tag, Snippetf(primary), Snippetf(secondary), InFile, Notef…, Helpf…, Debugf…)"}
		for k, v := range extra {
			m[k] = v
		}
		return m
	}
	if pan != "" {
		r.Violation("canonicalize.panic", pan, c.ID, wit(nil))
		return
	}
	// idempotence
	again, _, pan2 := observeCanon(baseDiags, c.KeepDup)
	if pan2 != "" {
		r.Violation("canonicalize.panic", pan2, c.ID, wit(nil))
	} else if string(again.proto) != string(base.proto) || again.accessor != base.accessor {
		r.Violation("canonicalize.not-idempotent", "canonicalising a canonical list changes it", c.ID, wit(map[string]any{"first": base.accessor, "second": again.accessor}))
	}
	// classification helpers
	tieGroups := map[string]int{}
	for _, s := range c.Specs {
		tieGroups[s.sortKey(pool)]++
	}
	reported := map[string]bool{}
	check := func(p []int) bool {
		perm := make([]report.Diagnostic, n)
		for i, j := range p {
			perm[i] = diags[j]
		}
		o, od, pan := observeCanon(perm, c.KeepDup)
		if pan != "" {
			r.Violation("canonicalize.panic", pan, c.ID, wit(map[string]any{"permutation": append([]int(nil), p...)}))
			return false
		}
		if string(o.proto) == string(base.proto) && o.accessor == base.accessor {
			return true
		}
		// classify from the difference itself
		a := snapReport(&report.Report{Diagnostics: baseDiags}, false)
		b := snapReport(&report.Report{Diagnostics: od}, false)
		what := classifySeqDiff(a, b)
		if what == "DIFFERENT diagnostics" || strings.HasPrefix(what, "a DIFFERENT") {
			what += " (a different member of a duplicate group survived)"
		}
		if c.DupPaths && strings.HasPrefix(what, "the NUMBER") {
			what += " [input uses two File objects with one path]"
		}
		if !reported[what] {
			reported[what] = true
			r.Violation("canonicalize.order-dependent", what, c.ID, wit(map[string]any{
				"permutation": append([]int(nil), p...), "identity_order_result": a, "permuted_order_result": b,
			}))
		}
		return len(reported) < 3
	}
	if c.Exhaustive {
		forEachPerm(n, check)
	} else {
		rng := r.Rng(c.ID + "/perms")
		for k := 0; k < 300; k++ {
			if !check(rng.Perm(n)) {
				break
			}
		}
	}
	nontrivial := false
	for _, k := range tieGroups {
		if k > 1 {
			nontrivial = true
		}
	}
	b, _ := json.Marshal(c.Specs)
	if nontrivial {
		r.Eval(string(b) + fmt.Sprint(c.KeepDup))
		r.Class("canon:with-ties")
	} else {
		r.Eval("")
		r.Class("canon:no-ties")
	}
}

func c36Canon(r *vlib.Run) {
	for i, c := range canonFixed {
		if r.Want(c.ID) && r.Mine(i) {
			runCanonCase(r, c)
		}
	}
	n := r.N(400, 4000)
	r.Par(n, func(i int) {
		id := fmt.Sprintf("canon/%d", i)
		if !r.Want(id) {
			return
		}
		rng := r.Rng(id)
		size := rng.Range(2, 6)
		exh := true
		if i%10 == 9 {
			size, exh = rng.Range(7, 8), false
		}
		c := canonCase{ID: id, DupPaths: i%5 == 4, KeepDup: i%7 == 6, Exhaustive: exh}
		c.Specs = genSpecs(rng, size, c.DupPaths)
		if i < 3 {
			r.Sample("canonicalize-list", c.Specs)
		}
		runCanonCase(r, c)
	})
}

func TestC36(t *testing.T) {
	r := vlib.Start(t, "C36")
	defer r.Finish()
	r.Extra("rule", "(a) generated workspaces with 2–5 rule-breaking mutations spread over 3–7 files; each is compiled once at parallelism 1 (baseline) and then by fresh executors + fresh sessions at parallelism 1/2/4/16 × repeats under pseudo-random Gosched/sleep at the incr.* hook sites; non-trivial = baseline has ≥ 2 diagnostics. "+
		"(b) diagnostic lists of 2–6 entries (all permutations) and 7–8 entries (300 sampled permutations) built through the public report API from small pools so that entries tie on Canonicalize's sort keys (path, stage, start, end, tag, message) while differing in level/notes/help/debug/snippet text/secondary snippet/in-file, plus exact duplicates and entries without a primary span; non-trivial = at least two entries tie on all sort keys. (c) the workspaces of (a), compiled per target list (single files, a pair, the workspace's targets; queries.IR per target) on ONE executor + session: every list twice in random order (sequential history), and all lists by concurrent Runs sharing a fresh executor, at parallelism 1/4/16 under the same perturbation; each run's diagnostics must equal those of a fresh executor + session at parallelism 1 for the same target list. distinct = distinct workspace content / distinct spec list")
	r.Extra("assumptions", []string{
		"two diagnostics are 'the same' iff all public accessors and the Report.ToProto export (annotations, edits, notes, help, debug) are equal; rendered text (without the debug footer) is compared in addition for compiler runs",
		"raw addresses and the goroutine stack dump inside internal-compiler-error diagnostics are masked before comparing",
		"schedules are sampled (perturbation + repetition + the race detector), not enumerated",
	})
	c36Canon(r)
	c36Runs(r)
	c36Warm(r)
}
